#!/usr/bin/env python3
"""Writes MANIFEST.json from props.py (single source of truth for the claimed checks)."""
import json, os, sys
ROOT = os.path.dirname(os.path.abspath(__file__))
sys.path.insert(0, ROOT)
from props import PROPS, NOT_APPLICABLE

HOOK_COMMITS = ["5da919d"]
checks = []
for pid, cfg in sorted(PROPS.items()):
    checks.append({
        "property_id": pid,
        "quick_cmd": f"./check {pid} --tier quick",
        "thorough_cmd": f"./check {pid} --tier thorough",
        "evidence_file": f"/verif/evidence/{pid}.json",
        "replay_cmd_template": f"./check {pid} --replay {{path}}",
        "engine": "lean4-proof+correspondence",
        "level_claimed": {
            "category": "proof",
            "text": cfg["level_text"],
            "design_ref": cfg.get("design_ref", "DESIGN.md §6 " + pid),
        },
        "level_note": cfg["level_note"],
        "technique": cfg.get("technique", "Lean 4 theorems over a hand-written model + differential correspondence check against the real code"),
    })
manifest = {
    "version": 1,
    "setup_cmd": "./check setup",
    "hooks": {
        "guard": "cargo feature `verif-hooks` of crate tough",
        "enable": "the harness crates depend on /repo/tough by path with features [\"http\", \"verif-hooks\"]",
        "baseline_off_cmd": "cd /repo && cargo test --workspace --no-fail-fast --offline",
        "source_commits": HOOK_COMMITS,
        "add_only": True,
    },
    "engines": [{
        "name": "lean4-proof+correspondence",
        "path": "/verif/check",
        "serves_properties": sorted(PROPS.keys()),
        "kind_free_text": "Lean 4 model + theorems (lean/), Rust harness calling the real crates (harness/), python runner diffing model and implementation and evaluating the theorem's spec predicate on the implementation's output",
    }],
    "checks": checks,
    "not_applicable": [{"property_id": k, "reason": v} for k, v in sorted(NOT_APPLICABLE.items()) if k not in PROPS],
    "notes": "See DESIGN.md. known_findings.json lists recorded defects (open) and repaired ones (fixed).",
}
json.dump(manifest, open(os.path.join(ROOT, "MANIFEST.json"), "w"), indent=1)
print("wrote MANIFEST.json with", len(checks), "checks")
