//! C17 correspondence harness: an existing repository (delegation tree, custom data on every target,
//! unknown top-level members in timestamp / snapshot / targets) is loaded with the real client, passed
//! through `RepositoryEditor::from_repo`, given new versions and expirations and 0..n new targets,
//! signed and written; the result is loaded again and compared with the original member by member.
use serde_json::{json, Value};
use std::collections::{BTreeMap, HashMap};
use std::num::NonZeroU64;
use vcommon::{parse_args, Out, Rng};
use vworld::client::*;
use vworld::meta::sha256;
use vworld::repo::*;
use vworld::{KeyPool, Mem};

const TARGET_NAMES: [&str; 10] = ["a", "dir/b.txt", "file one.txt", "ünï/çødé.bin", "d/e/f/deep", "c", "zero", "UPPER.TXT", "tail.tar.gz", "dir/g"];
const ROLE_NAMES: [&str; 8] = ["r0", "role 1", "a/b", "ünï", "targets2", "snapshot2", "1.r", "x-y_z"];
// keys tough can load from a file: ec0..ec3 (pool indices 12..15), rsa0.. (16..19)
const TGT_KEY: usize = 12;
const SNAP_KEY: usize = 13;
const TS_KEY: usize = 14;

struct Gen<'r> {
    r: &'r mut Rng,
    next_role: usize,
    roles: Vec<(usize, ATargets)>,
    msgs: MsgGen,
    assigned: Vec<bool>,
    entries_of: HashMap<usize, (u64, u64)>,
    names: Vec<String>,
}

impl<'r> Gen<'r> {
    fn take_entries(&mut self) -> Vec<(usize, u64, u64)> {
        let mut es = Vec::new();
        for i in 0..self.names.len() {
            if !self.assigned[i] && self.r.chance(1, 3) { self.assigned[i] = true; let (l, id) = self.entries_of[&i]; es.push((i, l, id)); }
        }
        es
    }
    fn listed(t: &ATargets, roles: &[(usize, ATargets)]) -> Vec<usize> {
        let mut v: Vec<usize> = t.entries.iter().map(|e| e.0).collect();
        if let Some(d) = &t.deleg { for r in &d.roles { if let Some((_, sub)) = roles.iter().find(|(i, _)| *i == r.name) { v.extend(Self::listed(sub, roles)); } } }
        v
    }
    fn deleg(&mut self, depth: usize) -> Option<ADeleg> {
        if depth == 0 || self.r.chance(1, 4) || self.next_role >= 6 { return None; }
        let fan = self.r.range(1, 3) as usize;
        let mut roles = Vec::new();
        for _ in 0..fan {
            if self.next_role >= 6 { break; }
            let idx = self.next_role;
            self.next_role += 1;
            let entries = self.take_entries();
            let sub = self.deleg(depth - 1);
            let msg = self.msgs.next();
            let doc = ATargets { version: self.r.range(1, 4), expires: 7 * DAY, entries, deleg: sub, msg, sigs: valid_sigs(&[11]) };
            let mut all = self.roles.clone();
            all.push((idx, doc.clone()));
            let listed = Self::listed(&doc, &all);
            // (path patterns are matched against resolved names)
            let patterns: Vec<String> = listed.iter().map(|i| tough::TargetName::new(self.names[*i].clone()).map(|t| t.resolved().to_string()).unwrap_or_else(|_| self.names[*i].clone()))
                .chain(std::iter::once("never-listed".to_string())).collect();
            roles.push(ADRole { name: idx, ids: vec![11], thr: 1, patterns, hash_prefixes: vec![] });
            self.roles.push((idx, doc));
        }
        Some(ADeleg { table: vec![11], roles })
    }
}

/// a JSON value as a small integer (equal values, equal numbers)
struct Intern(Vec<String>);
impl Intern {
    fn id(&mut self, v: &Value) -> usize {
        let s = serde_json::to_string(v).unwrap();
        if let Some(i) = self.0.iter().position(|x| *x == s) { return i; }
        self.0.push(s);
        self.0.len() - 1
    }
}

/// what the property speaks about, of one loaded repository
fn facts(repo: &tough::Repository, names: &[String], it: &mut Intern) -> Value {
    fn entries(t: &tough::schema::Targets, names: &[String], it: &mut Intern) -> Vec<Value> {
        let mut m: BTreeMap<usize, Value> = BTreeMap::new();
        for (n, tg) in &t.targets {
            let idx = names.iter().position(|x| x == n.raw()).map(|i| json!(i)).unwrap_or(json!(n.raw()));
            let custom = it.id(&serde_json::to_value(&tg.custom).unwrap());
            let extra = it.id(&serde_json::to_value(&tg._extra).unwrap());
            let key = names.iter().position(|x| x == n.raw()).unwrap_or(999);
            m.insert(key, json!([idx, tg.length, hex::encode(&tg.hashes.sha256), custom, extra]));
        }
        m.into_values().collect()
    }
    fn tree(t: &tough::schema::Targets, names: &[String], it: &mut Intern) -> Value {
        let roles: Vec<Value> = t.delegations.as_ref().map(|d| d.roles.iter().map(|r| {
            let sub = r.targets.as_ref().map(|s| json!({"version": s.signed.version.get(), "expires": s.signed.expires.to_rfc3339(),
                "signed": it.id(&serde_json::to_value(&s.signed).unwrap()),
                "sigs": it.id(&serde_json::to_value(&s.signatures).unwrap()),
                "entries": entries(&s.signed, names, it), "tree": tree(&s.signed, names, it)}));
            json!({"name": r.name, "decl": it.id(&json!({"keyids": r.keyids, "threshold": r.threshold, "paths": r.paths, "terminating": r.terminating})), "doc": sub})
        }).collect()).unwrap_or_default();
        let keys = t.delegations.as_ref().map(|d| it.id(&serde_json::to_value(&d.keys).unwrap()));
        json!({"keys": keys, "roles": roles})
    }
    let t = &repo.targets().signed;
    json!({"versions": [repo.root().signed.version.get(), repo.timestamp().signed.version.get(), repo.snapshot().signed.version.get(), t.version.get()],
        "entries": entries(t, names, it), "tree": tree(t, names, it),
        "extra": {"targets": it.id(&serde_json::to_value(&t._extra).unwrap()),
                  "snapshot": it.id(&serde_json::to_value(&repo.snapshot().signed._extra).unwrap()),
                  "timestamp": it.id(&serde_json::to_value(&repo.timestamp().signed._extra).unwrap())}})
}

/// the files served from memory, written below `dir` (metadata under `dir/m`)
fn dump(mem: &Mem, dir: &std::path::Path) {
    for (path, resp) in mem.files.lock().unwrap().iter() {
        if let vworld::mem::Resp::Stream(chunks) = resp {
            let mut bytes = Vec::new();
            for c in chunks { if let vworld::mem::Chunk::Data(b) = c { bytes.extend_from_slice(b); } }
            let p = dir.join(path.trim_start_matches('/'));
            std::fs::create_dir_all(p.parent().unwrap()).unwrap();
            std::fs::write(p, bytes).unwrap();
        }
    }
}

fn tuftool() -> std::path::PathBuf {
    std::path::PathBuf::from(std::env::var("TUFTOOL").unwrap_or_else(|_| "/repo/target/debug/tuftool".into()))
}

#[tokio::main(flavor = "current_thread")]
async fn main() {
    let mut args = parse_args();
    let pool = KeyPool::load();
    let mut only = None;
    if let Some(p) = &args.replay {
        let v: Value = serde_json::from_str(&std::fs::read_to_string(p).unwrap()).unwrap();
        if let Some(t) = v["tier"].as_str() { args.tier = t.into(); }
        if let Some(s) = v["seed"].as_u64() { args.seed = s; }
        only = v["case"]["id"].as_u64();
    }
    let thorough = args.tier == "thorough";
    let mut out = Out::new(&args.out);
    out.only = only;
    let n = if thorough { 2000 } else { 150 };
    for i in 0..n {
        if !out.wants_any_of_next(2) { out.skip(); out.skip(); continue; }
        let mut r = Rng::new(args.seed, i);
        let mut tn: Vec<&str> = TARGET_NAMES.to_vec();
        r.shuffle(&mut tn);
        let k = r.range(1, 6) as usize;
        // the last `spare` names are added by the update
        let mut names: Vec<String> = tn[..k + 2].iter().map(|s| s.to_string()).collect();
        // a quarter of the repositories: an existing target under a path-like name, and the update adds a target whose
        // (different) name resolves to the same path - two targets, the old one must stay
        let same_resolved = r.chance(1, 4);
        if same_resolved {
            names[0] = "pkg/../tool.txt".to_string();
            names[k] = "tool.txt".to_string();
        }
        let mut rn: Vec<&str> = ROLE_NAMES.to_vec();
        r.shuffle(&mut rn);
        let role_names: Vec<String> = rn.iter().take(8).map(|s| s.to_string()).collect();
        let cs = r.chance(1, 2);
        let mut world = World::new(&pool, Names { roles: role_names.clone(), targets: names.clone() });
        world.rich = true;
        let mut entries_of = HashMap::new();
        for ti in 0..k + 2 {
            let len = *r.pick(&[0usize, 1, 17, 1000]);
            let c: Vec<u8> = (0..len).map(|_| r.next() as u8).collect();
            entries_of.insert(ti, (len as u64, world.digest_id(&sha256(&c))));
        }
        let mut assigned = vec![false; k + 2];
        assigned[k] = true; assigned[k + 1] = true; // reserved for the update
        let mut g = Gen { r: &mut r, next_role: 0, roles: vec![], msgs: MsgGen(0), assigned, entries_of: entries_of.clone(), names: names.clone() };
        let deleg = g.deleg(3);
        let mut top_entries = Vec::new();
        for ti in 0..k { if !g.assigned[ti] { let (l, id) = g.entries_of[&ti]; top_entries.push((ti, l, id)); } }
        let top_msg = g.msgs.next();
        let (roles, mut msgs) = (g.roles, g.msgs);
        let top = ATargets { version: r.range(1, 9), expires: 7 * DAY, entries: top_entries, deleg, msg: top_msg, sigs: valid_sigs(&[TGT_KEY]) };
        let root = simple_root(1, cs, (vec![7], 1), (vec![TS_KEY], 1), (vec![SNAP_KEY], 1), (vec![TGT_KEY], 1), msgs.next(), &[7]);
        let online = Online { ts_sigs: valid_sigs(&[TS_KEY]), snap_sigs: valid_sigs(&[SNAP_KEY]), ts_expires: DAY, snap_expires: 3 * DAY };
        let (tsv, snv) = (r.range(1, 50), r.range(1, 50));
        let asm = assemble(&mut world, cs, tsv, snv, &top, &roles, Pin { length: r.chance(1, 2), hash: r.chance(1, 2) }, &online, &mut msgs);
        let cyc = ACycle { limits: ALimits::default(), safe: true, now: 0, server: asm.server, shipped: Some(root.clone()), reads: vec![] };
        let mem = Mem::new(usize::MAX);
        let mut labels = HashMap::new();
        let _model = cycle_model(&mut world, &mem, &cyc, &mut labels);
        let work = tempfile::tempdir().unwrap();
        let root_path = work.path().join("root.json");
        let root_bytes = serde_json::to_vec(&world.root_doc(&root)).unwrap();
        std::fs::write(&root_path, &root_bytes).unwrap();
        tough::verif_hooks::set_clock_offset(0);
        let base = url::Url::parse("file:///m/").unwrap();
        let tbase = url::Url::parse("file:///t/").unwrap();
        let old = match tough::RepositoryLoader::new(&root_bytes, base.clone(), tbase.clone()).transport(mem.clone()).load().await {
            Ok(r) => r,
            Err(e) => { out.case_nt("source-does-not-load", json!({"names": names}), json!({"load": err_tag(&e)}), false); out.skip(); continue; }
        };
        let mut it = Intern(Vec::new());
        let before = facts(&old, &names, &mut it);
        // the source as a directory, for the command line tool
        let src = work.path().join("src");
        dump(&mem, &src);
        // the update
        let mut added: Vec<usize> = (k..k + 2).filter(|_| r.chance(1, 2)).collect();
        if same_resolved && !added.contains(&k) { added.insert(0, k); }
        let newv = [r.range(100, 200), r.range(100, 200), r.range(100, 200)];
        let new_exp = world.base + chrono::Duration::days(30);
        let mut steps: Vec<Value> = Vec::new();
        let result: Result<tough::editor::signed::SignedRepository, String> = async {
            let mut ed = tough::editor::RepositoryEditor::from_repo(&root_path, old).await.map_err(|e| format!("from_repo: {e}"))?;
            ed.targets_version(NonZeroU64::new(newv[0]).unwrap()).map_err(|e| format!("targets_version: {e}"))?
              .targets_expires(new_exp).map_err(|e| format!("targets_expires: {e}"))?
              .snapshot_version(NonZeroU64::new(newv[1]).unwrap()).snapshot_expires(new_exp)
              .timestamp_version(NonZeroU64::new(newv[2]).unwrap()).timestamp_expires(new_exp);
            for ti in &added {
                let (len, id) = entries_of[ti];
                let digest = world.digest_bytes(id);
                let target = tough::schema::Target { length: len, hashes: tough::schema::Hashes { sha256: digest.clone().into(), _extra: HashMap::new() },
                    custom: HashMap::from([("added".to_string(), json!(ti))]), _extra: HashMap::new() };
                ed.add_target(names[*ti].as_str(), target).map_err(|e| format!("add_target: {e}"))?;
                steps.push(json!({"add": ti}));
            }
            let keys: Vec<Box<dyn tough::key_source::KeySource>> = [TGT_KEY, SNAP_KEY, TS_KEY].iter()
                .map(|i| Box::new(tough::key_source::LocalKeySource { path: pool.all()[*i].file.clone() }) as Box<dyn tough::key_source::KeySource>).collect();
            ed.sign(&keys).await.map_err(|e| format!("sign: {e}"))
        }.await;
        let added_facts: Vec<Value> = added.iter().map(|ti| {
            let (len, id) = entries_of[ti];
            let custom = it.id(&json!({"added": ti}));
            let extra = it.id(&json!({}));
            json!([ti, len, hex::encode(world.digest_bytes(id)), custom, extra])
        }).collect();
        let input = json!({"names": names, "role_names": role_names, "cs": cs, "added": added, "added_facts": added_facts, "new_versions": newv, "before": before});
        let class = format!("{}{}", if roles.is_empty() { "flat" } else { "tree" }, if added.is_empty() { "-bump" } else { "-add" });
        let signed = match result {
            Ok(s) => s,
            Err(e) => { out.case_nt(&class, input, json!({"update": e}), true); out.skip(); continue; }
        };
        let outdir = work.path().join("out");
        if let Err(e) = signed.write(&outdir).await { out.case_nt(&class, input, json!({"update": format!("write: {e}")}), true); out.skip(); continue; }
        let murl = url::Url::from_directory_path(&outdir).unwrap();
        let reload = tough::RepositoryLoader::new(&root_bytes, murl.clone(), murl).load().await;
        let imp = match reload {
            Ok(newrepo) => json!({"update": "ok", "reload": "ok", "after": facts(&newrepo, &names, &mut it)}),
            Err(e) => json!({"update": "ok", "reload": err_tag(&e)}),
        };
        out.case_nt(&class, input.clone(), imp, true);
        // ---- the same update (versions and expirations only) through `tuftool update` (every third repository)
        if i % 3 != 0 { out.skip(); continue; }
        let cli_out = work.path().join("cli");
        let exp_s = new_exp.format("%Y-%m-%dT%H:%M:%SZ").to_string();
        let mut cmd = std::process::Command::new(tuftool());
        cmd.arg("update").arg("--root").arg(&root_path);
        for i in [TGT_KEY, SNAP_KEY, TS_KEY] { cmd.arg("--key").arg(&pool.all()[i].file); }
        cmd.arg("--metadata-url").arg(url::Url::from_directory_path(src.join("m")).unwrap().as_str())
            .arg("--outdir").arg(&cli_out)
            .arg("--targets-version").arg(newv[0].to_string()).arg("--targets-expires").arg(&exp_s)
            .arg("--snapshot-version").arg(newv[1].to_string()).arg("--snapshot-expires").arg(&exp_s)
            .arg("--timestamp-version").arg(newv[2].to_string()).arg("--timestamp-expires").arg(&exp_s);
        let res = cmd.output();
        let mut input_cli = input;
        input_cli["added"] = json!([]);
        input_cli["added_facts"] = json!([]);
        input_cli["via"] = json!("tuftool update");
        let imp_cli = match res {
            Ok(o) if o.status.success() => {
                let murl = url::Url::from_directory_path(cli_out.join("metadata")).unwrap();
                match tough::RepositoryLoader::new(&root_bytes, murl.clone(), murl).load().await {
                    Ok(newrepo) => json!({"update": "ok", "reload": "ok", "after": facts(&newrepo, &names, &mut it)}),
                    Err(e) => json!({"update": "ok", "reload": err_tag(&e)}),
                }
            }
            Ok(o) => json!({"update": format!("tuftool update failed: {}", String::from_utf8_lossy(&o.stderr).chars().take(300).collect::<String>())}),
            Err(e) => json!({"update": format!("tuftool could not be run: {e}")}),
        };
        out.case_nt(&format!("{}-cli", if roles.is_empty() { "flat" } else { "tree" }), input_cli, imp_cli, true);
    }
    out.finish();
}
