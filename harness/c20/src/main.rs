//! C20 correspondence harness: drives the real `tuftool root` binary through command sequences and
//! abstracts the file after every command.
use serde_json::{json, Value};
use std::num::NonZeroU64;
use std::path::{Path, PathBuf};
use std::process::Command;
use tough::schema::{RoleKeys, RoleType, Root, Signed};
use vcommon::{parse_args, Out, Rng};
use vworld::keys::keys_dir;

struct K {
    file: PathBuf,
    id: String,
    public: tough::schema::key::Key,
}

fn load_keys() -> Vec<K> {
    let mut v = Vec::new();
    for name in ["rsa0.pem", "rsa1.pem", "edv2_0.pk8", "edv2_1.pk8", "ec0.pk8", "rsa2.pem"] {
        let file = keys_dir().join(name).canonicalize().unwrap();
        let bytes = std::fs::read(&file).unwrap();
        let kp = tough::sign::parse_keypair(&bytes).expect("key file parses");
        use tough::sign::Sign;
        let public = kp.tuf_key();
        let id = hex::encode(public.key_id().unwrap());
        v.push(K { file, id, public });
    }
    v
}

const ROLES: [&str; 4] = ["root", "snapshot", "targets", "timestamp"];
const TIMES: [&str; 4] = ["2030-01-01T00:00:00Z", "2031-02-03T04:05:06Z", "2029-12-31T23:59:59Z", "2040-06-15T12:00:00Z"];

#[derive(Clone, Debug)]
enum Cmd {
    Init(Option<u64>),
    AddKey(Vec<usize>, Vec<usize>),
    RemoveKey(usize, Option<usize>),
    SetThreshold(usize, u64),
    SetVersion(u64),
    BumpVersion,
    Expire(usize),
    Sign(Vec<usize>, Option<usize>, bool),
    /// not a tuftool command: keep a copy of the current file for later `--cross-sign`
    SaveCopy(usize),
}

fn cmd_json(c: &Cmd) -> Value {
    match c {
        Cmd::Init(v) => json!({"init": v}),
        Cmd::AddKey(k, r) => json!({"add_key": {"keys": k, "roles": r}}),
        Cmd::RemoveKey(k, r) => json!({"remove_key": {"key": k, "role": r}}),
        Cmd::SetThreshold(r, n) => json!({"set_threshold": {"role": r, "n": n}}),
        Cmd::SetVersion(n) => json!({"set_version": n}),
        Cmd::BumpVersion => json!("bump_version"),
        Cmd::Expire(t) => json!({"expire": t}),
        Cmd::Sign(k, c, i) => json!({"sign": {"keys": k, "cross": c, "ignore": i}}),
        Cmd::SaveCopy(n) => json!({"save_copy": n}),
    }
}

fn tuftool() -> PathBuf {
    PathBuf::from(std::env::var("TUFTOOL").unwrap_or_else(|_| "/repo/target/debug/tuftool".into()))
}

fn run(args: &[String]) -> bool {
    Command::new(tuftool()).arg("root").args(args).output().map(|o| o.status.success()).unwrap_or(false)
}

/// the file in the vocabulary of the model
fn abstract_file(path: &Path, keys: &[K]) -> Value {
    let Ok(bytes) = std::fs::read(path) else { return Value::Null };
    let root: Signed<Root> = match serde_json::from_slice(&bytes) {
        Ok(r) => r,
        Err(e) => return json!({"unparsable": e.to_string()}),
    };
    let idx = |id: &[u8]| -> Value {
        let h = hex::encode(id);
        keys.iter().position(|k| k.id == h).map(|i| json!(i)).unwrap_or(json!(h))
    };
    let mut table: Vec<Value> = root.signed.keys.keys().map(|k| idx(k)).collect();
    table.sort_by_key(|v| v.to_string());
    let key_ids_correct = root.signed.keys.iter().all(|(id, k)| k.key_id().map(|c| c == *id).unwrap_or(false));
    let role = |r: RoleType| -> Value {
        match root.signed.roles.get(&r) {
            Some(rk) => json!({"ids": rk.keyids.iter().map(|k| idx(k)).collect::<Vec<_>>(), "thr": rk.threshold.get()}),
            None => Value::Null,
        }
    };
    // which signatures are genuine signatures over the CURRENT content by the key they name
    let mut sigs = Vec::new();
    for s in &root.signatures {
        let mut probe = root.signed.clone();
        let kid = s.keyid.clone();
        if !probe.keys.contains_key(&kid) {
            if let Some(k) = keys.iter().find(|k| k.id == hex::encode(&kid)) {
                probe.keys.insert(kid.clone(), k.public.clone());
            }
        }
        probe.roles.insert(RoleType::Root, RoleKeys { keyids: vec![kid.clone()], threshold: NonZeroU64::new(1).unwrap(), _extra: Default::default() });
        let one = Signed { signed: root.signed.clone(), signatures: vec![s.clone()] };
        sigs.push(json!({"k": idx(&kid), "current": probe.verify_role(&one).is_ok()}));
    }
    sigs.sort_by_key(|v| v.to_string());
    let time = TIMES.iter().position(|t| *t == root.signed.expires.format("%Y-%m-%dT%H:%M:%SZ").to_string());
    json!({"version": root.signed.version.get(), "expires": time, "keys": table, "key_ids_correct": key_ids_correct,
        "roles": {"root": role(RoleType::Root), "snapshot": role(RoleType::Snapshot), "targets": role(RoleType::Targets), "timestamp": role(RoleType::Timestamp)},
        "sigs": sigs, "self_verifies": root.signed.verify_role(&root).is_ok()})
}

fn rand_cmd(r: &mut Rng, nkeys: usize, copies: usize) -> Cmd {
    let keyset = |r: &mut Rng| -> Vec<usize> { let n = r.range(1, 2); (0..n).map(|_| r.below(nkeys as u64) as usize).collect() };
    match r.below(20) {
        0 => Cmd::Init(if r.chance(1, 3) { Some(*r.pick(&[1u64, 2, 7, 4294967296, 0])) } else { None }),
        1..=4 => { let n = r.range(1, 3); Cmd::AddKey(keyset(r), (0..n).map(|_| r.below(4) as usize).collect()) }
        5 => Cmd::RemoveKey(r.below(nkeys as u64) as usize, if r.chance(1, 2) { Some(r.below(4) as usize) } else { None }),
        6..=8 => Cmd::SetThreshold(r.below(4) as usize, r.range(1, 3)),
        9 => Cmd::SetVersion(*r.pick(&[1u64, 2, 3, 4294967295, 4294967296, 18446744073709551615])),
        10 => Cmd::BumpVersion,
        11 => Cmd::Expire(r.below(TIMES.len() as u64) as usize),
        12..=16 => Cmd::Sign(keyset(r), if copies > 0 && r.chance(1, 3) { Some(r.below(copies as u64) as usize) } else { None }, r.chance(1, 3)),
        _ => Cmd::SaveCopy(copies),
    }
}

/// (input, observation, nontrivial) of one command sequence
fn run_sequence(keys: &[K], cmds: &[Cmd]) -> (Value, Value, bool) {
    let dir = tempfile::tempdir().unwrap();
    let path = dir.path().join("root.json");
    let p = path.to_str().unwrap().to_string();
    let mut steps = Vec::new();
    for c in cmds {
        let before = std::fs::read(&path).ok();
        let ok = match c {
            Cmd::Init(v) => { let mut a = vec!["init".to_string(), p.clone()]; if let Some(v) = v { a.push("--version".into()); a.push(v.to_string()); } run(&a) }
            Cmd::AddKey(ks, rs) => {
                let mut a = vec!["add-key".to_string(), p.clone()];
                for k in ks { a.push("-k".into()); a.push(keys[*k].file.to_str().unwrap().into()); }
                for r in rs { a.push("-r".into()); a.push(ROLES[*r].into()); }
                run(&a)
            }
            Cmd::RemoveKey(k, r) => { let mut a = vec!["remove-key".to_string(), p.clone(), keys[*k].id.clone()]; if let Some(r) = r { a.push(ROLES[*r].into()); } run(&a) }
            Cmd::SetThreshold(r, n) => run(&["set-threshold".into(), p.clone(), ROLES[*r].into(), n.to_string()]),
            Cmd::SetVersion(n) => run(&["set-version".into(), p.clone(), n.to_string()]),
            Cmd::BumpVersion => run(&["bump-version".into(), p.clone()]),
            Cmd::Expire(t) => run(&["expire".into(), p.clone(), TIMES[*t].into()]),
            Cmd::Sign(ks, cross, ignore) => {
                let mut a = vec!["sign".to_string(), p.clone()];
                for k in ks { a.push("-k".into()); a.push(keys[*k].file.to_str().unwrap().into()); }
                if let Some(c) = cross { a.push("--cross-sign".into()); a.push(dir.path().join(format!("copy{c}.json")).to_str().unwrap().into()); }
                if *ignore { a.push("-i".into()); }
                run(&a)
            }
            Cmd::SaveCopy(n) => std::fs::copy(&path, dir.path().join(format!("copy{n}.json"))).is_ok(),
        };
        let after = std::fs::read(&path).ok();
        // nothing but root.json and the copies may be left in the directory (no temp files)
        let stray = std::fs::read_dir(dir.path()).unwrap().flatten().filter(|e| { let n = e.file_name().to_string_lossy().to_string(); n != "root.json" && !n.starts_with("copy") }).count();
        steps.push(json!({"ok": ok, "unchanged": if ok { Value::Null } else { json!(before == after) }, "file": abstract_file(&path, keys), "stray_files": stray}));
    }
    let nontrivial = cmds.windows(2).any(|w| matches!(w[0], Cmd::Sign(..)) && !matches!(w[1], Cmd::Sign(..) | Cmd::SaveCopy(_)))
        || cmds.iter().any(|c| matches!(c, Cmd::SetThreshold(_, n) if *n > 1) || matches!(c, Cmd::Sign(_, Some(_), _)));
    (json!({"cmds": cmds.iter().map(cmd_json).collect::<Vec<_>>()}), json!({ "steps": steps }), nontrivial)
}

fn main() {
    let mut args = parse_args();
    let mut only = None;
    if let Some(p) = &args.replay {
        let v: Value = serde_json::from_str(&std::fs::read_to_string(p).unwrap()).unwrap();
        if let Some(t) = v["tier"].as_str() { args.tier = t.into(); }
        if let Some(s) = v["seed"].as_u64() { args.seed = s; }
        only = v["case"]["id"].as_u64();
    }
    let thorough = args.tier == "thorough";
    let keys = load_keys();
    let mut out = Out::new(&args.out);
    out.only = only;
    // corpus: the repaired defect (cross-sign, then a plain sign below the own threshold)
    let mut jobs: Vec<(&'static str, Vec<Cmd>)> = Vec::new();
    jobs.push(("corpus-cross-then-plain", vec![
        Cmd::Init(None), Cmd::AddKey(vec![0], vec![0, 1, 2, 3]), Cmd::SetThreshold(0, 1), Cmd::SetThreshold(1, 1), Cmd::SetThreshold(2, 1), Cmd::SetThreshold(3, 1),
        Cmd::Sign(vec![0], None, false), Cmd::SaveCopy(0),
        Cmd::Init(Some(2)), Cmd::AddKey(vec![1, 2], vec![0, 1, 2, 3]), Cmd::SetThreshold(0, 2), Cmd::SetThreshold(1, 1), Cmd::SetThreshold(2, 1), Cmd::SetThreshold(3, 1),
        Cmd::Sign(vec![0], Some(0), true), Cmd::Sign(vec![1], None, false), Cmd::Sign(vec![1, 2], None, false),
    ]));
    // a key that is in the key table for another role only: its signature never counts towards the root threshold
    jobs.push(("corpus-table-key-not-root", vec![
        Cmd::Init(None), Cmd::AddKey(vec![0], vec![0]), Cmd::AddKey(vec![1], vec![1, 2, 3]),
        Cmd::SetThreshold(0, 1), Cmd::SetThreshold(1, 1), Cmd::SetThreshold(2, 1), Cmd::SetThreshold(3, 1),
        Cmd::Sign(vec![1], None, false), Cmd::Sign(vec![1], None, true), Cmd::Sign(vec![1], None, false), Cmd::Sign(vec![0], None, false),
    ]));
    // the old root key stays in the new key table as an online key; cross-signed, then a plain sign with that key alone
    jobs.push(("corpus-cross-key-kept-online", vec![
        Cmd::Init(None), Cmd::AddKey(vec![0], vec![0, 1, 2, 3]), Cmd::SetThreshold(0, 1), Cmd::SetThreshold(1, 1), Cmd::SetThreshold(2, 1), Cmd::SetThreshold(3, 1),
        Cmd::Sign(vec![0], None, false), Cmd::SaveCopy(0),
        Cmd::Init(Some(2)), Cmd::AddKey(vec![1], vec![0]), Cmd::AddKey(vec![0], vec![1, 2, 3]),
        Cmd::SetThreshold(0, 1), Cmd::SetThreshold(1, 1), Cmd::SetThreshold(2, 1), Cmd::SetThreshold(3, 1),
        Cmd::Sign(vec![0], Some(0), true), Cmd::Sign(vec![0], None, false), Cmd::Sign(vec![1], None, false),
    ]));
    // a root key is removed from the root role but stays listed for another role
    jobs.push(("corpus-removed-from-root-role", vec![
        Cmd::Init(None), Cmd::AddKey(vec![0, 1], vec![0, 1, 2, 3]), Cmd::SetThreshold(0, 2), Cmd::SetThreshold(1, 1), Cmd::SetThreshold(2, 1), Cmd::SetThreshold(3, 1),
        Cmd::RemoveKey(1, Some(0)), Cmd::Sign(vec![0, 1], None, false), Cmd::SetThreshold(0, 1), Cmd::Sign(vec![1], None, false), Cmd::Sign(vec![0], None, false),
    ]));
    // a key that is in the key table but (no longer) in any role: removing it changes the signed content
    jobs.push(("corpus-remove-unused-key-from-signed-file", vec![
        Cmd::Init(None), Cmd::AddKey(vec![0, 1], vec![0, 1, 2, 3]), Cmd::SetThreshold(0, 2), Cmd::SetThreshold(1, 1), Cmd::SetThreshold(2, 1), Cmd::SetThreshold(3, 1),
        Cmd::AddKey(vec![2], vec![3]), Cmd::RemoveKey(2, Some(3)), Cmd::Sign(vec![0], None, true), Cmd::RemoveKey(2, None), Cmd::Sign(vec![1], None, false), Cmd::Sign(vec![0, 1], None, false),
    ]));
    let n = if thorough { 1500 } else { 150 };
    for i in 0..n {
        let mut r = Rng::new(args.seed, i);
        let nkeys = r.range(1, 3) as usize + if r.chance(1, 3) { 2 } else { 0 };
        let nkeys = nkeys.min(keys.len());
        let len = r.range(3, 12) as usize;
        let mut cmds = Vec::new();
        let mut copies = 0usize;
        // a usable root most of the time: init, keys for all roles, thresholds
        if r.chance(4, 5) {
            cmds.push(Cmd::Init(None));
            if nkeys >= 2 && r.chance(1, 3) {
                // separate root and online keys: the last key is listed for the other roles only
                cmds.push(Cmd::AddKey((0..nkeys - 1).collect(), vec![0]));
                cmds.push(Cmd::AddKey(vec![nkeys - 1], vec![1, 2, 3]));
            } else {
                cmds.push(Cmd::AddKey((0..r.range(1, nkeys as u64) as usize).collect(), vec![0, 1, 2, 3]));
            }
            for role in 0..4 { cmds.push(Cmd::SetThreshold(role, if role == 0 { r.range(1, 2) } else { 1 })); }
        }
        for _ in 0..len {
            let c = rand_cmd(&mut r, nkeys, copies);
            if let Cmd::SaveCopy(_) = c { copies += 1; }
            cmds.push(c);
        }
        jobs.push(("random", cmds));
    }
    // the sequences are independent (one temporary directory each): run them on all cores, emit in order
    let wanted: Vec<bool> = (0..jobs.len() as u64).map(|i| only.map_or(true, |o| o == i + 1)).collect();
    let results: Vec<std::sync::Mutex<Option<(Value, Value, bool)>>> = (0..jobs.len()).map(|_| std::sync::Mutex::new(None)).collect();
    let next = std::sync::atomic::AtomicUsize::new(0);
    let workers = std::thread::available_parallelism().map(|n| n.get()).unwrap_or(4).min(16);
    std::thread::scope(|sc| {
        for _ in 0..workers {
            sc.spawn(|| loop {
                let i = next.fetch_add(1, std::sync::atomic::Ordering::SeqCst);
                if i >= jobs.len() { break; }
                if !wanted[i] { continue; }
                *results[i].lock().unwrap() = Some(run_sequence(&keys, &jobs[i].1));
            });
        }
    });
    for (i, (class, _)) in jobs.iter().enumerate() {
        match results[i].lock().unwrap().take() {
            Some((input, imp, nt)) => out.case_nt(class, input, imp, nt),
            None => out.skip(),
        }
    }
    out.finish();
}
