//! C15 correspondence harness: update cycles of the real client run in a child process under
//! `strace`; every system call that touches the datastore directory is, in turn, made the point
//! where the process is killed, or made to fail with ENOSPC / EIO.  After each interruption the
//! datastore directory is classified and two follow-up cycles are run on copies of it: one against a
//! replayed older repository, one against the current repository.
//!
//!   c15 --child <spec.json>                 one update cycle (file:// transport), prints {"res":..}
//!   c15 --tier quick|thorough --seed N --out cases.jsonl
use serde_json::{json, Value};
use std::collections::HashMap;
use std::path::{Path, PathBuf};
use std::process::Command;
use vcommon::{parse_args, Out, Rng};
use vworld::client::*;
use vworld::mem::{Chunk, Mem, Resp};
use vworld::repo::*;
use vworld::KeyPool;

// ---------------------------------------------------------------------------------------------
// child: one update cycle

fn child(spec_path: &str) {
    let spec: Value = serde_json::from_str(&std::fs::read_to_string(spec_path).expect("spec")).expect("spec json");
    let root = std::fs::read(spec["root"].as_str().unwrap()).expect("shipped root");
    let base = chrono::DateTime::parse_from_rfc3339(spec["base"].as_str().unwrap()).unwrap().with_timezone(&chrono::Utc);
    let now = spec["now"].as_i64().unwrap();
    let drift = (chrono::Utc::now() - base).num_nanoseconds().unwrap_or(0);
    tough::verif_hooks::set_clock_offset(now * 1_000_000_000 - drift);
    // one blocking thread: all file-system calls of the client are issued by the same thread, in order;
    // no I/O driver: threads are woken through futexes, not through writes to an eventfd, so the
    // ordinal of a `write` call is the same in every run
    let rt = tokio::runtime::Builder::new_current_thread().max_blocking_threads(1).enable_time().build().unwrap();
    let res = rt.block_on(async {
        // strace counts `when=K` per thread: let the blocking thread start its counts above anything
        // the main thread reaches, so that a fault planned for its K-th call hits nothing else
        let _ = tokio::task::spawn_blocking(|| {
            use std::io::Write;
            for _ in 0..24 { let _ = std::fs::File::open("/dev/null"); }
            if let Ok(mut f) = std::fs::OpenOptions::new().write(true).open("/dev/null") {
                for _ in 0..24 { let _ = f.write(b"x"); }
            }
        }).await;
        tough::RepositoryLoader::new(&root, url::Url::parse(spec["meta"].as_str().unwrap()).unwrap(), url::Url::parse(spec["targets"].as_str().unwrap()).unwrap())
            .datastore(PathBuf::from(spec["datastore"].as_str().unwrap()))
            .load()
            .await
    });
    let out = match res {
        Ok(repo) => json!({"res": "ok", "versions": [repo.root().signed.version.get(), repo.timestamp().signed.version.get(),
            repo.snapshot().signed.version.get(), repo.targets().signed.version.get()]}),
        Err(e) => json!({"res": err_tag(&e)}),
    };
    println!("{out}");
}

// ---------------------------------------------------------------------------------------------
// parent

/// a repository state written to disk, with its model
struct Served {
    dir: PathBuf,
    model: Value,
    shipped_file: PathBuf,
}

fn dump(mem: &Mem, dir: &Path) {
    for (path, resp) in mem.files.lock().unwrap().iter() {
        if let Resp::Stream(chunks) = resp {
            let mut bytes = Vec::new();
            for c in chunks {
                if let Chunk::Data(b) = c { bytes.extend_from_slice(b); }
            }
            let p = dir.join(path.trim_start_matches('/'));
            std::fs::create_dir_all(p.parent().unwrap()).unwrap();
            std::fs::write(p, bytes).unwrap();
        }
    }
    std::fs::create_dir_all(dir.join("m")).unwrap();
    std::fs::create_dir_all(dir.join("t")).unwrap();
}

fn serve(world: &mut World<'_>, cyc: &ACycle, dir: PathBuf) -> Served {
    let mem = Mem::new(usize::MAX);
    let mut labels = HashMap::new();
    let model = cycle_model(world, &mem, cyc, &mut labels);
    dump(&mem, &dir);
    let shipped_file = dir.join("shipped-root.json");
    std::fs::write(&shipped_file, serde_json::to_vec(&world.root_doc(cyc.shipped.as_ref().unwrap())).unwrap()).unwrap();
    Served { dir, model, shipped_file }
}

fn copy_dir(from: &Path, to: &Path) {
    std::fs::create_dir_all(to).unwrap();
    for e in std::fs::read_dir(from).unwrap().flatten() {
        if e.file_type().unwrap().is_file() {
            std::fs::copy(e.path(), to.join(e.file_name())).unwrap();
        }
    }
}

/// every datastore file in the vocabulary of the model
fn ds_summary(dir: &Path) -> Value {
    let slot = |f: &str| -> Value {
        match std::fs::read(dir.join(f)) {
            Err(_) => Value::Null,
            Ok(b) => match serde_json::from_slice::<Value>(&b) {
                Ok(v) => v["signed"]["version"].as_u64().map(|x| json!(x)).unwrap_or(json!("garbage")),
                Err(_) => json!("garbage"),
            },
        }
    };
    let time = match std::fs::read(dir.join("latest_known_time.json")) {
        Err(_) => Value::Null,
        Ok(b) => if serde_json::from_slice::<chrono::DateTime<chrono::Utc>>(&b).is_ok() { json!("set") } else { json!("garbage") },
    };
    json!({"ts": slot("timestamp.json"), "snap": slot("snapshot.json"), "tgt": slot("targets.json"), "root": slot("root.json"), "time": time})
}

struct Runner {
    exe: PathBuf,
    base: String,
    work: PathBuf,
}

impl Runner {
    fn spec(&self, tag: &str, s: &Served, ds: &Path, now: i64) -> PathBuf {
        let p = self.work.join(format!("spec-{tag}.json"));
        let v = json!({"root": s.shipped_file, "base": self.base, "now": now, "datastore": ds,
            "meta": format!("file://{}/m/", s.dir.display()), "targets": format!("file://{}/t/", s.dir.display())});
        std::fs::write(&p, v.to_string()).unwrap();
        p
    }

    /// a cycle without interference
    fn plain(&self, tag: &str, s: &Served, ds: &Path, now: i64) -> Value {
        let spec = self.spec(tag, s, ds, now);
        let mut c = Command::new(&self.exe);
        c.arg("--child").arg(&spec);
        let (stdout, code) = run_limited(c, 60);
        let line = stdout.lines().last().unwrap_or("").to_string();
        serde_json::from_str(&line).unwrap_or_else(|_| json!({"res": format!("child-died:{code:?}")}))
    }

    /// a cycle under strace, optionally with a fault; returns (child result, parsed log)
    fn traced(&self, tag: &str, s: &Served, ds: &Path, now: i64, inject: Option<&str>) -> (Value, Vec<Call>) {
        let spec = self.spec(tag, s, ds, now);
        let log = self.work.join(format!("strace-{tag}.log"));
        let mut c = Command::new("strace");
        c.args(["-f", "-y", "-qq", "-s", "0", "-o"]).arg(&log)
            .args(["-e", "trace=open,openat,creat,write,pwrite64,writev,rename,renameat,renameat2,link,linkat,unlink,unlinkat,fsync,fdatasync,ftruncate,truncate"]);
        if let Some(i) = inject {
            c.args(["-e", i]);
        }
        c.arg(&self.exe).arg("--child").arg(&spec);
        let (stdout, code) = run_limited(c, 20);
        let line = stdout.lines().last().unwrap_or("").to_string();
        let res = serde_json::from_str(&line).unwrap_or_else(|_| json!({"res": if code.is_none() { "hung" } else { "killed" }}));
        let text = std::fs::read_to_string(&log).unwrap_or_default();
        let _ = std::fs::remove_file(&log);
        (res, parse_log(&text, ds))
    }
}

/// runs a command in its own process group with a time limit; on expiry the whole group is killed.
/// Returns (stdout, exit code; `None` = timed out)
fn run_limited(mut c: Command, secs: u64) -> (String, Option<i32>) {
    use std::os::unix::process::CommandExt;
    use std::io::Read;
    c.process_group(0).stdout(std::process::Stdio::piped()).stderr(std::process::Stdio::null()).stdin(std::process::Stdio::null());
    let mut child = c.spawn().expect("spawn");
    let pid = child.id();
    let start = std::time::Instant::now();
    let mut timed_out = false;
    loop {
        match child.try_wait() {
            Ok(Some(_)) => break,
            Ok(None) => {
                if start.elapsed().as_secs() >= secs {
                    timed_out = true;
                    let _ = Command::new("kill").args(["-9", &format!("-{pid}")]).status();
                    let _ = child.wait();
                    break;
                }
                std::thread::sleep(std::time::Duration::from_millis(10));
            }
            Err(_) => break,
        }
    }
    let mut out = String::new();
    if let Some(mut so) = child.stdout.take() { let _ = so.read_to_string(&mut out); }
    let code = if timed_out { None } else { Some(child.wait().ok().and_then(|s| s.code()).unwrap_or(-1)) };
    (out, code)
}

/// one system call entry of the strace log
#[derive(Clone, Debug)]
struct Call {
    tid: String,
    name: String,
    /// ordinal of this call among the calls of the same name by the same thread (1-based)
    ordinal: usize,
    /// the call names the datastore directory (path argument or annotated descriptor)
    touches_ds: bool,
    injected: bool,
    /// file name inside the datastore the call refers to (the last one named), temp names as ".tmp"
    file: String,
    text: String,
}

fn parse_log(text: &str, ds: &Path) -> Vec<Call> {
    let dsp = format!("{}/", ds.display());
    let mut counts: HashMap<(String, String), usize> = HashMap::new();
    let mut calls: Vec<Call> = Vec::new();
    for line in text.lines() {
        let mut it = line.splitn(2, ' ');
        let tid = it.next().unwrap_or("").to_string();
        let rest = it.next().unwrap_or("").trim_start();
        if rest.starts_with("<...") {
            // completion of an unfinished call: attach the injection marker to its entry
            if rest.contains("(INJECTED)") {
                if let Some(c) = calls.iter_mut().rev().find(|c| c.tid == tid) { c.injected = true; }
            }
            continue;
        }
        if rest.starts_with("+++") || rest.starts_with("---") {
            continue;
        }
        let Some(paren) = rest.find('(') else { continue };
        let name = rest[..paren].to_string();
        let n = counts.entry((tid.clone(), name.clone())).or_insert(0);
        *n += 1;
        let touches = rest.contains(&dsp);
        let mut file = String::new();
        if touches {
            let mut from = 0;
            while let Some(i) = rest[from..].find(&dsp) {
                let start = from + i + dsp.len();
                let end = rest[start..].find(|ch: char| ch == '"' || ch == '>').map(|e| start + e).unwrap_or(rest.len());
                file = rest[start..end].to_string();
                from = end;
            }
            if file.starts_with(".tmp") { file = ".tmp".into(); }
        }
        calls.push(Call { tid, name, ordinal: *n, touches_ds: touches, injected: rest.contains("(INJECTED)"), file, text: rest.chars().take(200).collect() });
    }
    calls
}

fn base_top(msgs: &mut MsgGen, version: u64, tgt_key: usize, with_roles: bool) -> (ATargets, Vec<(usize, ATargets)>) {
    let role1 = ATargets { version, expires: 7 * DAY, entries: vec![(1, 3, 2)], deleg: None, msg: msgs.next(), sigs: valid_sigs(&[11]) };
    let role0 = ATargets {
        version, expires: 7 * DAY, entries: vec![(0, 3, 1)],
        deleg: Some(ADeleg { table: vec![11], roles: vec![ADRole { name: 1, ids: vec![11], thr: 1, patterns: vec!["*".into()], hash_prefixes: vec![] }] }),
        msg: msgs.next(), sigs: valid_sigs(&[11]),
    };
    let top = ATargets {
        version, expires: 7 * DAY, entries: vec![(2, 5, 3)],
        deleg: if with_roles { Some(ADeleg { table: vec![11], roles: vec![ADRole { name: 0, ids: vec![11], thr: 1, patterns: vec!["*".into()], hash_prefixes: vec![] }] }) } else { None },
        msg: msgs.next(), sigs: valid_sigs(&[tgt_key]),
    };
    (top, if with_roles { vec![(0, role0), (1, role1)] } else { vec![] })
}

#[derive(Clone, Copy, Debug, PartialEq)]
enum Kind { Plain, Deleg, RotateOnline, RotateTargets, SameVersion, FirstCycle, RotateSnapRestart }

struct Scenario {
    name: String,
    /// cycles before the interrupted one (run to their end), the interrupted one, the two follow-ups
    before: Vec<ACycle>,
    cut: ACycle,
    older: ACycle,
    current: ACycle,
}

fn scenario(kind: Kind, cs: bool, msgs: &mut MsgGen, world: &mut World<'_>) -> Scenario {
    // epoch 1 keys: root 7, timestamp 8, snapshot 9, targets 10; epoch 2 rotates what `kind` says
    let e1 = (8usize, 9usize, 10usize);
    let e2 = match kind {
        Kind::RotateOnline => (0, 2, 10),
        // only the snapshot key is replaced; the repository restarts its online roles at low versions
        // (recovery from inflated versions, C14): the stored timestamp still verifies under the new root
        Kind::RotateSnapRestart => (8, 2, 10),
        Kind::RotateTargets => (8, 9, 4),
        _ => e1,
    };
    let root1 = simple_root(1, cs, (vec![7], 1), (vec![e1.0], 1), (vec![e1.1], 1), (vec![e1.2], 1), msgs.next(), &[7]);
    let root2 = simple_root(2, cs, (vec![7], 1), (vec![e2.0], 1), (vec![e2.1], 1), (vec![e2.2], 1), msgs.next(), &[7]);
    let with_roles = kind == Kind::Deleg;
    let mut repo = |v: u64, keys: (usize, usize, usize), with_root2: bool, now: i64, world: &mut World<'_>, msgs: &mut MsgGen| -> ACycle {
        // v = 1000 + n: online roles at version n, targets at 1000 + n
        let (vo, vt) = if v >= 1000 { (v - 1000, v) } else { (v, v) };
        let (top, roles) = base_top(msgs, vt, keys.2, with_roles);
        let online = Online { ts_sigs: valid_sigs(&[keys.0]), snap_sigs: valid_sigs(&[keys.1]), ts_expires: DAY, snap_expires: 3 * DAY };
        let mut asm = assemble(world, cs, vo, vo, &top, &roles, Pin { length: true, hash: true }, &online, msgs);
        if with_root2 {
            asm.server.push((AName::RootV(2), AResp::File(AFile::plain(AContent::Root(root2.clone())))));
        }
        ACycle { limits: ALimits::default(), safe: true, now, server: asm.server, shipped: Some(root1.clone()), reads: vec![] }
    };
    let rotates = e2 != e1;
    let a = repo(if kind == Kind::RotateSnapRestart { 900 } else { 5 }, e1, false, 0, world, msgs);
    let cut = match kind {
        Kind::SameVersion => ACycle { now: 100, ..a.clone() },
        Kind::RotateSnapRestart => repo(1002, e2, rotates, 100, world, msgs),
        _ => repo(6, e2, rotates, 100, world, msgs),
    };
    let older = repo(3, e1, false, 200, world, msgs);
    let current = ACycle { now: 200, ..cut.clone() };
    let before = if kind == Kind::FirstCycle { vec![] } else { vec![a] };
    Scenario { name: format!("{kind:?}-{}", if cs { "cs" } else { "plain" }), before, cut, older, current }
}

fn main() {
    let argv: Vec<String> = std::env::args().collect();
    if argv.len() >= 3 && argv[1] == "--child" {
        child(&argv[2]);
        return;
    }
    let mut args = parse_args();
    let mut only = None;
    if let Some(p) = &args.replay {
        let v: Value = serde_json::from_str(&std::fs::read_to_string(p).unwrap()).unwrap();
        if let Some(t) = v["tier"].as_str() { args.tier = t.into(); }
        if let Some(s) = v["seed"].as_u64() { args.seed = s; }
        only = v["case"]["id"].as_u64();
    }
    let thorough = args.tier == "thorough";
    let pool = KeyPool::load();
    let mut out = Out::new(&args.out);
    out.only = only;
    let mut r = Rng::new(args.seed, 15);
    let exe = std::env::current_exe().unwrap();
    let top = tempfile::tempdir().unwrap();
    let keep = std::env::var("C15_KEEP").ok().map(PathBuf::from);
    let top_path: PathBuf = keep.clone().unwrap_or_else(|| top.path().to_path_buf());
    let kinds: Vec<(Kind, bool)> = if thorough {
        let mut v = Vec::new();
        for k in [Kind::Plain, Kind::Deleg, Kind::RotateOnline, Kind::RotateTargets, Kind::SameVersion, Kind::FirstCycle, Kind::RotateSnapRestart] {
            for cs in [false, true] { v.push((k, cs)); }
        }
        v
    } else {
        vec![(Kind::Plain, r.chance(1, 2)), (Kind::RotateOnline, r.chance(1, 2)), (Kind::Deleg, true), (Kind::RotateSnapRestart, r.chance(1, 2))]
    };
    for (si, (kind, cs)) in kinds.iter().enumerate() {
        let mut world = World::new(&pool, Names::default());
        let mut msgs = MsgGen(0);
        let sc = scenario(*kind, *cs, &mut msgs, &mut world);
        let sdir = top_path.join(format!("s{si}"));
        let runner = Runner { exe: exe.clone(), base: world.base.to_rfc3339_opts(chrono::SecondsFormat::Nanos, true), work: sdir.clone() };
        std::fs::create_dir_all(&sdir).unwrap();
        let before: Vec<Served> = sc.before.iter().enumerate().map(|(i, c)| serve(&mut world, c, sdir.join(format!("before{i}")))).collect();
        let cut = serve(&mut world, &sc.cut, sdir.join("cut"));
        let older = serve(&mut world, &sc.older, sdir.join("older"));
        let current = serve(&mut world, &sc.current, sdir.join("current"));
        // the cycles before the interrupted one
        let ds0 = sdir.join("ds0");
        std::fs::create_dir_all(&ds0).unwrap();
        let mut before_obs = Vec::new();
        for (i, s) in before.iter().enumerate() {
            let mut o = runner.plain(&format!("before{i}"), s, &ds0, sc.before[i].now);
            o["ds"] = ds_summary(&ds0);
            before_obs.push(o);
        }
        // dry run: which calls touch the datastore
        let dry = sdir.join("dry");
        copy_dir(&ds0, &dry);
        let (dry_res, calls) = runner.traced("dry", &cut, &dry, sc.cut.now, None);
        let points: Vec<Call> = calls.iter().filter(|c| c.touches_ds).cloned().collect();
        let mut jobs: Vec<(String, Option<Call>, &'static str)> = vec![("none".into(), None, "none")];
        for p in &points {
            jobs.push((format!("{}:signal=KILL:when={}", p.name, p.ordinal), Some(p.clone()), "kill"));
            for e in ["ENOSPC", "EIO"] {
                jobs.push((format!("{}:error={e}:when={}", p.name, p.ordinal), Some(p.clone()), e));
            }
        }
        let _ = dry_res;
        if std::env::var("C15_DEBUG").is_ok() {
            for c in &calls { eprintln!("{} {}#{} ds={} file={} | {}", c.tid, c.name, c.ordinal, c.touches_ds, c.file, c.text); }
            continue;
        }
        let models: Vec<Value> = before.iter().map(|s| s.model.clone()).chain(std::iter::once(cut.model.clone())).collect();
        let results: Vec<std::sync::Mutex<Option<(Value, Value, bool)>>> = jobs.iter().map(|_| std::sync::Mutex::new(None)).collect();
        let next = std::sync::atomic::AtomicUsize::new(0);
        let first_id = out.n;
        let wanted: Vec<bool> = (0..jobs.len() as u64).map(|i| only.map_or(true, |o| o == first_id + i + 1)).collect();
        let workers = std::thread::available_parallelism().map(|n| n.get()).unwrap_or(4).min(12);
        std::thread::scope(|scope| {
            for _ in 0..workers {
                scope.spawn(|| loop {
                    let j = next.fetch_add(1, std::sync::atomic::Ordering::SeqCst);
                    if j >= jobs.len() { break; }
                    if !wanted[j] { continue; }
                    let (inject, point, fault) = &jobs[j];
                    let ds = sdir.join(format!("ds-{j}"));
                    copy_dir(&ds0, &ds);
                    let (res, log) = match point {
                        None => runner.traced(&format!("j{j}"), &cut, &ds, sc.cut.now, None),
                        Some(_) => runner.traced(&format!("j{j}"), &cut, &ds, sc.cut.now, Some(&format!("inject={inject}"))),
                    };
                    // what the fault really hit (per-thread ordinals are not perfectly stable: the log decides)
                    let hit: Vec<&Call> = match *fault {
                        "none" => vec![],
                        "kill" => {
                            // the last call entry of the log is the one the signal was delivered at
                            log.last().into_iter().collect()
                        }
                        _ => log.iter().filter(|c| c.injected).collect(),
                    };
                    let valid = match point {
                        None => true,
                        Some(p) => hit.len() == 1 && hit[0].touches_ds && hit[0].name == p.name && hit[0].file == p.file,
                    };
                    let after = ds_summary(&ds);
                    // follow-ups on copies
                    let dso = sdir.join(format!("ds-{j}-older"));
                    copy_dir(&ds, &dso);
                    let older_obs = runner.plain(&format!("j{j}-older"), &older, &dso, sc.older.now);
                    let dsc = sdir.join(format!("ds-{j}-current"));
                    copy_dir(&ds, &dsc);
                    let current_obs = runner.plain(&format!("j{j}-current"), &current, &dsc, sc.current.now);
                    for d in [&ds, &dso, &dsc] { let _ = std::fs::remove_dir_all(d); }
                    let completed: Vec<String> = log.iter().filter(|c| c.touches_ds && (c.name.starts_with("rename") || c.name.starts_with("unlink")) && !c.injected)
                        .map(|c| format!("{}:{}", if c.name.starts_with("rename") { "create" } else { "remove" }, c.file)).collect();
                    let input = json!({"prop": "C15", "scenario": sc.name, "cycles": models, "older": older.model, "current": current.model,
                        "fault": {"kind": fault, "call": point.as_ref().map(|p| p.text.clone()), "file": point.as_ref().map(|p| p.file.clone()),
                                  "syscall": point.as_ref().map(|p| p.name.clone())}});
                    let imp = json!({"before": before_obs, "fault_res": res, "ds_after": after, "older": older_obs, "current": current_obs,
                        "hit_as_planned": valid, "hit": hit.iter().map(|c| c.text.clone()).collect::<Vec<_>>(), "ds_calls": completed});
                    *results[j].lock().unwrap() = Some((input, imp, *fault != "none"));
                });
            }
        });
        for (j, _) in jobs.iter().enumerate() {
            match results[j].lock().unwrap().take() {
                Some((input, imp, nt)) => {
                    let class = format!("{}-{}", sc.name, input["fault"]["kind"].as_str().unwrap_or(""));
                    out.case_nt(&class, input, imp, nt)
                }
                None => out.skip(),
            }
        }
    }
    out.finish();
}
