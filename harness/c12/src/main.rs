//! C12 correspondence harness: validly signed documents of every top-level role type, with unknown
//! members injected at every object level, written by "another conforming implementation" (a plain
//! JSON tree, canonicalised and signed without going through tough's schema types); then every
//! single-point mutation of the signed portion, swaps between roles, re-ordering, re-formatting and
//! extra signature entries.  Observed: does tough parse it, does the trusted root verify it, what does
//! tough verify signatures over (`canonical_form`), and is the parsed struct equal to that of the
//! unmutated document.
use serde_json::{json, Value};
use tough::schema::{Role, Root, Signed, Snapshot, Targets, Timestamp};
use vcommon::{parse_args, Out, Rng};
use vworld::meta::{self, canon};
use vworld::{KeyPool, PoolKey};

/// a JSON document as text will carry it: member order and duplicates as given
#[derive(Clone, Debug, PartialEq)]
enum J {
    Null,
    Bool(bool),
    Int(i128),
    Float,
    Str(String),
    Arr(Vec<J>),
    Obj(Vec<(String, J)>),
}

fn from_value(v: &Value) -> J {
    match v {
        Value::Null => J::Null,
        Value::Bool(b) => J::Bool(*b),
        Value::Number(n) => match n.as_i64().map(|x| x as i128).or_else(|| n.as_u64().map(|x| x as i128)) {
            Some(i) => J::Int(i),
            None => J::Float,
        },
        Value::String(s) => J::Str(s.clone()),
        Value::Array(a) => J::Arr(a.iter().map(from_value).collect()),
        Value::Object(o) => J::Obj(o.iter().map(|(k, v)| (k.clone(), from_value(v))).collect()),
    }
}

/// the value with duplicates resolved the way a JSON object is usually read (last wins)
fn to_value(j: &J) -> Value {
    match j {
        J::Null => Value::Null,
        J::Bool(b) => json!(b),
        J::Int(i) => if *i >= 0 { json!(*i as u64) } else { json!(*i as i64) },
        J::Float => json!(1.5),
        J::Str(s) => json!(s),
        J::Arr(a) => Value::Array(a.iter().map(to_value).collect()),
        J::Obj(ms) => {
            let mut m = serde_json::Map::new();
            for (k, v) in ms { m.insert(k.clone(), to_value(v)); }
            Value::Object(m)
        }
    }
}

#[derive(Clone, Copy, Default)]
struct Style {
    /// spaces and newlines between tokens
    ws: bool,
    /// every character of every string as a \uXXXX escape (surrogate pairs above the BMP)
    escape_all: bool,
}

fn write_str(s: &str, st: Style, out: &mut String) {
    out.push('"');
    for c in s.chars() {
        if st.escape_all {
            let mut buf = [0u16; 2];
            for u in c.encode_utf16(&mut buf) { out.push_str(&format!("\\u{:04x}", u)); }
        } else {
            match c {
                '"' => out.push_str("\\\""),
                '\\' => out.push_str("\\\\"),
                c if (c as u32) < 0x20 => out.push_str(&format!("\\u{:04x}", c as u32)),
                c => out.push(c),
            }
        }
    }
    out.push('"');
}

fn write(j: &J, st: Style, out: &mut String) {
    let sep = if st.ws { "\n  " } else { "" };
    match j {
        J::Null => out.push_str("null"),
        J::Bool(b) => out.push_str(if *b { "true" } else { "false" }),
        J::Int(i) => out.push_str(&i.to_string()),
        J::Float => out.push_str("1.5"),
        J::Str(s) => write_str(s, st, out),
        J::Arr(a) => {
            out.push('[');
            for (i, x) in a.iter().enumerate() {
                if i > 0 { out.push(','); }
                out.push_str(sep);
                write(x, st, out);
            }
            out.push_str(sep);
            out.push(']');
        }
        J::Obj(ms) => {
            out.push('{');
            for (i, (k, v)) in ms.iter().enumerate() {
                if i > 0 { out.push(','); }
                out.push_str(sep);
                write_str(k, st, out);
                out.push_str(if st.ws { " : " } else { ":" });
                write(v, st, out);
            }
            out.push_str(sep);
            out.push('}');
        }
    }
}

fn cps(s: &str) -> Value {
    Value::Array(s.chars().map(|c| json!(c as u32)).collect())
}

fn to_wire(j: &J) -> Value {
    match j {
        J::Null => json!("n"),
        J::Bool(b) => json!({ "b": b }),
        J::Int(i) => json!({"i": i.to_string()}),
        J::Float => json!("f"),
        J::Str(s) => json!({"s": cps(s)}),
        J::Arr(xs) => json!({"a": xs.iter().map(to_wire).collect::<Vec<_>>()}),
        J::Obj(ms) => json!({"o": ms.iter().map(|(k, v)| json!([cps(k), to_wire(v)])).collect::<Vec<_>>()}),
    }
}

// ---------------------------------------------------------------------------------------------
// paths into a tree

#[derive(Clone, Debug, PartialEq)]
enum Step { Member(usize), Elem(usize) }
type Path = Vec<Step>;

fn get<'a>(j: &'a J, p: &[Step]) -> &'a J {
    match p.first() {
        None => j,
        Some(Step::Member(i)) => match j { J::Obj(ms) => get(&ms[*i].1, &p[1..]), _ => panic!("path") },
        Some(Step::Elem(i)) => match j { J::Arr(a) => get(&a[*i], &p[1..]), _ => panic!("path") },
    }
}
fn get_mut<'a>(j: &'a mut J, p: &[Step]) -> &'a mut J {
    match p.first() {
        None => j,
        Some(Step::Member(i)) => match j { J::Obj(ms) => get_mut(&mut ms[*i].1, &p[1..]), _ => panic!("path") },
        Some(Step::Elem(i)) => match j { J::Arr(a) => get_mut(&mut a[*i], &p[1..]), _ => panic!("path") },
    }
}
fn all_paths(j: &J, here: &mut Path, out: &mut Vec<Path>) {
    out.push(here.clone());
    match j {
        J::Obj(ms) => for (i, (_, v)) in ms.iter().enumerate() { here.push(Step::Member(i)); all_paths(v, here, out); here.pop(); },
        J::Arr(a) => for (i, v) in a.iter().enumerate() { here.push(Step::Elem(i)); all_paths(v, here, out); here.pop(); },
        _ => {}
    }
}
fn path_text(j: &J, p: &[Step]) -> String {
    let mut cur = j;
    let mut s = String::new();
    for st in p {
        match (st, cur) {
            (Step::Member(i), J::Obj(ms)) => { s.push('/'); s.push_str(&ms[*i].0); cur = &ms[*i].1; }
            (Step::Elem(i), J::Arr(a)) => { s.push_str(&format!("[{i}]")); cur = &a[*i]; }
            _ => {}
        }
    }
    s
}

// ---------------------------------------------------------------------------------------------
// documents

#[derive(Clone, Copy, Debug, PartialEq)]
enum Kind { Root, Timestamp, Snapshot, Targets }
impl Kind {
    fn name(self) -> &'static str { match self { Kind::Root => "root", Kind::Timestamp => "timestamp", Kind::Snapshot => "snapshot", Kind::Targets => "targets" } }
}

struct Ctx<'a> {
    pool: &'a KeyPool,
    /// the trusted root every document is verified under
    trusted: Signed<Root>,
    expires: String,
}

/// a key object with unknown members in it and in its keyval, under its recomputed identifier
fn key_with_extras(k: &PoolKey) -> (String, Value) {
    let mut v = k.public.clone();
    v["x-note"] = json!("unknown member of a key");
    v["keyval"]["x-extra"] = json!({"a": [1, 2, {"b": null}]});
    let key: tough::schema::key::Key = serde_json::from_value(v.clone()).expect("key with extras parses");
    (hex::encode(key.key_id().expect("key id")), v)
}

/// the signed portion of a base document of `kind`; `extras`: unknown members at every object level
/// that has a catch-all; `deleg_extra` / `drole_extra`: also where tough has none
fn base_signed(ctx: &Ctx<'_>, kind: Kind, extras: bool, deleg_extra: bool, drole_extra: bool, time_style: usize) -> Value {
    let p = ctx.pool;
    let expires = match time_style {
        0 => ctx.expires.clone(),
        1 => ctx.expires.replace('Z', "+00:00"),
        _ => ctx.expires.replace('Z', ".000Z"),
    };
    let x = |v: &mut Value, name: &str| { if extras { v[name] = json!({"unknown": ["members", 1, true, null, {"deep": "é\u{1F600}"}]}); v["x-n"] = json!(7); } };
    match kind {
        Kind::Root => {
            // same keys and roles as the trusted root, new version
            let mut v = root_value(p, 2, &expires);
            if extras {
                let (id, key) = key_with_extras(&p.ed[6]);
                v["keys"][id] = key;
                for r in ["root", "timestamp", "snapshot", "targets"] { x(&mut v["roles"][r], "x-role"); }
            }
            x(&mut v, "x-top");
            v
        }
        Kind::Timestamp => {
            let mut m = meta::meta_entry(3, Some(500), Some(&meta::sha256(b"snap")));
            if extras { x(&mut m["hashes"], "x-hashes"); }
            x(&mut m, "x-meta");
            let mut v = meta::timestamp_json(4, &expires, Some(m));
            x(&mut v, "x-top");
            v
        }
        Kind::Snapshot => {
            let mut map = serde_json::Map::new();
            let mut a = meta::meta_entry(5, Some(800), Some(&meta::sha256(b"tgt")));
            if extras { x(&mut a["hashes"], "x-hashes"); }
            x(&mut a, "x-meta");
            map.insert("targets.json".into(), a);
            map.insert("role1.json".into(), meta::meta_entry(2, None, None));
            let mut v = meta::snapshot_json(3, &expires, map);
            x(&mut v, "x-top");
            v
        }
        Kind::Targets => {
            let mut map = serde_json::Map::new();
            let mut t = meta::target_entry(11, &meta::sha256(b"hello world"));
            t["custom"] = json!({"any": {"thing": [1, "two"]}, "n": 3});
            if extras { x(&mut t["hashes"], "x-hashes"); }
            x(&mut t, "x-target");
            map.insert("dir/file one.txt".into(), t);
            map.insert("b.bin".into(), meta::target_entry(0, &meta::sha256(b"")));
            let dk = &p.ed[11];
            let mut keys = meta::key_table(&[dk]);
            if extras { let (id, key) = key_with_extras(&p.ed[6]); keys[id] = key; }
            let mut role = json!({"name": "role1", "keyids": [dk.id], "threshold": 1, "terminating": false, "paths": ["dir/*", "b.bin"]});
            let role2 = json!({"name": "role2", "keyids": [dk.id], "threshold": 1, "terminating": true, "path_hash_prefixes": ["00", "ab"]});
            if drole_extra { role["x-drole"] = json!("unknown member of a delegated role"); }
            let mut d = json!({"keys": keys, "roles": [role, role2]});
            if deleg_extra { d["x-deleg"] = json!("unknown member of delegations"); }
            let mut v = meta::targets_json(6, &expires, map, Some(d));
            x(&mut v, "x-top");
            v
        }
    }
}

fn root_value(p: &KeyPool, version: u64, expires: &str) -> Value {
    // timestamp and snapshot share key ed[8]: documents of the two roles are candidates for a swap
    meta::root_json(&meta::RootSpec {
        version, expires: expires.to_string(), consistent: false,
        table: vec![&p.ed[7], &p.ed[8], &p.ed[10], &p.rsa[0], &p.ec[0]],
        root: (vec![&p.ed[7], &p.rsa[0]], 2),
        timestamp: (vec![&p.ed[8]], 1),
        snapshot: (vec![&p.ed[8], &p.ec[0]], 1),
        targets: (vec![&p.ed[10], &p.ed[8]], 1),
    })
}

fn signers<'a>(p: &'a KeyPool, kind: Kind) -> Vec<&'a PoolKey> {
    match kind {
        Kind::Root => vec![&p.ed[7], &p.rsa[0]],
        Kind::Timestamp => vec![&p.ed[8]],
        Kind::Snapshot => vec![&p.ed[8]],
        Kind::Targets => vec![&p.ed[8]],
    }
}

/// (role key ids, threshold) of `kind` in the trusted root
fn role_of(p: &KeyPool, kind: Kind) -> (Vec<String>, u64) {
    match kind {
        Kind::Root => (vec![p.ed[7].id.clone(), p.rsa[0].id.clone()], 2),
        Kind::Timestamp => (vec![p.ed[8].id.clone()], 1),
        Kind::Snapshot => (vec![p.ed[8].id.clone(), p.ec[0].id.clone()], 1),
        Kind::Targets => (vec![p.ed[10].id.clone(), p.ed[8].id.clone()], 1),
    }
}

/// what tough makes of the text read as a document of `kind`
struct Seen {
    parse: bool,
    verify: bool,
    canon: Option<Vec<u8>>,
    same_as: bool,
}

fn observe_as<T: Role + serde::de::DeserializeOwned + PartialEq>(ctx: &Ctx<'_>, text: &str, original: Option<&str>) -> Seen {
    match serde_json::from_str::<Signed<T>>(text) {
        Err(_) => Seen { parse: false, verify: false, canon: None, same_as: false },
        Ok(doc) => {
            let verify = ctx.trusted.signed.verify_role(&doc).is_ok();
            let canon = doc.signed.canonical_form().ok();
            let same_as = match original {
                Some(o) => serde_json::from_str::<Signed<T>>(o).map(|od| od.signed == doc.signed).unwrap_or(false),
                None => true,
            };
            Seen { parse: true, verify, canon, same_as }
        }
    }
}

fn observe(ctx: &Ctx<'_>, kind: Kind, text: &str, original: Option<&str>) -> Seen {
    match kind {
        Kind::Root => observe_as::<Root>(ctx, text, original),
        Kind::Timestamp => observe_as::<Timestamp>(ctx, text, original),
        Kind::Snapshot => observe_as::<Snapshot>(ctx, text, original),
        Kind::Targets => observe_as::<Targets>(ctx, text, original),
    }
}

/// oracle rows for the model: every string below an `expires` member with what chrono makes of it;
/// every entry of a `keys` table with whether `deserialize_keys` would accept it
fn oracles(j: &J, times: &mut Vec<Value>, keys: &mut Vec<Value>) {
    match j {
        J::Obj(ms) => {
            for (k, v) in ms {
                if k == "expires" {
                    if let J::Str(s) = v {
                        let out = serde_json::from_value::<chrono::DateTime<chrono::Utc>>(json!(s)).ok()
                            .map(|d| serde_json::to_value(d).unwrap());
                        times.push(json!([cps(s), out.map(|o| cps(o.as_str().unwrap()))]));
                    }
                }
                if k == "keys" {
                    if let J::Obj(entries) = v {
                        for (id, key) in entries {
                            let kv = to_value(key);
                            // parsed from text: a member written twice inside the key is seen as such
                            let mut ktext = String::new();
                            write(key, Style::default(), &mut ktext);
                            let ok = match (hex::decode(id), serde_json::from_str::<tough::schema::key::Key>(&ktext)) {
                                (Ok(idb), Ok(parsed)) => parsed.key_id().map(|c| c == idb).unwrap_or(false),
                                _ => false,
                            };
                            keys.push(json!([cps(id), try_canon(&kv).map(hex::encode), ok]));
                        }
                    }
                }
                oracles(v, times, keys);
            }
        }
        J::Arr(a) => for v in a { oracles(v, times, keys); },
        _ => {}
    }
}

/// canonical form, `None` where there is none (floating point numbers)
fn try_canon(v: &Value) -> Option<Vec<u8>> {
    use serde::Serialize;
    let mut buf = Vec::new();
    let mut ser = serde_json::Serializer::with_formatter(&mut buf, olpc_cjson::CanonicalFormatter::new());
    v.serialize(&mut ser).ok()?;
    Some(buf)
}

struct Emit<'a> {
    ctx: &'a Ctx<'a>,
    out: Out,
}

impl<'a> Emit<'a> {
    /// `doc`: the whole file as a tree; `as_kind`: what it is read as; `sig_over`: per signature entry
    /// the message it was made over (None = garbage); `original`: text of the unmutated document
    #[allow(clippy::too_many_arguments)]
    fn case(&mut self, class: &str, group: &str, as_kind: Kind, doc: &J, style: Style, sig_over: &[(String, Option<Vec<u8>>)],
            original: Option<&str>, orig_msg: &[u8], note: Value) {
        if !self.out.wants_next() { self.out.skip(); return; }
        let mut text = String::new();
        write(doc, style, &mut text);
        let seen = observe(self.ctx, as_kind, &text, original);
        let signed_part = match doc { J::Obj(ms) => ms.iter().rev().find(|(k, _)| k == "signed").map(|(_, v)| v.clone()).unwrap_or(J::Null), _ => J::Null };
        let (mut times, mut keys) = (Vec::new(), Vec::new());
        oracles(&signed_part, &mut times, &mut keys);
        let (ids, thr) = role_of(self.ctx.pool, as_kind);
        let table: Vec<String> = self.ctx.trusted.signed.keys.keys().map(|k| hex::encode(k)).collect();
        let input = json!({"kind": as_kind.name(), "group": group, "signed": to_wire(&signed_part),
            "sigs": sig_over.iter().map(|(id, m)| json!({"keyid": id, "over": m.as_ref().map(hex::encode)})).collect::<Vec<_>>(),
            "role": {"keyids": ids, "thr": thr, "table": table}, "times": times, "keys": keys,
            "orig_msg": hex::encode(orig_msg), "note": note});
        let imp = json!({"parse": seen.parse, "verify": seen.verify, "canon": seen.canon.map(hex::encode), "same_as_original": seen.same_as});
        self.out.case_nt(class, input, imp, group != "base");
    }
}

fn wrap(signed: &J, sigs: &[(String, Vec<u8>)]) -> J {
    J::Obj(vec![
        ("signed".into(), signed.clone()),
        ("signatures".into(), J::Arr(sigs.iter().map(|(id, s)| J::Obj(vec![("keyid".into(), J::Str(id.clone())), ("sig".into(), J::Str(hex::encode(s)))])).collect())),
    ])
}

fn shuffle_all(j: &mut J, r: &mut Rng) {
    match j {
        J::Obj(ms) => { r.shuffle(ms); for (_, v) in ms.iter_mut() { shuffle_all(v, r); } }
        J::Arr(a) => for v in a.iter_mut() { shuffle_all(v, r); },
        _ => {}
    }
}

fn main() {
    let mut args = parse_args();
    let mut only = None;
    if let Some(p) = &args.replay {
        let v: Value = serde_json::from_str(&std::fs::read_to_string(p).unwrap()).unwrap();
        if let Some(t) = v["tier"].as_str() { args.tier = t.into(); }
        if let Some(s) = v["seed"].as_u64() { args.seed = s; }
        only = v["case"]["id"].as_u64();
    }
    let thorough = args.tier == "thorough";
    let pool = KeyPool::load();
    let expires = "2031-05-06T07:08:09Z".to_string();
    let trusted_value = meta::signed_by(&root_value(&pool, 1, &expires), &[&pool.ed[7], &pool.rsa[0]]);
    let trusted: Signed<Root> = serde_json::from_value(trusted_value).expect("trusted root parses");
    let ctx = Ctx { pool: &pool, trusted, expires };
    let mut out = Out::new(&args.out);
    out.only = only;
    let mut em = Emit { ctx: &ctx, out };
    let mut r = Rng::new(args.seed, 12);
    let kinds = [Kind::Root, Kind::Timestamp, Kind::Snapshot, Kind::Targets];

    for kind in kinds {
        let ks = signers(&pool, kind);
        for (variant, extras, de, dre, ts) in [("plain", false, false, false, 0usize), ("extras", true, false, false, 0), ("extras-time-offset", true, false, false, 1), ("extras-time-millis", true, false, false, 2)] {
            let sv = base_signed(&ctx, kind, extras, de, dre, ts);
            let msg = canon(&sv);
            let sigs: Vec<(String, Vec<u8>)> = ks.iter().map(|k| (k.id.clone(), k.sign(&msg))).collect();
            let over: Vec<(String, Option<Vec<u8>>)> = sigs.iter().map(|(id, _)| (id.clone(), Some(msg.clone()))).collect();
            let signed = from_value(&sv);
            let doc = wrap(&signed, &sigs);
            let mut original = String::new();
            write(&doc, Style::default(), &mut original);
            // the document as its author wrote it
            em.case(&format!("{}-base-{variant}", kind.name()), "base", kind, &doc, Style::default(), &over, None, &msg, json!(null));
            if variant != "extras" && !(variant == "plain" && thorough) { continue; }

            // --- formatting: none of this may matter
            em.case(&format!("{}-format-whitespace", kind.name()), "format", kind, &doc, Style { ws: true, escape_all: false }, &over, Some(&original), &msg, json!(null));
            em.case(&format!("{}-format-escapes", kind.name()), "format", kind, &doc, Style { ws: false, escape_all: true }, &over, Some(&original), &msg, json!(null));
            for _ in 0..(if thorough { 10 } else { 3 }) {
                let mut d = doc.clone();
                shuffle_all(&mut d, &mut r);
                // arrays keep their order (they are lists): undo array shuffles by only shuffling members
                em.case(&format!("{}-format-reorder", kind.name()), "format", kind, &d, Style { ws: r.chance(1, 2), escape_all: false }, &over, Some(&original), &msg, json!(null));
            }
            // extra signature entries that do not count, unknown members outside the signed portion
            {
                let stranger = &pool.ed[3];
                let mut s2 = sigs.clone();
                s2.insert(0, (stranger.id.clone(), stranger.sign(&msg)));
                s2.push(("00".repeat(32), vec![1, 2, 3]));
                let mut o2 = over.clone();
                o2.insert(0, (stranger.id.clone(), Some(msg.clone())));
                o2.push(("00".repeat(32), None));
                let mut d = wrap(&signed, &s2);
                if let J::Obj(ms) = &mut d {
                    ms.push(("x-outside".into(), J::Str("unknown member next to signed".into())));
                    if let J::Arr(a) = &mut ms[1].1 { if let J::Obj(e) = &mut a[1] { e.push(("x-sig".into(), J::Int(1))); } }
                }
                em.case(&format!("{}-format-extra-signatures", kind.name()), "format", kind, &d, Style::default(), &o2, Some(&original), &msg, json!(null));
            }

            // --- single-point mutations of the signed portion
            let mut paths = Vec::new();
            all_paths(&signed, &mut Vec::new(), &mut paths);
            for p in &paths {
                let here = path_text(&signed, p);
                let node = get(&signed, p).clone();
                let mut mutants: Vec<(&'static str, J)> = Vec::new();
                match &node {
                    J::Int(i) => { mutants.push(("scalar", J::Int(i + 1))); mutants.push(("scalar", J::Int(0))); mutants.push(("scalar-float", J::Float)); }
                    J::Bool(b) => mutants.push(("scalar", J::Bool(!b))),
                    J::Null => mutants.push(("scalar", J::Int(0))),
                    J::Str(s) => {
                        mutants.push(("scalar", J::Str(format!("{s}x"))));
                        if let Some(c) = s.chars().next() {
                            let flipped: String = std::iter::once(if c == '0' { '1' } else if c.is_ascii_digit() { '0' } else if c == 'a' { 'b' } else { 'a' }).chain(s.chars().skip(1)).collect();
                            if flipped != *s { mutants.push(("scalar", J::Str(flipped))); }
                            let upper = s.to_uppercase();
                            if upper != *s { mutants.push(("scalar-case", J::Str(upper))); }
                        }
                        mutants.push(("scalar", J::Null));
                    }
                    J::Obj(ms) => {
                        // insertion
                        let mut a = ms.clone(); a.push(("zz-inserted".into(), J::Int(1))); mutants.push(("insert", J::Obj(a)));
                        let mut a = ms.clone(); a.insert(0, ("_type".into(), J::Str("snapshot".into()))); mutants.push(("insert-type", J::Obj(a)));
                        // a delegated role with both kinds of path set
                        for (has, other) in [("paths", "path_hash_prefixes"), ("path_hash_prefixes", "paths")] {
                            if ms.iter().any(|(k, _)| k == has) {
                                let mut a = ms.clone(); a.push((other.into(), J::Arr(vec![J::Str("ab".into())]))); mutants.push(("insert-other-pathset-last", J::Obj(a)));
                                let mut a = ms.clone(); a.insert(0, (other.into(), J::Arr(vec![J::Str("ab".into())]))); mutants.push(("insert-other-pathset-first", J::Obj(a)));
                            }
                        }
                        for i in 0..ms.len() {
                            // deletion
                            let mut a = ms.clone(); a.remove(i); mutants.push(("delete", J::Obj(a)));
                            // duplication: same value; changed value first; changed value last
                            let mut a = ms.clone(); a.insert(i, ms[i].clone()); mutants.push(("duplicate-same", J::Obj(a)));
                            let changed = match &ms[i].1 { J::Int(n) => J::Int(n + 1), J::Str(s) => J::Str(format!("{s}y")), J::Bool(b) => J::Bool(!b), other => { let _ = other; J::Int(99) } };
                            let mut a = ms.clone(); a.insert(i, (ms[i].0.clone(), changed.clone())); mutants.push(("duplicate-changed-first", J::Obj(a)));
                            let mut a = ms.clone(); a.push((ms[i].0.clone(), changed.clone())); mutants.push(("duplicate-changed-last", J::Obj(a)));
                            // a sibling whose name differs from this member's only by an escaped character (backslash, quotation mark)
                            if !ms[i].0.is_empty() {
                                let k = &ms[i].0;
                                let cut = k.char_indices().nth(1).map(|(i, _)| i).unwrap_or(k.len());
                                let near = format!("{}\\{}", &k[..cut], &k[cut..]);
                                let mut a = ms.clone(); a.insert(i, (near.clone(), changed.clone())); mutants.push(("insert-near-name-first", J::Obj(a)));
                                let mut a = ms.clone(); a.push((near, changed.clone())); mutants.push(("insert-near-name-last", J::Obj(a)));
                                let mut a = ms.clone(); a.push((format!("{k}\""), changed.clone())); mutants.push(("insert-near-name-quote", J::Obj(a)));
                            }
                            // the role tag
                            if ms[i].0 == "_type" && p.is_empty() {
                                for other in kinds { if other != kind {
                                    let mut a = ms.clone(); a[i].1 = J::Str(other.name().into()); mutants.push(("type-swap", J::Obj(a)));
                                } }
                            }
                        }
                    }
                    J::Arr(xs) => {
                        let mut a = xs.clone(); a.push(J::Str("ff".into())); mutants.push(("insert-element", J::Arr(a)));
                        if !xs.is_empty() { let mut a = xs.clone(); a.remove(0); mutants.push(("delete-element", J::Arr(a))); }
                        if xs.len() >= 2 { let mut a = xs.clone(); a.swap(0, 1); mutants.push(("swap-elements", J::Arr(a))); }
                        if !xs.is_empty() { let mut a = xs.clone(); a.push(xs[0].clone()); mutants.push(("duplicate-element", J::Arr(a))); }
                    }
                    J::Float => {}
                }
                // quick tier: a sample of the structural mutants, all scalar ones
                for (what, m) in mutants {
                    if m == node { continue; }
                    if !thorough && !what.starts_with("scalar") && !what.starts_with("type") && !r.chance(1, 3) { em.out.skip(); continue; }
                    let mut s2 = signed.clone();
                    *get_mut(&mut s2, p) = m;
                    let d = wrap(&s2, &sigs);
                    em.case(&format!("{}-mutate-{what}", kind.name()), "mutate", kind, &d, Style::default(), &over, Some(&original), &msg, json!({"at": here}));
                }
            }

            // --- a document of this role presented as another role (shared keys)
            for other in kinds {
                if other != kind {
                    em.case(&format!("{}-swap-as-{}", kind.name(), other.name()), "swap", other, &doc, Style::default(), &over, None, &msg, json!(null));
                }
            }
        }
    }

    // conforming documents with unknown members where tough has no catch-all
    for (variant, de, dre) in [("delegations", true, false), ("delegated-role", false, true)] {
        let kind = Kind::Targets;
        let sv = base_signed(&ctx, kind, true, de, dre, 0);
        let msg = canon(&sv);
        let ks = signers(&pool, kind);
        let sigs: Vec<(String, Vec<u8>)> = ks.iter().map(|k| (k.id.clone(), k.sign(&msg))).collect();
        let over: Vec<(String, Option<Vec<u8>>)> = sigs.iter().map(|(id, _)| (id.clone(), Some(msg.clone()))).collect();
        let doc = wrap(&from_value(&sv), &sigs);
        em.case(&format!("targets-base-extras-in-{variant}"), "base", kind, &doc, Style::default(), &over, None, &msg, json!(null));
    }
    em.out.finish();
}
