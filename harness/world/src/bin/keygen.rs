//! One-off generator of the committed ECDSA test keys (`keys/ec*.pk8`).
use aws_lc_rs::rand::SystemRandom;
use aws_lc_rs::signature::{EcdsaKeyPair, ECDSA_P256_SHA256_ASN1_SIGNING};
fn main() {
    let rng = SystemRandom::new();
    for i in 0..4 {
        let doc = EcdsaKeyPair::generate_pkcs8(&ECDSA_P256_SHA256_ASN1_SIGNING, &rng).unwrap();
        std::fs::write(vworld::keys::keys_dir().join(format!("ec{i}.pk8")), doc.as_ref()).unwrap();
    }
}
