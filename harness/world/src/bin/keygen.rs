//! One-off generator of the committed ECDSA test keys (`keys/ec*.pk8`).
use aws_lc_rs::rand::SystemRandom;
use aws_lc_rs::signature::{EcdsaKeyPair, Ed25519KeyPair, ECDSA_P256_SHA256_ASN1_SIGNING};
fn main() {
    let rng = SystemRandom::new();
    // ed25519 keys in PKCS#8 v2 (the form `tough::sign::parse_keypair` accepts from a key file)
    for i in 0..3 {
        let p = vworld::keys::keys_dir().join(format!("edv2_{i}.pk8"));
        if !p.exists() {
            let doc = Ed25519KeyPair::generate_pkcs8(&rng).unwrap();
            std::fs::write(p, doc.as_ref()).unwrap();
        }
    }
    for i in 0..4 {
        if vworld::keys::keys_dir().join(format!("ec{i}.pk8")).exists() { continue; }
        let doc = EcdsaKeyPair::generate_pkcs8(&ECDSA_P256_SHA256_ASN1_SIGNING, &rng).unwrap();
        std::fs::write(vworld::keys::keys_dir().join(format!("ec{i}.pk8")), doc.as_ref()).unwrap();
    }
}
