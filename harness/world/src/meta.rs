//! Writing TUF metadata as JSON values and signing them for real.
use crate::keys::PoolKey;
use serde::Serialize;
use serde_json::{json, Map, Value};

/// canonical form as the *repository's* formatter produces it
pub fn canon(v: &Value) -> Vec<u8> {
    let mut buf = Vec::new();
    let mut ser = serde_json::Serializer::with_formatter(&mut buf, olpc_cjson::CanonicalFormatter::new());
    v.serialize(&mut ser).expect("canonical form");
    buf
}

/// One entry of a `signatures` array as the generator describes it.
#[derive(Clone)]
pub enum SigSpec<'a> {
    /// genuine signature by `key` over the document
    Valid(&'a PoolKey),
    /// a second, separately produced signature by `key` over the document, the key id in upper-case hex
    ValidAgain(&'a PoolKey),
    /// genuine signature by `key` with one bit flipped
    Corrupt(&'a PoolKey),
    /// genuine signature by `key` over other content
    OtherContent(&'a PoolKey),
    /// signature made by `signer`, attributed to `claimed`
    Claim { claimed: &'a PoolKey, signer: &'a PoolKey },
}

pub fn sig_entry(spec: &SigSpec<'_>, msg: &[u8]) -> Value {
    match spec {
        SigSpec::Valid(k) => json!({"keyid": k.id, "sig": hex::encode(k.sign(msg))}),
        // the key id spelled in the other hex case: it names the same key
        SigSpec::ValidAgain(k) => json!({"keyid": k.id.to_uppercase(), "sig": hex::encode(k.sign_fresh(msg))}),
        SigSpec::Corrupt(k) => {
            let mut s = k.sign(msg);
            let n = s.len();
            s[n / 2] ^= 0x40;
            json!({"keyid": k.id, "sig": hex::encode(s)})
        }
        SigSpec::OtherContent(k) => {
            let mut other = msg.to_vec();
            other.extend_from_slice(b" ");
            json!({"keyid": k.id, "sig": hex::encode(k.sign(&other))})
        }
        SigSpec::Claim { claimed, signer } => json!({"keyid": claimed.id, "sig": hex::encode(signer.sign(msg))}),
    }
}

/// `{"signed": …, "signatures": […]}` with the given signature entries over canon(signed)
pub fn signed(signed: &Value, sigs: &[SigSpec<'_>]) -> Value {
    let msg = canon(signed);
    json!({"signed": signed, "signatures": sigs.iter().map(|s| sig_entry(s, &msg)).collect::<Vec<_>>()})
}

pub fn signed_by(signed_part: &Value, keys: &[&PoolKey]) -> Value {
    let specs: Vec<SigSpec<'_>> = keys.iter().map(|k| SigSpec::Valid(k)).collect();
    signed(signed_part, &specs)
}

/// RFC 3339 time `secs` seconds from `base`
pub fn time_at(base: chrono::DateTime<chrono::Utc>, secs: i64) -> String {
    (base + chrono::Duration::seconds(secs)).format("%Y-%m-%dT%H:%M:%SZ").to_string()
}

pub fn role_keys(keys: &[&PoolKey], threshold: u64) -> Value {
    json!({"keyids": keys.iter().map(|k| k.id.clone()).collect::<Vec<_>>(), "threshold": threshold})
}

pub fn key_table(keys: &[&PoolKey]) -> Value {
    let mut m = Map::new();
    for k in keys {
        m.insert(k.id.clone(), k.public.clone());
    }
    Value::Object(m)
}

pub struct RootSpec<'a> {
    pub version: u64,
    pub expires: String,
    pub consistent: bool,
    /// keys present in the key table
    pub table: Vec<&'a PoolKey>,
    pub root: (Vec<&'a PoolKey>, u64),
    pub timestamp: (Vec<&'a PoolKey>, u64),
    pub snapshot: (Vec<&'a PoolKey>, u64),
    pub targets: (Vec<&'a PoolKey>, u64),
}

pub fn root_json(r: &RootSpec<'_>) -> Value {
    json!({"_type": "root", "spec_version": "1.0.0", "consistent_snapshot": r.consistent,
        "version": r.version, "expires": r.expires, "keys": key_table(&r.table),
        "roles": {
            "root": role_keys(&r.root.0, r.root.1),
            "timestamp": role_keys(&r.timestamp.0, r.timestamp.1),
            "snapshot": role_keys(&r.snapshot.0, r.snapshot.1),
            "targets": role_keys(&r.targets.0, r.targets.1),
        }})
}

pub fn meta_entry(version: u64, length: Option<u64>, sha256: Option<&[u8]>) -> Value {
    let mut m = Map::new();
    m.insert("version".into(), json!(version));
    if let Some(l) = length {
        m.insert("length".into(), json!(l));
    }
    if let Some(h) = sha256 {
        m.insert("hashes".into(), json!({"sha256": hex::encode(h)}));
    }
    Value::Object(m)
}

pub fn timestamp_json(version: u64, expires: &str, snapshot_meta: Option<Value>) -> Value {
    let mut meta = Map::new();
    if let Some(m) = snapshot_meta {
        meta.insert("snapshot.json".into(), m);
    }
    json!({"_type": "timestamp", "spec_version": "1.0.0", "version": version, "expires": expires, "meta": meta})
}

pub fn snapshot_json(version: u64, expires: &str, meta: Map<String, Value>) -> Value {
    json!({"_type": "snapshot", "spec_version": "1.0.0", "version": version, "expires": expires, "meta": meta})
}

pub fn targets_json(version: u64, expires: &str, targets: Map<String, Value>, delegations: Option<Value>) -> Value {
    let mut v = json!({"_type": "targets", "spec_version": "1.0.0", "version": version, "expires": expires, "targets": targets});
    if let Some(d) = delegations {
        v["delegations"] = d;
    }
    v
}

pub fn target_entry(length: u64, sha256: &[u8]) -> Value {
    json!({"length": length, "hashes": {"sha256": hex::encode(sha256)}})
}

pub fn sha256(data: &[u8]) -> Vec<u8> {
    aws_lc_rs::digest::digest(&aws_lc_rs::digest::SHA256, data).as_ref().to_vec()
}
