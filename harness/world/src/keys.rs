use aws_lc_rs::rand::SystemRandom;
use aws_lc_rs::signature::{EcdsaKeyPair, Ed25519KeyPair, RsaKeyPair, ECDSA_P256_SHA256_ASN1_SIGNING};
use serde_json::Value;
use std::collections::HashMap;
use std::path::PathBuf;
use std::sync::Mutex;
use tough::sign::Sign;

pub enum Pair {
    Ed(Ed25519KeyPair),
    Ec(EcdsaKeyPair),
    Rsa(RsaKeyPair),
}

pub struct PoolKey {
    pub name: String,
    pub pair: Pair,
    /// hex key id as computed by tough (`Key::key_id`)
    pub id: String,
    /// the public key as TUF JSON
    pub public: Value,
    pub file: PathBuf,
    cache: Mutex<HashMap<Vec<u8>, Vec<u8>>>,
}

impl PoolKey {
    fn new(name: &str, pair: Pair, file: PathBuf) -> Self {
        let key = match &pair {
            Pair::Ed(k) => k.tuf_key(),
            Pair::Ec(k) => k.tuf_key(),
            Pair::Rsa(k) => k.tuf_key(),
        };
        let id = hex::encode(key.key_id().expect("key id"));
        let public = serde_json::to_value(&key).unwrap();
        PoolKey { name: name.into(), pair, id, public, file, cache: Mutex::new(HashMap::new()) }
    }

    /// A genuine signature over `msg` (cached per message: one signature per (key, message)).
    pub fn sign(&self, msg: &[u8]) -> Vec<u8> {
        if let Some(s) = self.cache.lock().unwrap().get(msg) {
            return s.clone();
        }
        let s = self.sign_fresh(msg);
        self.cache.lock().unwrap().insert(msg.to_vec(), s.clone());
        s
    }

    /// A new signature (for randomised schemes it differs from the cached one).
    pub fn sign_fresh(&self, msg: &[u8]) -> Vec<u8> {
        let rng = SystemRandom::new();
        match &self.pair {
            Pair::Ed(k) => k.sign(msg).as_ref().to_vec(),
            Pair::Ec(k) => k.sign(&rng, msg).expect("ecdsa sign").as_ref().to_vec(),
            Pair::Rsa(k) => {
                let mut sig = vec![0; k.public_modulus_len()];
                k.sign(&aws_lc_rs::signature::RSA_PSS_SHA256, &rng, msg, &mut sig).expect("rsa sign");
                sig
            }
        }
    }
}

pub struct KeyPool {
    pub ed: Vec<PoolKey>,
    pub ec: Vec<PoolKey>,
    pub rsa: Vec<PoolKey>,
}

pub fn keys_dir() -> PathBuf {
    PathBuf::from(env!("CARGO_MANIFEST_DIR")).join("..").join("keys")
}

impl KeyPool {
    pub fn load() -> Self {
        let dir = keys_dir();
        let mut ed = Vec::new();
        for i in 0..12 {
            let f = dir.join(format!("ed{i}.pk8"));
            let der = std::fs::read(&f).expect("ed key");
            let kp = Ed25519KeyPair::from_pkcs8_maybe_unchecked(&der).expect("ed25519 pkcs8");
            ed.push(PoolKey::new(&format!("ed{i}"), Pair::Ed(kp), f));
        }
        let mut ec = Vec::new();
        for i in 0..4 {
            let f = dir.join(format!("ec{i}.pk8"));
            let der = std::fs::read(&f).expect("ec key");
            let kp = EcdsaKeyPair::from_pkcs8(&ECDSA_P256_SHA256_ASN1_SIGNING, &der).expect("ecdsa pkcs8");
            ec.push(PoolKey::new(&format!("ec{i}"), Pair::Ec(kp), f));
        }
        let mut rsa = Vec::new();
        for i in 0..4 {
            let f = dir.join(format!("rsa{i}.pem"));
            let pemtext = std::fs::read(&f).expect("rsa key");
            let p = pem::parse(&pemtext).expect("pem");
            let kp = RsaKeyPair::from_pkcs8(p.contents()).expect("rsa pkcs8");
            rsa.push(PoolKey::new(&format!("rsa{i}"), Pair::Rsa(kp), f));
        }
        KeyPool { ed, ec, rsa }
    }

    /// all keys: ed first, then ec, then rsa
    pub fn all(&self) -> Vec<&PoolKey> {
        self.ed.iter().chain(self.ec.iter()).chain(self.rsa.iter()).collect()
    }
}
