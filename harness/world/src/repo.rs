//! Assembling a well-formed repository state (abstract docs + served files) bottom-up, so that
//! pinning documents describe the real bytes of the files they pin.
use crate::client::*;
use crate::meta;

#[derive(Clone, Copy, Debug, Default)]
pub struct Pin {
    pub length: bool,
    pub hash: bool,
}

pub struct MsgGen(pub u64);
impl MsgGen {
    pub fn next(&mut self) -> u64 {
        self.0 += 1;
        self.0
    }
}

#[derive(Clone, Debug)]
pub struct Online {
    pub ts_sigs: Vec<ASig>,
    pub snap_sigs: Vec<ASig>,
    pub ts_expires: i64,
    pub snap_expires: i64,
}

#[derive(Clone, Debug)]
pub struct Assembled {
    pub server: Vec<(AName, AResp)>,
    pub ts: ATimestamp,
    pub snap: ASnapshot,
}

pub const DAY: i64 = 86_400;

pub fn simple_root(version: u64, consistent: bool, root: (Vec<usize>, u64), ts: (Vec<usize>, u64),
                   snap: (Vec<usize>, u64), tgt: (Vec<usize>, u64), msg: u64, signers: &[usize]) -> ARoot {
    let mut table: Vec<usize> = Vec::new();
    for k in root.0.iter().chain(&ts.0).chain(&snap.0).chain(&tgt.0) {
        if !table.contains(k) {
            table.push(*k);
        }
    }
    ARoot {
        version,
        expires: 30 * DAY,
        consistent,
        table,
        root: Some(ARoleKeys { ids: root.0, thr: root.1 }),
        timestamp: Some(ARoleKeys { ids: ts.0, thr: ts.1 }),
        snapshot: Some(ARoleKeys { ids: snap.0, thr: snap.1 }),
        targets: Some(ARoleKeys { ids: tgt.0, thr: tgt.1 }),
        msg,
        sigs: valid_sigs(signers),
    }
}

fn pinned(world: &mut World<'_>, file: &AFile, version: u64, pin: Pin) -> AMeta {
    let bytes = world.file_bytes(file);
    let h = world.digest_id(&meta::sha256(&bytes));
    AMeta { version, length: if pin.length { Some(bytes.len() as u64) } else { None }, hash: if pin.hash { Some(h) } else { None } }
}

/// Top-level targets + delegated role files -> snapshot -> timestamp, named as `consistent` says.
#[allow(clippy::too_many_arguments)]
pub fn assemble(world: &mut World<'_>, consistent: bool, ts_version: u64, snap_version: u64,
                top: &ATargets, roles: &[(usize, ATargets)], pin: Pin, online: &Online, msgs: &mut MsgGen) -> Assembled {
    assemble_with(world, consistent, ts_version, snap_version, top, roles, pin, online, msgs, &mut |_, _, _| {})
}

/// like `assemble`; `tweak(which, real_len, meta)` may alter the pinning entry of "targets",
/// "role:<n>" or "snapshot" before the pinning document is written
#[allow(clippy::too_many_arguments)]
pub fn assemble_with(world: &mut World<'_>, consistent: bool, ts_version: u64, snap_version: u64,
                top: &ATargets, roles: &[(usize, ATargets)], pin: Pin, online: &Online, msgs: &mut MsgGen,
                tweak: &mut dyn FnMut(&str, u64, &mut AMeta)) -> Assembled {
    let mut server = Vec::new();
    let mut meta_list = Vec::new();
    let top_file = AFile::plain(AContent::Targets(top.clone()));
    let mut m = pinned(world, &top_file, top.version, pin);
    let l = world.file_bytes(&top_file).len() as u64;
    tweak("targets", l, &mut m);
    // convention: a tweak that sets version 0 drops the entry from the snapshot
    if m.version != 0 {
        meta_list.push((AMetaKey::Targets, m));
    }
    server.push((AName::Targets(if consistent { Some(top.version) } else { None }), AResp::File(top_file)));
    for (r, doc) in roles {
        let f = AFile::plain(AContent::Targets(doc.clone()));
        let mut m = pinned(world, &f, doc.version, pin);
        let l = world.file_bytes(&f).len() as u64;
        tweak(&format!("role:{r}"), l, &mut m);
        meta_list.push((AMetaKey::Role(*r), m));
        server.push((AName::Role(*r, if consistent { Some(doc.version) } else { None }), AResp::File(f)));
    }
    let snap = ASnapshot { version: snap_version, expires: online.snap_expires, meta: meta_list, msg: msgs.next(), sigs: online.snap_sigs.clone() };
    let snap_file = AFile::plain(AContent::Snapshot(snap.clone()));
    let mut sm = pinned(world, &snap_file, snap_version, pin);
    let l = world.file_bytes(&snap_file).len() as u64;
    tweak("snapshot", l, &mut sm);
    server.push((AName::Snapshot(if consistent { Some(snap_version) } else { None }), AResp::File(snap_file)));
    let ts = ATimestamp { version: ts_version, expires: online.ts_expires, snap: Some(sm), msg: msgs.next(), sigs: online.ts_sigs.clone() };
    server.push((AName::Timestamp, AResp::File(AFile::plain(AContent::Timestamp(ts.clone())))));
    Assembled { server, ts, snap }
}

pub fn empty_targets(version: u64, msg: u64, signers: &[usize]) -> ATargets {
    ATargets { version, expires: 7 * DAY, entries: vec![], deleg: None, msg, sigs: valid_sigs(signers) }
}

pub fn set_file(server: &mut Vec<(AName, AResp)>, name: AName, resp: AResp) {
    if let Some(e) = server.iter_mut().find(|(n, _)| *n == name) {
        e.1 = resp;
    } else {
        server.push((name, resp));
    }
}
