//! A scripted in-memory `Transport`.
use bytes::Bytes;
use futures::StreamExt;
use std::collections::HashMap;
use std::sync::{Arc, Mutex};
use tough::{async_trait, Transport, TransportError, TransportErrorKind};
use url::Url;

pub type TS = std::pin::Pin<Box<dyn futures::Stream<Item = Result<Bytes, TransportError>> + Send>>;

#[derive(Clone, Debug)]
pub enum Chunk {
    Data(Vec<u8>),
    /// an error item of kind `FileNotFound`
    ErrNotFound,
    /// an error item of kind `Other`
    ErrOther,
    /// the same non-empty chunk for ever
    Endless(Vec<u8>),
}

#[derive(Clone, Debug)]
pub enum Resp {
    /// `fetch` fails with `FileNotFound`
    NotFound,
    /// `fetch` fails with `Other`
    OpenErr,
    Stream(Vec<Chunk>),
}

#[derive(Debug, Default)]
pub struct Log {
    /// requested paths in order
    pub requests: Vec<String>,
    /// bytes handed out per request (same index as `requests`)
    pub pulled: Vec<u64>,
}

#[derive(Clone)]
pub struct Mem {
    pub files: Arc<Mutex<HashMap<String, Resp>>>,
    pub log: Arc<Mutex<Log>>,
    /// after this many requests every fetch fails (non-termination guard)
    pub cap: usize,
    /// chunk size used by `put` (0 = one chunk)
    pub chunk: usize,
    /// called every time a stream is polled, before the item is produced
    pub observer: Arc<Mutex<Option<Box<dyn FnMut() + Send>>>>,
    /// response for any path below `/t/` that has no entry of its own
    pub any_target: Arc<Mutex<Option<Resp>>>,
}

impl std::fmt::Debug for Mem {
    fn fmt(&self, f: &mut std::fmt::Formatter<'_>) -> std::fmt::Result {
        write!(f, "Mem")
    }
}

impl Mem {
    pub fn new(cap: usize) -> Self {
        Mem { files: Default::default(), log: Default::default(), cap, chunk: 0, observer: Arc::new(Mutex::new(None)), any_target: Arc::new(Mutex::new(None)) }
    }
    pub fn put(&self, path: &str, bytes: Vec<u8>) {
        let chunks = if self.chunk == 0 || bytes.is_empty() {
            vec![Chunk::Data(bytes)]
        } else {
            bytes.chunks(self.chunk).map(|c| Chunk::Data(c.to_vec())).collect()
        };
        self.files.lock().unwrap().insert(path.to_string(), Resp::Stream(chunks));
    }
    pub fn put_resp(&self, path: &str, r: Resp) {
        self.files.lock().unwrap().insert(path.to_string(), r);
    }
    pub fn remove(&self, path: &str) {
        self.files.lock().unwrap().remove(path);
    }
    pub fn requests(&self) -> Vec<String> {
        self.log.lock().unwrap().requests.clone()
    }
    pub fn pulled(&self) -> Vec<u64> {
        self.log.lock().unwrap().pulled.clone()
    }
    pub fn clear_log(&self) {
        *self.log.lock().unwrap() = Log::default();
    }
    pub fn capped(&self) -> bool {
        self.log.lock().unwrap().requests.len() > self.cap
    }
}

#[async_trait]
impl Transport for Mem {
    async fn fetch(&self, url: Url) -> Result<TS, TransportError> {
        let path = url.path().to_string();
        let idx;
        {
            let mut log = self.log.lock().unwrap();
            log.requests.push(path.clone());
            log.pulled.push(0);
            idx = log.requests.len() - 1;
            if log.requests.len() > self.cap {
                return Err(TransportError::new(TransportErrorKind::Other, url));
            }
        }
        let mut resp = self.files.lock().unwrap().get(&path).cloned();
        if resp.is_none() && path.starts_with("/t/") {
            resp = self.any_target.lock().unwrap().clone();
        }
        let resp = resp.unwrap_or(Resp::NotFound);
        match resp {
            Resp::NotFound => Err(TransportError::new(TransportErrorKind::FileNotFound, url)),
            Resp::OpenErr => Err(TransportError::new(TransportErrorKind::Other, url)),
            Resp::Stream(chunks) => {
                let log = self.log.clone();
                let u = url.clone();
                let mut it = chunks.into_iter();
                let mut endless: Option<Vec<u8>> = None;
                let observer = self.observer.clone();
                let s = futures::stream::poll_fn(move |_| {
                    if let Some(f) = observer.lock().unwrap().as_mut() {
                        f();
                    }
                    let item = if let Some(e) = &endless {
                        Some(Chunk::Data(e.clone()))
                    } else {
                        it.next()
                    };
                    let out = match item {
                        None => None,
                        Some(Chunk::Data(d)) => {
                            log.lock().unwrap().pulled[idx] += d.len() as u64;
                            Some(Ok(Bytes::from(d)))
                        }
                        Some(Chunk::Endless(d)) => {
                            log.lock().unwrap().pulled[idx] += d.len() as u64;
                            endless = Some(d.clone());
                            Some(Ok(Bytes::from(d)))
                        }
                        Some(Chunk::ErrNotFound) => Some(Err(TransportError::new(TransportErrorKind::FileNotFound, u.clone()))),
                        Some(Chunk::ErrOther) => Some(Err(TransportError::new(TransportErrorKind::Other, u.clone()))),
                    };
                    std::task::Poll::Ready(out)
                });
                Ok(s.boxed())
            }
        }
    }
}
