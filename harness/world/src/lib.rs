//! The materialised world of a correspondence case: real keys, real signatures, a scripted
//! in-memory `Transport`, helpers to write TUF metadata as JSON.
pub mod keys;
pub mod mem;
pub mod meta;
pub mod client;
pub mod repo;

pub use keys::{KeyPool, PoolKey};
pub use mem::{Chunk, Mem, Resp};
