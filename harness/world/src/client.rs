//! Abstract description of a client-side case (what the Lean model `Tough.Client` consumes), its
//! materialisation with real keys / signatures / JSON files into a scripted transport and a
//! datastore directory, and the observation of `RepositoryLoader::load` on it.
use crate::keys::{KeyPool, PoolKey};
use crate::mem::{Chunk, Mem, Resp};
use crate::meta::{self, SigSpec};
use serde_json::{json, Map, Value};
use std::collections::HashMap;
use std::path::Path;
use tough::{ExpirationEnforcement, Limits, Repository, RepositoryLoader};
use url::Url;

/// how one signature entry is produced; `key`/`signer` index the key pool
#[derive(Clone, Debug, PartialEq)]
pub enum SigKind {
    Valid,
    /// a second signature by the same key (distinct bytes for randomised schemes)
    Again,
    Corrupt,
    OtherContent,
    /// made by pool key `signer`, attributed to `key`
    ClaimBy(usize),
}

#[derive(Clone, Debug)]
pub struct ASig {
    pub key: usize,
    pub kind: SigKind,
}

impl ASig {
    pub fn valid(key: usize) -> Self {
        ASig { key, kind: SigKind::Valid }
    }
    fn model(&self, msg: u64) -> Value {
        let (signer, m): (Option<usize>, u64) = match &self.kind {
            SigKind::Valid | SigKind::Again => (Some(self.key), msg),
            SigKind::Corrupt => (None, msg),
            SigKind::OtherContent => (Some(self.key), msg + 1_000_000),
            SigKind::ClaimBy(s) => (Some(*s), msg),
        };
        json!({"k": self.key, "s": signer, "m": m})
    }
    fn spec<'a>(&self, pool: &'a [&'a PoolKey]) -> SigSpec<'a> {
        let k = pool[self.key];
        match &self.kind {
            SigKind::Valid => SigSpec::Valid(k),
            SigKind::Again => SigSpec::ValidAgain(k),
            SigKind::Corrupt => SigSpec::Corrupt(k),
            SigKind::OtherContent => SigSpec::OtherContent(k),
            SigKind::ClaimBy(s) => SigSpec::Claim { claimed: k, signer: pool[*s] },
        }
    }
}

pub fn valid_sigs(keys: &[usize]) -> Vec<ASig> {
    keys.iter().map(|&k| ASig::valid(k)).collect()
}

#[derive(Clone, Debug)]
pub struct ARoleKeys {
    pub ids: Vec<usize>,
    pub thr: u64,
}

#[derive(Clone, Debug)]
pub struct ARoot {
    pub version: u64,
    /// seconds relative to the case's base time
    pub expires: i64,
    pub consistent: bool,
    pub table: Vec<usize>,
    pub root: Option<ARoleKeys>,
    pub snapshot: Option<ARoleKeys>,
    pub targets: Option<ARoleKeys>,
    pub timestamp: Option<ARoleKeys>,
    pub msg: u64,
    pub sigs: Vec<ASig>,
}

#[derive(Clone, Debug)]
pub struct AMeta {
    pub version: u64,
    /// explicit length (may differ from the real file length)
    pub length: Option<u64>,
    /// digest identity (see `World::digest_id`)
    pub hash: Option<u64>,
}

#[derive(Clone, Debug)]
pub struct ATimestamp {
    pub version: u64,
    pub expires: i64,
    pub snap: Option<AMeta>,
    pub msg: u64,
    pub sigs: Vec<ASig>,
}

#[derive(Clone, Debug, PartialEq)]
pub enum AMetaKey {
    Targets,
    Role(usize),
}

#[derive(Clone, Debug)]
pub struct ASnapshot {
    pub version: u64,
    pub expires: i64,
    pub meta: Vec<(AMetaKey, AMeta)>,
    pub msg: u64,
    pub sigs: Vec<ASig>,
}

#[derive(Clone, Debug)]
pub struct ADRole {
    pub name: usize,
    pub ids: Vec<usize>,
    pub thr: u64,
    /// path patterns (`paths`)
    pub patterns: Vec<String>,
    /// when non-empty the role is delegated by `path_hash_prefixes` instead of `paths`
    pub hash_prefixes: Vec<String>,
}

#[derive(Clone, Debug)]
pub struct ADeleg {
    pub table: Vec<usize>,
    pub roles: Vec<ADRole>,
}

#[derive(Clone, Debug)]
pub struct ATargets {
    pub version: u64,
    pub expires: i64,
    /// (target name index, length, digest id)
    pub entries: Vec<(usize, u64, u64)>,
    pub deleg: Option<ADeleg>,
    pub msg: u64,
    pub sigs: Vec<ASig>,
}

#[derive(Clone, Debug)]
pub enum AContent {
    Root(ARoot),
    Timestamp(ATimestamp),
    Snapshot(ASnapshot),
    Targets(ATargets),
    Garbage,
}

#[derive(Clone, Debug, PartialEq)]
pub enum AFault {
    None,
    NotFoundAt(u64),
    OtherAt(u64),
}

#[derive(Clone, Debug)]
pub struct AFile {
    pub content: AContent,
    /// append this many bytes of trailing whitespace (changes length and digest, not the document)
    pub pad: u64,
    pub endless: bool,
    pub fault: AFault,
}

impl AFile {
    pub fn plain(content: AContent) -> Self {
        AFile { content, pad: 0, endless: false, fault: AFault::None }
    }
}

#[derive(Clone, Debug)]
pub enum AResp {
    NotFound,
    OpenErr,
    File(AFile),
}

#[derive(Clone, Debug, PartialEq, Eq, Hash)]
pub enum AName {
    RootV(u64),
    Timestamp,
    Snapshot(Option<u64>),
    Targets(Option<u64>),
    Role(usize, Option<u64>),
}

#[derive(Clone, Debug)]
pub struct ALimits {
    pub max_root_size: u64,
    pub max_targets_size: u64,
    pub max_timestamp_size: u64,
    pub max_snapshot_size: u64,
    pub max_root_updates: u64,
}

impl Default for ALimits {
    fn default() -> Self {
        ALimits {
            max_root_size: 1 << 20,
            max_targets_size: 10 << 20,
            max_timestamp_size: 1 << 20,
            max_snapshot_size: 1 << 20,
            max_root_updates: 1024,
        }
    }
}

#[derive(Clone, Debug)]
pub struct ACycle {
    pub limits: ALimits,
    pub safe: bool,
    /// clock offset of this cycle in seconds relative to the base time
    pub now: i64,
    pub server: Vec<(AName, AResp)>,
    pub shipped: Option<ARoot>,
    /// after a successful load: `read_target(name)` calls at the given clock offsets
    pub reads: Vec<(i64, usize)>,
}

/// The names used by a case: role names and target names are small indices into these tables.
#[derive(Clone, Debug)]
pub struct Names {
    pub roles: Vec<String>,
    pub targets: Vec<String>,
}

impl Default for Names {
    fn default() -> Self {
        Names {
            roles: (0..8).map(|i| format!("role{i}")).collect(),
            targets: (0..8).map(|i| format!("file{i}.txt")).collect(),
        }
    }
}

fn opt<T: serde::Serialize>(o: &Option<T>) -> Value {
    match o {
        Some(x) => json!(x),
        None => Value::Null,
    }
}

pub fn pattern_matches(p: &str, name: &str) -> bool {
    p == "*" || p == name
}

// ------------------------------------------------------------------------------------------------
// model JSON

fn rk_model(r: &Option<ARoleKeys>) -> Value {
    match r {
        Some(r) => json!({"ids": r.ids, "thr": r.thr}),
        None => Value::Null,
    }
}

impl ARoot {
    pub fn model(&self) -> Value {
        json!({"v": self.version, "exp": self.expires, "cs": self.consistent, "keys": self.table,
            "roles": {"root": rk_model(&self.root), "snapshot": rk_model(&self.snapshot),
                      "targets": rk_model(&self.targets), "timestamp": rk_model(&self.timestamp)},
            "m": self.msg, "sigs": self.sigs.iter().map(|s| s.model(self.msg)).collect::<Vec<_>>()})
    }
}

fn meta_model(m: &AMeta) -> Value {
    json!({"v": m.version, "len": opt(&m.length), "hash": opt(&m.hash)})
}

impl ATimestamp {
    pub fn model(&self) -> Value {
        json!({"v": self.version, "exp": self.expires,
            "snap": self.snap.as_ref().map(meta_model).unwrap_or(Value::Null),
            "m": self.msg, "sigs": self.sigs.iter().map(|s| s.model(self.msg)).collect::<Vec<_>>()})
    }
}

impl ASnapshot {
    pub fn model(&self) -> Value {
        let meta: Vec<Value> = self
            .meta
            .iter()
            .map(|(k, m)| {
                let kk = match k {
                    AMetaKey::Targets => json!("targets"),
                    AMetaKey::Role(n) => json!({ "role": n }),
                };
                json!([kk, meta_model(m)])
            })
            .collect();
        json!({"v": self.version, "exp": self.expires, "meta": meta,
            "m": self.msg, "sigs": self.sigs.iter().map(|s| s.model(self.msg)).collect::<Vec<_>>()})
    }
}

impl ATargets {
    pub fn model(&self, names: &Names) -> Value {
        let deleg = match &self.deleg {
            None => Value::Null,
            Some(d) => json!({"keys": d.table, "roles": d.roles.iter().map(|r| {
                let paths: Vec<usize> = (0..names.targets.len())
                    .filter(|&t| r.patterns.iter().any(|p| pattern_matches(p, &names.targets[t]))).collect();
                json!({"name": r.name, "ids": r.ids, "thr": r.thr, "paths": paths})
            }).collect::<Vec<_>>()}),
        };
        json!({"v": self.version, "exp": self.expires,
            "entries": self.entries.iter().map(|(n, l, h)| json!([n, {"len": l, "hash": h}])).collect::<Vec<_>>(),
            "deleg": deleg,
            "m": self.msg, "sigs": self.sigs.iter().map(|s| s.model(self.msg)).collect::<Vec<_>>()})
    }
}

pub fn name_model(n: &AName) -> Value {
    match n {
        AName::RootV(v) => json!({ "root": v }),
        AName::Timestamp => json!("timestamp"),
        AName::Snapshot(v) => json!({ "snapshot": opt(v) }),
        AName::Targets(v) => json!({ "targets": opt(v) }),
        AName::Role(r, v) => json!({"role": [r, opt(v)]}),
    }
}

/// canonical request label shared with the model (`FileName` rendering in the driver)
pub fn name_label(n: &AName) -> String {
    let v = |v: &Option<u64>| v.map(|x| x.to_string()).unwrap_or_else(|| "-".into());
    match n {
        AName::RootV(x) => format!("root:{x}"),
        AName::Timestamp => "timestamp".into(),
        AName::Snapshot(x) => format!("snapshot:{}", v(x)),
        AName::Targets(x) => format!("targets:{}", v(x)),
        AName::Role(r, x) => format!("role:{r}:{}", v(x)),
    }
}

pub fn name_path(n: &AName, names: &Names) -> String {
    let enc = |s: &str| -> String {
        s.bytes()
            .map(|b| {
                if b.is_ascii_alphanumeric() || b"_.-~".contains(&b) {
                    (b as char).to_string()
                } else {
                    format!("%{b:02X}")
                }
            })
            .collect()
    };
    match n {
        AName::RootV(x) => format!("{x}.root.json"),
        AName::Timestamp => "timestamp.json".into(),
        AName::Snapshot(None) => "snapshot.json".into(),
        AName::Snapshot(Some(v)) => format!("{v}.snapshot.json"),
        AName::Targets(None) => "targets.json".into(),
        AName::Targets(Some(v)) => format!("{v}.targets.json"),
        AName::Role(r, None) => format!("{}.json", enc(&names.roles[*r])),
        AName::Role(r, Some(v)) => format!("{v}.{}.json", enc(&names.roles[*r])),
    }
}

// ------------------------------------------------------------------------------------------------
// materialisation

pub struct World<'a> {
    pub pool: Vec<&'a PoolKey>,
    pub names: Names,
    pub base: chrono::DateTime<chrono::Utc>,
    /// digest identities: real digest -> small integer (1-based; 0 is never a real digest)
    digests: HashMap<Vec<u8>, u64>,
    /// digest id -> a real 32-byte digest (for ids that were invented by the generator)
    invented: HashMap<u64, Vec<u8>>,
    bytes_cache: HashMap<String, Vec<u8>>,
    /// target files served under the targets base URL in every cycle: (file name, content)
    pub target_files: Vec<(String, Vec<u8>)>,
    /// every target entry carries `custom` data and every timestamp / snapshot / targets document a
    /// second, structured unknown top-level member (C17)
    pub rich: bool,
}

impl<'a> World<'a> {
    pub fn new(pool: &'a KeyPool, names: Names) -> Self {
        World { pool: pool.all(), names, base: chrono::Utc::now(), digests: HashMap::new(), invented: HashMap::new(), bytes_cache: HashMap::new(), target_files: Vec::new(), rich: false }
    }

    /// The identity of a real digest. Ids >= 1000 are handed out for real file contents.
    pub fn digest_id(&mut self, d: &[u8]) -> u64 {
        if let Some((id, _)) = self.invented.iter().find(|(_, b)| b.as_slice() == d) {
            return *id;
        }
        let n = self.digests.len() as u64;
        *self.digests.entry(d.to_vec()).or_insert(1000 + n)
    }

    /// 32 bytes standing for a digest id that the generator invented (ids < 1000) or that was
    /// assigned to real content.
    pub fn digest_bytes(&mut self, id: u64) -> Vec<u8> {
        if let Some((d, _)) = self.digests.iter().find(|(_, v)| **v == id) {
            return d.clone();
        }
        self.invented.entry(id).or_insert_with(|| meta::sha256(format!("invented digest {id}").as_bytes())).clone()
    }

    fn t(&self, secs: i64) -> String {
        meta::time_at(self.base, secs)
    }

    fn keys(&self, ids: &[usize]) -> Vec<&'a PoolKey> {
        ids.iter().map(|&i| self.pool[i]).collect()
    }

    fn rk_json(&self, r: &Option<ARoleKeys>) -> Option<Value> {
        r.as_ref().map(|r| meta::role_keys(&self.keys(&r.ids), r.thr))
    }

    fn sign(&self, signed: &Value, sigs: &[ASig]) -> Value {
        let specs: Vec<SigSpec<'_>> = sigs.iter().map(|s| s.spec(&self.pool)).collect();
        meta::signed(signed, &specs)
    }

    pub fn root_doc(&self, r: &ARoot) -> Value {
        let mut roles = Map::new();
        for (n, rk) in [("root", &r.root), ("snapshot", &r.snapshot), ("targets", &r.targets), ("timestamp", &r.timestamp)] {
            if let Some(v) = self.rk_json(rk) {
                roles.insert(n.into(), v);
            }
        }
        // `msg` distinguishes otherwise identical documents
        let signed = json!({"_type": "root", "spec_version": "1.0.0", "consistent_snapshot": r.consistent,
            "version": r.version, "expires": self.t(r.expires), "keys": meta::key_table(&self.keys(&r.table)),
            "roles": roles, "x-msg": r.msg});
        self.sign(&signed, &r.sigs)
    }

    fn meta_json(&mut self, m: &AMeta) -> Value {
        let h = m.hash.map(|id| self.digest_bytes(id));
        meta::meta_entry(m.version, m.length, h.as_deref())
    }

    pub fn timestamp_doc(&mut self, t: &ATimestamp) -> Value {
        let sm = t.snap.as_ref().map(|m| self.meta_json(m));
        let mut v = meta::timestamp_json(t.version, &self.t(t.expires), sm);
        v["x-msg"] = json!(t.msg);
        if self.rich { v["x-extra"] = json!({"of": "timestamp", "list": [1, {"deep": null}], "text": "é"}); }
        self.sign(&v, &t.sigs)
    }

    pub fn snapshot_doc(&mut self, s: &ASnapshot) -> Value {
        let mut m = Map::new();
        for (k, e) in &s.meta {
            let key = match k {
                AMetaKey::Targets => "targets.json".to_string(),
                AMetaKey::Role(r) => format!("{}.json", self.names.roles[*r]),
            };
            let e = self.meta_json(e);
            m.insert(key, e);
        }
        let mut v = meta::snapshot_json(s.version, &self.t(s.expires), m);
        v["x-msg"] = json!(s.msg);
        if self.rich { v["x-extra"] = json!({"of": "snapshot", "list": [2, {"deep": null}], "text": "ü"}); }
        self.sign(&v, &s.sigs)
    }

    pub fn targets_doc(&mut self, t: &ATargets) -> Value {
        let mut tg = Map::new();
        for (n, l, h) in &t.entries {
            let d = self.digest_bytes(*h);
            let mut e = meta::target_entry(*l, &d);
            if self.rich { e["custom"] = json!({"for": self.names.targets[*n], "n": [*n, *l], "nested": {"k": true}}); }
            tg.insert(self.names.targets[*n].clone(), e);
        }
        let deleg = t.deleg.as_ref().map(|d| {
            json!({"keys": meta::key_table(&self.keys(&d.table)),
                "roles": d.roles.iter().map(|r| json!({
                    "name": self.names.roles[r.name], "keyids": self.keys(&r.ids).iter().map(|k| k.id.clone()).collect::<Vec<_>>(),
                    "threshold": r.thr, (if r.hash_prefixes.is_empty() { "paths" } else { "path_hash_prefixes" }):
                        (if r.hash_prefixes.is_empty() { r.patterns.clone() } else { r.hash_prefixes.clone() }),
                    // (the client does not evaluate the flag; rich repositories set it on every other role so that
                    // nothing in the editor depends on it being false)
                    "terminating": self.rich && r.name % 2 == 1})).collect::<Vec<_>>()})
        });
        let mut v = meta::targets_json(t.version, &self.t(t.expires), tg, deleg);
        v["x-msg"] = json!(t.msg);
        if self.rich { v["x-extra"] = json!({"of": "targets", "version": t.version, "list": [3, {"deep": null}]}); }
        self.sign(&v, &t.sigs)
    }

    pub fn content_bytes(&mut self, c: &AContent) -> Vec<u8> {
        // one serialisation per abstract document (randomised signature schemes would otherwise
        // give different bytes each time the same document is written)
        let key = format!("{c:?}");
        if let Some(b) = self.bytes_cache.get(&key) {
            return b.clone();
        }
        let b = self.content_bytes_fresh(c);
        self.bytes_cache.insert(key, b.clone());
        b
    }

    fn content_bytes_fresh(&mut self, c: &AContent) -> Vec<u8> {
        let v = match c {
            AContent::Root(r) => self.root_doc(r),
            AContent::Timestamp(t) => self.timestamp_doc(t),
            AContent::Snapshot(s) => self.snapshot_doc(s),
            AContent::Targets(t) => self.targets_doc(t),
            AContent::Garbage => return b"{\"signed\": this is not json".to_vec(),
        };
        serde_json::to_vec_pretty(&v).unwrap()
    }

    pub fn file_bytes(&mut self, f: &AFile) -> Vec<u8> {
        let mut b = self.content_bytes(&f.content);
        b.extend(std::iter::repeat(b' ').take(f.pad as usize));
        b
    }

    pub fn content_model(&self, c: &AContent) -> Value {
        match c {
            AContent::Root(r) => json!({"root": r.model()}),
            AContent::Timestamp(t) => json!({"timestamp": t.model()}),
            AContent::Snapshot(s) => json!({"snapshot": s.model()}),
            AContent::Targets(t) => json!({"targets": t.model(&self.names)}),
            AContent::Garbage => json!("garbage"),
        }
    }

    /// Installs the server of one cycle into `mem`; returns the model JSON of the server.
    pub fn install(&mut self, mem: &Mem, server: &[(AName, AResp)], labels: &mut HashMap<String, String>) -> Value {
        mem.files.lock().unwrap().clear();
        for (n, b) in &self.target_files {
            mem.put(&format!("/t/{n}"), b.clone());
        }
        let mut out = Vec::new();
        for (n, r) in server {
            let path = format!("/m/{}", name_path(n, &self.names));
            labels.insert(path.clone(), name_label(n));
            let rm = match r {
                AResp::NotFound => {
                    mem.put_resp(&path, Resp::NotFound);
                    json!("notfound")
                }
                AResp::OpenErr => {
                    mem.put_resp(&path, Resp::OpenErr);
                    json!("openerr")
                }
                AResp::File(f) => {
                    let bytes = self.file_bytes(f);
                    let hash = self.digest_id(&meta::sha256(&bytes));
                    let len = bytes.len() as u64;
                    let mut chunks: Vec<Chunk> = Vec::new();
                    let cut = match f.fault {
                        AFault::None => bytes.len(),
                        AFault::NotFoundAt(p) | AFault::OtherAt(p) => (p as usize).min(bytes.len()),
                    };
                    // a few chunks, so that adapters see more than one item
                    let body = &bytes[..cut];
                    let step = (body.len() / 3).clamp(1, 1024);
                    for c in body.chunks(step) {
                        chunks.push(Chunk::Data(c.to_vec()));
                    }
                    match f.fault {
                        AFault::None => {}
                        AFault::NotFoundAt(_) => chunks.push(Chunk::ErrNotFound),
                        AFault::OtherAt(_) => chunks.push(Chunk::ErrOther),
                    }
                    if f.endless {
                        chunks.push(Chunk::Endless(vec![b' '; 4096]));
                    }
                    mem.put_resp(&path, Resp::Stream(chunks));
                    let fault = match f.fault {
                        AFault::None => Value::Null,
                        AFault::NotFoundAt(_) => json!({ "nf": cut }),
                        AFault::OtherAt(_) => json!({ "other": cut }),
                    };
                    json!({"file": {"c": self.content_model(&f.content),
                        "len": if f.endless { Value::Null } else { json!(len) }, "hash": hash, "fault": fault}})
                }
            };
            out.push(json!([name_model(n), rm]));
        }
        Value::Array(out)
    }
}

pub fn limits_model(l: &ALimits) -> Value {
    json!({"root": l.max_root_size, "targets": l.max_targets_size, "timestamp": l.max_timestamp_size,
        "snapshot": l.max_snapshot_size, "updates": l.max_root_updates})
}

pub fn limits_real(l: &ALimits) -> Limits {
    Limits {
        max_root_size: l.max_root_size,
        max_targets_size: l.max_targets_size,
        max_timestamp_size: l.max_timestamp_size,
        max_snapshot_size: l.max_snapshot_size,
        max_root_updates: l.max_root_updates,
    }
}

pub fn err_tag(e: &tough::error::Error) -> String {
    use tough::error::Error as E;
    match e {
        E::ParseTrustedMetadata { .. } => "parseShipped".into(),
        E::VerifyTrustedMetadata { .. } => "verifyShipped".into(),
        E::MaxUpdatesExceeded { .. } => "maxUpdates".into(),
        E::Transport { .. } => "transport".into(),
        E::ParseMetadata { role, .. } => format!("parse:{role}"),
        E::VerifyMetadata { role, .. } => format!("verify:{role}"),
        E::OlderMetadata { role, .. } => format!("older:{role}"),
        E::ExpiredMetadata { role, .. } => format!("expired:{role}"),
        E::SystemTimeSteppedBackward { .. } => "clock".into(),
        E::MetaMissing { role, .. } => format!("metaMissing:{role}"),
        E::VersionMismatch { role, .. } => format!("versionMismatch:{role}"),
        E::RoleNotInMeta { .. } => "roleNotInMeta".into(),
        E::DelegatedRolesNotConsistent { .. } => "duplicateRole".into(),
        E::InvalidPath { .. } => "invalidPath".into(),
        other => format!("other:{}", other.to_string().chars().take(60).collect::<String>()),
    }
}

/// loaded delegated roles in pre-order: (role index, version)
fn role_versions(t: &tough::schema::Targets, names: &Names, out: &mut Vec<Value>) {
    if let Some(d) = &t.delegations {
        for r in &d.roles {
            let idx = names.roles.iter().position(|n| *n == r.name).map(|i| json!(i)).unwrap_or(json!(r.name));
            match &r.targets {
                Some(s) => {
                    out.push(json!([idx, s.signed.version.get()]));
                    role_versions(&s.signed, names, out);
                }
                None => out.push(json!([idx, Value::Null])),
            }
        }
    }
}

/// what is left in the datastore: per slot `null` (absent), "garbage", or the stored version
pub fn datastore_summary(dir: &Path) -> Value {
    let slot = |f: &str| -> Value {
        match std::fs::read(dir.join(f)) {
            Err(_) => Value::Null,
            Ok(b) => match serde_json::from_slice::<Value>(&b) {
                Ok(v) => v["signed"]["version"].as_u64().map(|x| json!(x)).unwrap_or(json!("garbage")),
                Err(_) => json!("garbage"),
            },
        }
    };
    json!({"ts": slot("timestamp.json"), "snap": slot("snapshot.json"), "tgt": slot("targets.json")})
}

/// label of a requested path that the case does not serve (only newer-root probes are expected)
fn unlisted_label(path: &str) -> String {
    if let Some(rest) = path.strip_prefix("/m/") {
        if let Some(v) = rest.strip_suffix(".root.json") {
            if let Ok(n) = v.parse::<u64>() {
                return format!("root:{n}");
            }
        }
    }
    format!("?:{path}")
}

pub struct CycleObs {
    pub obs: Value,
    pub repo: Option<Repository>,
}

/// Runs one update cycle of the real client. `labels` maps request paths to model labels.
pub async fn run_cycle(
    world: &mut World<'_>,
    mem: &Mem,
    cyc: &ACycle,
    datastore: &Path,
    labels: &HashMap<String, String>,
) -> CycleObs {
    mem.clear_log();
    let shipped_bytes = match &cyc.shipped {
        Some(r) => serde_json::to_vec(&world.root_doc(r)).unwrap(),
        None => b"not a root".to_vec(),
    };
    // the clock of the client = real time + offset; `base` is the generator's zero
    let drift = (chrono::Utc::now() - world.base).num_nanoseconds().unwrap_or(0);
    tough::verif_hooks::set_clock_offset(cyc.now * 1_000_000_000 - drift);
    let res = RepositoryLoader::new(&shipped_bytes, Url::parse("file:///m/").unwrap(), Url::parse("file:///t/").unwrap())
        .transport(mem.clone())
        .limits(limits_real(&cyc.limits))
        .datastore(datastore)
        .expiration_enforcement(if cyc.safe { ExpirationEnforcement::Safe } else { ExpirationEnforcement::Unsafe })
        .load()
        .await;
    let reqs: Vec<String> = mem.requests().iter().map(|p| labels.get(p).cloned().unwrap_or_else(|| unlisted_label(p))).collect();
    let ds = datastore_summary(datastore);
    match res {
        Ok(repo) => {
            let mut read_obs = Vec::new();
            for (now, t) in &cyc.reads {
                let drift = (chrono::Utc::now() - world.base).num_nanoseconds().unwrap_or(0);
                tough::verif_hooks::set_clock_offset(now * 1_000_000_000 - drift);
                let name = tough::TargetName::new(world.names.targets[*t].clone()).expect("target name");
                let r = match repo.read_target(&name).await {
                    Ok(Some(_)) => "ok".to_string(),
                    Ok(None) => "notfound".to_string(),
                    Err(e) => err_tag(&e),
                };
                read_obs.push(json!(r));
            }
            let mut roles = Vec::new();
            role_versions(&repo.targets().signed, &world.names, &mut roles);
            let obs = json!({"res": "ok",
                "versions": [repo.root().signed.version.get(), repo.timestamp().signed.version.get(),
                             repo.snapshot().signed.version.get(), repo.targets().signed.version.get()],
                "roles": roles, "reqs": reqs, "pulled": mem.pulled(), "ds": ds, "capped": mem.capped(), "reads": read_obs});
            CycleObs { obs, repo: Some(repo) }
        }
        Err(e) => CycleObs { obs: json!({"res": err_tag(&e), "reqs": reqs, "pulled": mem.pulled(), "ds": ds, "capped": mem.capped()}), repo: None },
    }
}

pub fn cycle_model(world: &mut World<'_>, mem: &Mem, cyc: &ACycle, labels: &mut HashMap<String, String>) -> Value {
    let server = world.install(mem, &cyc.server, labels);
    json!({"cfg": {"limits": limits_model(&cyc.limits), "safe": cyc.safe, "now": cyc.now},
        "server": server,
        "shipped": cyc.shipped.as_ref().map(|r| r.model()).unwrap_or(Value::Null),
        "reads": cyc.reads.iter().map(|(n, t)| json!({"now": n, "name": t})).collect::<Vec<_>>()})
}

/// Runs a history of update cycles on one datastore directory against the real client and returns
/// (model input cycles, observations). Every cycle installs its own server state.
pub async fn run_history(world: &mut World<'_>, cycles: &[ACycle], cap: usize) -> (Vec<Value>, Vec<Value>) {
    let mem = Mem::new(cap);
    let ds = tempfile::tempdir().expect("datastore dir");
    let mut labels = HashMap::new();
    let mut models = Vec::new();
    let mut obs = Vec::new();
    for c in cycles {
        models.push(cycle_model(world, &mem, c, &mut labels));
        obs.push(run_cycle(world, &mem, c, ds.path(), &labels).await.obs);
    }
    (models, obs)
}
