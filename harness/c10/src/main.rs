//! C10 correspondence harness: editing programs run against the real repository editor (library API),
//! including the cross-party flow (a role holder writes and signs its own role with `TargetsEditor`,
//! the owner incorporates it with `add_role` / `update_delegated_targets`), then `sign`, `write`,
//! publication of the target files, and a fresh client that loads what was written, downloads every
//! target and compares everything with what was put in.
use serde_json::{json, Value};
use std::collections::{BTreeMap, HashMap};
use std::num::NonZeroU64;
use std::path::{Path, PathBuf};
use tough::editor::targets::TargetsEditor;
use tough::editor::RepositoryEditor;
use tough::key_source::{KeySource, LocalKeySource};
use tough::schema::{PathPattern, PathSet, Target};
use vcommon::{parse_args, Out, Rng};
use vworld::meta::{self, sha256};
use vworld::{KeyPool, PoolKey};

const TARGET_NAMES: [&str; 10] = ["a", "dir/b.txt", "c", "d/e/f/deep", "zero", "UPPER.TXT", "tail.tar.gz", "dir/g", "file one.txt", "ünï/çødé.bin"];
const ROLE_NAMES: [&str; 6] = ["r0", "team-b", "a/b", "role 1", "ünï", "x.y"];
// keys tough can load from files: ec0..ec3 (pool indices 12..15), rsa0..rsa3 (16..19)
const ROOT_KEY: usize = 7;
const SNAP_KEY: usize = 13;
const TS_KEY: usize = 14;

#[derive(Clone, Copy, Debug, PartialEq)]
enum Incoming { Genuine, UnderSigned, WrongKeys, Older }

#[derive(Clone, Debug)]
struct RoleSpec {
    name: usize,
    /// index into the list of roles (None = top-level targets)
    parent: Option<usize>,
    keys: Vec<usize>,
    thr: u64,
    targets: Vec<usize>,
    version: u64,
    incoming: Incoming,
}

fn sources(pool: &KeyPool, ids: &[usize]) -> Vec<Box<dyn KeySource>> {
    ids.iter().map(|i| Box::new(LocalKeySource { path: pool.all()[*i].file.clone() }) as Box<dyn KeySource>).collect()
}

fn key_map(pool: &KeyPool, ids: &[usize]) -> HashMap<tough::schema::decoded::Decoded<tough::schema::decoded::Hex>, tough::schema::key::Key> {
    ids.iter().map(|i| {
        let k: &PoolKey = pool.all()[*i];
        let key: tough::schema::key::Key = serde_json::from_value(k.public.clone()).unwrap();
        (hex::decode(&k.id).unwrap().into(), key)
    }).collect()
}

fn err_class(e: &tough::error::Error) -> String {
    use tough::error::Error as E;
    match e {
        E::SigningKeysNotFound { .. } => "signing-keys-not-found".into(),
        E::KeysNotFoundInRoot { .. } => "keys-not-found-in-root".into(),
        E::Missing { .. } => "missing-field".into(),
        E::VerifyRoleMetadata { .. } => "verify-role".into(),
        E::VersionMismatch { .. } => "version".into(),
        E::InvalidPath { .. } => "invalid-path".into(),
        E::DelegatedRolesNotConsistent { .. } => "duplicate-role".into(),
        other => format!("other:{}", other.to_string().chars().take(50).collect::<String>()),
    }
}

/// what the property speaks about, of one loaded repository
fn facts(repo: &tough::Repository, names: &[String], role_names: &[String]) -> Value {
    fn entries(t: &tough::schema::Targets, names: &[String]) -> Vec<Value> {
        let mut m: BTreeMap<usize, Value> = BTreeMap::new();
        for (n, tg) in &t.targets {
            let key = names.iter().position(|x| x == n.raw()).unwrap_or(999);
            m.insert(key, json!([key, tg.length, hex::encode(&tg.hashes.sha256)]));
        }
        m.into_values().collect()
    }
    fn tree(t: &tough::schema::Targets, names: &[String], role_names: &[String]) -> Vec<Value> {
        t.delegations.as_ref().map(|d| d.roles.iter().map(|r| {
            let idx = role_names.iter().position(|x| *x == r.name).map(|i| json!(i)).unwrap_or(json!(r.name));
            let mut kids: Vec<String> = r.keyids.iter().map(|k| hex::encode(k)).collect();
            kids.sort();
            let paths = match &r.paths { PathSet::Paths(p) => json!(p.iter().map(|x| x.value().to_string()).collect::<Vec<_>>()), PathSet::PathHashPrefixes(p) => json!({"prefixes": p.iter().map(|x| x.value().to_string()).collect::<Vec<_>>()}) };
            let doc = r.targets.as_ref().map(|s| json!({"version": s.signed.version.get(), "entries": entries(&s.signed, names), "roles": tree(&s.signed, names, role_names)}));
            json!({"name": idx, "keyids": kids, "thr": r.threshold.get(), "paths": paths, "doc": doc})
        }).collect()).unwrap_or_default()
    }
    let t = &repo.targets().signed;
    json!({"versions": [repo.root().signed.version.get(), repo.timestamp().signed.version.get(), repo.snapshot().signed.version.get(), t.version.get()],
        "expires": [repo.timestamp().signed.expires.to_rfc3339(), repo.snapshot().signed.expires.to_rfc3339(), t.expires.to_rfc3339()],
        "entries": entries(t, names), "roles": tree(t, names, role_names)})
}

/// do the written snapshot and timestamp describe the written files exactly?
fn meta_describes(meta_dir: &Path, cs: bool) -> Value {
    let read = |f: &str| -> Option<Value> { std::fs::read(meta_dir.join(f)).ok().and_then(|b| serde_json::from_slice(&b).ok()) };
    let ts = match read("timestamp.json") { Some(v) => v, None => return json!("no timestamp.json") };
    let sm = &ts["signed"]["meta"]["snapshot.json"];
    let sv = sm["version"].as_u64().unwrap_or(0);
    let snap_file = if cs { format!("{sv}.snapshot.json") } else { "snapshot.json".to_string() };
    let snap_bytes = match std::fs::read(meta_dir.join(&snap_file)) { Ok(b) => b, Err(_) => return json!(format!("no {snap_file}")) };
    let mut problems: Vec<String> = Vec::new();
    let check = |what: &str, m: &Value, bytes: &[u8], version: u64, problems: &mut Vec<String>| {
        if m["length"].as_u64() != Some(bytes.len() as u64) { problems.push(format!("{what}: length")); }
        if m["hashes"]["sha256"].as_str() != Some(&hex::encode(sha256(bytes))) { problems.push(format!("{what}: sha256")); }
        if m["version"].as_u64() != Some(version) { problems.push(format!("{what}: version")); }
    };
    let snap: Value = serde_json::from_slice(&snap_bytes).unwrap_or(Value::Null);
    check("snapshot.json", sm, &snap_bytes, snap["signed"]["version"].as_u64().unwrap_or(0), &mut problems);
    if let Some(metas) = snap["signed"]["meta"].as_object() {
        for (name, m) in metas {
            let v = m["version"].as_u64().unwrap_or(0);
            let stem = name.trim_end_matches(".json");
            let enc = if stem == "targets" { "targets".to_string() } else { tough_encode(stem) };
            let file = if cs { format!("{v}.{enc}.json") } else { format!("{enc}.json") };
            match std::fs::read(meta_dir.join(&file)) {
                Ok(b) => {
                    let doc: Value = serde_json::from_slice(&b).unwrap_or(Value::Null);
                    check(name, m, &b, doc["signed"]["version"].as_u64().unwrap_or(0), &mut problems);
                }
                Err(_) => problems.push(format!("{name}: file {file} missing")),
            }
        }
    }
    json!(problems)
}

/// the written directory as it is: every file with length, SHA-256 and the version inside, and the
/// entries of the written snapshot and timestamp (compared with `Tough/Model/Publish.lean` by the driver)
fn listing(meta_dir: &Path, cs: bool) -> Value {
    let mut files = serde_json::Map::new();
    if let Ok(rd) = std::fs::read_dir(meta_dir) {
        for e in rd.flatten() {
            let name = e.file_name().to_string_lossy().to_string();
            if let Ok(b) = std::fs::read(e.path()) {
                let doc: Value = serde_json::from_slice(&b).unwrap_or(Value::Null);
                files.insert(name, json!([b.len(), hex::encode(sha256(&b)), doc["signed"]["version"].as_u64().unwrap_or(0)]));
            }
        }
    }
    let read = |f: &str| -> Value { std::fs::read(meta_dir.join(f)).ok().and_then(|b| serde_json::from_slice(&b).ok()).unwrap_or(Value::Null) };
    let entry = |m: &Value| json!([m["version"].as_u64().unwrap_or(0), m["length"].as_u64(), m["hashes"]["sha256"].as_str()]);
    let ts = read("timestamp.json");
    let sm = &ts["signed"]["meta"]["snapshot.json"];
    let sv = sm["version"].as_u64().unwrap_or(0);
    let snap = read(&if cs { format!("{sv}.snapshot.json") } else { "snapshot.json".to_string() });
    let mut smeta = serde_json::Map::new();
    if let Some(metas) = snap["signed"]["meta"].as_object() { for (k, m) in metas { smeta.insert(k.clone(), entry(m)); } }
    json!({"files": files, "snapshot_meta": smeta, "timestamp_meta": entry(sm),
        "timestamp_meta_keys": ts["signed"]["meta"].as_object().map(|o| o.keys().cloned().collect::<Vec<_>>())})
}

/// the percent-encoding tough applies to role names in file names (observed through its own API is not
/// possible: `encode_filename` is private; this is the documented set)
fn tough_encode(name: &str) -> String {
    let mut out = String::new();
    for b in name.bytes() {
        let keep = b.is_ascii_alphanumeric() || matches!(b, b'-' | b'_' | b'~');
        let dot = b == b'.';
        if keep || (dot && name != "." && name != "..") { out.push(b as char); } else { out.push_str(&format!("%{b:02X}")); }
    }
    out
}

#[tokio::main(flavor = "current_thread")]
async fn main() {
    let mut args = parse_args();
    let pool = KeyPool::load();
    let mut only = None;
    if let Some(p) = &args.replay {
        let v: Value = serde_json::from_str(&std::fs::read_to_string(p).unwrap()).unwrap();
        if let Some(t) = v["tier"].as_str() { args.tier = t.into(); }
        if let Some(s) = v["seed"].as_u64() { args.seed = s; }
        only = v["case"]["id"].as_u64();
    }
    let thorough = args.tier == "thorough";
    let mut out = Out::new(&args.out);
    out.only = only;
    let n = if thorough { 1500 } else { 120 };
    let now = chrono::Utc::now();
    for i in 0..n {
        // two case slots per program (the second: downloads of names that need URL escaping)
        if !out.only.map_or(true, |o| o == out.n + 1 || o == out.n + 2) { out.skip(); out.skip(); continue; }
        let mut r = Rng::new(args.seed, i);
        let work = tempfile::tempdir().unwrap();
        let w = work.path();
        let cs = r.chance(1, 2);
        // ---- the material: target files, names, keys
        let mut tn: Vec<&str> = TARGET_NAMES.to_vec();
        r.shuffle(&mut tn);
        let k = r.range(2, 7) as usize;
        let names: Vec<String> = tn[..k].iter().map(|s| s.to_string()).collect();
        let mut rn: Vec<&str> = ROLE_NAMES.to_vec();
        r.shuffle(&mut rn);
        let role_names: Vec<String> = rn.iter().map(|s| s.to_string()).collect();
        let input = w.join("input");
        let mut contents: Vec<Vec<u8>> = Vec::new();
        for nm in &names {
            let len = if nm == "zero" { 0 } else { *r.pick(&[1usize, 9, 300, 5000, 32768]) };
            let c: Vec<u8> = (0..len).map(|_| r.next() as u8).collect();
            let p = input.join(nm);
            std::fs::create_dir_all(p.parent().unwrap()).unwrap();
            std::fs::write(&p, &c).unwrap();
            contents.push(c);
        }
        let tgt_keys: Vec<usize> = if r.chance(1, 2) { vec![12] } else { vec![12, 16] };
        let thr_t = r.range(1, tgt_keys.len() as u64);
        // ---- the program
        let nroles = if r.chance(1, 3) { 0 } else { r.range(1, 3) as usize };
        let mut roles: Vec<RoleSpec> = Vec::new();
        let deleg_pool = [15usize, 17, 18, 19];
        let mut free: Vec<usize> = (0..k).collect();
        r.shuffle(&mut free);
        let top_count = r.range(0, (k as u64).min(3)) as usize;
        let top_targets: Vec<usize> = free.drain(..top_count).collect();
        for ri in 0..nroles {
            let parent = if ri == 0 || r.chance(1, 2) { None } else { Some(r.below(ri as u64) as usize) };
            let nk = r.range(1, 3) as usize;
            let mut ks = deleg_pool.to_vec();
            r.shuffle(&mut ks);
            let keys: Vec<usize> = ks[..nk].to_vec();
            let thr = r.range(1, nk as u64);
            let take = r.range(0, (free.len() as u64).min(3)) as usize;
            let targets: Vec<usize> = free.drain(..take).collect();
            let incoming = match r.below(6) { 0 => Incoming::UnderSigned, 1 => Incoming::WrongKeys, _ => Incoming::Genuine };
            roles.push(RoleSpec { name: ri, parent, keys, thr, targets, version: r.range(1, 5), incoming });
        }
        // one role name used twice (same parent or elsewhere in the tree): the last role takes the name of an
        // earlier, childless one
        let mut dup_name = false;
        if nroles >= 2 && r.chance(1, 5) {
            let childless: Vec<usize> = (0..nroles - 1).filter(|j| !roles.iter().any(|x| x.parent == Some(*j))).collect();
            if !childless.is_empty() {
                let j = *r.pick(&childless);
                roles[nroles - 1].name = roles[j].name;
                roles[nroles - 1].incoming = Incoming::Genuine;
                roles[j].incoming = Incoming::Genuine;
                dup_name = true;
            }
        }
        // an update of one role by its holder, incorporated with update_delegated_targets
        let update: Option<(usize, Incoming)> = if nroles > 0 && !dup_name && r.chance(1, 2) {
            Some((r.below(nroles as u64) as usize, match r.below(4) { 0 => Incoming::UnderSigned, 1 => Incoming::WrongKeys, 2 => Incoming::Older, _ => Incoming::Genuine }))
        } else { None };
        // edits of the top-level targets of the reloaded repository: replace a target by other content,
        // remove it, add it (back); 0 = replace, 1 = remove, 2 = add with the original content
        let mut edits: Vec<(u8, usize)> = Vec::new();
        if nroles > 0 && !top_targets.is_empty() && r.chance(2, 3) {
            if r.chance(1, 3) {
                let ti = *r.pick(&top_targets);
                edits.push((0, ti));
                edits.push((1, ti));
            }
            for _ in 0..r.range(0, 3) {
                edits.push((r.below(3) as u8, *r.pick(&top_targets)));
            }
        }
        // other content for every name: half of them of the same length (one byte changed), half longer
        let alt_contents: Vec<Vec<u8>> = contents.iter().enumerate().map(|(i, c)| {
            let mut x = c.clone();
            if c.is_empty() || i % 2 == 1 { x.extend_from_slice(b"!replaced"); } else { x[0] ^= 0x5a; }
            x
        }).collect();
        let alt_input = w.join("input-alt");
        for (nm, c) in names.iter().zip(alt_contents.iter()) {
            let p = alt_input.join(nm);
            std::fs::create_dir_all(p.parent().unwrap()).unwrap();
            std::fs::write(&p, c).unwrap();
        }
        // which content a top-level name ends with (None = removed); used only to publish the right file
        let mut top_state: HashMap<usize, Option<bool>> = top_targets.iter().map(|t| (*t, Some(false))).collect();
        let owner_short = r.chance(1, 6);      // the owner signs with one key too few
        let missing_field = if r.chance(1, 10) { Some(r.below(3)) } else { None };
        let link = r.chance(1, 2);
        // ---- root
        let exp = |d: i64| now + chrono::Duration::days(d);
        let mut table: Vec<&PoolKey> = vec![pool.all()[ROOT_KEY], pool.all()[SNAP_KEY], pool.all()[TS_KEY]];
        for t in &tgt_keys { table.push(pool.all()[*t]); }
        let root_v = meta::root_json(&meta::RootSpec { version: 1, expires: exp(365).format("%Y-%m-%dT%H:%M:%SZ").to_string(), consistent: cs, table,
            root: (vec![pool.all()[ROOT_KEY]], 1), timestamp: (vec![pool.all()[TS_KEY]], 1), snapshot: (vec![pool.all()[SNAP_KEY]], 1),
            targets: (tgt_keys.iter().map(|t| pool.all()[*t]).collect(), thr_t) });
        let root_bytes = serde_json::to_vec_pretty(&meta::signed_by(&root_v, &[pool.all()[ROOT_KEY]])).unwrap();
        let root_path = w.join("root.json");
        std::fs::write(&root_path, &root_bytes).unwrap();
        let mut steps: Vec<Value> = Vec::new();
        let step = |what: &str, res: Result<(), String>, steps: &mut Vec<Value>| -> bool {
            steps.push(json!({"op": what, "res": match &res { Ok(()) => "ok".to_string(), Err(e) => e.clone() }}));
            res.is_ok()
        };
        let target_of = |ti: usize| -> PathBuf { input.join(&names[ti]) };
        let owner_keys_full: Vec<usize> = tgt_keys.iter().cloned().chain([SNAP_KEY, TS_KEY]).collect();
        let versions = [r.range(1, 40), r.range(1, 40), r.range(1, 40)];
        let expire_days = [r.range(1, 30) as i64, r.range(1, 30) as i64, r.range(1, 30) as i64];

        // ---- phase A: the owner creates the repository
        let base_dir = w.join("base");
        let mut final_meta: Option<PathBuf> = None;
        let phase_a: Result<tough::editor::signed::SignedRepository, String> = async {
            let mut ed = RepositoryEditor::new(&root_path).await.map_err(|e| err_class(&e))?;
            for ti in &top_targets {
                let t = Target::from_path(target_of(*ti)).await.map_err(|e| format!("from_path: {e}"))?;
                ed.add_target(names[*ti].as_str(), t).map_err(|e| err_class(&e))?;
            }
            if missing_field != Some(0) || nroles > 0 { ed.targets_version(NonZeroU64::new(versions[0]).unwrap()).map_err(|e| err_class(&e))?; }
            ed.targets_expires(exp(expire_days[0])).map_err(|e| err_class(&e))?;
            if missing_field != Some(1) || nroles > 0 { ed.snapshot_version(NonZeroU64::new(versions[1]).unwrap()); }
            ed.snapshot_expires(exp(expire_days[1]));
            ed.timestamp_version(NonZeroU64::new(versions[2]).unwrap());
            if missing_field != Some(2) || nroles > 0 { ed.timestamp_expires(exp(expire_days[2])); }
            let keys_a: Vec<usize> = if owner_short && nroles == 0 { owner_keys_full[1..].to_vec() } else { owner_keys_full.clone() };
            let signed = ed.sign(&sources(&pool, &keys_a)).await.map_err(|e| err_class(&e))?;
            signed.write(base_dir.join("metadata")).await.map_err(|e| format!("write: {e}"))?;
            Ok(signed)
        }.await;
        let mut final_signed: Option<tough::editor::signed::SignedRepository> = None;
        let a_ok = step("create", match phase_a { Ok(sr) => { final_signed = Some(sr); Ok(()) } Err(e) => Err(e) }, &mut steps);
        if a_ok { final_meta = Some(base_dir.join("metadata")); }

        // ---- phase B: delegations through the cross-party flow
        let mut role_accepted: Vec<bool> = vec![false; nroles];
        let mut cur_version: Vec<u64> = roles.iter().map(|x| x.version).collect();
        if a_ok && nroles > 0 {
            let murl = url::Url::from_directory_path(base_dir.join("metadata")).unwrap();
            let loaded = tough::RepositoryLoader::new(&root_bytes, murl.clone(), murl.clone()).load().await;
            let final_dir = w.join("final");
            let phase_b: Result<tough::editor::signed::SignedRepository, String> = async {
                let repo = loaded.map_err(|e| format!("load base: {e}"))?;
                let mut ed = RepositoryEditor::from_repo(&root_path, repo).await.map_err(|e| err_class(&e))?;
                ed.targets_version(NonZeroU64::new(versions[0] + 1).unwrap()).map_err(|e| err_class(&e))?
                  .targets_expires(exp(expire_days[0])).map_err(|e| err_class(&e))?
                  .snapshot_version(NonZeroU64::new(versions[1] + 1).unwrap()).snapshot_expires(exp(expire_days[1]))
                  .timestamp_version(NonZeroU64::new(versions[2] + 1).unwrap()).timestamp_expires(exp(expire_days[2]));
                for (kind, ti) in &edits {
                    match kind {
                        0 => {
                            let t = Target::from_path(alt_input.join(&names[*ti])).await.map_err(|e| format!("from_path: {e}"))?;
                            ed.add_target(names[*ti].as_str(), t).map_err(|e| err_class(&e))?;
                            top_state.insert(*ti, Some(true));
                        }
                        1 => {
                            ed.remove_target(&tough::TargetName::new(names[*ti].clone()).unwrap()).map_err(|e| err_class(&e))?;
                            top_state.insert(*ti, None);
                        }
                        _ => {
                            let t = Target::from_path(target_of(*ti)).await.map_err(|e| format!("from_path: {e}"))?;
                            ed.add_target(names[*ti].as_str(), t).map_err(|e| err_class(&e))?;
                            top_state.insert(*ti, Some(false));
                        }
                    }
                }
                // which role the editor currently edits (None = top-level targets)
                let mut current: Option<usize> = None;
                for (ri, spec) in roles.iter().enumerate() {
                    // the holder writes its role
                    let hdir = w.join(format!("holder{ri}"));
                    let other: Vec<usize> = deleg_pool.iter().cloned().filter(|x| !spec.keys.contains(x)).collect();
                    let signers: Vec<usize> = match spec.incoming {
                        Incoming::Genuine | Incoming::Older => spec.keys.clone(),
                        Incoming::UnderSigned => if spec.thr >= 2 { spec.keys[..(spec.thr as usize - 1)].to_vec() } else { other[..1].to_vec() },
                        Incoming::WrongKeys => other[..1].to_vec(),
                    };
                    let mut te = TargetsEditor::new(&role_names[spec.name]);
                    te.version(NonZeroU64::new(spec.version).unwrap()).expires(exp(20));
                    for ti in &spec.targets {
                        let t = Target::from_path(target_of(*ti)).await.map_err(|e| format!("from_path: {e}"))?;
                        te.add_target(names[*ti].as_str(), t).map_err(|e| err_class(&e))?;
                    }
                    let hs = te.sign(&sources(&pool, &signers)).await.map_err(|e| format!("holder sign: {}", err_class(&e)))?;
                    hs.write(&hdir, false).await.map_err(|e| format!("holder write: {e}"))?;
                    // the owner incorporates it under its parent
                    if spec.parent != current {
                        let cur_keys: Vec<usize> = match current { None => tgt_keys.clone(), Some(p) => roles[p].keys.clone() };
                        ed.sign_targets_editor(&sources(&pool, &cur_keys)).await.map_err(|e| format!("sign_targets_editor: {}", err_class(&e)))?;
                        let pname = match spec.parent { None => "targets".to_string(), Some(p) => role_names[roles[p].name].clone() };
                        ed.change_delegated_targets(&pname).map_err(|e| format!("change_delegated_targets: {}", err_class(&e)))?;
                        // the role now being edited is re-signed by its own keys: it needs a version and an expiration
                        let pv = match spec.parent { None => versions[0] + 1, Some(p) => { cur_version[p] += 10; cur_version[p] } };
                        ed.targets_version(NonZeroU64::new(pv).unwrap()).map_err(|e| err_class(&e))?
                          .targets_expires(exp(expire_days[0])).map_err(|e| err_class(&e))?;
                        current = spec.parent;
                    }
                    // the role is trusted for the names it and its future children may list: everything not at the top
                    let paths = PathSet::Paths(names.iter().map(|nm| PathPattern::new(nm.clone()).unwrap()).collect());
                    let hurl = url::Url::from_directory_path(&hdir).unwrap();
                    let res = ed.add_role(&role_names[spec.name], hurl.as_str(), paths, NonZeroU64::new(spec.thr).unwrap(), Some(key_map(&pool, &spec.keys))).await;
                    let ok = res.is_ok();
                    steps.push(json!({"op": "add_role", "role": ri, "res": match &res { Ok(_) => "ok".to_string(), Err(e) => err_class(e) }}));
                    role_accepted[ri] = ok;
                    if !ok && roles.iter().any(|x| x.parent == Some(ri)) { return Err("a parent role was refused (program ends)".into()); }
                }
                {
                    let cur_keys: Vec<usize> = match current { None => tgt_keys.clone(), Some(p) => roles[p].keys.clone() };
                    ed.sign_targets_editor(&sources(&pool, &cur_keys)).await.map_err(|e| format!("sign_targets_editor: {}", err_class(&e)))?;
                }
                // the holder of one role publishes an update
                if let Some((ri, kind)) = update {
                    if role_accepted[ri] {
                        let spec = &roles[ri];
                        let hdir = w.join(format!("holder{ri}-update"));
                        let other: Vec<usize> = deleg_pool.iter().cloned().filter(|x| !spec.keys.contains(x)).collect();
                        let signers: Vec<usize> = match kind {
                            Incoming::Genuine | Incoming::Older => spec.keys.clone(),
                            Incoming::UnderSigned => if spec.thr >= 2 { spec.keys[..(spec.thr as usize - 1)].to_vec() } else { other[..1].to_vec() },
                            Incoming::WrongKeys => other[..1].to_vec(),
                        };
                        let newv = if kind == Incoming::Older { spec.version.saturating_sub(1) } else { spec.version + 3 };
                        if newv >= 1 {
                            let mut te = TargetsEditor::new(&role_names[spec.name]);
                            te.version(NonZeroU64::new(newv).unwrap()).expires(exp(25));
                            for ti in &spec.targets {
                                let t = Target::from_path(target_of(*ti)).await.map_err(|e| format!("from_path: {e}"))?;
                                te.add_target(names[*ti].as_str(), t).map_err(|e| err_class(&e))?;
                            }
                            let hs = te.sign(&sources(&pool, &signers)).await.map_err(|e| format!("holder sign: {}", err_class(&e)))?;
                            hs.write(&hdir, false).await.map_err(|e| format!("holder write: {e}"))?;
                            let hurl = url::Url::from_directory_path(&hdir).unwrap();
                            let res = ed.update_delegated_targets(&role_names[spec.name], hurl.as_str()).await;
                            let ok = res.is_ok();
                            steps.push(json!({"op": "update_role", "role": ri, "kind": format!("{kind:?}"), "new_version": newv, "res": match &res { Ok(_) => "ok".to_string(), Err(e) => err_class(e) }}));
                            if ok { cur_version[ri] = newv; }
                        }
                    }
                }
                let keys_b: Vec<usize> = if owner_short { owner_keys_full[1..].to_vec() } else { owner_keys_full.clone() };
                let signed = ed.sign(&sources(&pool, &keys_b)).await.map_err(|e| format!("sign: {}", err_class(&e)))?;
                signed.write(final_dir.join("metadata")).await.map_err(|e| format!("write: {e}"))?;
                Ok(signed)
            }.await;
            final_signed = None;
            let b_ok = step("delegate-and-sign", match phase_b { Ok(sr) => { final_signed = Some(sr); Ok(()) } Err(e) => Err(e) }, &mut steps);
            final_meta = if b_ok { Some(final_dir.join("metadata")) } else { None };
        }

        // ---- what was put in
        let intended_roles: Vec<Value> = roles.iter().enumerate().map(|(_ri, s)| json!({"name": s.name, "parent": s.parent, "keys": s.keys, "thr": s.thr,
            "targets": s.targets, "version": s.version, "incoming": format!("{:?}", s.incoming)})).collect();
        let input_json = json!({"cs": cs, "names": names, "role_names": role_names, "top_targets": top_targets, "tgt_keys": tgt_keys, "thr_t": thr_t,
            "roles": intended_roles, "update": update.map(|(ri, k)| json!({"role": ri, "kind": format!("{k:?}")})), "owner_short": owner_short,
            "missing_field": missing_field, "versions": versions, "link": link,
            "role_file_stems": role_names.iter().map(|n| tough_encode(n)).collect::<Vec<_>>(),
            "edits": edits.iter().map(|(k, t)| json!([k, t])).collect::<Vec<_>>(),
            "alt_lengths": alt_contents.iter().map(|c| c.len()).collect::<Vec<_>>(),
            "alt_digests": alt_contents.iter().map(|c| hex::encode(sha256(c))).collect::<Vec<_>>(),
            "needs_escape": names.iter().map(|n| url::Url::parse("file:///t/").unwrap().join(n).map(|u| u.path() != format!("/t/{n}")).unwrap_or(true)).collect::<Vec<_>>(),
            "key_ids": (12..20).map(|i| json!([i, pool.all()[i].id])).collect::<Vec<_>>(),
            "lengths": contents.iter().map(|c| c.len()).collect::<Vec<_>>(),
            "digests": contents.iter().map(|c| hex::encode(sha256(c))).collect::<Vec<_>>()});
        let class = format!("{}{}{}{}", match nroles { 0 => "flat", _ => "delegations" }, if dup_name { "-dupname" } else { "" }, if update.is_some() { "-update" } else { "" },
            if owner_short || missing_field.is_some() { "-inadequate" } else { "" });
        // ---- phase C: publish the targets, load with a fresh client, download everything
        let mut imp = json!({"steps": steps});
        if let Some(meta_dir) = final_meta {
            let tdir = meta_dir.parent().unwrap().join("targets");
            std::fs::create_dir_all(&tdir).unwrap();
            imp["describes"] = meta_describes(&meta_dir, cs);
            imp["listing"] = listing(&meta_dir, cs);
            let murl = url::Url::from_directory_path(&meta_dir).unwrap();
            let turl = url::Url::from_directory_path(&tdir).unwrap();
            match tough::RepositoryLoader::new(&root_bytes, murl, turl).load().await {
                Err(e) => { imp["load"] = json!(vworld::client::err_tag(&e)); }
                Ok(repo) => {
                    imp["load"] = json!("ok");
                    imp["facts"] = facts(&repo, &names, &role_names);
                    // publication: every listed target, by the library's own copy / link with an explicit name
                    let listed = repo.targets().signed.targets_map();
                    let mut downloads = Vec::new();
                    let mut published = Vec::new();
                    let mut wrong_refused: Option<bool> = None;
                    let signed_repo = final_signed.as_ref().expect("a written repository has its signed form");
                    for (ti, nm) in names.iter().enumerate() {
                        let tname = tough::TargetName::new(nm.clone()).unwrap();
                        if !listed.contains_key(&tname) { downloads.push(json!("unlisted")); published.push(json!("unlisted")); continue; }
                        let res = tname.resolved().to_string();
                        // the content this name was given last (what the owner publishes)
                        let alt = top_state.get(&ti) == Some(&Some(true));
                        let (src, content) = if alt { (alt_input.join(nm), &alt_contents[ti]) } else { (input.join(nm), &contents[ti]) };
                        let dest_rel = if cs { format!("{}.{}", hex::encode(sha256(content)), res) } else { res.clone() };
                        let dest = tdir.join(&dest_rel);
                        // (the caller provides the sub-directories of the targets directory)
                        std::fs::create_dir_all(dest.parent().unwrap()).unwrap();
                        use tough::editor::signed::PathExists;
                        // a file with other content offered under this name must be refused (once per program)
                        if wrong_refused.is_none() {
                            let probe = w.join("probe-targets");
                            std::fs::create_dir_all(probe.join(&dest_rel).parent().unwrap()).unwrap();
                            let wrong = if alt { input.join(nm) } else { alt_input.join(nm) };
                            let r = if link { signed_repo.link_target(&wrong, &probe, PathExists::Fail, Some(&tname)).await } else { signed_repo.copy_target(&wrong, &probe, PathExists::Fail, Some(&tname)).await };
                            let nothing_written = !probe.join(&dest_rel).exists();
                            wrong_refused = Some(r.is_err() && nothing_written);
                        }
                        let r = if link { signed_repo.link_target(&src, &tdir, PathExists::Fail, Some(&tname)).await } else { signed_repo.copy_target(&src, &tdir, PathExists::Fail, Some(&tname)).await };
                        published.push(json!(match &r { Ok(()) => if dest.exists() { "ok".to_string() } else { "ok-but-not-at-the-expected-path".to_string() }, Err(e) => format!("err:{}", e.to_string().chars().take(60).collect::<String>()) }));
                        let got = match repo.read_target(&tname).await {
                            Ok(Some(s)) => {
                                use futures::StreamExt;
                                let mut s = s; let mut buf = Vec::new(); let mut bad = false;
                                while let Some(it) = s.next().await { match it { Ok(b) => buf.extend_from_slice(&b), Err(_) => { bad = true; break; } } }
                                if bad { "error" } else if &buf == content { "identical" } else { "different" }
                            }
                            Ok(None) => "notfound",
                            Err(_) => "error",
                        };
                        downloads.push(json!(got));
                    }
                    imp["downloads"] = json!(downloads);
                    imp["published"] = json!(published);
                    imp["wrong_content_refused"] = json!(wrong_refused);
                }
            }
        }
        imp["role_accepted"] = json!(role_accepted);
        imp["role_version"] = json!(cur_version);
        out.case_nt(&class, input_json.clone(), imp.clone(), nroles > 0 || owner_short || missing_field.is_some());
        let escaped_listed = imp["downloads"].as_array().map(|d| d.iter().enumerate().any(|(t, x)| x != "unlisted" && input_json["needs_escape"][t] == json!(true))).unwrap_or(false);
        if escaped_listed {
            let mut i2 = input_json;
            i2["kind"] = json!("download-escaped-names");
            out.case_nt("download-urlnames", i2, imp, true);
        } else {
            out.skip();
        }
    }
    out.finish();
}
