//! probe: the same delegated role name used twice in one editing program
use std::collections::HashMap;
use std::num::NonZeroU64;
use tough::editor::targets::TargetsEditor;
use tough::editor::RepositoryEditor;
use tough::key_source::{KeySource, LocalKeySource};
use tough::schema::{PathPattern, PathSet, Target};
use vworld::meta;
use vworld::{KeyPool, PoolKey};

fn sources(pool: &KeyPool, ids: &[usize]) -> Vec<Box<dyn KeySource>> {
    ids.iter().map(|i| Box::new(LocalKeySource { path: pool.all()[*i].file.clone() }) as Box<dyn KeySource>).collect()
}
fn key_map(pool: &KeyPool, ids: &[usize]) -> HashMap<tough::schema::decoded::Decoded<tough::schema::decoded::Hex>, tough::schema::key::Key> {
    ids.iter().map(|i| {
        let k: &PoolKey = pool.all()[*i];
        let key: tough::schema::key::Key = serde_json::from_value(k.public.clone()).unwrap();
        (hex::decode(&k.id).unwrap().into(), key)
    }).collect()
}

#[tokio::main]
async fn main() {
    let nested = std::env::args().nth(1).as_deref() == Some("nested");
    let pool = KeyPool::load();
    let work = tempfile::tempdir().unwrap();
    let w = work.path();
    let now = chrono::Utc::now();
    let exp = |d: i64| now + chrono::Duration::days(d);
    let table: Vec<&PoolKey> = vec![pool.all()[7], pool.all()[13], pool.all()[14], pool.all()[12]];
    let root_v = meta::root_json(&meta::RootSpec { version: 1, expires: exp(365).format("%Y-%m-%dT%H:%M:%SZ").to_string(), consistent: false, table,
        root: (vec![pool.all()[7]], 1), timestamp: (vec![pool.all()[14]], 1), snapshot: (vec![pool.all()[13]], 1),
        targets: (vec![pool.all()[12]], 1) });
    let root_bytes = serde_json::to_vec_pretty(&meta::signed_by(&root_v, &[pool.all()[7]])).unwrap();
    let root_path = w.join("root.json");
    std::fs::write(&root_path, &root_bytes).unwrap();
    std::fs::write(w.join("a"), b"aaa").unwrap();
    std::fs::write(w.join("b"), b"bbbb").unwrap();
    let v = |n: u64| NonZeroU64::new(n).unwrap();
    // base
    let mut ed = RepositoryEditor::new(&root_path).await.unwrap();
    ed.targets_version(v(1)).unwrap().targets_expires(exp(10)).unwrap().snapshot_version(v(1)).snapshot_expires(exp(10)).timestamp_version(v(1)).timestamp_expires(exp(10));
    let signed = ed.sign(&sources(&pool, &[12, 13, 14])).await.unwrap();
    signed.write(w.join("base/metadata")).await.unwrap();
    let murl = url::Url::from_directory_path(w.join("base/metadata")).unwrap();
    let repo = tough::RepositoryLoader::new(&root_bytes, murl.clone(), murl.clone()).load().await.unwrap();
    let mut ed = RepositoryEditor::from_repo(&root_path, repo).await.unwrap();
    ed.targets_version(v(2)).unwrap().targets_expires(exp(10)).unwrap().snapshot_version(v(2)).snapshot_expires(exp(10)).timestamp_version(v(2)).timestamp_expires(exp(10));
    let paths = || PathSet::Paths(vec![PathPattern::new("a").unwrap(), PathPattern::new("b").unwrap()]);
    // holders
    for (i, (rname, tname, key)) in [("r0", "a", 15usize), ("mid", "b", 17), ("r0", "b", 18)].iter().enumerate() {
        let mut te = TargetsEditor::new(rname);
        te.version(v(1)).expires(exp(5));
        let t = Target::from_path(w.join(tname)).await.unwrap();
        te.add_target(*tname, t).unwrap();
        let hs = te.sign(&sources(&pool, &[*key])).await.unwrap();
        hs.write(w.join(format!("h{i}")), false).await.unwrap();
    }
    let hurl = |i: usize| url::Url::from_directory_path(w.join(format!("h{i}"))).unwrap();
    println!("add r0 (first): {:?}", ed.add_role("r0", hurl(0).as_str(), paths(), v(1), Some(key_map(&pool, &[15]))).await.map(|_| ()).map_err(|e| e.to_string()));
    if nested {
        println!("add mid: {:?}", ed.add_role("mid", hurl(1).as_str(), paths(), v(1), Some(key_map(&pool, &[17]))).await.map(|_| ()).map_err(|e| e.to_string()));
        ed.sign_targets_editor(&sources(&pool, &[12])).await.unwrap();
        ed.change_delegated_targets("mid").unwrap();
        ed.targets_version(v(2)).unwrap().targets_expires(exp(5)).unwrap();
        println!("add r0 under mid: {:?}", ed.add_role("r0", hurl(2).as_str(), paths(), v(1), Some(key_map(&pool, &[18]))).await.map(|_| ()).map_err(|e| e.to_string()));
        ed.sign_targets_editor(&sources(&pool, &[17])).await.unwrap();
    } else {
        println!("add r0 (second): {:?}", ed.add_role("r0", hurl(2).as_str(), paths(), v(1), Some(key_map(&pool, &[18]))).await.map(|_| ()).map_err(|e| e.to_string()));
        ed.sign_targets_editor(&sources(&pool, &[12])).await.unwrap();
    }
    match ed.sign(&sources(&pool, &[12, 13, 14])).await {
        Err(e) => println!("sign: refused: {e}"),
        Ok(signed) => {
            println!("sign: ok");
            signed.write(w.join("final/metadata")).await.unwrap();
            let murl = url::Url::from_directory_path(w.join("final/metadata")).unwrap();
            match tough::RepositoryLoader::new(&root_bytes, murl.clone(), murl.clone()).load().await {
                Ok(_) => println!("load: ok"),
                Err(e) => println!("load: REFUSED: {e}"),
            }
        }
    }
}
