//! C08 correspondence harness: `TargetName::new` on exhaustive short names, and
//! `Repository::save_target` into a watched sandbox with a scripted transport whose stream inspects
//! the sandbox between every two items.
use serde_json::{json, Value};
use std::collections::{BTreeMap, HashMap};
use std::path::{Path, PathBuf};
use std::sync::{Arc, Mutex};
use vcommon::{parse_args, Out, Rng};
use vworld::client::*;
use vworld::mem::{Chunk, Resp};
use vworld::meta::sha256;
use vworld::repo::*;
use vworld::{KeyPool, Mem};

const ALPHABET: [char; 8] = ['/', '.', 'a', '\\', ' ', '~', '%', 'é'];

fn cps(s: &str) -> Value {
    Value::Array(s.chars().map(|c| json!(c as u32)).collect())
}

fn all_names(maxlen: usize) -> Vec<String> {
    let mut out = vec![String::new()];
    let mut last = vec![String::new()];
    for _ in 0..maxlen {
        let mut next = Vec::new();
        for s in &last {
            for c in ALPHABET {
                let mut t = s.clone();
                t.push(c);
                next.push(t);
            }
        }
        out.extend(next.iter().cloned());
        last = next;
    }
    out
}

fn name_obs(raw: &str) -> Value {
    match tough::TargetName::new(raw.to_string()) {
        Ok(n) => json!({"ok": cps(n.resolved())}),
        Err(e) => json!({"err": e.to_string().chars().take(50).collect::<String>()}),
    }
}

/// every regular file below `root`: relative path -> content
fn tree(root: &Path) -> BTreeMap<String, Vec<u8>> {
    fn walk(dir: &Path, root: &Path, out: &mut BTreeMap<String, Vec<u8>>) {
        if let Ok(rd) = std::fs::read_dir(dir) {
            for e in rd.flatten() {
                let p = e.path();
                let md = match std::fs::symlink_metadata(&p) { Ok(m) => m, Err(_) => continue };
                if md.is_dir() {
                    walk(&p, root, out);
                } else {
                    let rel = p.strip_prefix(root).unwrap().to_string_lossy().to_string();
                    out.insert(rel, std::fs::read(&p).unwrap_or_default());
                }
            }
        }
    }
    let mut out = BTreeMap::new();
    walk(root, root, &mut out);
    out
}

fn classify(content: &[u8], old: &[u8], new: &[u8]) -> String {
    if content == new { "new".into() }
    else if content == old { "old".into() }
    else if new.starts_with(content) { format!("partial:{}", content.len()) }
    else { format!("other:{}", content.len()) }
}

fn snapshot(root: &Path, old: &[u8], new: &[u8]) -> Value {
    Value::Array(tree(root).iter().map(|(p, c)| json!([p, classify(c, old, new)])).collect())
}

#[derive(Clone, Debug)]
enum Fault { Clean, BitFlip, Oversize, TransportErr(usize), Truncated, Nothing }

#[tokio::main(flavor = "current_thread")]
async fn main() {
    let mut args = parse_args();
    let pool = KeyPool::load();
    let mut only = None;
    if let Some(p) = &args.replay {
        let v: Value = serde_json::from_str(&std::fs::read_to_string(p).unwrap()).unwrap();
        if let Some(t) = v["tier"].as_str() { args.tier = t.into(); }
        if let Some(s) = v["seed"].as_u64() { args.seed = s; }
        only = v["case"]["id"].as_u64();
    }
    let thorough = args.tier == "thorough";
    let mut out = Out::new(&args.out);
    out.only = only;

    // ---- part A: names
    let names = all_names(if thorough { 5 } else { 4 });
    let mut by_resolved: BTreeMap<String, String> = BTreeMap::new();
    for raw in &names {
        if out.wants_next() {
            out.case_nt("name", json!({"kind": "name", "raw": cps(raw)}), name_obs(raw), true);
        } else {
            out.skip();
        }
        if let Ok(n) = tough::TargetName::new(raw.clone()) {
            by_resolved.entry(n.resolved().to_string()).or_insert(raw.clone());
        }
    }
    let mut r0 = Rng::new(args.seed, 1);
    let mut random_names = Vec::new();
    for _ in 0..(if thorough { 4000 } else { 400 }) {
        let len = r0.range(6, 40) as usize;
        let s: String = (0..len).map(|_| if r0.chance(1, 3) { *r0.pick(&['a', 'b', 'c', 'x']) } else { *r0.pick(&ALPHABET) }).collect();
        random_names.push(s);
    }
    for raw in &random_names {
        if out.wants_next() {
            out.case_nt("name-random", json!({"kind": "name", "raw": cps(raw)}), name_obs(raw), true);
        } else {
            out.skip();
        }
    }

    // ---- part B: saves. Names: one raw per distinct resolved form (sampled in quick tier), random
    // names, and absolute names that point at a unique, harmless place outside the sandbox.
    let mut save_raws: Vec<String> = by_resolved.values().cloned().collect();
    if !thorough {
        let mut r = Rng::new(args.seed, 2);
        r.shuffle(&mut save_raws);
        save_raws.truncate(700);
    }
    for raw in random_names.iter().take(if thorough { 1500 } else { 150 }) {
        if tough::TargetName::new(raw.clone()).is_ok() { save_raws.push(raw.clone()); }
    }
    let escape = format!("zz-verif-escape-{}", std::process::id());
    save_raws.push(format!("/{escape}/x"));
    save_raws.push(format!("//{escape}/./y"));
    save_raws.push(format!("/{escape}"));
    save_raws.sort();
    save_raws.dedup();

    let contents: Vec<Vec<u8>> = vec![b"first target content, 31 bytes.".to_vec(), vec![7u8; 300], b"x".to_vec()];
    let old_content = b"previous file".to_vec();
    for cs in [false, true] {
        let tnames = Names { roles: vec!["role0".into()], targets: save_raws.clone() };
        let mut world = World::new(&pool, tnames);
        let mut msgs = MsgGen(0);
        let mut entries = Vec::new();
        for i in 0..save_raws.len() {
            let c = &contents[i % contents.len()];
            let id = world.digest_id(&sha256(c));
            entries.push((i, c.len() as u64, id));
        }
        let root = simple_root(1, cs, (vec![7], 1), (vec![8], 1), (vec![9], 1), (vec![10], 1), msgs.next(), &[7]);
        let top = ATargets { version: 1, expires: 7 * DAY, entries, deleg: None, msg: msgs.next(), sigs: valid_sigs(&[10]) };
        let online = Online { ts_sigs: valid_sigs(&[8]), snap_sigs: valid_sigs(&[9]), ts_expires: DAY, snap_expires: 3 * DAY };
        let asm = assemble(&mut world, cs, 1, 1, &top, &[], Pin { length: false, hash: true }, &online, &mut msgs);
        let cyc = ACycle { limits: ALimits::default(), safe: true, now: 0, server: asm.server, shipped: Some(root), reads: vec![] };
        let mem = Mem::new(usize::MAX);
        let mut labels = HashMap::new();
        let _ = cycle_model(&mut world, &mem, &cyc, &mut labels);
        let ds = tempfile::tempdir().unwrap();
        let repo = run_cycle(&mut world, &mem, &cyc, ds.path(), &labels).await.repo.expect("base repository loads");

        let sbx_holder = tempfile::tempdir().unwrap();
        let sbx: PathBuf = sbx_holder.path().canonicalize().unwrap();
        for (i, raw) in save_raws.iter().enumerate() {
            let mut r = Rng::new(args.seed, 10_000 + (cs as u64) * 1_000_000 + i as u64);
            if !out.wants_next() { out.skip(); continue; }
            let tn = tough::TargetName::new(raw.clone()).unwrap();
            let content = contents[i % contents.len()].clone();
            let digest_hex = hex::encode(sha256(&content));
            // an absolute name without the digest prefix replaces the output directory in `join`: only
            // the names that point at the unique escape location are tried that way (a broken check
            // would otherwise scatter files over the real root directory)
            let dangerous = tn.resolved().starts_with('/') && !tn.resolved().contains(&escape);
            let prefix_digest = dangerous || r.chance(1, 2);
            let preexisting = r.chance(1, 2);
            // what lies at the destination beforehand: an unrelated file, or (half of the time) a file of exactly the
            // signed length with other content
            let old_content: Vec<u8> = if r.chance(1, 2) && !content.is_empty() { let mut x = content.clone(); x[0] ^= 0x55; x } else { old_content.clone() };
            let fault = match r.below(8) { 0 => Fault::BitFlip, 1 => Fault::Oversize, 2 => Fault::TransportErr(r.below(3) as usize), 3 => Fault::Truncated, 4 => Fault::Nothing, _ => Fault::Clean };
            // sandbox: sbx/a/b/out is the output directory, sbx/other is a bystander
            let _ = std::fs::remove_dir_all(sbx.join("a"));
            let _ = std::fs::remove_dir_all(sbx.join("other"));
            let outdir = sbx.join("a").join("b").join("out");
            std::fs::create_dir_all(&outdir).unwrap();
            std::fs::create_dir_all(sbx.join("other")).unwrap();
            std::fs::write(sbx.join("other").join("bystander"), &old_content).unwrap();
            // where the file belongs, by the documented rule (resolved name below outdir)
            let file_name = if prefix_digest { format!("{digest_hex}.{}", tn.resolved()) } else { tn.resolved().to_string() };
            let mut pre_ok = false;
            if preexisting && !file_name.starts_with('/') {
                let dst = outdir.join(&file_name);
                if let Some(parent) = dst.parent() {
                    if std::fs::create_dir_all(parent).is_ok() && std::fs::write(&dst, &old_content).is_ok() { pre_ok = true; }
                }
            }
            let before = snapshot(&sbx, &old_content, &content);
            // the transport stream
            let mut data = content.clone();
            match fault {
                Fault::BitFlip => { let p = r.below(data.len() as u64) as usize; data[p] ^= 4; }
                Fault::Oversize => data.extend_from_slice(b"+more"),
                Fault::Truncated => { data.truncate(data.len() / 2); }
                // the stream ends before any chunk
                Fault::Nothing => data.clear(),
                _ => {}
            }
            let step = (data.len() / 3).max(1);
            let mut chunks: Vec<Chunk> = data.chunks(step).map(|c| Chunk::Data(c.to_vec())).collect();
            if let Fault::TransportErr(k) = fault { let at = k.min(chunks.len()); chunks.insert(at, Chunk::ErrOther); }
            // a transport may deliver empty chunks anywhere: they are not the end of the stream
            if r.chance(1, 3) { let at = r.below(chunks.len() as u64 + 1) as usize; chunks.insert(at, Chunk::Data(Vec::new())); }
            // whatever URL the client derives from the name: serve the script below /t/
            *mem.any_target.lock().unwrap() = Some(Resp::Stream(chunks.clone()));
            mem.clear_log();
            let snaps: Arc<Mutex<Vec<Value>>> = Arc::new(Mutex::new(Vec::new()));
            {
                let snaps = snaps.clone();
                let sbx2 = sbx.clone();
                let (o, n) = (old_content.clone(), content.clone());
                *mem.observer.lock().unwrap() = Some(Box::new(move || { snaps.lock().unwrap().push(snapshot(&sbx2, &o, &n)); }));
            }
            let res = repo.save_target(&tn, &outdir, if prefix_digest { tough::Prefix::Digest } else { tough::Prefix::None }).await;
            *mem.observer.lock().unwrap() = None;
            let after = snapshot(&sbx, &old_content, &content);
            // anything at the escape location?
            let esc = PathBuf::from(format!("/{escape}"));
            let escaped = esc.exists();
            if escaped { let _ = std::fs::remove_dir_all(&esc); let _ = std::fs::remove_file(&esc); }
            // `Url::join` of unusual names may point outside the targets base URL (or fail): then the
            // transport has nothing to serve and the transfer fails at once
            let served = mem.requests().iter().any(|p| p.starts_with("/t/"));
            let chunk_model: Vec<Value> = if served {
                chunks.iter().map(|c| match c { Chunk::Data(b) => json!({"d": hex::encode(b)}), _ => json!("err") }).collect()
            } else {
                vec![json!("err")]
            };
            let input = json!({"kind": "save", "raw": cps(raw), "prefix_digest": prefix_digest, "hexdigest": digest_hex, "cs": cs,
                "preexisting": pre_ok, "fault": format!("{fault:?}"), "max": content.len(), "content": hex::encode(&content),
                "chunks": chunk_model, "served": served});
            let imp = json!({"res": match &res { Ok(()) => "ok".to_string(), Err(e) => format!("err:{}", e.to_string().chars().take(40).collect::<String>()) },
                "before": before, "snapshots": Value::Array(snaps.lock().unwrap().clone()), "after": after, "escaped": escaped});
            let class = format!("save-{}{}", match fault { Fault::Clean => "clean", Fault::BitFlip => "bitflip", Fault::Oversize => "oversize", Fault::TransportErr(_) => "transport-error", Fault::Truncated => "truncated", Fault::Nothing => "no-chunk" }, if pre_ok { "-preexisting" } else { "" });
            out.case_nt(&class, input, imp, true);
        }
    }
    out.finish();
}
