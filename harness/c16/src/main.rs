//! C16 correspondence harness: for a delegated role name, the file the editor would write
//! (`Role::filename`), the URL path the client requests, the datastore entry it stores and the entry
//! `Repository::cache` writes — and whether anything appeared outside those directories.
use serde_json::{json, Value};
use std::collections::{BTreeSet, HashMap};
use std::num::NonZeroU64;
use std::path::Path;
use tough::schema::{DelegatedTargets, Role, Targets};
use vcommon::{parse_args, Out, Rng};
use vworld::client::*;
use vworld::repo::*;
use vworld::{KeyPool, Mem};

const ALPHABET: [char; 12] = ['/', '\\', '.', '%', '?', '#', ':', ' ', '\u{1}', 'a', '2', 'é'];

fn all_names(maxlen: usize) -> Vec<String> {
    let mut out = vec![String::new()];
    let mut last = vec![String::new()];
    for _ in 0..maxlen {
        let mut next = Vec::new();
        for s in &last {
            for c in ALPHABET {
                let mut t = s.clone();
                t.push(c);
                next.push(t);
            }
        }
        out.extend(next.iter().cloned());
        last = next;
    }
    out
}

fn percent_decode(s: &str) -> String {
    let b = s.as_bytes();
    let mut out = Vec::new();
    let mut i = 0;
    while i < b.len() {
        if b[i] == b'%' && i + 2 < b.len() && b[i + 1].is_ascii_hexdigit() && b[i + 2].is_ascii_hexdigit() {
            let v = u8::from_str_radix(std::str::from_utf8(&b[i + 1..i + 3]).unwrap(), 16).unwrap();
            out.push(v);
            i += 3;
            continue;
        }
        out.push(b[i]);
        i += 1;
    }
    String::from_utf8_lossy(&out).to_string()
}

/// lexical normalisation of `..` and `.` components
fn normalize(p: &Path) -> std::path::PathBuf {
    let mut out = std::path::PathBuf::new();
    for c in p.components() {
        match c {
            std::path::Component::ParentDir => { out.pop(); }
            std::path::Component::CurDir => {}
            other => out.push(other.as_os_str()),
        }
    }
    out
}

fn listing(dir: &Path) -> BTreeSet<String> {
    let mut s = BTreeSet::new();
    if let Ok(rd) = std::fs::read_dir(dir) {
        for e in rd.flatten() {
            s.insert(e.file_name().to_string_lossy().to_string());
        }
    }
    s
}

async fn case(pool: &KeyPool, out: &mut Out, class: &str, name: &str, cs: bool, version: u64) {
    if !out.wants_next() { out.skip(); return; }
    // 1. the editor's file name
    let dt = DelegatedTargets { name: name.to_string(), targets: Targets::new("1.0.0".into(), NonZeroU64::new(version).unwrap(), chrono::Utc::now()) };
    let editor_file = dt.filename(cs);
    // 2. a repository with that delegated role
    let mut names = Names::default();
    names.roles[0] = name.to_string();
    let mut world = World::new(pool, names);
    let mut msgs = MsgGen(0);
    let root = simple_root(1, cs, (vec![7], 1), (vec![8], 1), (vec![9], 1), (vec![10], 1), msgs.next(), &[7]);
    let role0 = ATargets { version, expires: 7 * DAY, entries: vec![], deleg: None, msg: msgs.next(), sigs: valid_sigs(&[11]) };
    let top = ATargets {
        version: 1, expires: 7 * DAY, entries: vec![],
        deleg: Some(ADeleg { table: vec![11], roles: vec![ADRole { name: 0, ids: vec![11], thr: 1, patterns: vec!["*".into()], hash_prefixes: vec![] }] }),
        msg: msgs.next(), sigs: valid_sigs(&[10]),
    };
    let online = Online { ts_sigs: valid_sigs(&[8]), snap_sigs: valid_sigs(&[9]), ts_expires: DAY, snap_expires: 3 * DAY };
    let asm = assemble(&mut world, cs, 1, 1, &top, &[(0, role0)], Pin { length: true, hash: true }, &online, &mut msgs);
    let cyc = ACycle { limits: ALimits::default(), safe: true, now: 0, server: asm.server, shipped: Some(root), reads: vec![] };
    let mem = Mem::new(100);
    let mut labels = HashMap::new();
    let _ = cycle_model(&mut world, &mem, &cyc, &mut labels);
    // sandbox: <sbx>/ds (datastore), <sbx>/cache/md, <sbx>/cache/tg ; anything else appearing in <sbx>
    // or in <sbx>/cache is an escape
    let sbx = tempfile::tempdir().unwrap();
    let ds = sbx.path().join("ds");
    let md = sbx.path().join("cache").join("md");
    let tg = sbx.path().join("cache").join("tg");
    std::fs::create_dir_all(&ds).unwrap();
    std::fs::create_dir_all(&md).unwrap();
    std::fs::create_dir_all(&tg).unwrap();
    let obs = run_cycle(&mut world, &mem, &cyc, &ds, &labels).await;
    let standard = ["1.root.json", "2.root.json", "timestamp.json", "snapshot.json", "targets.json", "1.snapshot.json", "1.targets.json"];
    let role_requests: Vec<String> = mem.requests().iter().filter_map(|p| p.strip_prefix("/m/").map(|s| s.to_string()))
        .filter(|p| !standard.contains(&p.as_str())).collect();
    let ds_known = ["root.json", "timestamp.json", "snapshot.json", "targets.json", "latest_known_time.json"];
    let ds_entries: Vec<String> = listing(&ds).into_iter().filter(|e| !ds_known.contains(&e.as_str())).collect();
    let mut cache_entries: Vec<String> = Vec::new();
    let mut cache_res = "skipped".to_string();
    if let Some(repo) = &obs.repo {
        let none: Option<&[&str]> = Some(&[]);
        cache_res = match repo.cache(&md, &tg, none, false).await { Ok(()) => "ok".into(), Err(e) => format!("err:{}", e.to_string().chars().take(60).collect::<String>()) };
        let known = ["timestamp.json", "snapshot.json", "targets.json", "1.snapshot.json", "1.targets.json"];
        cache_entries = listing(&md).into_iter().filter(|e| !known.contains(&e.as_str())).collect();
    }
    // what `cache` asked the source for (beyond what the load had asked for)
    let cache_requests: Vec<String> = mem.requests().iter().filter_map(|p| p.strip_prefix("/m/").map(|s| s.to_string()))
        .filter(|p| !standard.contains(&p.as_str())).skip(role_requests.len()).collect();
    let outside = listing(sbx.path()) != ["cache", "ds"].iter().map(|s| s.to_string()).collect::<BTreeSet<_>>()
        || listing(&sbx.path().join("cache")) != ["md", "tg"].iter().map(|s| s.to_string()).collect::<BTreeSet<_>>()
        || !listing(&tg).is_empty();
    // the file transport: with the role's file absent under its (encoded) name, nothing else may be read in its place -
    // in particular not the file the percent-DECODED name would point at
    let fs_fallback = {
        use tough::Transport;
        let t = tempfile::tempdir().unwrap();
        let inner = t.path().join("base").join("inner");
        std::fs::create_dir_all(&inner).unwrap();
        let decoded: String = percent_decode(&editor_file);
        if decoded != editor_file && !decoded.contains('\0') {
            // a decoy where the decoded name points (kept inside the temporary directory)
            let target = inner.join(&decoded);
            let norm = normalize(&target);
            if norm.starts_with(t.path()) {
                if let Some(parent) = norm.parent() { let _ = std::fs::create_dir_all(parent); }
                let _ = std::fs::write(&norm, b"decoy");
            }
        }
        match url::Url::from_directory_path(&inner).ok().and_then(|b| b.join(&editor_file).ok()) {
            Some(u) if u.path().starts_with(url::Url::from_directory_path(&inner).unwrap().path()) => {
                match tough::FilesystemTransport.fetch(u).await {
                    Ok(mut st) => { use futures::StreamExt; let mut got = false; while let Some(it) = st.next().await { if let Ok(b) = it { if !b.is_empty() { got = true; } } } got }
                    Err(_) => false,
                }
            }
            _ => false,
        }
    };
    let input = json!({"name": name.as_bytes(), "cs": cs, "version": version});
    let imp = json!({"load": obs.obs["res"], "editor": editor_file, "requests": role_requests, "datastore": ds_entries,
        "cache": cache_entries, "cache_requests": cache_requests, "cache_res": cache_res, "outside": outside, "fs_fallback": fs_fallback});
    out.case_nt(class, input, imp, true);
}

#[tokio::main(flavor = "current_thread")]
async fn main() {
    let mut args = parse_args();
    let pool = KeyPool::load();
    let mut only = None;
    if let Some(p) = &args.replay {
        let v: Value = serde_json::from_str(&std::fs::read_to_string(p).unwrap()).unwrap();
        if let Some(t) = v["tier"].as_str() { args.tier = t.into(); }
        if let Some(s) = v["seed"].as_u64() { args.seed = s; }
        only = v["case"]["id"].as_u64();
    }
    let thorough = args.tier == "thorough";
    let mut out = Out::new(&args.out);
    out.only = only;
    // names that are the subject of the known finding and of the same-name observation
    for cs in [false, true] {
        for (class, n) in [("reserved-N.root", "2.root"), ("reserved-N.root", "1.root"), ("same-as-top-level", "root"), ("same-as-top-level", "timestamp"),
            ("same-as-top-level", "snapshot"), ("same-as-top-level", "targets")] {
            case(&pool, &mut out, class, n, cs, 1).await;
        }
        for n in [".", "..", "x.json", "a%2Fb", "a/b", "%2e%2e", "%2E%2E", "1.targets", "1.snapshot", "..%2F..%2Fetc", "a b", "a+b", "../../x", "/abs", "C:\\x", "con", "~", "-", "_", "a.b.c", "1", "1.", ".1"] {
            case(&pool, &mut out, "special", n, cs, 1).await;
            case(&pool, &mut out, "special", n, cs, 12).await;
        }
    }
    let names = all_names(if thorough { 4 } else { 2 });
    for n in &names {
        for cs in [false, true] {
            case(&pool, &mut out, "exhaustive", n, cs, 1).await;
        }
    }
    let mut r = Rng::new(args.seed, 1);
    if !thorough {
        for _ in 0..500 {
            let len = r.range(3, 4) as usize;
            let n: String = (0..len).map(|_| *r.pick(&ALPHABET)).collect();
            case(&pool, &mut out, "sampled-short", &n, r.chance(1, 2), r.range(1, 3)).await;
        }
    }
    for _ in 0..(if thorough { 3000 } else { 300 }) {
        let len = r.range(5, 64) as usize;
        let n: String = (0..len).map(|_| if r.chance(1, 2) { *r.pick(&ALPHABET) } else { *r.pick(&['b', 'Z', '9', '-', '_', '~', '🍺', 'ö', '\t', '"']) }).collect();
        case(&pool, &mut out, "random-long", &n, r.chance(1, 2), r.range(1, 300)).await;
    }
    out.finish();
}
