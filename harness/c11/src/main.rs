//! C11 correspondence harness: drives the real `olpc_cjson::CanonicalFormatter` through a
//! `Serialize` wrapper that emits object members in a chosen order (serde_json's own `Value`
//! sorts or dedups them and would hide the subject), and prints input + observed bytes.
use serde::ser::{Serialize, SerializeMap, SerializeSeq, Serializer};
use serde_json::{json, Value};
use unicode_normalization::UnicodeNormalization;
use vcommon::{parse_args, read_replay, Out, Rng};

#[derive(Clone, Debug)]
enum J {
    Null,
    Bool(bool),
    Int(i128),
    Big(u128),
    Float(f64),
    Str(String),
    Arr(Vec<J>),
    Obj(Vec<(String, J)>),
}

impl Serialize for J {
    fn serialize<S: Serializer>(&self, s: S) -> Result<S::Ok, S::Error> {
        match self {
            J::Null => s.serialize_unit(),
            J::Bool(b) => s.serialize_bool(*b),
            J::Int(i) => {
                if let Ok(x) = i64::try_from(*i) {
                    s.serialize_i64(x)
                } else if let Ok(x) = u64::try_from(*i) {
                    s.serialize_u64(x)
                } else {
                    s.serialize_i128(*i)
                }
            }
            J::Big(u) => s.serialize_u128(*u),
            J::Float(f) => s.serialize_f64(*f),
            J::Str(x) => s.serialize_str(x),
            J::Arr(xs) => {
                let mut seq = s.serialize_seq(Some(xs.len()))?;
                for x in xs {
                    seq.serialize_element(x)?;
                }
                seq.end()
            }
            J::Obj(ms) => {
                let mut m = s.serialize_map(Some(ms.len()))?;
                for (k, v) in ms {
                    m.serialize_entry(k, v)?;
                }
                m.end()
            }
        }
    }
}

fn cps(s: &str) -> Value {
    Value::Array(s.chars().map(|c| json!(c as u32)).collect())
}

fn to_wire(j: &J) -> Value {
    match j {
        J::Null => json!("n"),
        J::Bool(b) => json!({ "b": b }),
        J::Int(i) => json!({"i": i.to_string()}),
        J::Big(u) => json!({"i": u.to_string()}),
        J::Float(_) => json!("f"),
        J::Str(s) => json!({"s": cps(s)}),
        J::Arr(xs) => json!({"a": xs.iter().map(to_wire).collect::<Vec<_>>()}),
        J::Obj(ms) => json!({"o": ms.iter().map(|(k, v)| json!([cps(k), to_wire(v)])).collect::<Vec<_>>()}),
    }
}

fn str_from_cps(v: &Value) -> String {
    v.as_array().unwrap().iter().map(|c| char::from_u32(c.as_u64().unwrap() as u32).unwrap()).collect()
}

fn from_wire(v: &Value) -> J {
    match v {
        Value::String(s) if s == "n" => J::Null,
        Value::String(s) if s == "f" => J::Float(1.5),
        Value::Object(o) => {
            if let Some(b) = o.get("b") {
                J::Bool(b.as_bool().unwrap())
            } else if let Some(i) = o.get("i") {
                let s = i.as_str().unwrap();
                match s.parse::<i128>() {
                    Ok(x) => J::Int(x),
                    Err(_) => J::Big(s.parse::<u128>().unwrap()),
                }
            } else if let Some(s) = o.get("s") {
                J::Str(str_from_cps(s))
            } else if let Some(a) = o.get("a") {
                J::Arr(a.as_array().unwrap().iter().map(from_wire).collect())
            } else if let Some(ms) = o.get("o") {
                J::Obj(ms.as_array().unwrap().iter().map(|m| (str_from_cps(&m[0]), from_wire(&m[1]))).collect())
            } else {
                panic!("bad wire value")
            }
        }
        _ => panic!("bad wire value"),
    }
}

fn needs_escape(c: char) -> bool {
    (c as u32) < 0x20 || c == '"' || c == '\\'
}

/// NFC of every maximal run of non-escaped characters that is changed by normalisation.
fn nfc_rows(s: &str, rows: &mut Vec<Value>) {
    let mut run = String::new();
    let mut flush = |run: &mut String, rows: &mut Vec<Value>| {
        if !run.is_empty() {
            let n: String = run.nfc().collect();
            if n != *run {
                rows.push(json!([cps(run), cps(&n)]));
            }
            run.clear();
        }
    };
    for c in s.chars() {
        if needs_escape(c) {
            flush(&mut run, rows);
        } else {
            run.push(c);
        }
    }
    flush(&mut run, rows);
}

fn collect_nfc(j: &J, rows: &mut Vec<Value>) {
    match j {
        J::Str(s) => nfc_rows(s, rows),
        J::Arr(xs) => xs.iter().for_each(|x| collect_nfc(x, rows)),
        J::Obj(ms) => ms.iter().for_each(|(k, v)| {
            nfc_rows(k, rows);
            collect_nfc(v, rows)
        }),
        _ => {}
    }
}

fn run_impl(j: &J) -> Value {
    let mut buf = Vec::new();
    let mut ser = serde_json::Serializer::with_formatter(&mut buf, olpc_cjson::CanonicalFormatter::new());
    match j.serialize(&mut ser) {
        Ok(()) => json!({"ok": hex::encode(&buf)}),
        Err(e) => {
            if e.to_string().contains("floating point") {
                json!({"err": "float"})
            } else {
                json!({"err": "other"})
            }
        }
    }
}

fn emit(out: &mut Out, class: &str, j: &J) {
    let mut rows = Vec::new();
    collect_nfc(j, &mut rows);
    let input = json!({"v": to_wire(j), "nfc": rows});
    out.case(class, input, run_impl(j));
}

const ALPHABET: [char; 8] = ['a', 'b', ' ', '!', '"', '\\', '\u{1}', 'é'];

fn short_strings(maxlen: usize) -> Vec<String> {
    let mut v = vec![String::new()];
    let mut last = vec![String::new()];
    for _ in 0..maxlen {
        let mut next = Vec::new();
        for s in &last {
            for c in ALPHABET {
                let mut t = s.clone();
                t.push(c);
                next.push(t);
            }
        }
        v.extend(next.iter().cloned());
        last = next;
    }
    v
}

fn permutations(n: usize) -> Vec<Vec<usize>> {
    fn go(cur: &mut Vec<usize>, used: &mut Vec<bool>, n: usize, out: &mut Vec<Vec<usize>>) {
        if cur.len() == n {
            out.push(cur.clone());
            return;
        }
        for i in 0..n {
            if !used[i] {
                used[i] = true;
                cur.push(i);
                go(cur, used, n, out);
                cur.pop();
                used[i] = false;
            }
        }
    }
    let mut out = Vec::new();
    go(&mut Vec::new(), &mut vec![false; n], n, &mut out);
    out
}

/// all key sets of size <= 3 over the short strings, in every insertion order
fn exhaustive(out: &mut Out, maxlen: usize) {
    let strs = short_strings(maxlen);
    let n = strs.len();
    let perms: Vec<Vec<Vec<usize>>> = (0..=3).map(permutations).collect();
    let mut emit_set = |out: &mut Out, idx: &[usize]| {
        for p in &perms[idx.len()] {
            let ms: Vec<(String, J)> = p.iter().map(|&i| (strs[idx[i]].clone(), J::Int(i as i128 + 1))).collect();
            // value tied to the key (not to the position) so that all orders denote the same object
            let ms: Vec<(String, J)> = ms
                .into_iter()
                .zip(p.iter())
                .map(|((k, _), &i)| (k, J::Int(idx[i] as i128)))
                .collect();
            emit(out, "exh-keys", &J::Obj(ms));
        }
    };
    emit_set(out, &[]);
    for a in 0..n {
        emit_set(out, &[a]);
        for b in a + 1..n {
            emit_set(out, &[a, b]);
            for c in b + 1..n {
                emit_set(out, &[a, b, c]);
            }
        }
    }
}

const INT_EDGES: [i128; 16] = [
    0, 1, -1, 9, 10, -10, 255, 65536,
    i64::MAX as i128, i64::MIN as i128, i64::MAX as i128 + 1, u64::MAX as i128, u64::MAX as i128 + 1,
    i128::MAX, i128::MIN, -(u64::MAX as i128),
];

fn rand_char(r: &mut Rng) -> char {
    match r.below(12) {
        0 => char::from_u32(r.below(0x20) as u32).unwrap(),
        1 => '"',
        2 => '\\',
        3 => *r.pick(&[' ', '!', '#', '/', '~', '\u{7f}']),
        4 => *r.pick(&['é', 'ö', 'ß', '\u{80}', '\u{7ff}', '\u{800}', '\u{ffff}', '\u{10000}', '\u{10ffff}', '🍺', '한']),
        5 => *r.pick(&['\u{301}', '\u{308}', '\u{327}', '\u{338}', '\u{323}']), // combining marks
        6 => *r.pick(&['e', 'o', 'a', 'c', '=', '<', 'K', '\u{212b}', '\u{2126}', '\u{1100}', '\u{1161}']),
        _ => (b'a' + r.below(26) as u8) as char,
    }
}

fn rand_string(r: &mut Rng) -> String {
    let n = match r.below(10) {
        0 => 0,
        1..=5 => r.range(1, 3),
        _ => r.range(1, 8),
    };
    (0..n).map(|_| rand_char(r)).collect()
}

fn rand_value(r: &mut Rng, depth: u32, floats: bool) -> J {
    let top = if depth == 0 { 6 } else { 9 };
    match r.below(top) {
        0 => J::Null,
        1 => J::Bool(r.chance(1, 2)),
        2 => {
            if r.chance(1, 2) {
                J::Int(*r.pick(&INT_EDGES))
            } else {
                J::Int(r.next() as i64 as i128 >> r.below(60))
            }
        }
        3 => {
            if floats && r.chance(1, 3) {
                J::Float(*r.pick(&[0.5, 1.0, -2.25, 1e300, f64::MIN_POSITIVE]))
            } else if r.chance(1, 6) {
                J::Big(u128::MAX - r.below(3) as u128)
            } else {
                J::Int(r.below(1000) as i128)
            }
        }
        4 | 5 => J::Str(rand_string(r)),
        6 => {
            let n = r.below(4);
            J::Arr((0..n).map(|_| rand_value(r, depth - 1, floats)).collect())
        }
        _ => {
            let n = r.below(5);
            let mut ms: Vec<(String, J)> = Vec::new();
            let mut seen: Vec<String> = Vec::new();
            for _ in 0..n {
                // keys that are prefixes / escaped variants of one another are the interesting ones
                let k = if !ms.is_empty() && r.chance(1, 2) {
                    let mut k = ms[r.below(ms.len() as u64) as usize].0.clone();
                    k.push(rand_char(r));
                    k
                } else {
                    rand_string(r)
                };
                let norm: String = k.nfc().collect();
                if seen.contains(&norm) {
                    continue;
                }
                seen.push(norm);
                ms.push((k, rand_value(r, depth - 1, floats)));
            }
            r.shuffle(&mut ms);
            J::Obj(ms)
        }
    }
}

fn corpus(out: &mut Out) {
    let o = |ks: &[&str]| J::Obj(ks.iter().enumerate().map(|(i, k)| (k.to_string(), J::Int(i as i128 + 1))).collect());
    emit(out, "corpus", &o(&["a", "a!"]));
    emit(out, "corpus", &o(&["a", "a!", "a ", "a\"", "a#"]));
    emit(out, "corpus", &o(&["a\\", "a\"", "a]", "a!"]));
    emit(out, "corpus", &J::Obj(vec![("x".into(), J::Float(8.0))]));
    emit(out, "corpus", &J::Str("e\u{301}\"\u{301}\\".into()));
    emit(out, "corpus", &J::Arr(vec![J::Big(u128::MAX), J::Int(i128::MIN), J::Obj(vec![])]));
}

fn main() {
    let args = parse_args();
    let mut out = Out::new(&args.out);
    if let Some(p) = &args.replay {
        for c in read_replay(p) {
            let j = from_wire(&c["input"]["v"]);
            let class = c["class"].as_str().unwrap_or("replay").to_string();
            emit(&mut out, &class, &j);
        }
        out.finish();
        return;
    }
    corpus(&mut out);
    let thorough = args.tier == "thorough";
    exhaustive(&mut out, if thorough { 2 } else { 1 });
    let n_random = if thorough { 150_000 } else { 20_000 };
    for i in 0..n_random {
        let mut r = Rng::new(args.seed, i);
        let floats = i % 10 == 0;
        // top level: mostly objects
        let v = if r.chance(3, 4) {
            loop {
                if let j @ J::Obj(_) = rand_value(&mut r, 4, floats) {
                    break j;
                }
            }
        } else {
            rand_value(&mut r, 4, floats)
        };
        emit(&mut out, if floats { "random-floats" } else { "random" }, &v);
    }
    out.finish();
}
