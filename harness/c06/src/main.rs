//! C06 correspondence harness: `Repository::read_target` against a scripted transport stream.
use futures::StreamExt;
use serde_json::{json, Value};
use std::collections::HashMap;
use vcommon::{parse_args, Out, Rng};
use vworld::client::*;
use vworld::mem::{Chunk, Resp};
use vworld::meta::sha256;
use vworld::repo::*;
use vworld::{KeyPool, Mem};

fn content(seed: u64, i: usize, n: usize) -> Vec<u8> {
    let mut r = Rng::new(seed, 7000 + i as u64);
    (0..n).map(|_| r.next() as u8).collect()
}

fn sizes(thorough: bool) -> Vec<usize> {
    let mut v: Vec<usize> = (0..=if thorough { 64 } else { 12 }).collect();
    for p in [64usize, 255, 256, 1024, 4096, 8192, 65535, 65536] {
        if thorough { v.extend([p - 1, p, p + 1]); } else { v.push(p); }
    }
    v.retain(|x| *x <= 65536);
    v.sort();
    v.dedup();
    v
}

struct Tgt {
    name: String,
    content: Vec<u8>,
    digest: Vec<u8>,
    digest_id: u64,
    delegated: bool,
}

#[derive(Clone, Debug)]
enum C {
    D(Vec<u8>),
    Err,
    Endless(Vec<u8>),
}

fn chunk_model(c: &C) -> Value {
    match c {
        C::D(b) => json!({"d": hex::encode(b)}),
        C::Err => json!("err"),
        C::Endless(b) => json!({"endless": hex::encode(b)}),
    }
}

fn split_at_points(data: &[u8], cuts: &[usize]) -> Vec<C> {
    let mut out = Vec::new();
    let mut last = 0;
    for &c in cuts {
        out.push(C::D(data[last..c].to_vec()));
        last = c;
    }
    out.push(C::D(data[last..].to_vec()));
    out
}

struct Env<'a> {
    world: World<'a>,
    mem: Mem,
    repo: tough::Repository,
    cs: bool,
    tgts: Vec<Tgt>,
    _ds: tempfile::TempDir,
}

async fn build_env<'a>(pool: &'a KeyPool, seed: u64, cs: bool, thorough: bool) -> Env<'a> {
    let sz = sizes(thorough);
    let names = Names { roles: (0..4).map(|i| format!("role{i}")).collect(), targets: (0..sz.len() + 2).map(|i| format!("dir/t{i}.bin")).collect() };
    let mut world = World::new(pool, names);
    let mut msgs = MsgGen(0);
    let mut tgts = Vec::new();
    let mut top_entries = Vec::new();
    let mut role_entries = Vec::new();
    for (i, n) in sz.iter().enumerate() {
        let c = content(seed, i, *n);
        let d = sha256(&c);
        let id = world.digest_id(&d);
        let delegated = i % 2 == 1;
        if delegated { role_entries.push((i, *n as u64, id)); } else { top_entries.push((i, *n as u64, id)); }
        tgts.push(Tgt { name: world.names.targets[i].clone(), content: c, digest: d, digest_id: id, delegated });
    }
    let root = simple_root(1, cs, (vec![7], 1), (vec![8], 1), (vec![9], 1), (vec![10], 1), msgs.next(), &[7]);
    let role0 = ATargets { version: 1, expires: 7 * DAY, entries: role_entries, deleg: None, msg: msgs.next(), sigs: valid_sigs(&[11]) };
    let top = ATargets {
        version: 1, expires: 7 * DAY, entries: top_entries,
        deleg: Some(ADeleg { table: vec![11], roles: vec![ADRole { name: 0, ids: vec![11], thr: 1, patterns: vec!["*".into()], hash_prefixes: vec![] }] }),
        msg: msgs.next(), sigs: valid_sigs(&[10]),
    };
    let online = Online { ts_sigs: valid_sigs(&[8]), snap_sigs: valid_sigs(&[9]), ts_expires: DAY, snap_expires: 3 * DAY };
    let asm = assemble(&mut world, cs, 1, 1, &top, &[(0, role0)], Pin { length: false, hash: true }, &online, &mut msgs);
    let cyc = ACycle { limits: ALimits::default(), safe: true, now: 0, server: asm.server, shipped: Some(root), reads: vec![] };
    let mem = Mem::new(usize::MAX);
    let mut labels = HashMap::new();
    let _ = cycle_model(&mut world, &mem, &cyc, &mut labels);
    let ds = tempfile::tempdir().unwrap();
    let obs = run_cycle(&mut world, &mem, &cyc, ds.path(), &labels).await;
    let repo = obs.repo.expect("base repository loads");
    Env { world, mem, repo, cs, tgts, _ds: ds }
}

impl<'a> Env<'a> {
    fn file_name(&self, t: &Tgt) -> String {
        if self.cs { format!("{}.{}", hex::encode(&t.digest), t.name) } else { t.name.clone() }
    }

    async fn case(&mut self, out: &mut Out, class: &str, ti: usize, chunks: Vec<C>, nontrivial: bool) {
        if !out.wants_next() { out.skip(); return; }
        let (name, max, digest_id, path, delegated, hexd) = {
            let t = &self.tgts[ti];
            (t.name.clone(), t.content.len(), t.digest_id, format!("/t/{}", self.file_name(t)), t.delegated, hex::encode(&t.digest))
        };
        // digest identity of everything the transport would deliver (if it ends)
        let mut all = Vec::new();
        let mut ends = true;
        for c in &chunks {
            match c { C::D(b) => all.extend_from_slice(b), C::Endless(_) => ends = false, C::Err => {} }
        }
        let hash_all = if ends { Some(self.world.digest_id(&sha256(&all))) } else { None };
        self.mem.files.lock().unwrap().retain(|k, _| !k.starts_with("/t/"));
        let script: Vec<Chunk> = chunks.iter().map(|c| match c { C::D(b) => Chunk::Data(b.clone()), C::Err => Chunk::ErrOther, C::Endless(b) => Chunk::Endless(b.clone()) }).collect();
        self.mem.put_resp(&path, Resp::Stream(script));
        self.mem.clear_log();
        let tn = tough::TargetName::new(name.clone()).unwrap();
        let mut delivered: Vec<u8> = Vec::new();
        let status;
        match self.repo.read_target(&tn).await {
            Ok(Some(mut s)) => {
                let mut st = "ok";
                let mut guard = 0u64;
                while let Some(item) = s.next().await {
                    match item {
                        Ok(b) => delivered.extend_from_slice(&b),
                        Err(_) => { st = "err"; break; }
                    }
                    guard += 1;
                    if guard > 1_000_000 { st = "nonterminating"; break; }
                }
                status = st.to_string();
            }
            Ok(None) => status = "notfound".into(),
            Err(e) => status = format!("open-err:{}", err_tag(&e)),
        }
        let reqs = self.mem.requests();
        let input = json!({"cs": self.cs, "name": name, "hexdigest": hexd, "delegated": delegated, "max": max, "expected": digest_id, "hash_all": hash_all,
            "chunks": chunks.iter().map(chunk_model).collect::<Vec<_>>()});
        let imp = json!({"status": status, "delivered": hex::encode(&delivered), "reqs": reqs});
        out.case_nt(class, input, imp, nontrivial);
    }

    async fn notfound_case(&mut self, out: &mut Out, name: &str) {
        if !out.wants_next() { out.skip(); return; }
        self.mem.clear_log();
        let tn = tough::TargetName::new(name.to_string()).unwrap();
        let status = match self.repo.read_target(&tn).await { Ok(Some(_)) => "data", Ok(None) => "notfound", Err(_) => "err" };
        let input = json!({"cs": self.cs, "name": name, "unlisted": true});
        out.case_nt("not-found", input, json!({"status": status, "delivered": "", "reqs": self.mem.requests()}), true);
    }
}

fn compositions(n: usize) -> Vec<Vec<usize>> {
    // all subsets of cut points 1..n-1
    let m = if n == 0 { 0 } else { n - 1 };
    (0..(1u32 << m)).map(|mask| (0..m).filter(|b| mask & (1 << b) != 0).map(|b| b + 1).collect()).collect()
}

#[tokio::main(flavor = "current_thread")]
async fn main() {
    let mut args = parse_args();
    let pool = KeyPool::load();
    let mut only = None;
    if let Some(p) = &args.replay {
        let v: Value = serde_json::from_str(&std::fs::read_to_string(p).unwrap()).unwrap();
        if let Some(t) = v["tier"].as_str() { args.tier = t.into(); }
        if let Some(s) = v["seed"].as_u64() { args.seed = s; }
        only = v["case"]["id"].as_u64();
    }
    let thorough = args.tier == "thorough";
    let mut out = Out::new(&args.out);
    out.only = only;
    for cs in [false, true] {
        let mut env = build_env(&pool, args.seed, cs, thorough).await;
        let n = env.tgts.len();
        for ti in 0..n {
            let data = env.tgts[ti].content.clone();
            let len = data.len();
            let mut r = Rng::new(args.seed, (cs as u64) * 1000 + ti as u64);
            // clean: every chunking for short contents, random chunkings otherwise
            if len <= 6 {
                for cuts in compositions(len) {
                    let nt = !cuts.is_empty();
                    env.case(&mut out, "clean-all-chunkings", ti, split_at_points(&data, &cuts), nt).await;
                }
            } else {
                env.case(&mut out, "clean-one-chunk", ti, vec![C::D(data.clone())], false).await;
                for _ in 0..3 {
                    let k = r.range(1, 5) as usize;
                    let mut cuts: Vec<usize> = (0..k).map(|_| r.below(len as u64 + 1) as usize).collect();
                    cuts.sort();
                    env.case(&mut out, "clean-random-chunking", ti, split_at_points(&data, &cuts), true).await;
                }
            }
            // empty chunks inside
            env.case(&mut out, "clean-empty-chunks", ti, vec![C::D(vec![]), C::D(data.clone()), C::D(vec![])], true).await;
            // bit flips
            let flips: Vec<usize> = if len <= 256 && (thorough || len <= 16) { (0..len).collect() } else { (0..8.min(len)).map(|_| r.below(len as u64) as usize).collect() };
            for p in flips {
                let mut d = data.clone();
                d[p] ^= 1 << r.below(8);
                let cut = r.below(len as u64 + 1) as usize;
                env.case(&mut out, "bitflip", ti, split_at_points(&d, &[cut]), true).await;
            }
            // truncation
            let truncs: Vec<usize> = if len <= 64 && (thorough || len <= 16) { (0..len).collect() } else { (0..6.min(len)).map(|_| r.below(len as u64) as usize).collect() };
            for p in truncs {
                env.case(&mut out, "truncated", ti, vec![C::D(data[..p].to_vec())], true).await;
            }
            // the transport ends the stream without a single chunk (an empty file, an empty body)
            env.case(&mut out, "no-chunk-at-all", ti, vec![], true).await;
            // only empty chunks
            env.case(&mut out, "only-empty-chunks", ti, vec![C::D(vec![]), C::D(vec![])], true).await;
            // extension
            for k in [1usize, 2, 100] {
                let mut d = data.clone();
                d.extend((0..k).map(|_| r.next() as u8));
                let cut = r.below(len as u64 + 1) as usize;
                env.case(&mut out, "extended", ti, split_at_points(&d, &[cut]), true).await;
                // the extension arrives as a separate chunk after the full content
                env.case(&mut out, "extended-own-chunk", ti, vec![C::D(data.clone()), C::D(d[len..].to_vec())], true).await;
            }
            // substitution by another signed target
            let other = (ti + 1 + r.below(n as u64 - 1) as usize) % n;
            let od = env.tgts[other].content.clone();
            env.case(&mut out, "substituted", ti, vec![C::D(od)], true).await;
            // endless
            env.case(&mut out, "endless-after-content", ti, vec![C::D(data.clone()), C::Endless(vec![7u8; 1 + r.below(4096) as usize])], true).await;
            env.case(&mut out, "endless-from-start", ti, vec![C::Endless(vec![0u8; 1 + r.below(100) as usize])], true).await;
            // transport error at chunk k
            let k = r.range(2, 5) as usize;
            let mut cuts: Vec<usize> = (0..k).map(|_| r.below(len as u64 + 1) as usize).collect();
            cuts.sort();
            let mut ch = split_at_points(&data, &cuts);
            let at = r.below(ch.len() as u64 + 1) as usize;
            ch.insert(at, C::Err);
            env.case(&mut out, "transport-error", ti, ch, true).await;
        }
        for name in ["nope.bin", "dir/t999.bin", "dir/../dir/t1.bin/x"] {
            env.notfound_case(&mut out, name).await;
        }
    }
    out.finish();
}
