//! C07 correspondence harness: delegation trees with path patterns / hash prefixes, names placed
//! among the roles; observes `load()` (validation) and `find_target` for every name.
use serde_json::{json, Value};
use std::collections::HashMap;
use vcommon::{parse_args, Out, Rng};
use vworld::client::*;
use vworld::meta::sha256;
use vworld::repo::*;
use vworld::{KeyPool, Mem};

const NAMES: [&str; 12] = ["a", "b", "ab", "d/a", "d/b", "d/e/a", "x/../a", "d/./b", "a.txt", "d/a.txt", "/a", "d//a"];
const PATTERNS: [&str; 16] = ["*", "a", "b", "a*", "?", "??", "d/*", "d/?", "*/a", "*a", "*.txt", "d/*.txt", "a?", "d/e/*", "/*", "x/../a"];

fn resolved(raw: &str) -> String {
    tough::TargetName::new(raw.to_string()).unwrap().resolved().to_string()
}

struct Gen<'r> {
    r: &'r mut Rng,
    names: Vec<String>,
    next_role: usize,
    next_digest: u64,
    roles: Vec<(usize, ATargets)>,
    pathsets: Vec<Value>,
    msgs: MsgGen,
    listed_unauthorized: bool,
    dup: bool,
}

impl<'r> Gen<'r> {
    fn pathset(&mut self) -> (Vec<String>, Vec<String>) {
        if self.r.chance(1, 4) {
            // hash prefixes: of real name digests (length 0..3) and random ones
            let n = self.r.range(1, 3);
            let mut v = Vec::new();
            for _ in 0..n {
                let len = self.r.range(0, 4) as usize;
                let p = if self.r.chance(2, 3) {
                    let nm = resolved(&self.names[self.r.below(self.names.len() as u64) as usize]);
                    let p = hex::encode(sha256(nm.as_bytes()))[..len].to_string();
                    // the digest is compared as lower-case text: an upper-case spelling matches nothing
                    if self.r.chance(1, 4) { p.to_uppercase() } else { p }
                } else {
                    (0..len).map(|_| *self.r.pick(&['0', '5', 'a', 'f', 'A', 'F', 'g'])).collect()
                };
                v.push(p);
            }
            (vec![], v)
        } else {
            let n = self.r.range(1, 3);
            let mut v = Vec::new();
            for _ in 0..n {
                if self.r.chance(1, 3) {
                    v.push(resolved(&self.names[self.r.below(self.names.len() as u64) as usize]));
                } else {
                    v.push(self.r.pick(&PATTERNS).to_string());
                }
            }
            (v, vec![])
        }
    }

    fn entries(&mut self) -> Vec<(usize, u64, u64)> {
        let mut es = Vec::new();
        for i in 0..self.names.len() {
            if self.r.chance(1, 3) {
                self.next_digest += 1;
                es.push((i, 4, self.next_digest));
            }
        }
        es
    }

    /// builds the delegations of one role (depth levels left) and registers the children
    fn deleg(&mut self, depth: usize) -> Option<ADeleg> {
        if depth == 0 || self.r.chance(1, 4) || self.next_role >= 8 {
            return None;
        }
        let fan = self.r.range(1, 3) as usize;
        let mut roles = Vec::new();
        for _ in 0..fan {
            if self.next_role >= 8 { break; }
            let idx = self.next_role;
            self.next_role += 1;
            let (patterns, hash_prefixes) = self.pathset();
            self.pathsets.push(json!([idx, if hash_prefixes.is_empty() { json!({"patterns": patterns}) } else { json!({"prefixes": hash_prefixes}) }]));
            roles.push(ADRole { name: idx, ids: vec![11], thr: 1, patterns, hash_prefixes });
            let entries = self.entries();
            let sub = self.deleg(depth - 1);
            let msg = self.msgs.next();
            self.roles.push((idx, ATargets { version: 1, expires: 7 * DAY, entries, deleg: sub, msg, sigs: valid_sigs(&[11]) }));
        }
        Some(ADeleg { table: vec![11], roles })
    }
}

#[tokio::main(flavor = "current_thread")]
async fn main() {
    let mut args = parse_args();
    let pool = KeyPool::load();
    let mut only = None;
    if let Some(p) = &args.replay {
        let v: Value = serde_json::from_str(&std::fs::read_to_string(p).unwrap()).unwrap();
        if let Some(t) = v["tier"].as_str() { args.tier = t.into(); }
        if let Some(s) = v["seed"].as_u64() { args.seed = s; }
        only = v["case"]["id"].as_u64();
    }
    let thorough = args.tier == "thorough";
    let mut out = Out::new(&args.out);
    out.only = only;
    let n = if thorough { 50_000 } else { 3_000 };
    for i in 0..n {
        if !out.wants_next() { out.skip(); continue; }
        let mut r = Rng::new(args.seed, i);
        // up to 6 names
        let mut pool_names: Vec<&str> = NAMES.to_vec();
        r.shuffle(&mut pool_names);
        let k = r.range(1, 6) as usize;
        let names: Vec<String> = pool_names[..k].iter().map(|s| s.to_string()).collect();
        let cs = r.chance(1, 2);
        let mut g = Gen { r: &mut r, names: names.clone(), next_role: 0, next_digest: 0, roles: vec![], pathsets: vec![], msgs: MsgGen(0), listed_unauthorized: false, dup: false };
        let top_entries = g.entries();
        let deleg = g.deleg(3);
        let top_msg = g.msgs.next();
        let top = ATargets { version: 1, expires: 7 * DAY, entries: top_entries, deleg, msg: top_msg, sigs: valid_sigs(&[10]) };
        let (roles, pathsets, mut msgs) = (g.roles, g.pathsets, g.msgs);
        let _ = (g.listed_unauthorized, g.dup);
        let mut role_names: Vec<String> = (0..8).map(|i| format!("role{i}")).collect();
        role_names[0] = "r0".into();
        let mut world = World::new(&pool, Names { roles: role_names, targets: names.clone() });
        let root = simple_root(1, cs, (vec![7], 1), (vec![8], 1), (vec![9], 1), (vec![10], 1), msgs.next(), &[7]);
        let online = Online { ts_sigs: valid_sigs(&[8]), snap_sigs: valid_sigs(&[9]), ts_expires: DAY, snap_expires: 3 * DAY };
        let asm = assemble(&mut world, cs, 1, 1, &top, &roles, Pin { length: r.chance(1, 2), hash: r.chance(1, 2) }, &online, &mut msgs);
        let cyc = ACycle { limits: ALimits::default(), safe: true, now: 0, server: asm.server, shipped: Some(root), reads: vec![] };
        let mem = Mem::new(200);
        let mut labels = HashMap::new();
        let model = cycle_model(&mut world, &mem, &cyc, &mut labels);
        let ds = tempfile::tempdir().unwrap();
        let obs = run_cycle(&mut world, &mem, &cyc, ds.path(), &labels).await;
        let mut finds = Vec::new();
        if let Some(repo) = &obs.repo {
            for nm in &names {
                let tn = tough::TargetName::new(nm.clone()).unwrap();
                match repo.targets().signed.find_target(&tn) {
                    Ok(t) => {
                        let d: Vec<u8> = t.hashes.sha256.clone().into_vec();
                        finds.push(json!(world.digest_id(&d)));
                    }
                    Err(_) => finds.push(Value::Null),
                }
            }
        }
        // digest ids in the model are the invented ones; map real bytes back
        let names_json: Vec<Value> = names.iter().map(|nm| json!({"raw": nm.chars().map(|c| c as u32).collect::<Vec<_>>(),
            "hex": hex::encode(sha256(resolved(nm).as_bytes()))})).collect();
        let nontrivial = roles.len() >= 1;
        let input = json!({"cycle": model, "names": names_json, "pathsets": pathsets});
        let mut imp = obs.obs.clone();
        imp["finds"] = json!(finds);
        out.case_nt(&format!("tree-roles{}", roles.len().min(4)), input, imp, nontrivial);
    }
    out.finish();
}
