//! C01 correspondence harness: signature lists at `Root::verify_role`, `Delegations::verify_role`
//! and at each of the eight verification sites of `RepositoryLoader::load`.
use serde_json::{json, Value};
use std::collections::HashMap;
use tough::schema::{Delegations, Root, Signed, Targets, Timestamp};
use vcommon::{parse_args, read_replay, Out, Rng};
use vworld::client::*;
use vworld::repo::*;
use vworld::{KeyPool, Mem};

/// symbols of the quantifier; `i` = index among the authorized keys
#[derive(Clone, Copy, Debug, PartialEq)]
enum Sym {
    V(usize),
    A(usize),
    C(usize),
    O(usize),
    X,
    U,
    M,
}

fn alphabet(k: usize) -> Vec<Sym> {
    let mut a = Vec::new();
    for i in 0..k {
        a.extend([Sym::V(i), Sym::A(i), Sym::C(i), Sym::O(i)]);
    }
    a.extend([Sym::X, Sym::U, Sym::M]);
    a
}

/// the keys of one case: `auth` authorized and in the table; x in the table only;
/// u nowhere; m authorized but not in the table
struct Keys {
    auth: Vec<usize>,
    x: usize,
    u: usize,
    m: usize,
    /// the role's `keyids` list names its first key twice (nothing forbids it when a root is parsed)
    dup: bool,
}

impl Keys {
    /// the `keyids` list of the role under test
    fn role_ids(&self) -> Vec<usize> {
        let mut ids = self.auth.clone();
        if self.dup {
            ids.insert(1.min(ids.len()), self.auth[0]);
        }
        ids.push(self.m);
        ids
    }
}

fn keys_for(alg: &str, k: usize, dup: bool) -> Keys {
    // pool.all(): ed 0..12, ec 12..16, rsa 16..20
    match alg {
        "ed" => Keys { auth: (0..k).collect(), x: 4, u: 5, m: 6, dup },
        // ec / rsa have four keys each: the side roles use ed keys
        "ec" => Keys { auth: (12..12 + k).collect(), x: 4, u: 5, m: 6, dup },
        _ => Keys { auth: (16..16 + k).collect(), x: 4, u: 5, m: 6, dup },
    }
}

fn to_sigs(keys: &Keys, list: &[Sym]) -> Vec<ASig> {
    list.iter()
        .map(|s| match s {
            Sym::V(i) => ASig { key: keys.auth[*i], kind: SigKind::Valid },
            Sym::A(i) => ASig { key: keys.auth[*i], kind: SigKind::Again },
            Sym::C(i) => ASig { key: keys.auth[*i], kind: SigKind::Corrupt },
            Sym::O(i) => ASig { key: keys.auth[*i], kind: SigKind::OtherContent },
            Sym::X => ASig { key: keys.x, kind: SigKind::Valid },
            Sym::U => ASig { key: keys.u, kind: SigKind::Valid },
            Sym::M => ASig { key: keys.m, kind: SigKind::Valid },
        })
        .collect()
}

fn sig_model(s: &ASig, msg: u64) -> Value {
    let (signer, m): (Option<usize>, u64) = match &s.kind {
        SigKind::Valid | SigKind::Again => (Some(s.key), msg),
        SigKind::Corrupt => (None, msg),
        SigKind::OtherContent => (Some(s.key), msg + 1_000_000),
        SigKind::ClaimBy(x) => (Some(*x), msg),
    };
    json!({"k": s.key, "s": signer, "m": m})
}

fn site_model(keys: &Keys, thr: u64, msg: u64, sigs: &[ASig]) -> Value {
    let mut table = keys.auth.clone();
    table.push(keys.x);
    let ids = keys.role_ids();
    json!({"table": table, "ids": ids, "thr": thr, "m": msg, "sigs": sigs.iter().map(|s| sig_model(s, msg)).collect::<Vec<_>>()})
}

struct Ctx<'a> {
    pool: &'a KeyPool,
}

fn api_case(ctx: &Ctx<'_>, out: &mut Out, api: &str, alg: &str, k: usize, thr: u64, list: &[Sym], dup: bool) {
    let keys = keys_for(alg, k, dup);
    let sigs = to_sigs(&keys, list);
    let mut world = World::new(ctx.pool, Names::default());
    let ids = keys.role_ids();
    let mut table = keys.auth.clone();
    table.push(keys.x);
    let verdict: bool;
    if api == "root" {
        let mut root = simple_root(1, false, (vec![7], 1), (ids.clone(), thr), (vec![keys.x], 1), (vec![8], 1), 1, &[7]);
        root.table.retain(|i| *i != keys.m);
        let ts = ATimestamp { version: 1, expires: DAY, snap: Some(AMeta { version: 1, length: None, hash: None }), msg: 2, sigs: sigs.clone() };
        let rj = world.root_doc(&root);
        let tj = world.timestamp_doc(&ts);
        let r: Signed<Root> = serde_json::from_value(rj).expect("root parses");
        let t: Signed<Timestamp> = serde_json::from_value(tj).expect("timestamp parses");
        verdict = r.signed.verify_role(&t).is_ok();
    } else {
        let deleg = ADeleg { table: table.clone(), roles: vec![ADRole { name: 0, ids: ids.clone(), thr, patterns: vec!["*".into()], hash_prefixes: vec![] }] };
        let top = ATargets { version: 1, expires: DAY, entries: vec![], deleg: Some(deleg), msg: 1, sigs: vec![] };
        let role = ATargets { version: 1, expires: DAY, entries: vec![], deleg: None, msg: 2, sigs: sigs.clone() };
        let tj = world.targets_doc(&top);
        let d: Delegations = serde_json::from_value(tj["signed"]["delegations"].clone()).expect("delegations parse");
        let r: Signed<Targets> = serde_json::from_value(world.targets_doc(&role)).expect("role parses");
        verdict = d.verify_role(&r, &world.names.roles[0]).is_ok();
    }
    let class = format!("api-{api}-{alg}{}", if dup { "-dupid" } else { "" });
    let input = json!({"kind": "api", "api": api, "dup": dup, "site": site_model(&keys, thr, 2, &sigs), "list": format!("{list:?}")});
    out.case(&class, input, json!({ "ok": verdict }));
}

const SITES: [&str; 8] = ["shipped", "root-old", "root-new", "timestamp", "snapshot", "targets", "deleg1", "deleg2"];

async fn load_case(ctx: &Ctx<'_>, out: &mut Out, site: &str, alg: &str, k: usize, thr: u64, list: &[Sym], consistent: bool, dup: bool) {
    let keys = keys_for(alg, k, dup);
    let sigs = to_sigs(&keys, list);
    let mut world = World::new(ctx.pool, Names::default());
    let mut msgs = MsgGen(10);
    let ids = keys.role_ids();
    let under = (ids.clone(), thr);
    // side keys (ed): root 7, timestamp 8, snapshot 9, targets 10, deleg 11, other root 3
    let (rk, tk, sk, gk, dk) = (7usize, 8usize, 9usize, 10usize, 11usize);
    let zk: usize = if alg == "rsa" { 12 } else { 16 };
    let fix_table = |r: &mut ARoot| {
        r.table.retain(|i| *i != keys.m);
        if !r.table.contains(&keys.x) {
            r.table.push(keys.x);
        }
    };
    let site_msg: u64;
    let mut shipped = simple_root(1, consistent, (vec![rk], 1), (vec![tk], 1), (vec![sk], 1), (vec![gk], 1), msgs.next(), &[rk]);
    let mut chain: Vec<ARoot> = Vec::new();
    let mut ts_sigs = valid_sigs(&[tk]);
    let mut snap_sigs = valid_sigs(&[sk]);
    let mut top_sigs = valid_sigs(&[gk]);
    let mut final_root_idx: Option<usize> = None;
    let mut m_site = 0u64;
    match site {
        "shipped" => {
            shipped = simple_root(1, consistent, under.clone(), (vec![tk], 1), (vec![sk], 1), (vec![gk], 1), msgs.next(), &[]);
            fix_table(&mut shipped);
            shipped.sigs = sigs.clone();
            m_site = shipped.msg;
        }
        "root-old" => {
            shipped = simple_root(1, consistent, under.clone(), (vec![tk], 1), (vec![sk], 1), (vec![gk], 1), msgs.next(), &[]);
            fix_table(&mut shipped);
            // the shipped root must verify under itself: sign with all authorized keys
            shipped.sigs = valid_sigs(&keys.auth);
            let mut r2 = simple_root(2, consistent, (vec![zk], 1), (vec![tk], 1), (vec![sk], 1), (vec![gk], 1), msgs.next(), &[]);
            r2.sigs = sigs.clone();
            r2.sigs.push(ASig::valid(zk));
            m_site = r2.msg;
            chain.push(r2);
            final_root_idx = Some(0);
        }
        "root-new" => {
            let mut r2 = simple_root(2, consistent, under.clone(), (vec![tk], 1), (vec![sk], 1), (vec![gk], 1), msgs.next(), &[]);
            fix_table(&mut r2);
            if list.len() % 2 == 0 {
                // the root keys change between the two versions
                shipped = simple_root(1, consistent, (vec![zk], 1), (vec![tk], 1), (vec![sk], 1), (vec![gk], 1), msgs.next(), &[zk]);
                r2.sigs = vec![ASig::valid(zk)];
                r2.sigs.extend(sigs.clone());
            } else {
                // the very same root key list in both versions, only the threshold differs (1 -> thr):
                // whatever meets the new threshold also meets the old one
                shipped = simple_root(1, consistent, (ids.clone(), 1), (vec![tk], 1), (vec![sk], 1), (vec![gk], 1), msgs.next(), &[]);
                fix_table(&mut shipped);
                shipped.sigs = valid_sigs(&keys.auth[..1]);
                r2.sigs = sigs.clone();
            }
            m_site = r2.msg;
            chain.push(r2);
            final_root_idx = Some(0);
        }
        "timestamp" => {
            shipped = simple_root(1, consistent, (vec![rk], 1), under.clone(), (vec![sk, keys.x], 1), (vec![gk], 1), msgs.next(), &[rk]);
            fix_table(&mut shipped);
            ts_sigs = sigs.clone();
        }
        "snapshot" => {
            shipped = simple_root(1, consistent, (vec![rk], 1), (vec![tk, keys.x], 1), under.clone(), (vec![gk], 1), msgs.next(), &[rk]);
            fix_table(&mut shipped);
            snap_sigs = sigs.clone();
        }
        "targets" => {
            shipped = simple_root(1, consistent, (vec![rk], 1), (vec![tk, keys.x], 1), (vec![sk], 1), under.clone(), msgs.next(), &[rk]);
            fix_table(&mut shipped);
            top_sigs = sigs.clone();
        }
        _ => {}
    }
    if site == "shipped" || site == "root-old" || site == "root-new" {
        // roots are self-signed documents: shipped keeps its own signature list
    }
    let mut table = keys.auth.clone();
    table.push(keys.x);
    let under_role = |name: usize| ADRole { name, ids: ids.clone(), thr, patterns: vec!["*".into()], hash_prefixes: vec![] };
    let plain_role = |name: usize| ADRole { name, ids: vec![dk], thr: 1, patterns: vec!["*".into()], hash_prefixes: vec![] };
    // role0 (depth 1) delegates to role1 (depth 2)
    let mut role1 = ATargets { version: 1, expires: 7 * DAY, entries: vec![(1, 3, 2)], deleg: None, msg: msgs.next(), sigs: valid_sigs(&[dk]) };
    let mut role0 = ATargets {
        version: 1, expires: 7 * DAY, entries: vec![(0, 3, 1)],
        deleg: Some(ADeleg { table: vec![dk], roles: vec![plain_role(1)] }),
        msg: msgs.next(), sigs: valid_sigs(&[dk]),
    };
    let mut top = ATargets {
        version: 1, expires: 7 * DAY, entries: vec![],
        deleg: Some(ADeleg { table: vec![dk], roles: vec![plain_role(0)] }),
        msg: msgs.next(), sigs: top_sigs,
    };
    if site == "targets" {
        m_site = top.msg;
    }
    if site == "deleg1" {
        top.deleg = Some(ADeleg { table: table.clone(), roles: vec![under_role(0)] });
        role0.sigs = sigs.clone();
        m_site = role0.msg;
    }
    if site == "deleg2" {
        role0.deleg = Some(ADeleg { table: table.clone(), roles: vec![under_role(1)] });
        role1.sigs = sigs.clone();
        m_site = role1.msg;
    }
    let online = Online { ts_sigs, snap_sigs, ts_expires: DAY, snap_expires: 3 * DAY };
    let asm = assemble(&mut world, consistent, 1, 1, &top, &[(0, role0), (1, role1)], Pin { length: true, hash: true }, &online, &mut msgs);
    if site == "timestamp" {
        m_site = asm.ts.msg;
    }
    if site == "snapshot" {
        m_site = asm.snap.msg;
    }
    site_msg = m_site;
    let mut server = asm.server;
    for r in &chain {
        server.push((AName::RootV(r.version), AResp::File(AFile::plain(AContent::Root(r.clone())))));
    }
    let _ = final_root_idx;
    let cyc = ACycle { limits: ALimits::default(), safe: true, now: 0, server, shipped: Some(shipped), reads: vec![] };
    let mem = Mem::new(60);
    let mut labels = HashMap::new();
    let model = cycle_model(&mut world, &mem, &cyc, &mut labels);
    let ds = tempfile::tempdir().unwrap();
    let obs = run_cycle(&mut world, &mem, &cyc, ds.path(), &labels).await;
    let class = format!("load-{site}-{alg}{}", if dup { "-dupid" } else { "" });
    let input = json!({"kind": "load", "site_name": site, "dup": dup, "site": site_model(&keys, thr, site_msg, &sigs),
        "list": format!("{list:?}"), "cycle": model});
    out.case(&class, input, obs.obs);
}

fn all_lists(k: usize, maxlen: usize) -> Vec<Vec<Sym>> {
    let a = alphabet(k);
    let mut out = vec![vec![]];
    let mut last = vec![vec![]];
    for _ in 0..maxlen {
        let mut next = Vec::new();
        for l in &last {
            for s in &a {
                let mut n: Vec<Sym> = l.clone();
                n.push(*s);
                next.push(n);
            }
        }
        out.extend(next.iter().cloned());
        last = next;
    }
    out
}

fn rand_list(r: &mut Rng, k: usize, len: usize) -> Vec<Sym> {
    let a = alphabet(k);
    (0..len)
        .map(|_| {
            // valid signatures are the backbone: half of all entries
            if r.chance(1, 2) {
                let i = r.below(k as u64) as usize;
                if r.chance(1, 4) { Sym::A(i) } else { Sym::V(i) }
            } else {
                *r.pick(&a)
            }
        })
        .collect()
}

fn parse_list(s: &str) -> Vec<Sym> {
    // inverse of `{list:?}`: "[V(0), X, M]"
    s.trim_matches(|c| c == '[' || c == ']')
        .split(", ")
        .filter(|t| !t.is_empty())
        .map(|t| {
            let idx = || t[2..t.len() - 1].parse::<usize>().unwrap();
            match &t[..1] {
                "V" => Sym::V(idx()),
                "A" => Sym::A(idx()),
                "C" => Sym::C(idx()),
                "O" => Sym::O(idx()),
                "X" => Sym::X,
                "U" => Sym::U,
                _ => Sym::M,
            }
        })
        .collect()
}

#[tokio::main(flavor = "current_thread")]
async fn main() {
    let args = parse_args();
    let pool = KeyPool::load();
    let ctx = Ctx { pool: &pool };
    let mut out = Out::new(&args.out);
    if let Some(p) = &args.replay {
        for c in read_replay(p) {
            let class = c["class"].as_str().unwrap().to_string();
            let parts: Vec<&str> = class.split('-').collect();
            let list = parse_list(c["input"]["list"].as_str().unwrap());
            let site = &c["input"]["site"];
            let thr = site["thr"].as_u64().unwrap();
            let dup = c["input"]["dup"].as_bool().unwrap_or(false);
            let k = site["ids"].as_array().unwrap().len() - 1 - dup as usize;
            if parts[0] == "api" {
                api_case(&ctx, &mut out, parts[1], parts[2], k, thr, &list, dup);
            } else {
                let alg = if parts[parts.len() - 1] == "dupid" { parts[parts.len() - 2] } else { parts[parts.len() - 1] };
                let site_name = c["input"]["site_name"].as_str().unwrap();
                let cs = c["input"]["cycle"]["shipped"]["cs"].as_bool().unwrap_or(false);
                load_case(&ctx, &mut out, site_name, alg, k, thr, &list, cs, dup).await;
            }
        }
        out.finish();
        return;
    }
    let thorough = args.tier == "thorough";
    // corpus: the repaired defect (two signatures by one key, threshold 2, delegated role)
    api_case(&ctx, &mut out, "deleg", "ed", 2, 2, &[Sym::V(0), Sym::A(0)], false);
    api_case(&ctx, &mut out, "deleg", "rsa", 2, 2, &[Sym::V(0), Sym::A(0)], false);
    load_case(&ctx, &mut out, "deleg1", "ed", 2, 2, &[Sym::V(0), Sym::A(0)], false, false).await;
    load_case(&ctx, &mut out, "deleg2", "ed", 2, 2, &[Sym::V(0), Sym::V(0)], true, false).await;
    // a key id listed twice for the role counts once
    api_case(&ctx, &mut out, "root", "ed", 1, 2, &[Sym::V(0)], true);
    api_case(&ctx, &mut out, "deleg", "ed", 1, 2, &[Sym::V(0)], true);
    // exhaustive part (ed25519)
    let (kmax, lmax) = if thorough { (3, 4) } else { (2, 3) };
    for api in ["root", "deleg"] {
        for k in 1..=kmax {
            for thr in 1..=(k as u64 + 1).min(4) {
                for l in all_lists(k, if k == 3 { lmax.min(3) + (thorough as usize) * 0 } else { lmax }) {
                    api_case(&ctx, &mut out, api, "ed", k, thr, &l, false);
                    if l.len() <= 2 { api_case(&ctx, &mut out, api, "ed", k, thr, &l, true); }
                }
            }
        }
    }
    // random longer lists, all algorithms, up to 4 keys
    let n_api = if thorough { 60_000 } else { 4_000 };
    for i in 0..n_api {
        let mut r = Rng::new(args.seed, i);
        let alg = match r.below(20) { 0 => "rsa", 1 | 2 => "ec", _ => "ed" };
        let k = r.range(1, 4) as usize;
        let thr = r.range(1, 4);
        let len = r.range(3, 5) as usize;
        let l = rand_list(&mut r, k, len);
        let dup = r.chance(1, 4);
        api_case(&ctx, &mut out, if r.chance(1, 2) { "root" } else { "deleg" }, alg, k, thr, &l, dup);
    }
    // the eight sites of load()
    let per_site = if thorough { 5_000 } else { 400 };
    for site in SITES {
        for i in 0..per_site {
            let mut r = Rng::new(args.seed ^ 0x51de, i + 1_000_000 * (SITES.iter().position(|s| *s == site).unwrap() as u64));
            let alg = match r.below(40) { 0 => "rsa", 1 | 2 => "ec", _ => "ed" };
            let k = r.range(1, 4) as usize;
            let thr = r.range(1, 4);
            let len = r.range(0, 5) as usize;
            let l = rand_list(&mut r, k, len);
            let dup = r.chance(1, 4);
            load_case(&ctx, &mut out, site, alg, k, thr, &l, r.chance(1, 2), dup).await;
        }
    }
    out.finish();
}
