//! C05: individually valid, correctly signed files taken from different repository states.
use crate::*;

struct State {
    asm: Assembled,
}

fn build_state(world: &mut World<'_>, msgs: &mut MsgGen, v: u64, cs: bool, pin: Pin, with_roles: bool, extra_sig: bool) -> State {
    let mut base = base_repo(msgs, cs, with_roles);
    base.top.version = v;
    // a different target set per state, so that documents of different states differ in content
    base.top.entries = vec![(2, 5 + v, 3 + v)];
    for (_, d) in base.roles.iter_mut() {
        d.version = v;
    }
    if extra_sig {
        // an unrelated signature entry: bytes change, verification does not
        base.top.sigs.push(ASig { key: 5, kind: SigKind::Valid });
    }
    let online = std_online();
    let asm = assemble(world, cs, v, v, &base.top, &base.roles, pin, &online, msgs);
    State { asm }
}

fn file_of(server: &[(AName, AResp)], pred: impl Fn(&AName) -> bool) -> Option<(AName, AResp)> {
    server.iter().find(|(n, _)| pred(n)).cloned()
}

pub async fn generate(ctx: &mut Ctx<'_>, seed: u64, thorough: bool) {
    let n = if thorough { 40_000 } else { 2_500 };
    for i in 0..n {
        let mut r = rng_for(seed, i);
        let mut world = World::new(ctx.pool, Names::default());
        let mut msgs = MsgGen(0);
        let cs = r.chance(1, 2);
        let pin = Pin { length: r.chance(1, 2), hash: r.chance(1, 2) };
        let with_roles = r.chance(2, 3);
        let states: Vec<State> = (1..=3).map(|v| build_state(&mut world, &mut msgs, v, cs, pin, with_roles, false)).collect();
        let a = r.below(3) as usize;
        let mut server = states[a].asm.server.clone();
        let root = base_repo(&mut MsgGen(900), cs, false).root;
        let mut note = vec![format!("base-state={}", a + 1)];
        let mut nontrivial = !pin.hash || !pin.length;
        // under consistent snapshots every state's versioned files are on the server as well
        if cs {
            for (j, s) in states.iter().enumerate() {
                if j != a {
                    for (n, resp) in &s.asm.server {
                        if *n != AName::Timestamp {
                            set_file(&mut server, n.clone(), resp.clone());
                        }
                    }
                }
            }
        }
        // 0..2 substitutions
        for _ in 0..r.below(3) {
            let kind = r.below(if with_roles { 4 } else { 3 });
            let b = r.below(3) as usize;
            let is_kind = |n: &AName| match (kind, n) {
                (0, AName::Timestamp) => true,
                (1, AName::Snapshot(_)) => true,
                (2, AName::Targets(_)) => true,
                (3, AName::Role(0, _)) => true,
                _ => false,
            };
            let Some((dst_name, _)) = file_of(&states[a].asm.server, is_kind) else { continue };
            let Some((_, src)) = file_of(&states[b].asm.server, is_kind) else { continue };
            let mut src = src;
            match r.below(4) {
                0 => {
                    // same document, other bytes: trailing whitespace
                    if let AResp::File(f) = &mut src { f.pad = r.range(1, 9); }
                    note.push(format!("pad kind={kind} from={}", b + 1));
                }
                1 if kind == 2 => {
                    // same version re-signed with an extra unrelated signature entry
                    let alt = build_state(&mut world, &mut MsgGen(500 + b as u64 * 50), b as u64 + 1, cs, pin, with_roles, true);
                    if let Some((_, f)) = file_of(&alt.asm.server, is_kind) { src = f; }
                    note.push(format!("extra-sig from={}", b + 1));
                }
                _ => note.push(format!("subst kind={kind} from={}", b + 1)),
            }
            set_file(&mut server, dst_name, src);
            nontrivial = true;
        }
        // now and then: drop the delegated role from the snapshot listing
        if with_roles && r.chance(1, 12) {
            let mut base = base_repo(&mut msgs, cs, true);
            let v = a as u64 + 1;
            base.top.version = v;
            for (_, d) in base.roles.iter_mut() { d.version = v; }
            let asm_no_role = assemble(&mut world, cs, v, v, &base.top, &[], pin, &std_online(), &mut msgs);
            let asm_full = assemble(&mut world, cs, v, v, &base.top, &base.roles, pin, &std_online(), &mut msgs);
            server = asm_full.server;
            for (n, resp) in asm_no_role.server {
                if matches!(n, AName::Snapshot(_) | AName::Timestamp) {
                    set_file(&mut server, n, resp);
                }
            }
            note.push("role-unlisted".into());
            nontrivial = true;
        }
        let cyc = ACycle { limits: ALimits::default(), safe: true, now: 0, server, shipped: Some(root), reads: vec![] };
        let class = format!("mix-cs{}-len{}-hash{}", cs as u8, pin.length as u8, pin.hash as u8);
        ctx.emit(&mut world, &class, &[cyc], nontrivial, json!(note)).await;
    }
}
