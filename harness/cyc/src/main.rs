//! Correspondence harness for the properties decided over the update-cycle model
//! (`--prop C02|C03|C04|C05|C09|C14`): generates histories of update cycles, materialises them
//! with real keys and files, runs `RepositoryLoader::load` and prints input + observation.
use serde_json::{json, Value};
use vcommon::{parse_args, Out, Rng};
use vworld::client::*;
use vworld::repo::*;
use vworld::KeyPool;

mod c02;
mod c03;
mod c04;
mod c05;
mod c09;

pub struct Ctx<'a> {
    pub pool: &'a KeyPool,
    pub out: Out,
    pub prop: String,
}

impl<'a> Ctx<'a> {
    /// run one history and emit the case
    pub async fn emit(&mut self, world: &mut World<'_>, class: &str, cycles: &[ACycle], nontrivial: bool, note: Value) {
        if !self.out.wants_next() {
            self.out.skip();
            return;
        }
        let (models, obs) = run_history(world, cycles, 400).await;
        let input = json!({"prop": self.prop, "cycles": models, "note": note});
        self.out.case_nt(class, input, json!({ "cycles": obs }), nontrivial);
    }
}

/// a plain, valid one-cycle repository used as a base by several generators
pub struct Base {
    pub root: ARoot,
    pub top: ATargets,
    pub roles: Vec<(usize, ATargets)>,
}

pub const RK: usize = 7;
pub const TK: usize = 8;
pub const SK: usize = 9;
pub const GK: usize = 10;
pub const DK: usize = 11;

pub fn base_repo(msgs: &mut MsgGen, consistent: bool, with_roles: bool) -> Base {
    let root = simple_root(1, consistent, (vec![RK], 1), (vec![TK], 1), (vec![SK], 1), (vec![GK], 1), msgs.next(), &[RK]);
    let role1 = ATargets { version: 1, expires: 7 * DAY, entries: vec![(1, 3, 2)], deleg: None, msg: msgs.next(), sigs: valid_sigs(&[DK]) };
    let role0 = ATargets {
        version: 1, expires: 7 * DAY, entries: vec![(0, 3, 1)],
        deleg: Some(ADeleg { table: vec![DK], roles: vec![ADRole { name: 1, ids: vec![DK], thr: 1, patterns: vec!["*".into()], hash_prefixes: vec![] }] }),
        msg: msgs.next(), sigs: valid_sigs(&[DK]),
    };
    let top = ATargets {
        version: 1, expires: 7 * DAY, entries: vec![(2, 5, 3)],
        deleg: if with_roles { Some(ADeleg { table: vec![DK], roles: vec![ADRole { name: 0, ids: vec![DK], thr: 1, patterns: vec!["*".into()], hash_prefixes: vec![] }] }) } else { None },
        msg: msgs.next(), sigs: valid_sigs(&[GK]),
    };
    Base { root, top, roles: if with_roles { vec![(0, role0), (1, role1)] } else { vec![] } }
}

pub fn std_online() -> Online {
    Online { ts_sigs: valid_sigs(&[TK]), snap_sigs: valid_sigs(&[SK]), ts_expires: DAY, snap_expires: 3 * DAY }
}

pub fn replay_unsupported() {
    eprintln!("replay: regenerate with the recorded seed and tier; the case id in the replay file selects the case");
}

#[tokio::main(flavor = "current_thread")]
async fn main() {
    let mut args = parse_args();
    let mut prop = String::new();
    let mut i = 0;
    while i < args.extra.len() {
        if args.extra[i] == "--prop" && i + 1 < args.extra.len() {
            prop = args.extra[i + 1].clone();
            i += 1;
        }
        i += 1;
    }
    let pool = KeyPool::load();
    // replay: the replay file records tier, seed and the case id; regenerate and keep that case
    let mut only: Option<u64> = None;
    if let Some(p) = &args.replay {
        let text = std::fs::read_to_string(p).expect("replay file");
        let v: Value = serde_json::from_str(&text).expect("replay json");
        if let Some(t) = v["tier"].as_str() {
            args.tier = t.to_string();
        }
        if let Some(s) = v["seed"].as_u64() {
            args.seed = s;
        }
        only = v["case"]["id"].as_u64();
    }
    let out = Out::new(&args.out);
    let mut ctx = Ctx { pool: &pool, out, prop: prop.clone() };
    ctx.out.only = only;
    let thorough = args.tier == "thorough";
    match prop.as_str() {
        "C02" => c02::generate(&mut ctx, args.seed, thorough).await,
        "C03" | "C14" => c03::generate(&mut ctx, args.seed, thorough).await,
        "C04" => c04::generate(&mut ctx, args.seed, thorough).await,
        "C05" => c05::generate(&mut ctx, args.seed, thorough).await,
        "C09" => c09::generate(&mut ctx, args.seed, thorough).await,
        other => panic!("unknown --prop {other}"),
    }
    ctx.out.finish();
}

pub fn rng_for(seed: u64, stream: u64) -> Rng {
    Rng::new(seed, stream)
}
