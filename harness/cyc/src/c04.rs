//! C04: every subset of {root, timestamp, snapshot, targets} expired by margins from seconds to
//! years, both enforcement settings, clock trajectories (forward jumps past each expiry between
//! load and read, backward jumps between operations), chains with expired intermediate roots.
use crate::*;

const YEAR: i64 = 365 * DAY;

struct Exp {
    root: i64,
    ts: i64,
    snap: i64,
    tgt: i64,
}

fn build(world: &mut World<'_>, msgs: &mut MsgGen, cs: bool, e: &Exp, chain: &[i64]) -> (ARoot, Vec<(AName, AResp)>) {
    // target file for the reads
    let content = b"abc".to_vec();
    let d = world.digest_id(&vworld::meta::sha256(&content));
    world.target_files = vec![(world.names.targets[2].clone(), content.clone())];
    if cs {
        let hexd = vworld::meta::sha256(&content).iter().map(|b| format!("{b:02x}")).collect::<String>();
        world.target_files.push((format!("{hexd}.{}", world.names.targets[2]), content));
    }
    let mut b = base_repo(msgs, cs, false);
    b.top.entries = vec![(2, 3, d)];
    b.top.expires = e.tgt;
    // chain: expiries of roots v1 (shipped), v2, ...; the last one is the final root
    let mut roots = Vec::new();
    let all: Vec<i64> = if chain.is_empty() { vec![e.root] } else { let mut c = chain.to_vec(); c.push(e.root); c };
    for (i, ex) in all.iter().enumerate() {
        let mut r = b.root.clone();
        r.version = i as u64 + 1;
        r.expires = *ex;
        r.msg = msgs.next();
        roots.push(r);
    }
    let online = Online { ts_sigs: valid_sigs(&[TK]), snap_sigs: valid_sigs(&[SK]), ts_expires: e.ts, snap_expires: e.snap };
    let asm = assemble(world, cs, 1, 1, &b.top, &b.roles, Pin { length: true, hash: true }, &online, msgs);
    let mut server = asm.server;
    for r in roots.iter().skip(1) {
        server.push((AName::RootV(r.version), AResp::File(AFile::plain(AContent::Root(r.clone())))));
    }
    (roots[0].clone(), server)
}

pub async fn generate(ctx: &mut Ctx<'_>, seed: u64, thorough: bool) {
    let mut stream = 0u64;
    let mut next = |s: &mut u64| { *s += 1; rng_for(seed, *s) };
    let margins: &[i64] = &[10, 3600, 400 * DAY, 30 * YEAR];
    let reps = if thorough { 6 } else { 1 };
    for _ in 0..reps {
        // 1. every subset expired, every margin, both settings
        for subset in 0..16u32 {
            for &m in margins {
                for safe in [true, false] {
                    let mut r = next(&mut stream);
                    let cs = r.chance(1, 2);
                    let mut world = World::new(ctx.pool, Names::default());
                    let mut msgs = MsgGen(0);
                    let ex = |bit: u32, r: &mut Rng| if subset & (1 << bit) != 0 { -m } else { *r.pick(&[10i64, 3600, 30 * DAY, 30 * YEAR]) };
                    let e = Exp { root: ex(0, &mut r), ts: ex(1, &mut r), snap: ex(2, &mut r), tgt: ex(3, &mut r) };
                    let (shipped, server) = build(&mut world, &mut msgs, cs, &e, &[]);
                    let cyc = ACycle { limits: ALimits::default(), safe, now: 0, server, shipped: Some(shipped), reads: vec![(2, 2)] };
                    ctx.emit(&mut world, &format!("subset-{}", if safe { "safe" } else { "unsafe" }), &[cyc], subset != 0, json!({"subset": subset, "margin": m})).await;
                }
            }
        }
        // 2. chains whose intermediate roots are expired
        for len in 1..=3usize {
            for final_expired in [false, true] {
                for safe in [true, false] {
                    let mut r = next(&mut stream);
                    let cs = r.chance(1, 2);
                    let mut world = World::new(ctx.pool, Names::default());
                    let mut msgs = MsgGen(0);
                    let chain: Vec<i64> = (0..len).map(|_| if r.chance(3, 4) { -*r.pick(margins) } else { 3600 }).collect();
                    let e = Exp { root: if final_expired { -*r.pick(margins) } else { 30 * DAY }, ts: DAY, snap: 2 * DAY, tgt: 3 * DAY };
                    let (shipped, server) = build(&mut world, &mut msgs, cs, &e, &chain);
                    let cyc = ACycle { limits: ALimits::default(), safe, now: 0, server, shipped: Some(shipped), reads: vec![(2, 2)] };
                    ctx.emit(&mut world, "chain-expired-intermediate", &[cyc], true, json!({"chain": chain, "final_expired": final_expired})).await;
                }
            }
        }
        // 3. forward jumps past each expiry between load and read; then a backward jump
        for perm in 0..24u32 {
            for safe in [true, false] {
                let mut r = next(&mut stream);
                let cs = r.chance(1, 2);
                let unit = *r.pick(&[100i64, 3600, 100 * DAY]);
                let mut slots = vec![1i64, 2, 3, 4];
                // permutation number `perm`
                let mut p = perm;
                let mut order = Vec::new();
                for k in (1..=4u32).rev() { let i = (p % k) as usize; p /= k; order.push(slots.remove(i)); }
                let e = Exp { root: order[0] * unit, ts: order[1] * unit, snap: order[2] * unit, tgt: order[3] * unit };
                let mut world = World::new(ctx.pool, Names::default());
                let mut msgs = MsgGen(0);
                let (shipped, server) = build(&mut world, &mut msgs, cs, &e, &[]);
                let mut reads: Vec<(i64, usize)> = vec![(unit / 2, 2), (unit + unit / 2, 2), (2 * unit + unit / 2, 2), (4 * unit + unit / 2, 2)];
                if r.chance(1, 2) {
                    // backwards after having gone forwards
                    reads = vec![(unit / 2, 2), (unit / 4, 2), (unit / 2 + 20, 7)];
                }
                let cyc = ACycle { limits: ALimits::default(), safe, now: 0, server, shipped: Some(shipped), reads };
                ctx.emit(&mut world, "trajectory-read", &[cyc], true, json!({"perm": perm, "unit": unit})).await;
            }
        }
        // 4. backward jump between two cycles on one datastore (and recovery when time catches up)
        for safe in [true, false] {
            for back in [20i64, 3600, 400 * DAY] {
                let mut r = next(&mut stream);
                let cs = r.chance(1, 2);
                let mut world = World::new(ctx.pool, Names::default());
                let mut msgs = MsgGen(0);
                let e = Exp { root: 40 * YEAR, ts: 40 * YEAR, snap: 40 * YEAR, tgt: 40 * YEAR };
                let (shipped, server) = build(&mut world, &mut msgs, cs, &e, &[]);
                let t0 = 500 * DAY;
                let mk = |now: i64, reads: Vec<(i64, usize)>| ACycle { limits: ALimits::default(), safe, now, server: server.clone(), shipped: Some(shipped.clone()), reads };
                let cycles = vec![mk(t0, vec![(t0 + 10, 2)]), mk(t0 - back, vec![]), mk(t0 + 100, vec![(t0 + 50, 2), (t0 + 200, 2)])];
                ctx.emit(&mut world, "clock-backwards-between-cycles", &cycles, true, json!({"back": back})).await;
            }
        }
    }
    // 5. random mixtures
    let n = if thorough { 3000 } else { 250 };
    for _ in 0..n {
        let mut r = next(&mut stream);
        let cs = r.chance(1, 2);
        let safe = r.chance(3, 4);
        let mut world = World::new(ctx.pool, Names::default());
        let mut msgs = MsgGen(0);
        let pick = |r: &mut Rng| { let m = *r.pick(&[60i64, 3600, DAY, 400 * DAY]); if r.chance(1, 4) { -m } else { m } };
        let e = Exp { root: pick(&mut r), ts: pick(&mut r), snap: pick(&mut r), tgt: pick(&mut r) };
        let chain: Vec<i64> = (0..r.below(3)).map(|_| pick(&mut r)).collect();
        let (shipped, server) = build(&mut world, &mut msgs, cs, &e, &chain);
        let ncyc = r.range(1, 3);
        let mut cycles = Vec::new();
        let mut op = 0i64;
        for _ in 0..ncyc {
            // clock positions well away from every expiry; two operations never share a clock value
            // (each is 2 s after the previous one that used the same base point)
            let mut t = |r: &mut Rng| -> i64 {
                loop {
                    let c = *r.pick(&[-2 * DAY, -300i64, 0, 300, 1800, DAY / 2, 2 * DAY, 500 * DAY]);
                    if [e.root, e.ts, e.snap, e.tgt].iter().all(|x| (x - c).abs() >= 40) { op += 1; return c + 2 * op; }
                }
            };
            let now = t(&mut r);
            let reads: Vec<(i64, usize)> = (0..r.below(3)).map(|_| (t(&mut r), if r.chance(1, 5) { 7 } else { 2 })).collect();
            cycles.push(ACycle { limits: ALimits::default(), safe, now, server: server.clone(), shipped: Some(shipped.clone()), reads });
        }
        ctx.emit(&mut world, "random", &cycles, true, json!({"chain": chain})).await;
    }
}
