//! C09: limits at and around file sizes, oversized and endless streams, long chains of valid newer
//! roots, delegation graphs with self- and mutual delegation, legitimate repositories whose files
//! are exactly as large as their bounds.
use crate::*;

fn entries(n: usize) -> Vec<(usize, u64, u64)> {
    (0..n).map(|i| (i % 8, 10 + i as u64, 100 + i as u64)).collect()
}

/// top -> role0 -> role1; role files may be made larger than targets.json
fn repo(msgs: &mut MsgGen, cs: bool, big_roles: bool) -> Base {
    let mut b = base_repo(msgs, cs, true);
    if big_roles {
        // names are indices into an 8-name table: make role documents long through many delegations
        let many: Vec<ADRole> = Vec::new();
        let _ = many;
        b.roles[0].1.entries = entries(8);
        b.roles[1].1.entries = entries(8);
    }
    b
}

fn file_len(world: &mut World<'_>, server: &[(AName, AResp)], pred: impl Fn(&AName) -> bool) -> u64 {
    for (n, r) in server {
        if pred(n) {
            if let AResp::File(f) = r {
                return world.file_bytes(f).len() as u64;
            }
        }
    }
    0
}

#[derive(Clone, Copy, Debug, PartialEq)]
enum Kind { Root2, Timestamp, Snapshot, Targets, Role0, Role1 }
const KINDS: [Kind; 6] = [Kind::Root2, Kind::Timestamp, Kind::Snapshot, Kind::Targets, Kind::Role0, Kind::Role1];

fn is_kind(k: Kind, n: &AName) -> bool {
    matches!((k, n), (Kind::Root2, AName::RootV(2)) | (Kind::Timestamp, AName::Timestamp) | (Kind::Snapshot, AName::Snapshot(_))
        | (Kind::Targets, AName::Targets(_)) | (Kind::Role0, AName::Role(0, _)) | (Kind::Role1, AName::Role(1, _)))
}

/// limit of kind `k` set to `size + delta` (pinned length when pinned, configured limit otherwise)
async fn limit_case(ctx: &mut Ctx<'_>, r: &mut Rng, k: Kind, delta: i64, pinned_len: bool, cs: bool, stream: Option<&str>) {
    let mut world = World::new(ctx.pool, Names::default());
    let mut msgs = MsgGen(0);
    let b = repo(&mut msgs, cs, r.chance(1, 2));
    let root2 = { let mut x = b.root.clone(); x.version = 2; x.msg = msgs.next(); x };
    let pin = Pin { length: pinned_len, hash: r.chance(1, 2) };
    let which = match k { Kind::Snapshot => "snapshot", Kind::Targets => "targets", Kind::Role0 => "role:0", Kind::Role1 => "role:1", _ => "" };
    let mut limits = ALimits::default();
    let adj = |size: u64| -> u64 { (size as i64 + delta).max(0) as u64 };
    let asm = assemble_with(&mut world, cs, 1, 1, &b.top, &b.roles, pin, &std_online(), &mut msgs, &mut |w, real, m| {
        if w == which && pinned_len {
            m.length = Some(adj(real));
        }
    });
    let mut server = asm.server;
    server.push((AName::RootV(2), AResp::File(AFile::plain(AContent::Root(root2)))));
    let size = file_len(&mut world, &server, |n| is_kind(k, n));
    let unpinned = !pinned_len || matches!(k, Kind::Root2 | Kind::Timestamp);
    if unpinned {
        match k {
            Kind::Root2 => limits.max_root_size = adj(size),
            Kind::Timestamp => limits.max_timestamp_size = adj(size),
            Kind::Snapshot => limits.max_snapshot_size = adj(size),
            _ => limits.max_targets_size = adj(size),
        }
    }
    if let Some(s) = stream {
        for (n, resp) in server.iter_mut() {
            if is_kind(k, n) {
                if let AResp::File(f) = resp {
                    match s {
                        "endless" => f.endless = true,
                        "padded" => f.pad = 3000 + r.below(5000),
                        _ => {}
                    }
                }
            }
        }
    }
    let cyc = ACycle { limits, safe: true, now: 0, server, shipped: Some(b.root.clone()), reads: vec![] };
    let class = format!("limit-{k:?}-{}{}", if unpinned { "cfg" } else { "pin" }, stream.map(|s| format!("-{s}")).unwrap_or_default());
    ctx.emit(&mut world, &class, &[cyc], delta.abs() <= 1 || stream.is_some(), json!({"delta": delta, "size": size})).await;
}

/// `n` valid newer roots, limit `m`
async fn chain_case(ctx: &mut Ctx<'_>, n: u64, m: u64, cs: bool) {
    let mut world = World::new(ctx.pool, Names::default());
    let mut msgs = MsgGen(0);
    let b = base_repo(&mut msgs, cs, false);
    let asm = assemble(&mut world, cs, 1, 1, &b.top, &b.roles, Pin::default(), &std_online(), &mut msgs);
    let mut server = asm.server;
    for v in 2..=(n + 1) {
        let mut x = b.root.clone();
        x.version = v;
        x.msg = msgs.next();
        server.push((AName::RootV(v), AResp::File(AFile::plain(AContent::Root(x)))));
    }
    let cyc = ACycle { limits: ALimits { max_root_updates: m, ..ALimits::default() }, safe: true, now: 0, server, shipped: Some(b.root.clone()), reads: vec![] };
    ctx.emit(&mut world, "root-chain", &[cyc], n + 1 >= m, json!({"n": n, "max": m})).await;
}

/// the same client (same shipped root, same datastore) a second time: an earlier cycle, with a generous
/// limit, has walked `k` roots and recorded the last one; now `n` valid newer roots are there, limit `m`
async fn chain_after_update_case(ctx: &mut Ctx<'_>, k: u64, n: u64, m: u64, cs: bool) {
    let mut world = World::new(ctx.pool, Names::default());
    let mut msgs = MsgGen(0);
    let b = base_repo(&mut msgs, cs, false);
    let asm = assemble(&mut world, cs, 1, 1, &b.top, &b.roles, Pin::default(), &std_online(), &mut msgs);
    let mut roots = Vec::new();
    for v in 2..=(n + 1) {
        let mut x = b.root.clone();
        x.version = v;
        x.msg = msgs.next();
        roots.push((AName::RootV(v), AResp::File(AFile::plain(AContent::Root(x)))));
    }
    let mut server1 = asm.server.clone();
    server1.extend(roots.iter().take(k as usize).cloned());
    let mut server2 = asm.server;
    server2.extend(roots.iter().cloned());
    let first = ACycle { limits: ALimits { max_root_updates: 16, ..ALimits::default() }, safe: true, now: 0, server: server1, shipped: Some(b.root.clone()), reads: vec![] };
    let second = ACycle { limits: ALimits { max_root_updates: m, ..ALimits::default() }, safe: true, now: 10, server: server2, shipped: Some(b.root.clone()), reads: vec![] };
    ctx.emit(&mut world, "root-chain-after-update", &[first, second], n + 1 >= m, json!({"recorded": k + 1, "n": n, "max": m})).await;
}

/// delegation graph given as edges between role indices (0 = top-level is `usize::MAX`)
async fn graph_case(ctx: &mut Ctx<'_>, label: &str, top_to: &[usize], edges: &[(usize, usize)], nroles: usize, cs: bool, pin: Pin) {
    let mut world = World::new(ctx.pool, Names::default());
    let mut msgs = MsgGen(0);
    let b = base_repo(&mut msgs, cs, false);
    let drole = |n: usize| ADRole { name: n, ids: vec![DK], thr: 1, patterns: vec!["*".into()], hash_prefixes: vec![] };
    let mut top = b.top.clone();
    top.entries = vec![];
    top.deleg = Some(ADeleg { table: vec![DK], roles: top_to.iter().map(|&n| drole(n)).collect() });
    let mut roles = Vec::new();
    for i in 0..nroles {
        let kids: Vec<ADRole> = edges.iter().filter(|(a, _)| *a == i).map(|(_, b)| drole(*b)).collect();
        roles.push((i, ATargets {
            version: 1, expires: 7 * DAY, entries: vec![],
            deleg: if kids.is_empty() { None } else { Some(ADeleg { table: vec![DK], roles: kids }) },
            msg: msgs.next(), sigs: valid_sigs(&[DK]),
        }));
    }
    let asm = assemble(&mut world, cs, 1, 1, &top, &roles, pin, &std_online(), &mut msgs);
    let cyc = ACycle { limits: ALimits::default(), safe: true, now: 0, server: asm.server, shipped: Some(b.root.clone()), reads: vec![] };
    ctx.emit(&mut world, &format!("graph-{label}"), &[cyc], true, json!({"top": top_to, "edges": edges})).await;
}

/// sibling roles of one delegation: the snapshot pins a length for some and none for the others; each role is
/// bounded by its own entry (or by `max_targets_size`), never by a sibling's
async fn mixed_pin_case(ctx: &mut Ctx<'_>, cs: bool, pinned_first: bool, small_limit: bool) {
    let mut world = World::new(ctx.pool, Names::default());
    let mut msgs = MsgGen(0);
    let b = base_repo(&mut msgs, cs, false);
    let drole = |n: usize| ADRole { name: n, ids: vec![DK], thr: 1, patterns: vec!["*".into()], hash_prefixes: vec![] };
    let mut top = b.top.clone();
    top.entries = vec![];
    top.deleg = Some(ADeleg { table: vec![DK], roles: vec![drole(0), drole(1)] });
    // role 0 is small, role 1 is large (or the other way round)
    let (e0, e1) = if pinned_first { (1, 8) } else { (8, 1) };
    let mut roles = Vec::new();
    for (i, n) in [(0usize, e0), (1usize, e1)] {
        roles.push((i, ATargets { version: 1, expires: 7 * DAY, entries: entries(n), deleg: None, msg: msgs.next(), sigs: valid_sigs(&[DK]) }));
    }
    // the snapshot lists a length for the small role only
    let unpinned = if pinned_first { "role:1" } else { "role:0" };
    let asm = assemble_with(&mut world, cs, 1, 1, &top, &roles, Pin { length: true, hash: false }, &std_online(), &mut msgs, &mut |w, _real, m| {
        if w == unpinned { m.length = None; }
    });
    let mut limits = ALimits::default();
    if small_limit {
        // the configured limit lies between the two role files: the unpinned large role is then too large, the small one fits
        let small = file_len(&mut world, &asm.server, |n| matches!(n, AName::Role(r, _) if *r == if pinned_first { 0 } else { 1 }));
        limits.max_targets_size = small + 40;
    }
    let cyc = ACycle { limits, safe: true, now: 0, server: asm.server, shipped: Some(b.root.clone()), reads: vec![] };
    ctx.emit(&mut world, "siblings-mixed-pin", &[cyc], true, json!({"pinned_first": pinned_first, "small_limit": small_limit})).await;
}

/// every file exactly at its bound; delegated roles larger than targets.json
async fn legit_case(ctx: &mut Ctx<'_>, r: &mut Rng, cs: bool, pin: Pin) {
    let mut world = World::new(ctx.pool, Names::default());
    let mut msgs = MsgGen(0);
    let mut b = base_repo(&mut msgs, cs, true);
    b.top.entries = vec![];
    b.roles[0].1.entries = entries(r.range(4, 8) as usize);
    b.roles[1].1.entries = entries(r.range(0, 8) as usize);
    let asm = assemble(&mut world, cs, 1, 1, &b.top, &b.roles, pin, &std_online(), &mut msgs);
    let server = asm.server;
    let mut limits = ALimits::default();
    if r.chance(1, 2) {
        // configured limits exactly as large as the largest file they apply to
        limits.max_timestamp_size = file_len(&mut world, &server, |n| matches!(n, AName::Timestamp));
        limits.max_snapshot_size = file_len(&mut world, &server, |n| matches!(n, AName::Snapshot(_)));
        let t = file_len(&mut world, &server, |n| matches!(n, AName::Targets(_)));
        let r0 = file_len(&mut world, &server, |n| matches!(n, AName::Role(0, _)));
        let r1 = file_len(&mut world, &server, |n| matches!(n, AName::Role(1, _)));
        limits.max_targets_size = t.max(r0).max(r1);
    }
    let cyc = ACycle { limits, safe: true, now: 0, server, shipped: Some(b.root.clone()), reads: vec![] };
    ctx.emit(&mut world, "legit-at-bounds", &[cyc], true, json!({"pin_len": pin.length})).await;
}

pub async fn generate(ctx: &mut Ctx<'_>, seed: u64, thorough: bool) {
    let mut stream = 0u64;
    let mut next = |s: &mut u64| { *s += 1; rng_for(seed, *s) };
    // corpus: the two repaired defects
    graph_case(ctx, "self", &[0], &[(0, 0)], 1, false, Pin::default()).await;
    graph_case(ctx, "mutual", &[0], &[(0, 1), (1, 0)], 2, true, Pin { length: true, hash: false }).await;
    { let mut r = next(&mut stream); legit_case(ctx, &mut r, false, Pin { length: true, hash: false }).await; }
    let reps = if thorough { 12 } else { 1 };
    for _ in 0..reps {
        for k in KINDS {
            for delta in [-100000i64, -1, 0, 1, 100000] {
                for pinned in [false, true] {
                    let mut r = next(&mut stream);
                    let cs = r.chance(1, 2);
                    limit_case(ctx, &mut r, k, delta, pinned, cs, None).await;
                }
            }
            for s in ["endless", "padded"] {
                for pinned in [false, true] {
                    let mut r = next(&mut stream);
                    let cs = r.chance(1, 2);
                    let d = if r.chance(1, 2) { 0 } else { 100000 };
                    limit_case(ctx, &mut r, k, d, pinned, cs, Some(s)).await;
                }
            }
        }
        for m in 0..=4u64 {
            for n in 0..=(m + 3) {
                chain_case(ctx, n, m, (m + n) % 2 == 0).await;
            }
        }
        for cs in [false, true] {
            for pinned_first in [true, false] {
                for small_limit in [false, true] {
                    mixed_pin_case(ctx, cs, pinned_first, small_limit).await;
                }
            }
        }
        // a datastore that has recorded a newer root than the one shipped
        for m in 1..=3u64 {
            for k in 1..=3u64 {
                for n in [k, k + m - 1, k + m, k + m + 2] {
                    chain_after_update_case(ctx, k, n, m, (m + n + k) % 2 == 0).await;
                }
            }
        }
        for (label, top, edges, n) in [
            ("tree", vec![0, 1], vec![(0, 2), (1, 3)], 4usize),
            ("self", vec![0], vec![(0, 0)], 1),
            ("self-deep", vec![0], vec![(0, 1), (1, 1)], 2),
            ("mutual", vec![0], vec![(0, 1), (1, 0)], 2),
            ("cycle3", vec![0], vec![(0, 1), (1, 2), (2, 0)], 3),
            ("diamond", vec![0, 1], vec![(0, 2), (1, 2)], 3),
            ("dup-in-list", vec![0, 0], vec![], 1),
            ("sibling-back", vec![0, 1], vec![(1, 0)], 2),
            ("chain5", vec![0], vec![(0, 1), (1, 2), (2, 3), (3, 4)], 5),
        ] {
            for cs in [false, true] {
                let mut r = next(&mut stream);
                let pin = Pin { length: r.chance(1, 2), hash: r.chance(1, 2) };
                graph_case(ctx, label, &top, &edges, n, cs, pin).await;
            }
        }
        for _ in 0..8 {
            let mut r = next(&mut stream);
            let cs = r.chance(1, 2);
            let pin = Pin { length: r.chance(3, 4), hash: r.chance(1, 2) };
            legit_case(ctx, &mut r, cs, pin).await;
        }
    }
    // random graphs
    let n = if thorough { 6000 } else { 300 };
    for _ in 0..n {
        let mut r = next(&mut stream);
        let nroles = r.range(1, 5) as usize;
        let top: Vec<usize> = (0..r.range(1, 2)).map(|_| r.below(nroles as u64) as usize).collect();
        let ne = r.below(6);
        let edges: Vec<(usize, usize)> = (0..ne).map(|_| (r.below(nroles as u64) as usize, r.below(nroles as u64) as usize)).collect();
        let cs = r.chance(1, 2);
        let pin = Pin { length: r.chance(1, 2), hash: r.chance(1, 2) };
        graph_case(ctx, "random", &top, &edges, nroles, cs, pin).await;
    }
}
