//! C03 / C14: histories of 2..4 update cycles on one datastore; versions of timestamp, snapshot,
//! targets and snapshot-listed targets vary independently per cycle (genuinely signed older files
//! are replayed); newer roots change keys / thresholds of the online and targets roles between
//! cycles (disjoint, overlapping, threshold change, rotate-and-rotate-back); the shipped root is the
//! oldest, an intermediate or the newest one; failed cycles in between.
use crate::*;

#[derive(Clone, Debug, PartialEq)]
struct RoleSet {
    ts: (Vec<usize>, u64),
    snap: (Vec<usize>, u64),
    tgt: (Vec<usize>, u64),
}

const TS_POOL: [usize; 3] = [8, 0, 1];
const SNAP_POOL: [usize; 3] = [9, 2, 3];
const TGT_POOL: [usize; 3] = [10, 4, 5];

fn mutate(r: &mut Rng, prev: &RoleSet, history: &[RoleSet]) -> (RoleSet, &'static str) {
    let mut n = prev.clone();
    let fresh = |r: &mut Rng, pool: &[usize], avoid: &[usize]| -> usize {
        for _ in 0..20 {
            let k = *r.pick(pool);
            if !avoid.contains(&k) { return k; }
        }
        pool[0]
    };
    let kind = match r.below(10) {
        0 => { n.ts = (vec![fresh(r, &TS_POOL, &prev.ts.0)], 1); "ts-disjoint" }
        1 => { let k = fresh(r, &TS_POOL, &prev.ts.0); n.ts = (vec![prev.ts.0[0], k], 1); "ts-overlap" }
        2 => { n.snap = (vec![fresh(r, &SNAP_POOL, &prev.snap.0)], 1); "snap-disjoint" }
        3 => { let k = fresh(r, &SNAP_POOL, &prev.snap.0); n.snap = (vec![k, prev.snap.0[0]], 1); "snap-overlap" }
        4 => { n.ts = (vec![fresh(r, &TS_POOL, &prev.ts.0)], 1); n.snap = (vec![fresh(r, &SNAP_POOL, &prev.snap.0)], 1); "both" }
        5 => { n.tgt = (vec![fresh(r, &TGT_POOL, &prev.tgt.0)], 1); "tgt-disjoint" }
        6 => { let k = fresh(r, &TS_POOL, &prev.ts.0); n.ts = (vec![prev.ts.0[0], k], 2); "ts-threshold-up" }
        7 => { if history.len() >= 2 { n = history[history.len() - 2].clone(); } "rotate-back" }
        8 => { let mut k = prev.ts.0.clone(); k.reverse(); n.ts = (k, prev.ts.1); "ts-reorder" }
        _ => "none",
    };
    (n, kind)
}

/// root keys of the epochs when the root role rotates too: every root is signed by its predecessor's key and its own
const ROOT_CYCLE: [usize; 3] = [RK, 6, 12];

fn root_of(rs: &RoleSet, version: u64, cs: bool, msg: u64, rotroot: bool) -> ARoot {
    if !rotroot {
        return simple_root(version, cs, (vec![RK], 1), rs.ts.clone(), rs.snap.clone(), rs.tgt.clone(), msg, &[RK]);
    }
    let i = (version - 1) as usize;
    let own = ROOT_CYCLE[i % 3];
    let mut signers = vec![own];
    if i > 0 { signers.insert(0, ROOT_CYCLE[(i - 1) % 3]); }
    simple_root(version, cs, (vec![own], 1), rs.ts.clone(), rs.snap.clone(), rs.tgt.clone(), msg, &signers)
}

fn signers(r: &mut Rng, rk: &(Vec<usize>, u64)) -> Vec<usize> {
    let mut ks = rk.0.clone();
    r.shuffle(&mut ks);
    ks.truncate(rk.1 as usize);
    ks
}

#[derive(Clone, Debug)]
struct Step {
    epoch: usize,
    shipped: usize,
    versions: [u64; 4], // ts, snapshot, targets, snapshot-listed targets (0 = entry dropped)
    fail: Option<&'static str>,
}

async fn history(ctx: &mut Ctx<'_>, r: &mut Rng, epochs: &[RoleSet], kinds: &[&str], steps: &[Step], cs: bool, class: &str, rotroot: bool) {
    let mut world = World::new(ctx.pool, Names::default());
    let mut msgs = MsgGen(0);
    let roots: Vec<ARoot> = epochs.iter().enumerate().map(|(i, e)| root_of(e, i as u64 + 1, cs, msgs.next(), rotroot)).collect();
    let mut cycles = Vec::new();
    let mut distinct_versions = false;
    for (i, s) in steps.iter().enumerate() {
        if i > 0 && steps[i - 1].versions != s.versions { distinct_versions = true; }
        let e = &epochs[s.epoch];
        let mut top = base_repo(&mut msgs, cs, false).top;
        top.version = s.versions[2];
        top.entries = vec![(2, 5, 3)];
        top.sigs = valid_sigs(&signers(r, &e.tgt));
        top.msg = 10_000 + s.versions[2] * 16 + top.sigs.iter().fold(0u64, |a, x| a * 7 + x.key as u64) % 16; // same document for same version+signers
        let online = Online { ts_sigs: valid_sigs(&signers(r, &e.ts)), snap_sigs: valid_sigs(&signers(r, &e.snap)), ts_expires: DAY, snap_expires: 3 * DAY };
        let listed = s.versions[3];
        let mut asm = assemble_with(&mut world, cs, s.versions[0], s.versions[1], &top, &[], Pin { length: r.chance(1, 2), hash: r.chance(1, 2) }, &online, &mut msgs,
            &mut |w, _, m| { if w == "targets" { m.version = listed; } });
        if cs && listed != s.versions[2] && listed != 0 {
            // the client will ask for <listed>.targets.json: serve the document there
            if let Some((_, f)) = asm.server.iter().find(|(n, _)| matches!(n, AName::Targets(_))).cloned() {
                asm.server.push((AName::Targets(Some(listed)), f));
            }
        }
        let mut server = asm.server;
        for v in 1..=s.epoch {
            server.push((AName::RootV(v as u64 + 1), AResp::File(AFile::plain(AContent::Root(roots[v].clone())))));
        }
        let mut safe = true;
        let mut now = 0;
        match s.fail {
            Some("ts-missing") => set_file(&mut server, AName::Timestamp, AResp::NotFound),
            Some("ts-garbage") => set_file(&mut server, AName::Timestamp, AResp::File(AFile::plain(AContent::Garbage))),
            Some("snapshot-openerr") => {
                let n = server.iter().find(|(n, _)| matches!(n, AName::Snapshot(_))).map(|(n, _)| n.clone()).unwrap();
                set_file(&mut server, n, AResp::OpenErr)
            }
            Some("expired") => { now = 400 * DAY; }
            Some("unsafe") => { safe = false; }
            _ => {}
        }
        cycles.push(ACycle { limits: ALimits::default(), safe, now: now + 2 * i as i64, server, shipped: Some(roots[s.shipped].clone()), reads: vec![] });
    }
    let rotation = kinds.iter().any(|k| *k != "none");
    let note = json!({"kinds": kinds, "steps": steps.iter().map(|s| json!({"epoch": s.epoch, "shipped": s.shipped, "versions": s.versions, "fail": s.fail})).collect::<Vec<_>>()});
    ctx.emit(&mut world, class, &cycles, distinct_versions || rotation, note).await;
}

fn base_set() -> RoleSet {
    RoleSet { ts: (vec![8], 1), snap: (vec![9], 1), tgt: (vec![10], 1) }
}

pub async fn generate(ctx: &mut Ctx<'_>, seed: u64, thorough: bool) {
    let mut stream = 0u64;
    let mut next = |s: &mut u64| { *s += 1; rng_for(seed, *s) };
    let big: u64 = 1 << 63;
    // corpus: the two histories of the repaired defect
    {
        // (i) shipped root predates a timestamp-key rotation; cycle 2 replays older timestamp/snapshot
        let mut r = next(&mut stream);
        let e0 = base_set();
        let e1 = RoleSet { ts: (vec![0], 1), ..e0.clone() };
        let steps = [Step { epoch: 1, shipped: 0, versions: [5, 5, 1, 1], fail: None }, Step { epoch: 1, shipped: 0, versions: [3, 3, 1, 1], fail: None }];
        history(ctx, &mut r, &[e0.clone(), e1], &["ts-disjoint"], &steps, false, "corpus-old-shipped-root", false).await;
        // (ii) newest root shipped, old key kept, stored versions inflated
        let mut r = next(&mut stream);
        let e1 = RoleSet { ts: (vec![8, 0], 1), ..e0.clone() };
        let steps = [Step { epoch: 0, shipped: 0, versions: [big, big, 1, 1], fail: None }, Step { epoch: 1, shipped: 1, versions: [2, 2, 1, 1], fail: None }];
        history(ctx, &mut r, &[e0, e1], &["ts-overlap"], &steps, true, "corpus-overlap-lockout", false).await;
    }
    // (iii) the root role rotates its key with every root (each root signed by its predecessor's key and its own): the
    // root recorded by cycle 1 (v3) is not signed by the shipped root's key; the timestamp keys go {K} -> {K, K2} -> {K};
    // stored versions inflated under v3, repository restarted low under v4
    for cs in [false, true] {
        let mut r = next(&mut stream);
        let e0 = base_set();
        let mut e2 = e0.clone();
        e2.ts = (vec![e0.ts.0[0], TS_POOL[1]], 1);
        let steps = vec![
            Step { epoch: 2, shipped: 0, versions: [big, big, 2, 2], fail: None },
            Step { epoch: 3, shipped: 0, versions: [1, 1, 2, 2], fail: None },
        ];
        history(ctx, &mut r, &[e0.clone(), e0.clone(), e2, e0], &["none", "ts-overlap", "rotate-back"], &steps, cs, "corpus-rootkeys-rotate-back", true).await;
    }
    // all two-cycle histories over a version grid, without root changes
    let grid: Vec<u64> = if thorough { vec![1, 2, 3] } else { vec![1, 2] };
    let mut quads = Vec::new();
    for a in &grid { for b in &grid { for c in &grid { for d in [0u64, 1, 2, 3] {
        if d == 0 || grid.contains(&d) { quads.push([*a, *b, *c, d]); }
    } } } }
    let take = if thorough { 1 } else { 3 }; // quick: every third pair
    let mut idx = 0u64;
    for q1 in &quads {
        if q1[3] != q1[2] { continue; } // cycle 1 must succeed to store anything
        for q2 in &quads {
            idx += 1;
            if idx % take != 0 { continue; }
            let mut r = next(&mut stream);
            let cs = r.chance(1, 2);
            let steps = [Step { epoch: 0, shipped: 0, versions: *q1, fail: None }, Step { epoch: 0, shipped: 0, versions: *q2, fail: None }];
            history(ctx, &mut r, &[base_set()], &[], &steps, cs, "grid2", false).await;
        }
    }
    // random histories with root changes
    let n = if thorough { 20_000 } else { 1_200 };
    for _ in 0..n {
        let mut r = next(&mut stream);
        let cs = r.chance(1, 2);
        let ncyc = r.range(2, 4) as usize;
        let nep = r.range(1, 4) as usize;
        let mut epochs = vec![base_set()];
        let mut kinds: Vec<&str> = Vec::new();
        for _ in 1..nep {
            let (e, k) = mutate(&mut r, epochs.last().unwrap(), &epochs);
            epochs.push(e);
            kinds.push(k);
        }
        let mut steps = Vec::new();
        let mut epoch = if r.chance(1, 2) { 0 } else { r.below(nep as u64) as usize };
        let inflate = r.chance(1, 6);
        for i in 0..ncyc {
            if i > 0 && r.chance(1, 2) { epoch = (epoch + r.range(0, 2) as usize).min(nep - 1); }
            let shipped = match r.below(3) { 0 => 0, 1 => r.below(epoch as u64 + 1) as usize, _ => epoch };
            let pick = |r: &mut Rng| r.range(1, 3);
            let t = pick(&mut r);
            let mut v = [pick(&mut r), pick(&mut r), t, t];
            if r.chance(1, 10) { v[3] = if r.chance(1, 3) { 0 } else { pick(&mut r) }; }
            if inflate && i == 0 { v[0] = big; v[1] = big - r.below(2); }
            let fail = if i > 0 && r.chance(1, 8) { Some(*r.pick(&["ts-missing", "ts-garbage", "snapshot-openerr", "expired", "unsafe"])) } else { None };
            steps.push(Step { epoch, shipped, versions: v, fail });
        }
        let rotroot = r.chance(1, 3);
        history(ctx, &mut r, &epochs, &kinds, &steps, cs, if rotroot { "random-rootkeys" } else { "random" }, rotroot).await;
    }
}
