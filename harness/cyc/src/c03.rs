use crate::*;
pub async fn generate(_ctx: &mut Ctx<'_>, _seed: u64, _thorough: bool) {}
