//! C02: root chains of length 0..4 with arbitrary rotation per hop, at most one broken hop, and
//! top-level metadata signed by the keys of any epoch.
use crate::*;

#[derive(Clone, Debug)]
struct Epoch {
    root: (Vec<usize>, u64),
    ts: usize,
    snap: usize,
    tgt: usize,
}

#[derive(Clone, Copy, Debug, PartialEq)]
pub enum Break {
    None,
    OnlyOld,
    OnlyNew,
    BelowOld,
    BelowNew,
    Lower,
    Equal,
    Skip,
    Unparsable,
    WrongName,
    OpenErr,
    MidErr,
    MidNotFound,
}

pub const BREAKS: [Break; 12] = [
    Break::OnlyOld, Break::OnlyNew, Break::BelowOld, Break::BelowNew, Break::Lower, Break::Equal,
    Break::Skip, Break::Unparsable, Break::WrongName, Break::OpenErr, Break::MidErr, Break::MidNotFound,
];

const ROOT_POOL: [usize; 9] = [0, 1, 2, 3, 4, 5, 12, 13, 16];

fn rotate(r: &mut Rng, prev: &(Vec<usize>, u64)) -> ((Vec<usize>, u64), &'static str) {
    let fresh = |r: &mut Rng, avoid: &[usize], n: usize| -> Vec<usize> {
        let mut v = Vec::new();
        let mut guard = 0;
        while v.len() < n && guard < 100 {
            let k = *r.pick(&ROOT_POOL);
            if !avoid.contains(&k) && !v.contains(&k) {
                v.push(k);
            }
            guard += 1;
        }
        v
    };
    match r.below(10) {
        0 => (prev.clone(), "same"),
        8 => {
            // a key id listed twice: it still is one key
            let ks = fresh(r, &prev.0, 2);
            if ks.len() < 2 { return (prev.clone(), "same"); }
            ((vec![ks[0], ks[1], ks[1]], 2), "dup-id")
        }
        9 => {
            // a role nobody can satisfy: two entries, one key
            let ks = fresh(r, &prev.0, 1);
            ((vec![ks[0], ks[0]], 2), "dup-id-unsat")
        }
        6 | 7 => {
            // the same keys in the same order, only the threshold moves
            let len = prev.0.len() as u64;
            let t = if prev.1 < len { prev.1 + 1 } else { 1.max(prev.1 - 1) };
            ((prev.0.clone(), t), "thr-only")
        }
        1 => {
            let n = r.range(1, 3) as usize;
            let ks = fresh(r, &prev.0, n);
            let t = r.range(1, ks.len() as u64);
            ((ks, t), "disjoint")
        }
        2 => {
            let mut ks = vec![prev.0[0]];
            let n = r.range(1, 2) as usize;
            ks.extend(fresh(r, &prev.0, n));
            let t = r.range(1, ks.len() as u64);
            ((ks, t), "overlap")
        }
        3 => {
            let mut ks = prev.0.clone();
            ks.extend(fresh(r, &prev.0, 1));
            let t = (prev.1 + 1).min(ks.len() as u64);
            ((ks, t), "thr-up")
        }
        4 => ((prev.0.clone(), 1), "thr-down"),
        _ => {
            let k = *r.pick(&[12usize, 13, 16, 17]);
            ((vec![k], 1), "alg-change")
        }
    }
}

fn epoch_root(e: &Epoch, version: u64, cs: bool, msg: u64) -> ARoot {
    simple_root(version, cs, e.root.clone(), (vec![e.ts], 1), (vec![e.snap], 1), (vec![e.tgt], 1), msg, &[])
}

/// threshold-many keys of a role (the first `thr`)
fn quorum(rk: &(Vec<usize>, u64)) -> Vec<usize> {
    let mut distinct: Vec<usize> = Vec::new();
    for k in &rk.0 {
        if !distinct.contains(k) {
            distinct.push(*k);
        }
    }
    distinct.into_iter().take(rk.1 as usize).collect()
}

pub async fn one(ctx: &mut Ctx<'_>, r: &mut Rng, len: usize, brk: Break, brk_at: usize, sign_epoch: usize, cs: bool, max_updates: u64) {
    let mut world = World::new(ctx.pool, Names::default());
    let mut msgs = MsgGen(0);
    // epochs
    let mut epochs = vec![Epoch { root: (vec![0], 1), ts: 8, snap: 9, tgt: 10 }];
    match r.below(4) {
        3 => epochs[0].root = (vec![1, 0, 0], 2),
        0 => epochs[0].root = (vec![0, 1], r.range(1, 2)),
        1 => epochs[0].root = (vec![0, 1, 2], r.range(1, 2)),
        _ => {}
    }
    let mut kinds = Vec::new();
    for _ in 0..len {
        let prev = epochs.last().unwrap().clone();
        let (root, kind) = rotate(r, &prev.root);
        kinds.push(kind);
        let mut e = Epoch { root, ..prev };
        // online keys rotate now and then
        if r.chance(1, 4) { e.ts = *r.pick(&[6usize, 8, 11]); }
        if r.chance(1, 4) { e.snap = *r.pick(&[7usize, 9]); }
        if r.chance(1, 4) { e.tgt = *r.pick(&[10usize, 11]); }
        epochs.push(e);
    }
    // root documents: version i+1 signed by quorum of epoch i-1 and of epoch i
    let mut roots: Vec<ARoot> = Vec::new();
    for (i, e) in epochs.iter().enumerate() {
        let mut doc = epoch_root(e, i as u64 + 1, cs, msgs.next());
        let mut signers = quorum(&e.root);
        if i > 0 {
            for k in quorum(&epochs[i - 1].root) {
                if !signers.contains(&k) {
                    signers.push(k);
                }
            }
        }
        doc.sigs = valid_sigs(&signers);
        roots.push(doc);
    }
    let shipped = roots[0].clone();
    let mut server: Vec<(AName, AResp)> = Vec::new();
    // hop j (1-based) serves roots[j] as (j+1).root.json; break hop `brk_at` (1..=len)
    for j in 1..=len {
        let name = AName::RootV(j as u64 + 1);
        let mut doc = roots[j].clone();
        let old = &epochs[j - 1].root;
        let new = &epochs[j].root;
        let only = |keep: &(Vec<usize>, u64), other: &(Vec<usize>, u64)| -> Vec<ASig> {
            // signatures by the quorum of `keep` that are not also authorized by `other`
            quorum(keep).into_iter().filter(|k| !other.0.contains(k)).map(ASig::valid).collect()
        };
        let mut resp = None;
        if j == brk_at {
            match brk {
                Break::OnlyOld => doc.sigs = only(old, new),
                Break::OnlyNew => doc.sigs = only(new, old),
                Break::BelowOld => {
                    // full new quorum, one short of the old threshold
                    let mut s: Vec<usize> = quorum(new);
                    let short: Vec<usize> = quorum(old).into_iter().skip(1).collect();
                    s.retain(|k| !old.0.contains(k) || short.contains(k));
                    for k in short { if !s.contains(&k) { s.push(k); } }
                    doc.sigs = valid_sigs(&s);
                }
                Break::BelowNew => {
                    let mut s: Vec<usize> = quorum(old);
                    let short: Vec<usize> = quorum(new).into_iter().skip(1).collect();
                    s.retain(|k| !new.0.contains(k) || short.contains(k));
                    for k in short { if !s.contains(&k) { s.push(k); } }
                    doc.sigs = valid_sigs(&s);
                }
                Break::Lower => { doc.version = (j as u64).saturating_sub(1).max(1); if doc.version == j as u64 { doc.version = j as u64; } doc.msg = msgs.next(); }
                Break::Equal => { doc.version = j as u64; doc.msg = msgs.next(); }
                Break::Skip => { doc.version = j as u64 + 1 + r.range(1, 3); doc.msg = msgs.next(); }
                Break::Unparsable => resp = Some(AResp::File(AFile::plain(AContent::Garbage))),
                Break::WrongName => resp = Some(AResp::NotFound),
                Break::OpenErr => resp = Some(AResp::OpenErr),
                Break::MidErr => resp = Some(AResp::File(AFile { content: AContent::Root(doc.clone()), pad: 0, endless: false, fault: AFault::OtherAt(40) })),
                Break::MidNotFound => resp = Some(AResp::File(AFile { content: AContent::Root(doc.clone()), pad: 0, endless: false, fault: AFault::NotFoundAt(40) })),
                Break::None => {}
            }
        }
        // after a version skip the following hops are asked for under other names: serve them there too
        server.push((name, resp.unwrap_or(AResp::File(AFile::plain(AContent::Root(doc.clone()))))));
        if j == brk_at && brk == Break::Skip {
            // nothing is served at the skipped-to successor: the walk stops there
            break;
        }
    }
    // top-level metadata signed by the keys of `sign_epoch`
    let se = &epochs[sign_epoch.min(len)];
    let mut base = base_repo(&mut msgs, cs, r.chance(1, 3));
    base.top.sigs = valid_sigs(&[se.tgt]);
    let online = Online { ts_sigs: valid_sigs(&[se.ts]), snap_sigs: valid_sigs(&[se.snap]), ts_expires: DAY, snap_expires: 3 * DAY };
    let asm = assemble(&mut world, cs, 1, 1, &base.top, &base.roles, Pin { length: r.chance(1, 2), hash: r.chance(1, 2) }, &online, &mut msgs);
    server.extend(asm.server);
    let cyc = ACycle { limits: ALimits { max_root_updates: max_updates, ..ALimits::default() }, safe: true, now: 0, server, shipped: Some(shipped), reads: vec![] };
    let nontrivial = len >= 1 && (brk != Break::None || sign_epoch.min(len) != len);
    let class = format!("chain{len}-{brk:?}");
    ctx.emit(&mut world, &class, &[cyc], nontrivial, json!({"kinds": kinds, "break_at": brk_at, "sign_epoch": sign_epoch, "max_updates": max_updates})).await;
}

pub async fn generate(ctx: &mut Ctx<'_>, seed: u64, thorough: bool) {
    let reps = if thorough { 40 } else { 2 };
    let mut stream = 0u64;
    // every chain length x every break x every position
    for len in 0..=4usize {
        for rep in 0..reps {
            let mut r = rng_for(seed, stream); stream += 1;
            let _ = rep;
            let cs0 = r.chance(1, 2);
            one(ctx, &mut r, len, Break::None, 0, len, cs0, 1024).await;
            for brk in BREAKS {
                for at in 1..=len {
                    let mut r = rng_for(seed, stream); stream += 1;
                    let cs = r.chance(1, 2);
                    one(ctx, &mut r, len, brk, at, len, cs, 1024).await;
                }
            }
            // metadata signed by the keys of every epoch
            for se in 0..len {
                let mut r = rng_for(seed, stream); stream += 1;
                let cs = r.chance(1, 2);
                one(ctx, &mut r, len, Break::None, 0, se, cs, 1024).await;
            }
        }
    }
    // random mixtures, incl. small root-update limits
    let n = if thorough { 20_000 } else { 700 };
    for _ in 0..n {
        let mut r = rng_for(seed, stream); stream += 1;
        let len = r.range(0, 4) as usize;
        let brk = if len > 0 && r.chance(1, 2) { *r.pick(&BREAKS) } else { Break::None };
        let at = if len > 0 { r.range(1, len as u64) as usize } else { 0 };
        let se = if r.chance(1, 3) { r.range(0, len as u64) as usize } else { len };
        let mu = if r.chance(1, 5) { r.range(0, 4) } else { 1024 };
        let cs = r.chance(1, 2);
        one(ctx, &mut r, len, brk, at, se, cs, mu).await;
    }
}
