//! C13 correspondence harness: key tables of roots and of delegations with altered identifiers.
use serde_json::{json, Value};
use tough::schema::key::Key;
use tough::schema::{Root, Signed, Targets};
use vcommon::{parse_args, Out, Rng};
use vworld::meta::{canon, sha256};
use vworld::KeyPool;

/// the spellings of a pool key as TUF JSON
fn key_variants(pool: &KeyPool) -> Vec<(String, Value)> {
    let mut v = Vec::new();
    for k in pool.ed.iter().take(4) {
        v.push(("ed25519-hex".to_string(), k.public.clone()));
    }
    for k in pool.rsa.iter().take(2) {
        v.push(("rsa-pem".to_string(), k.public.clone()));
    }
    for k in pool.ec.iter().take(3) {
        v.push(("ecdsa-pem".to_string(), k.public.clone()));
        // the same key with a hex-encoded public point, and with the old key type
        let parsed: Key = serde_json::from_value(k.public.clone()).unwrap();
        let raw: Vec<u8> = match &parsed { Key::Ecdsa { keyval, .. } | Key::EcdsaOld { keyval, .. } => keyval.public.to_vec(), _ => unreachable!() };
        v.push(("ecdsa-hex".to_string(), json!({"keytype": "ecdsa", "scheme": "ecdsa-sha2-nistp256", "keyval": {"public": hex::encode(&raw)}})));
        v.push(("ecdsa-old-type".to_string(), json!({"keytype": "ecdsa-sha2-nistp256", "scheme": "ecdsa-sha2-nistp256", "keyval": {"public": k.public["keyval"]["public"].clone()}})));
    }
    v
}

fn with_extras(r: &mut Rng, mut k: Value) -> Value {
    if r.chance(1, 3) { k["x-note"] = json!({"a": [1, 2], "b": "ü"}); }
    if r.chance(1, 3) { k["keyval"]["x-private"] = json!(null); }
    if r.chance(1, 4) { k["keyid_hash_algorithms"] = json!(["sha256", "sha512"]); }
    k
}

fn kid_of(k: &Value) -> String {
    hex::encode(sha256(&canon(k)))
}

fn flip_hex(s: &str, pos: usize) -> String {
    let mut c: Vec<char> = s.chars().collect();
    let p = pos.min(c.len() - 1);
    c[p] = if c[p] == '0' { '1' } else if c[p] == 'f' { 'e' } else { '0' };
    c.into_iter().collect()
}

/// JSON text of a key table with members in the given order (duplicates allowed)
fn table_text(entries: &[(String, Value)]) -> String {
    let body: Vec<String> = entries.iter().map(|(id, k)| format!("{}:{}", serde_json::to_string(id).unwrap(), serde_json::to_string(k).unwrap())).collect();
    format!("{{{}}}", body.join(","))
}

fn root_text(table: &str, role_ids: &[String]) -> String {
    let rk = json!({"keyids": role_ids, "threshold": 1});
    format!("{{\"signed\":{{\"_type\":\"root\",\"spec_version\":\"1.0.0\",\"consistent_snapshot\":false,\"version\":1,\"expires\":\"2030-01-01T00:00:00Z\",\"keys\":{table},\"roles\":{{\"root\":{rk},\"timestamp\":{rk},\"snapshot\":{rk},\"targets\":{rk}}}}},\"signatures\":[]}}")
}

fn targets_text(table: &str, role_ids: &[String]) -> String {
    let role = json!({"name": "r", "keyids": role_ids, "threshold": 1, "paths": ["*"], "terminating": false});
    format!("{{\"_type\":\"targets\",\"spec_version\":\"1.0.0\",\"version\":1,\"expires\":\"2030-01-01T00:00:00Z\",\"targets\":{{}},\"delegations\":{{\"keys\":{table},\"roles\":[{role}]}}}}")
}

fn observe(api: &str, entries: &[(String, Value)]) -> Value {
    let table = table_text(entries);
    let ids: Vec<String> = entries.iter().map(|(i, _)| i.clone()).collect();
    let check = |keys: &std::collections::HashMap<tough::schema::decoded::Decoded<tough::schema::decoded::Hex>, Key>| -> bool {
        // every stored key hashes to the identifier it is stored under
        keys.iter().all(|(id, k)| k.key_id().map(|c| c == *id).unwrap_or(false))
    };
    if api == "root" {
        match serde_json::from_str::<Signed<Root>>(&root_text(&table, &ids)) {
            Err(_) => json!({"ok": false}),
            Ok(r) => {
                let lookup_ok = check(&r.signed.keys);
                // (a failure to re-parse what was just serialised is an observation, not a reason to stop)
                let stable = match serde_json::from_slice::<Signed<Root>>(&serde_json::to_vec(&r).unwrap()) {
                    Ok(again) => again.signed.keys.len() == r.signed.keys.len() && r.signed.keys.iter().all(|(id, k)| again.signed.keys.get(id).map(|k2| k2.key_id().ok() == k.key_id().ok()).unwrap_or(false)),
                    Err(_) => false,
                };
                json!({"ok": true, "lookup_ok": lookup_ok, "stable": stable, "size": r.signed.keys.len()})
            }
        }
    } else {
        match serde_json::from_str::<Targets>(&targets_text(&table, &ids)) {
            Err(_) => json!({"ok": false}),
            Ok(t) => {
                let d = t.delegations.as_ref().unwrap();
                let lookup_ok = check(&d.keys);
                let stable = match serde_json::from_slice::<Targets>(&serde_json::to_vec(&t).unwrap()) {
                    Ok(again) => match again.delegations.as_ref() {
                        Some(d2) => d2.keys.len() == d.keys.len() && d.keys.iter().all(|(id, k)| d2.keys.get(id).map(|k2| k2.key_id().ok() == k.key_id().ok()).unwrap_or(false)),
                        None => false,
                    },
                    Err(_) => false,
                };
                json!({"ok": true, "lookup_ok": lookup_ok, "stable": stable, "size": d.keys.len()})
            }
        }
    }
}

fn emit(out: &mut Out, class: &str, api: &str, entries: &[(String, Value)], nontrivial: bool) {
    if !out.wants_next() { out.skip(); return; }
    let model_entries: Vec<Value> = entries.iter().map(|(id, k)| json!({"id": id, "kid": kid_of(k)})).collect();
    out.case_nt(&format!("{api}-{class}"), json!({"api": api, "entries": model_entries}), observe(api, entries), nontrivial);
}

fn main() {
    let mut args = parse_args();
    let pool = KeyPool::load();
    let mut only = None;
    if let Some(p) = &args.replay {
        let v: Value = serde_json::from_str(&std::fs::read_to_string(p).unwrap()).unwrap();
        if let Some(t) = v["tier"].as_str() { args.tier = t.into(); }
        if let Some(s) = v["seed"].as_u64() { args.seed = s; }
        only = v["case"]["id"].as_u64();
    }
    let thorough = args.tier == "thorough";
    let mut out = Out::new(&args.out);
    out.only = only;
    let variants = key_variants(&pool);
    let n = if thorough { 6000 } else { 600 };
    for i in 0..n {
        let mut r = Rng::new(args.seed, i);
        let size = r.range(1, 4) as usize;
        let mut chosen: Vec<(String, Value)> = Vec::new();
        let mut guard = 0;
        while chosen.len() < size && guard < 50 {
            guard += 1;
            let (_, k) = r.pick(&variants).clone();
            let k = with_extras(&mut r, k);
            let id = kid_of(&k);
            if !chosen.iter().any(|(i2, _)| *i2 == id) { chosen.push((id, k)); }
        }
        for api in ["root", "deleg"] {
            emit(&mut out, "clean", api, &chosen, chosen.iter().any(|(_, k)| k.get("x-note").is_some() || k["keyval"].get("x-private").is_some()));
            let victim = r.below(chosen.len() as u64) as usize;
            let id = chosen[victim].0.clone();
            let alter = |f: &dyn Fn(&str) -> String| -> Vec<(String, Value)> { let mut c = chosen.clone(); c[victim].0 = f(&id); c };
            emit(&mut out, "bitflip-first", api, &alter(&|s| flip_hex(s, 0)), true);
            emit(&mut out, "bitflip-middle", api, &alter(&|s| flip_hex(s, 31)), true);
            emit(&mut out, "bitflip-last", api, &alter(&|s| flip_hex(s, 63)), true);
            emit(&mut out, "truncated-byte", api, &alter(&|s| s[..62].to_string()), true);
            emit(&mut out, "truncated-nibble", api, &alter(&|s| s[..63].to_string()), true);
            emit(&mut out, "extended", api, &alter(&|s| format!("{s}00")), true);
            emit(&mut out, "upper-case", api, &alter(&|s| s.to_uppercase()), true);
            emit(&mut out, "mixed-case", api, &alter(&|s| s.chars().enumerate().map(|(i, c)| if i % 3 == 0 { c.to_ascii_uppercase() } else { c }).collect()), true);
            emit(&mut out, "not-hex", api, &alter(&|s| format!("g{}", &s[1..])), true);
            if chosen.len() >= 2 {
                let other = (victim + 1) % chosen.len();
                let oid = chosen[other].0.clone();
                let mut c = chosen.clone();
                c[victim].0 = oid.clone();
                c[other].0 = id.clone();
                emit(&mut out, "swapped", api, &c, true);
                let mut c = chosen.clone();
                c[victim].0 = oid;
                emit(&mut out, "other-keys-id", api, &c, true);
            }
            // the same member twice; the same key under two spellings of its identifier
            let mut c = chosen.clone();
            c.push(chosen[victim].clone());
            emit(&mut out, "duplicated-member", api, &c, true);
            let mut c = chosen.clone();
            c.push((id.to_uppercase(), chosen[victim].1.clone()));
            emit(&mut out, "duplicate-other-case", api, &c, true);
        }
    }
    out.finish();
}
