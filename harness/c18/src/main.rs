//! C18 correspondence harness: `HttpTransport::fetch` against a scripted HTTP/1.1 server on
//! 127.0.0.1 (one script item per accepted request). The model input is what the server actually
//! did (the effective script), the observation what the stream yielded.
use futures::StreamExt;
use serde_json::{json, Value};
use std::sync::{Arc, Mutex};
use std::time::Duration;
use tokio::io::{AsyncReadExt, AsyncWriteExt};
use tokio::net::TcpListener;
use tough::{HttpTransportBuilder, Transport, TransportErrorKind};
use vcommon::{parse_args, Out, Rng};

#[derive(Clone, Debug, PartialEq)]
enum End { Complete, Timeout, Fatal }

#[derive(Clone, Debug, PartialEq)]
enum Item {
    Status(u16),
    /// the connection is closed before any response
    ConnErr,
    /// the request is read, nothing is ever answered
    NoResponse,
    Body { deliver: usize, end: End },
}

fn item_json(i: &Item, ar: bool) -> Value {
    match i {
        Item::Status(c) => json!({ "status": c }),
        Item::ConnErr | Item::NoResponse => json!("connect-err"),
        Item::Body { deliver, end } => json!({"body": {"ar": ar, "deliver": deliver, "end": match end { End::Complete => "complete", End::Timeout => "timeout", End::Fatal => "fatal" }}}),
    }
}

struct ServerLog {
    effective: Vec<Item>,
    ranges: Vec<Option<usize>>,
}

async fn serve(listener: TcpListener, script: Vec<Item>, resource: Arc<Vec<u8>>, supports_ranges: bool, log: Arc<Mutex<ServerLog>>) {
    let mut idx = 0usize;
    loop {
        let Ok((mut sock, _)) = listener.accept().await else { return };
        let item = script.get(idx).cloned().unwrap_or(Item::Body { deliver: 0, end: End::Complete });
        idx += 1;
        let resource = resource.clone();
        let log = log.clone();
        // requests of one fetch are sequential; handle inline so that the log order is the request order
        let mut buf = Vec::new();
        let mut tmp = [0u8; 1024];
        let mut got_request = false;
        for _ in 0..64 {
            match tokio::time::timeout(Duration::from_millis(500), sock.read(&mut tmp)).await {
                Ok(Ok(n)) if n > 0 => {
                    buf.extend_from_slice(&tmp[..n]);
                    if buf.windows(4).any(|w| w == b"\r\n\r\n") { got_request = true; break; }
                }
                _ => break,
            }
        }
        if !got_request { continue; }
        let head = String::from_utf8_lossy(&buf).to_string();
        let range: Option<usize> = head.lines().find_map(|l| {
            let l = l.to_ascii_lowercase();
            l.strip_prefix("range: bytes=").and_then(|r| r.trim_end_matches('-').trim().parse::<usize>().ok())
        });
        log.lock().unwrap().ranges.push(range);
        match item {
            Item::ConnErr => {
                log.lock().unwrap().effective.push(Item::ConnErr);
                drop(sock);
            }
            Item::NoResponse => {
                log.lock().unwrap().effective.push(Item::NoResponse);
                tokio::spawn(async move { tokio::time::sleep(Duration::from_millis(2500)).await; drop(sock); });
            }
            Item::Status(c) => {
                log.lock().unwrap().effective.push(Item::Status(c));
                let body = "no";
                let resp = format!("HTTP/1.1 {c} X\r\nContent-Length: {}\r\nConnection: close\r\n\r\n{body}", body.len());
                let _ = sock.write_all(resp.as_bytes()).await;
                let _ = sock.shutdown().await;
            }
            Item::Body { deliver, end } => {
                // an honest server: honours Range iff it announces range support
                let offset = if supports_ranges { range.unwrap_or(0).min(resource.len()) } else { 0 };
                let remainder = resource[offset..].to_vec();
                let (deliver, end) = match end {
                    End::Complete => (remainder.len(), End::Complete),
                    e => {
                        if remainder.is_empty() { (0, End::Complete) } else { (deliver.min(remainder.len() - 1), e) }
                    }
                };
                log.lock().unwrap().effective.push(Item::Body { deliver, end: end.clone() });
                let status = if offset > 0 { "206 Partial Content" } else { "200 OK" };
                let mut headers = format!("HTTP/1.1 {status}\r\nContent-Length: {}\r\nConnection: close\r\n", remainder.len());
                if supports_ranges { headers.push_str("Accept-Ranges: bytes\r\n"); }
                if offset > 0 { headers.push_str(&format!("Content-Range: bytes {}-{}/{}\r\n", offset, resource.len().saturating_sub(1), resource.len())); }
                headers.push_str("\r\n");
                let _ = sock.write_all(headers.as_bytes()).await;
                let _ = sock.write_all(&remainder[..deliver]).await;
                let _ = sock.flush().await;
                match end {
                    End::Complete => { let _ = sock.shutdown().await; }
                    End::Fatal => { drop(sock); }
                    End::Timeout => { tokio::spawn(async move { tokio::time::sleep(Duration::from_millis(2500)).await; drop(sock); }); }
                }
            }
        }
    }
}

struct Case {
    class: String,
    tries: u32,
    size: usize,
    supports_ranges: bool,
    script: Vec<Item>,
}

async fn run_case(c: &Case, seed: u64) -> (Value, Value) {
    let mut r = Rng::new(seed, 99);
    let resource: Arc<Vec<u8>> = Arc::new((0..c.size).map(|_| r.next() as u8).collect());
    let listener = TcpListener::bind("127.0.0.1:0").await.expect("bind");
    let port = listener.local_addr().unwrap().port();
    let log = Arc::new(Mutex::new(ServerLog { effective: vec![], ranges: vec![] }));
    let server = tokio::spawn(serve(listener, c.script.clone(), resource.clone(), c.supports_ranges, log.clone()));
    let transport = HttpTransportBuilder::new()
        .tries(c.tries)
        .timeout(Duration::from_millis(700))
        .connect_timeout(Duration::from_millis(700))
        .initial_backoff(Duration::from_millis(1))
        .max_backoff(Duration::from_millis(4))
        .backoff_factor(1.5)
        .build();
    let url = url::Url::parse(&format!("http://127.0.0.1:{port}/file.bin")).unwrap();
    let mut got: Vec<u8> = Vec::new();
    let status;
    match transport.fetch(url).await {
        Err(e) => status = if e.kind() == TransportErrorKind::FileNotFound { "not-found" } else { "err" },
        Ok(mut s) => {
            let mut st = "ok";
            let mut items = 0u64;
            while let Some(x) = s.next().await {
                match x {
                    Ok(b) => got.extend_from_slice(&b),
                    Err(e) => { st = if e.kind() == TransportErrorKind::FileNotFound { "not-found" } else { "err" }; break; }
                }
                items += 1;
                if items > 100_000 { st = "nonterminating"; break; }
            }
            status = st;
        }
    }
    server.abort();
    let log = log.lock().unwrap();
    // compact representation of contents: length + whether it is a prefix of the resource
    let is_prefix = resource.starts_with(&got);
    let input = json!({"tries": c.tries, "size": c.size, "supports_ranges": c.supports_ranges,
        "script": log.effective.iter().map(|i| item_json(i, c.supports_ranges)).collect::<Vec<_>>(),
        "planned": format!("{:?}", c.script)});
    let imp = json!({"status": status, "yielded_len": got.len(), "is_prefix": is_prefix, "requests": log.ranges.len(),
        "ranges": log.ranges.iter().map(|r| r.map(|x| json!(x)).unwrap_or(Value::Null)).collect::<Vec<_>>()});
    (input, imp)
}

fn rand_item(r: &mut Rng, size: usize) -> Item {
    match r.below(14) {
        0 | 1 => Item::Body { deliver: 0, end: End::Complete },
        2 => Item::Body { deliver: 0, end: End::Timeout },
        3 => Item::Body { deliver: 1.min(size), end: End::Timeout },
        4 => Item::Body { deliver: size / 2, end: End::Timeout },
        5 => Item::Body { deliver: size / 2, end: End::Fatal },
        6 => Item::Status(500),
        7 => Item::Status(503),
        8 => Item::Status(*r.pick(&[403u16, 404, 410])),
        9 => Item::Status(*r.pick(&[400u16, 416, 401, 429])),
        10 => Item::ConnErr,
        11 => Item::NoResponse,
        12 => Item::Status(502),
        _ => Item::Body { deliver: size.saturating_sub(1), end: End::Timeout },
    }
}

#[tokio::main(flavor = "multi_thread", worker_threads = 8)]
async fn main() {
    let mut args = parse_args();
    let mut only = None;
    if let Some(p) = &args.replay {
        let v: Value = serde_json::from_str(&std::fs::read_to_string(p).unwrap()).unwrap();
        if let Some(t) = v["tier"].as_str() { args.tier = t.into(); }
        if let Some(s) = v["seed"].as_u64() { args.seed = s; }
        only = v["case"]["id"].as_u64();
    }
    let thorough = args.tier == "thorough";
    let mut cases: Vec<Case> = Vec::new();
    // corpus: the repaired defect (a server that always answers 500)
    for t in 1..=4u32 {
        cases.push(Case { class: "always-500".into(), tries: t, size: 10, supports_ranges: false, script: vec![Item::Status(500); 8] });
        cases.push(Case { class: "always-stalled".into(), tries: t, size: 1000, supports_ranges: true, script: vec![Item::Body { deliver: 100, end: End::Timeout }; 8] });
    }
    // every script of length <= 2 over the item kinds, tries 1..3
    let kinds = |size: usize| vec![Item::Body { deliver: 0, end: End::Complete }, Item::Body { deliver: size / 2, end: End::Timeout }, Item::Status(500),
        Item::Status(403), Item::Status(404), Item::Status(410), Item::Status(400), Item::Status(416), Item::ConnErr];
    for tries in 1..=(if thorough { 4 } else { 2 }) {
        for ar in [false, true] {
            for size in [0usize, 1, 1024] {
                let ks = kinds(size);
                for a in &ks {
                    cases.push(Case { class: "exh1".into(), tries, size, supports_ranges: ar, script: vec![a.clone()] });
                    for b in &ks {
                        if thorough || size == 1024 {
                            cases.push(Case { class: "exh2".into(), tries, size, supports_ranges: ar, script: vec![a.clone(), b.clone()] });
                        }
                    }
                }
            }
        }
    }
    let n = if thorough { 12_000 } else { 900 };
    for i in 0..n {
        let mut r = Rng::new(args.seed, i);
        let tries = r.range(1, 4) as u32;
        let size = *r.pick(&[0usize, 1, 2, 1024, 4096, 262_144]);
        let len = r.range(1, tries as u64 + 2) as usize;
        let script: Vec<Item> = (0..len).map(|_| rand_item(&mut r, size)).collect();
        cases.push(Case { class: "random".into(), tries, size, supports_ranges: r.chance(1, 2), script });
    }
    // run with bounded concurrency, emit in order
    let conc: usize = std::env::var("C18_CONC").ok().and_then(|s| s.parse().ok()).unwrap_or(24);
    let sem = Arc::new(tokio::sync::Semaphore::new(conc));
    let mut handles = Vec::new();
    for (i, c) in cases.into_iter().enumerate() {
        let id = i as u64 + 1;
        if only.map_or(false, |o| o != id) { handles.push(None); continue; }
        let sem = sem.clone();
        let seed = args.seed.wrapping_add(i as u64);
        handles.push(Some(tokio::spawn(async move {
            let _p = sem.acquire().await.unwrap();
            let (input, imp) = run_case(&c, seed).await;
            (c.class.clone(), input, imp, c.script.iter().any(|i| !matches!(i, Item::Body { end: End::Complete, .. })))
        })));
    }
    let mut out = Out::new(&args.out);
    for h in handles {
        match h {
            None => out.skip(),
            Some(h) => {
                let (class, input, imp, nt) = h.await.unwrap();
                out.case_nt(&class, input, imp, nt);
            }
        }
    }
    out.finish();
}
