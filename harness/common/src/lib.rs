//! Shared plumbing of the correspondence harnesses: deterministic PRNG, command line, JSON-lines
//! output.
use serde_json::{json, Value};
use std::io::Write;

/// splitmix64: every random choice of a case derives from (seed, case index).
#[derive(Clone)]
pub struct Rng(pub u64);
impl Rng {
    pub fn new(seed: u64, stream: u64) -> Self {
        let mut r = Rng(seed ^ stream.wrapping_mul(0x9E37_79B9_7F4A_7C15));
        r.next();
        r
    }
    pub fn next(&mut self) -> u64 {
        self.0 = self.0.wrapping_add(0x9E37_79B9_7F4A_7C15);
        let mut z = self.0;
        z = (z ^ (z >> 30)).wrapping_mul(0xBF58_476D_1CE4_E5B9);
        z = (z ^ (z >> 27)).wrapping_mul(0x94D0_49BB_1331_11EB);
        z ^ (z >> 31)
    }
    pub fn below(&mut self, n: u64) -> u64 {
        if n == 0 { 0 } else { self.next() % n }
    }
    pub fn range(&mut self, lo: u64, hi: u64) -> u64 {
        lo + self.below(hi - lo + 1)
    }
    pub fn chance(&mut self, num: u64, den: u64) -> bool {
        self.below(den) < num
    }
    pub fn pick<'a, T>(&mut self, xs: &'a [T]) -> &'a T {
        &xs[self.below(xs.len() as u64) as usize]
    }
    pub fn shuffle<T>(&mut self, xs: &mut [T]) {
        for i in (1..xs.len()).rev() {
            let j = self.below(i as u64 + 1) as usize;
            xs.swap(i, j);
        }
    }
}

#[derive(Debug, Clone)]
pub struct Args {
    pub tier: String,
    pub seed: u64,
    pub out: Option<String>,
    pub replay: Option<String>,
    pub extra: Vec<String>,
}

pub fn parse_args() -> Args {
    let mut a = Args { tier: "quick".into(), seed: 1, out: None, replay: None, extra: vec![] };
    let mut it = std::env::args().skip(1);
    while let Some(x) = it.next() {
        match x.as_str() {
            "--tier" => a.tier = it.next().expect("--tier value"),
            "--seed" => a.seed = it.next().expect("--seed value").parse().expect("seed int"),
            "--out" => a.out = Some(it.next().expect("--out value")),
            "--replay" => a.replay = Some(it.next().expect("--replay value")),
            _ => a.extra.push(x),
        }
    }
    a
}

pub struct Out {
    w: Box<dyn Write>,
    pub n: u64,
    /// replay: only the case with this id is produced (ids are positions in generation order)
    pub only: Option<u64>,
}
impl Out {
    pub fn new(path: &Option<String>) -> Self {
        let w: Box<dyn Write> = match path {
            Some(p) => Box::new(std::io::BufWriter::new(std::fs::File::create(p).expect("create out"))),
            None => Box::new(std::io::BufWriter::new(std::io::stdout())),
        };
        Out { w, n: 0, only: None }
    }
    /// false when the next case is filtered out by a replay (the generator may then skip running it,
    /// but must call `skip()` so that ids stay aligned)
    pub fn wants_next(&self) -> bool {
        self.only.map_or(true, |o| o == self.n + 1)
    }
    /// is one of the next `k` case slots the one asked for (replay), or are all cases wanted?
    pub fn wants_any_of_next(&self, k: u64) -> bool {
        self.only.map_or(true, |o| o > self.n && o <= self.n + k)
    }
    pub fn skip(&mut self) {
        self.n += 1;
    }
    /// One case: `class` is the generator class (used for fingerprints), `input` what the model
    /// consumes, `imp` the canonicalised observation of the real code.
    pub fn case(&mut self, class: &str, input: Value, imp: Value) {
        if !self.wants_next() {
            self.n += 1;
            return;
        }
        self.n += 1;
        let line = json!({"id": self.n, "class": class, "input": input, "impl": imp});
        serde_json::to_writer(&mut self.w, &line).unwrap();
        self.w.write_all(b"\n").unwrap();
    }
    /// like `case`, with the generator's own non-triviality verdict
    pub fn case_nt(&mut self, class: &str, input: Value, imp: Value, nontrivial: bool) {
        if !self.wants_next() {
            self.n += 1;
            return;
        }
        self.n += 1;
        let line = json!({"id": self.n, "class": class, "input": input, "impl": imp, "nontrivial": nontrivial});
        serde_json::to_writer(&mut self.w, &line).unwrap();
        self.w.write_all(b"\n").unwrap();
    }
    pub fn finish(mut self) {
        self.w.flush().unwrap();
    }
}

/// The cases of a replay file (`{"case": {...}}` or a bare case, or a JSON-lines corpus file).
pub fn read_replay(path: &str) -> Vec<Value> {
    let text = std::fs::read_to_string(path).expect("read replay");
    if let Ok(v) = serde_json::from_str::<Value>(&text) {
        if let Some(c) = v.get("case") {
            return vec![c.clone()];
        }
        if v.get("input").is_some() {
            return vec![v];
        }
        if let Some(a) = v.as_array() {
            return a.clone();
        }
    }
    text.lines().filter(|l| !l.trim().is_empty()).map(|l| serde_json::from_str(l).expect("replay line")).collect()
}
