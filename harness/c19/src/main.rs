//! C19 correspondence harness: repositories with delegation trees, odd role and target names, root
//! chains and both consistent-snapshot settings are written to disk, loaded with the real client
//! (file:// transport), cached with `Repository::cache` (all targets or a subset, with or without the
//! root chain, sometimes with one target file of the source corrupted), and the cache directories are
//! inspected and loaded again.
use serde_json::{json, Value};
use std::collections::{BTreeMap, HashMap};
use std::path::Path;
use vcommon::{parse_args, Out, Rng};
use vworld::client::*;
use vworld::mem::{Chunk, Mem, Resp};
use vworld::meta::sha256;
use vworld::repo::*;
use vworld::KeyPool;

// (names that differ from their resolved form are the subject of C07 / C08)
const TARGET_NAMES: [&str; 12] = ["a", "dir/b.txt", "file one.txt", "ünï/çødé.bin", "d/e/f/deep", "c", "zero", "%41", "a b/c d",
    "dir/g", "UPPER.TXT", "tail.tar.gz"];
const ROLE_NAMES: [&str; 10] = ["r0", "role 1", "../x", "a/b", "ünï", "r%41", "..", "targets2", "snapshot2", "1.r"];

fn resolved(raw: &str) -> String {
    tough::TargetName::new(raw.to_string()).unwrap().resolved().to_string()
}

fn dump(mem: &Mem, dir: &Path) {
    for (path, resp) in mem.files.lock().unwrap().iter() {
        if let Resp::Stream(chunks) = resp {
            let mut bytes = Vec::new();
            for c in chunks { if let Chunk::Data(b) = c { bytes.extend_from_slice(b); } }
            let p = dir.join(path.trim_start_matches('/'));
            std::fs::create_dir_all(p.parent().unwrap()).unwrap();
            std::fs::write(p, bytes).unwrap();
        }
    }
}

fn tuftool() -> std::path::PathBuf {
    std::path::PathBuf::from(std::env::var("TUFTOOL").unwrap_or_else(|_| "/repo/target/debug/tuftool".into()))
}

/// every file below `dir`, relative path -> content
fn tree(dir: &Path) -> BTreeMap<String, Vec<u8>> {
    fn walk(base: &Path, d: &Path, out: &mut BTreeMap<String, Vec<u8>>) {
        if let Ok(rd) = std::fs::read_dir(d) {
            for e in rd.flatten() {
                let p = e.path();
                let ft = e.file_type().unwrap();
                if ft.is_dir() { walk(base, &p, out); }
                else { out.insert(p.strip_prefix(base).unwrap().to_string_lossy().to_string(), std::fs::read(&p).unwrap_or_default()); }
            }
        }
    }
    let mut out = BTreeMap::new();
    walk(dir, dir, &mut out);
    out
}

struct Gen<'r> {
    r: &'r mut Rng,
    next_role: usize,
    roles: Vec<(usize, ATargets)>,
    msgs: MsgGen,
    /// target index -> (size, digest id), assigned while the tree is built
    assigned: Vec<bool>,
    entries_of: HashMap<usize, (u64, u64)>,
    names: Vec<String>,
    max_roles: usize,
}

impl<'r> Gen<'r> {
    fn take_entries(&mut self, share: u64) -> Vec<(usize, u64, u64)> {
        let mut es = Vec::new();
        for i in 0..self.names.len() {
            if !self.assigned[i] && self.r.chance(1, share) {
                self.assigned[i] = true;
                let (len, id) = self.entries_of[&i];
                es.push((i, len, id));
            }
        }
        es
    }

    /// names listed anywhere in the subtree of `t`
    fn listed(t: &ATargets, roles: &[(usize, ATargets)]) -> Vec<usize> {
        let mut v: Vec<usize> = t.entries.iter().map(|e| e.0).collect();
        if let Some(d) = &t.deleg {
            for r in &d.roles {
                if let Some((_, sub)) = roles.iter().find(|(i, _)| *i == r.name) { v.extend(Self::listed(sub, roles)); }
            }
        }
        v
    }

    fn deleg(&mut self, depth: usize) -> Option<ADeleg> {
        if depth == 0 || self.r.chance(1, 4) || self.next_role >= self.max_roles { return None; }
        let fan = self.r.range(1, 3) as usize;
        let mut roles = Vec::new();
        for _ in 0..fan {
            if self.next_role >= self.max_roles { break; }
            let idx = self.next_role;
            self.next_role += 1;
            let entries = self.take_entries(3);
            let sub = self.deleg(depth - 1);
            let msg = self.msgs.next();
            let doc = ATargets { version: self.r.range(1, 4), expires: 7 * DAY, entries, deleg: sub, msg, sigs: valid_sigs(&[11]) };
            // the role is trusted for exactly what its subtree lists (or for everything, by an empty hash prefix)
            let mut all = self.roles.clone();
            all.push((idx, doc.clone()));
            let listed = Self::listed(&doc, &all);
            let (patterns, hash_prefixes): (Vec<String>, Vec<String>) =
                (listed.iter().map(|i| resolved(&self.names[*i])).chain(std::iter::once("never-listed".to_string())).collect(), vec![]);
            roles.push(ADRole { name: idx, ids: vec![11], thr: 1, patterns, hash_prefixes });
            self.roles.push((idx, doc));
        }
        Some(ADeleg { table: vec![11], roles })
    }
}

#[tokio::main(flavor = "current_thread")]
async fn main() {
    let mut args = parse_args();
    let pool = KeyPool::load();
    let mut only = None;
    if let Some(p) = &args.replay {
        let v: Value = serde_json::from_str(&std::fs::read_to_string(p).unwrap()).unwrap();
        if let Some(t) = v["tier"].as_str() { args.tier = t.into(); }
        if let Some(s) = v["seed"].as_u64() { args.seed = s; }
        only = v["case"]["id"].as_u64();
    }
    let thorough = args.tier == "thorough";
    let mut out = Out::new(&args.out);
    out.only = only;
    let n = if thorough { 4000 } else { 250 };
    for i in 0..n {
        // two case slots per scenario (the second one: read-back of names that need URL escaping)
        if !out.wants_any_of_next(3) { out.skip(); out.skip(); out.skip(); continue; }
        let mut r = Rng::new(args.seed, i);
        let mut tn: Vec<&str> = TARGET_NAMES.to_vec();
        r.shuffle(&mut tn);
        let k = r.range(1, 7) as usize;
        let names: Vec<String> = tn[..k].iter().map(|s| s.to_string()).collect();
        let mut rn: Vec<&str> = ROLE_NAMES.to_vec();
        r.shuffle(&mut rn);
        let role_names: Vec<String> = rn.iter().take(8).map(|s| s.to_string()).collect();
        let cs = r.chance(1, 2);
        let mut world = World::new(&pool, Names { roles: role_names.clone(), targets: names.clone() });
        // real target contents
        let mut contents: Vec<Vec<u8>> = Vec::new();
        let mut entries_of = HashMap::new();
        for (ti, nm) in names.iter().enumerate() {
            let len = if nm == "zero" { 0 } else { *r.pick(&[1usize, 2, 17, 1000, 4097]) };
            let c: Vec<u8> = (0..len).map(|_| r.next() as u8).collect();
            let id = world.digest_id(&sha256(&c));
            entries_of.insert(ti, (len as u64, id));
            contents.push(c);
        }
        let mut g = Gen { r: &mut r, next_role: 0, roles: vec![], msgs: MsgGen(0), assigned: vec![false; k], entries_of, names: names.clone(), max_roles: 6 };
        let deleg = g.deleg(3);
        // what is left goes to the top level
        let mut top_entries = Vec::new();
        for ti in 0..k { if !g.assigned[ti] { let (len, id) = g.entries_of[&ti]; top_entries.push((ti, len, id)); g.assigned[ti] = true; } }
        let top_msg = g.msgs.next();
        let (roles, mut msgs) = (g.roles, g.msgs);
        let top = ATargets { version: r.range(1, 9), expires: 7 * DAY, entries: top_entries, deleg, msg: top_msg, sigs: valid_sigs(&[10]) };
        // root chain: versions 1..=rv, same keys; the client ships version 1
        let rv = r.range(1, 3);
        let roots: Vec<ARoot> = (1..=rv).map(|v| simple_root(v, cs, (vec![7], 1), (vec![8], 1), (vec![9], 1), (vec![10], 1), msgs.next(), &[7])).collect();
        let online = Online { ts_sigs: valid_sigs(&[8]), snap_sigs: valid_sigs(&[9]), ts_expires: DAY, snap_expires: 3 * DAY };
        let (tsv, snv) = (r.range(1, 50), r.range(1, 50));
        let mut asm = assemble(&mut world, cs, tsv, snv, &top, &roles, Pin { length: r.chance(1, 2), hash: r.chance(1, 2) }, &online, &mut msgs);
        for root in &roots {
            asm.server.push((AName::RootV(root.version), AResp::File(AFile::plain(AContent::Root(root.clone())))));
        }
        let cyc = ACycle { limits: ALimits::default(), safe: true, now: 0, server: asm.server, shipped: Some(roots[0].clone()), reads: vec![] };
        let mem = Mem::new(usize::MAX);
        let mut labels = HashMap::new();
        let model = cycle_model(&mut world, &mem, &cyc, &mut labels);
        // the source repository: served from memory the way a web server would (the path the client
        // asks for, percent-encoded by `Url::join`, names the file)
        let top_dir = tempfile::tempdir().unwrap();
        let tbase = url::Url::parse("file:///t/").unwrap();
        let rel_of = |ti: usize| -> String { if cs { format!("{}.{}", hex::encode(sha256(&contents[ti])), resolved(&names[ti])) } else { resolved(&names[ti]) } };
        let tpath = |ti: usize| -> String { tbase.join(&rel_of(ti)).map(|u| u.path().to_string()).unwrap_or_else(|_| format!("/t/unjoinable-{ti}")) };
        for ti in 0..k { mem.put(&tpath(ti), contents[ti].clone()); }
        let chain = r.chance(1, 2);
        let subset: Option<Vec<usize>> = if r.chance(1, 2) { None } else { Some((0..k).filter(|_| r.chance(1, 2)).take(4).collect()) };
        // one target file of the source corrupted
        let corrupted: Option<usize> = if r.chance(1, 5) { Some(r.below(k as u64) as usize) } else { None };
        if let Some(ci) = corrupted {
            let mut b = contents[ci].clone();
            if b.is_empty() { b.push(1); } else { let at = b.len() / 2; b[at] ^= 0x20; }
            mem.put(&tpath(ci), b);
        }
        let shipped_bytes = serde_json::to_vec(&world.root_doc(&roots[0])).unwrap();
        let final_bytes = serde_json::to_vec(&world.root_doc(&roots[rv as usize - 1])).unwrap();
        let murl = |d: &Path| url::Url::from_directory_path(d).unwrap();
        tough::verif_hooks::set_clock_offset(0);
        let loaded = tough::RepositoryLoader::new(&shipped_bytes, url::Url::parse("file:///m/").unwrap(), tbase.clone()).transport(mem.clone()).load().await;
        let input_base = json!({"cycle": model, "cs": cs, "chain": chain, "subset": subset, "corrupted": corrupted,
            "ntargets": k, "root_version": rv, "names": names, "role_names": role_names});
        let repo = match loaded {
            Ok(r) => r,
            Err(e) => { out.case_nt("source-does-not-load", input_base, json!({"load": err_tag(&e)}), false); out.skip(); out.skip(); continue; }
        };
        // cache into <sandbox>/c/meta and <sandbox>/c/tgt; anything else appearing in the sandbox is an escape
        let subset_names: Option<Vec<String>> = subset.as_ref().map(|s| s.iter().map(|i| names[*i].clone()).collect());
        let run_cli = if thorough { i % 5 == 0 } else { i % 3 == 0 };
        let mut imps: Vec<Value> = Vec::new();
        let mut lib_ok = false;
        for leg in 0..2 {
        if leg == 1 && !run_cli { break; }
        let sandbox = top_dir.path().join(if leg == 0 { "sandbox" } else { "sandbox-cli" });
        let (meta_out, tgt_out) = (sandbox.join("c").join("meta"), sandbox.join("c").join("tgt"));
        std::fs::create_dir_all(sandbox.join("c")).unwrap();
        // leg 0: the library; leg 1: `tuftool clone` on the source written to a directory (always with the root chain)
        let chain = if leg == 0 { chain } else { true };
        let res: Result<(), String> = if leg == 0 {
            repo.cache(&meta_out, &tgt_out, subset_names.as_deref(), chain).await.map_err(|e| e.to_string())
        } else {
            let src = top_dir.path().join("src");
            dump(&mem, &src);
            let root_file = top_dir.path().join("shipped-root.json");
            std::fs::write(&root_file, &shipped_bytes).unwrap();
            let mut cmd = std::process::Command::new(tuftool());
            cmd.arg("clone").arg("--root").arg(&root_file)
                .arg("--metadata-url").arg(murl(&src.join("m")).as_str()).arg("--targets-url").arg(murl(&src.join("t")).as_str())
                .arg("--metadata-dir").arg(&meta_out).arg("--targets-dir").arg(&tgt_out);
            for n in subset_names.iter().flatten() { cmd.arg("-n").arg(n); }
            match cmd.output() {
                Ok(o) if o.status.success() => Ok(()),
                Ok(o) => Err(String::from_utf8_lossy(&o.stderr).to_string()),
                Err(e) => Err(format!("tuftool could not be run: {e}")),
            }
        };
        let meta_files = tree(&meta_out);
        let tgt_files = tree(&tgt_out);
        let everything = tree(&sandbox);
        let escaped: Vec<&String> = everything.keys().filter(|p| !p.starts_with("c/meta/") && !p.starts_with("c/tgt/")).collect();
        // metadata files by their model labels; byte-identical to the source?
        let mut meta_labels: Vec<String> = Vec::new();
        let mut meta_identical = true;
        let mut differing: Vec<String> = Vec::new();
        for (f, b) in &meta_files {
            meta_labels.push(labels.get(&format!("/m/{f}")).cloned().unwrap_or_else(|| format!("?:{f}")));
            let srcb = match mem.files.lock().unwrap().get(&format!("/m/{f}")) {
                Some(Resp::Stream(chunks)) => { let mut v = Vec::new(); for c in chunks { if let Chunk::Data(d) = c { v.extend_from_slice(d); } } Some(v) }
                _ => None,
            };
            if srcb.as_ref() != Some(b) { meta_identical = false; differing.push(format!("{f}:{}:{}", b.len(), srcb.map(|x| x.len() as i64).unwrap_or(-1))); }
        }
        meta_labels.sort();
        // target files: per target index present-identical / present-different / absent; anything unexpected
        let mut tgt_state = Vec::new();
        let mut expected_paths = Vec::new();
        for (ti, nm) in names.iter().enumerate() {
            let rel = if cs { format!("{}.{}", hex::encode(sha256(&contents[ti])), resolved(nm)) } else { resolved(nm) };
            expected_paths.push(rel.clone());
            tgt_state.push(match tgt_files.get(&rel) { None => "absent", Some(b) if *b == contents[ti] => "identical", Some(_) => "different" });
        }
        let unexpected: Vec<&String> = tgt_files.keys().filter(|p| !expected_paths.contains(p)).collect();
        // load the copy: with the shipped root when the chain was cached, with the trusted root otherwise
        let reload_root = if chain { &shipped_bytes } else { &final_bytes };
        let reload = tough::RepositoryLoader::new(reload_root, murl(&meta_out), murl(&tgt_out)).load().await;
        let mut reload_obs = json!({"res": "n/a"});
        let mut reads = Vec::new();
        match &reload {
            Ok(r2) => {
                reload_obs = json!({"res": "ok", "versions": [r2.root().signed.version.get(), r2.timestamp().signed.version.get(), r2.snapshot().signed.version.get(), r2.targets().signed.version.get()]});
                for (ti, nm) in names.iter().enumerate() {
                    let t = tough::TargetName::new(nm.clone()).unwrap();
                    let state = match r2.read_target(&t).await {
                        Ok(Some(s)) => {
                            use futures::StreamExt;
                            let mut s = s;
                            let mut buf = Vec::new();
                            let mut err = false;
                            while let Some(item) = s.next().await { match item { Ok(b) => buf.extend_from_slice(&b), Err(_) => { err = true; break; } } }
                            if err { "error" } else if buf == contents[ti] { "identical" } else { "different" }
                        }
                        Ok(None) => "notfound",
                        Err(_) => "error",
                    };
                    reads.push(state);
                }
            }
            Err(e) => { reload_obs = json!({"res": err_tag(e)}); }
        }
        let versions = json!([repo.root().signed.version.get(), repo.timestamp().signed.version.get(), repo.snapshot().signed.version.get(), repo.targets().signed.version.get()]);
        if leg == 0 { lib_ok = res.is_ok() && reload.is_ok(); }
        let imp = json!({"load": "ok", "versions": versions, "cache": match &res { Ok(()) => "ok".to_string(), Err(e) => format!("err:{}", e.chars().take(60).collect::<String>()) },
            "meta_files": meta_labels, "meta_identical": meta_identical, "meta_differing": differing, "targets": tgt_state, "unexpected_target_files": unexpected, "escaped": escaped,
            "reload": reload_obs, "reads": reads});
        imps.push(imp);
        }
        let imp = imps[0].clone();
        // names that `Url::join` has to escape: the cached copy is on disk under the plain name, the
        // file:// transport looks for the escaped one (reported as a case of its own)
        let needs_escape: Vec<bool> = names.iter().map(|n| { let res = resolved(n); tbase.join(&res).map(|u| u.path() != format!("/t/{res}")).unwrap_or(true) }).collect();
        let class = format!("{}{}{}{}", if roles.is_empty() { "flat" } else { "tree" }, if chain { "-chain" } else { "" },
            if subset.is_some() { "-subset" } else { "-all" }, if corrupted.is_some() { "-corrupted" } else { "" });
        let mut input_base = input_base;
        input_base["needs_escape"] = json!(needs_escape);
        if lib_ok && needs_escape.iter().any(|b| *b) {
            let mut i2 = input_base.clone();
            i2["kind"] = json!("readback-escaped-names");
            out.case_nt("readback-urlnames", i2, imp.clone(), true);
        } else {
            out.skip();
        }
        out.case_nt(&class, input_base.clone(), imp, !roles.is_empty() || corrupted.is_some());
        // the command line leg: chain always copied; no names given = all targets
        if imps.len() == 2 {
            let mut i3 = input_base;
            i3["chain"] = json!(true);
            if subset.as_ref().map_or(false, |s| s.is_empty()) { i3["subset"] = Value::Null; }
            i3["via"] = json!("tuftool clone");
            out.case_nt(&format!("{class}-cli"), i3, imps[1].clone(), true);
        } else {
            out.skip();
        }
    }
    out.finish();
}
