"""Per-property configuration of the runner (`./check`)."""

PROPS = {
    "C11": {
        "package": "c11",
        "exe": "m_c11",
        "rule": "inputs: the corpus (past failures, Lean witnesses), every key set of size <=3 over strings of "
                "length <=1 (quick) / <=2 (thorough) on the alphabet {a,b,space,!,\",\\,0x01,e-acute} in every "
                "insertion order, and random values to depth 4 (keys/strings over control characters, quote, "
                "backslash, multi-byte and combining characters; integers across the i64/u64/i128 edges; one "
                "in ten with floats). A case is non-trivial when ordering its members by the escaped, quoted "
                "key text (the pre-fix behaviour, evaluated by the model `encodeOld`) gives other bytes than "
                "the canonical form; distinct = distinct input values.",
        "exhaustive": {"quick": True, "thorough": True},
        "explanation": "Theorems (Tough/Props/C11.lean): the CanonicalFormatter state machine driven by serde_json's "
                       "call-back sequence computes the recursive specification `canon` for every value "
                       "(encode_canonical), refuses exactly the values with floats, is independent of member "
                       "insertion order, UTF-8 byte order is code-point order, and the bytes determine the value: two "
                       "values with the same output have the same normal form, i.e. differ at most in string "
                       "normalisation, member order and replaced duplicate members (encode_injective, via a direct "
                       "rendering that is read back byte by byte: digits, UTF-8 as a prefix code, the two escapes, "
                       "framing). Correspondence: the real "
                       "formatter is driven in-process through a Serialize wrapper with chosen member order; "
                       "bytes are compared with the compiled model and with `canon`.",
        "level_text": "Kernel-checked refinement theorem: for every JSON value the formatter state machine (model of "
                      "olpc-cjson driven by serde_json's call-backs) emits exactly the recursive OLPC specification; "
                      "order-independence and float refusal are theorems; the model is tied to the real formatter by "
                      "an exhaustive small-scope + random differential run on every check.",
        "level_note": "Trusted: Lean kernel; axioms propext/Classical.choice/Quot.sound; serde_json call-back order and "
                      "Unicode NFC are modelled (NfcOk hypotheses); the correspondence harness and runner.",
        "trusted": [
            "modelled, not verified: serde_json's Serializer (which Formatter call-backs it issues), "
            "unicode-normalization's NFC (abstract `nfc` with hypotheses NfcOk; table supplied per case)",
        ],
        "assumptions": [
            "NFC never produces a quotation mark or backslash from text without them and maps scalar values to scalar values (NfcOk)",
            "string normalisation per fragment equals normalisation of the whole string (escaped characters are starters)",
        ],
    },
}

PROPS["C01"] = {
    "package": "c01",
    "exe": "m_c01",
    "rule": "signature lists over the property's seven classes {valid by authorized key i, second valid by the same key (its key id spelled in upper-case hex), "
            "corrupted, over other content, by key of another role, by unknown key, by authorized key missing from "
            "the key table}: exhaustively up to length 3 (quick, <=2 authorized keys) / 4 (thorough, <=3 keys) for "
            "thresholds 1..k+1 at Root::verify_role and Delegations::verify_role (ed25519), random lists of length "
            "3..5 over 1..4 keys with ecdsa-p256 and rsa-pss mixed in, and random lists placed at each of the eight "
            "sites of load() (shipped root, N->N+1 under old keys, under new keys, timestamp, snapshot, targets, "
            "delegated depth 1 and 2) with every other document well signed. Non-trivial: the verdict changes under at "
            "least one of six plausible miscountings (no duplicate set, key table not consulted, authorization not "
            "consulted, content not compared, signature bytes not checked, strict threshold), evaluated by the model.",
    "exhaustive": {"quick": True, "thorough": True},
    "explanation": "Theorems (Tough/Props/C01.lean): the verification loop (counter + mutable set) accepts iff the number of "
                   "distinct authorized key ids present in the key table with a valid signature over the content reaches "
                   "the threshold (both directions, any list length); non-counting and repeated signatures and the order "
                   "of entries are irrelevant; every document a successful cycle trusts passed that check at its site. "
                   "Correspondence: real keys and signatures (ed25519, ecdsa-p256, rsa-pss) through the two verify_role "
                   "APIs and through RepositoryLoader::load.",
    "level_text": "Kernel-checked iff between the implementation's loop and the set-cardinality specification, for all key "
                  "tables, role key lists, thresholds and signature lists; lifted to the verification sites of the update "
                  "cycle; tied to the code by exhaustive small-scope and random differential runs with real signatures.",
    "level_note": "Trusted: Lean kernel and the three standard axioms; signature schemes are abstract (a signature verifies "
                  "iff made by the key stored under the claimed id over the checked message) and aws-lc is compared with "
                  "the generator's ground truth only; serde parsing of the documents; harness and runner.",
    "trusted": ["modelled, not verified: ed25519 / ecdsa-p256 / rsa-pss verification (aws-lc-rs), serde deserialisation, "
                "canonical JSON of the signed portion (see C11, C12)"],
    "assumptions": ["perfect signature scheme abstraction", "key ids identify keys (C13)"],
}

_CLIENT_TRUSTED = ["modelled, not verified: signature schemes (abstract, see C01), serde parsing of metadata files, "
                   "the transport (scripted in-memory Transport in the harness), tokio/tempfile/filesystem behaviour of the datastore"]

PROPS["C02"] = {
    "package": "cyc", "exe": "m_client", "harness_args": ["--prop", "C02"],
    "rule": "root chains of length 0..4; per hop a rotation kind of the root role (same keys, disjoint, overlapping, "
            "threshold up/down, algorithm change to ecdsa/rsa) and occasional rotation of the online keys; at most one "
            "broken hop at every position in each of twelve ways (signed only by old keys, only by new keys, one short "
            "of the old / new threshold, lower version, trusted version under the next name, skipping past, unparsable, "
            "absent, transport error at open, mid-stream error, mid-stream not-found); top-level metadata signed by the "
            "keys of every epoch; small max_root_updates now and then. Non-trivial: chain length >= 1 and (a broken hop "
            "or metadata signed by a non-final epoch). Distinct = distinct abstract inputs.",
    "explanation": "Theorems (Tough/Props/C02.lean): a successful load_root yields a chain from the shipped root in which "
                   "every member is the file served for the next version, doubly signed and of higher version, ending "
                   "where the next version is unavailable; unverified shipped roots are refused; a broken hop anywhere "
                   "along the chain fails the cycle; only the final root authorizes; root requests <= max_root_updates. "
                   "Correspondence: RepositoryLoader::load on materialised chains, comparing success, final root version "
                   "and the list of N.root.json requests with the model.",
    "level_text": "Kernel-checked characterisation of the root walk (induction over the loop, unbounded chain length) plus "
                  "differential runs of the real load() on generated chains with real signatures.",
    "level_note": "Trusted: Lean kernel, standard axioms; the abstraction of signatures and parsing; the harness. The "
                  "model takes fuel max_root_updates+1 (proved never exhausted: rootLoop_no_fuel_error).",
    "trusted": _CLIENT_TRUSTED, "assumptions": [],
}

PROPS["C05"] = {
    "package": "cyc", "exe": "m_client", "harness_args": ["--prop", "C05"],
    "rule": "three repository states (versions 1..3 of snapshot, targets and delegated roles, different target sets), both "
            "consistent-snapshot settings, pinning documents with/without length and with/without digest; the served "
            "files are state a's with 0..2 substitutions of timestamp/snapshot/targets/role by another state's file, by "
            "the same document with trailing whitespace (other digest and length, same signatures) or re-signed with an "
            "extra unrelated signature entry; occasionally the delegated role is dropped from the snapshot listing. "
            "Non-trivial: some served file differs from what its pinning document describes, or digest/length absent.",
    "explanation": "Theorems (Tough/Props/C05.lean): the trusted snapshot/targets have exactly the pinned version, come "
                   "from the file named by the pinning entry (version-prefixed under consistent snapshots), have the "
                   "pinned digest and do not exceed the pinned length; every delegated role at any depth is listed and "
                   "has the listed version. Correspondence: load() result and request log vs the model.",
    "level_text": "Kernel-checked inversion of the update cycle (what a successful cycle has checked about pinning), "
                  "differential runs on mixed repository states.",
    "level_note": "Trusted: Lean kernel, standard axioms; SHA-256 as an abstract digest identity (collision-freeness is "
                  "not needed: statements speak of the recorded digest); the harness.",
    "trusted": _CLIENT_TRUSTED, "assumptions": [],
}

PROPS["C09"] = {
    "package": "cyc", "exe": "m_client", "harness_args": ["--prop", "C09"],
    "rule": "for each file kind (2.root.json, timestamp, snapshot, targets, delegated role at depth 1 and 2) the applicable "
            "limit (the pinned length when the parent pins one, else the configured limit) is set to size-100000, size-1, "
            "size, size+1, size+100000 (0 when negative); the same with the file replaced by an endless or padded stream; "
            "sibling roles of which the snapshot pins a length for one only (default and small max_targets_size); chains of 0..max+3 valid newer roots for max_root_updates 0..4; the same chains met by a client whose datastore has recorded a newer root than the one shipped (two-cycle histories); delegation graphs (tree, self, deep self, "
            "mutual, 3-cycle, diamond, duplicate in one list, sibling back edge, chain of 5, random graphs over <=5 roles); "
            "legitimate repositories with every file exactly at its bound and delegated roles larger than targets.json. "
            "Non-trivial: a file within 1 byte of its bound, an oversized stream, a cyclic graph, or chain >= limit.",
    "explanation": "Theorems (Tough/Props/C09.lean): the limit applied to each metadata file is the configured per-role "
                   "limit or the length pinned by the trusted parent (a delegated role: its own snapshot entry); a file "
                   "that is read successfully is not longer than that bound; the number of newer-root requests is at "
                   "most max_root_updates; the number of delegated-role requests of a cycle is at most the number of "
                   "role entries of the trusted snapshot, whatever the server answers (self- and mutual delegation "
                   "included), and the model's recursion fuel is never exhausted. The whole cycle, any outcome, any server: at most max_root_updates + 3 requests plus one per entry of a snapshot the repository serves (cycle_requests_bounded). Correspondence: request counts, bytes "
                   "pulled per request and results of load() vs the model.",
    "level_text": "Kernel-checked bounds on requests and accepted sizes for every server (the server is an arbitrary "
                  "function from file names to responses), differential runs against scripted oversized/endless/cyclic servers.",
    "level_note": "Trusted: as C02. Bytes *pulled* from the transport can exceed the bound by one transport chunk (the size "
                  "adapter fails on the item that crosses the bound); the stream-level statement is C06's.",
    "trusted": _CLIENT_TRUSTED, "assumptions": [],
}

PROPS["C04"] = {
    "package": "cyc", "exe": "m_client", "harness_args": ["--prop", "C04"],
    "rule": "every subset of {root, timestamp, snapshot, targets} expired by 10 s, 1 h, 400 d or 30 y under both enforcement "
            "settings followed by a read; rotation chains of 1..3 hops with expired intermediate roots and fresh/expired "
            "final root; all 24 orders of the four expiries with reads placed between consecutive expiries (forward "
            "jumps) and a backward jump between reads; three cycles on one datastore with the clock stepping back by "
            "20 s, 1 h, 400 d and catching up again; random mixtures. The client's clock is real time plus the hook "
            "offset; clock values within a case are >= 2 s apart and >= 10 s away from every expiry. Non-trivial: some "
            "role is expired, an expiry lies between two samples, or the clock moves backwards.",
    "explanation": "Theorems (Tough/Props/C04.lean): Safe + successful cycle => final root, timestamp, snapshot, targets all "
                   "unexpired and clock not before the recorded time; intermediate roots' expiry is not consulted; the "
                   "read gate fails once any of the four expiries has passed and lets through before; a stepped-back "
                   "clock fails every sampling operation; with Unsafe the result is the same for every clock value; an "
                   "'expired' verdict implies the expiry really lies before the clock. Correspondence: load() and "
                   "read_target() results (incl. expired/clock error class) vs the model, using the clock-offset hook.",
    "level_text": "Kernel-checked statements over the update-cycle and read-gate model for all clocks, expiries and stored "
                  "times; differential runs with a hooked clock.",
    "level_note": "Trusted: as C02, plus the hook (feature verif-hooks: an offset added to Utc::now() in "
                  "Datastore::system_time) and chrono's RFC 3339 round trip of the stored time. The boundary clock == "
                  "expiry is not exercised (real time flows during a case).",
    "trusted": _CLIENT_TRUSTED, "assumptions": ["all clock samples of one operation are modelled as one value (margins >= 2 s in the harness)"],
}

_HIST_RULE = ("histories of 2..4 update cycles on one datastore directory: all pairs of cycles over the version grid "
              "(timestamp, snapshot, targets, snapshot-listed targets incl. 'entry dropped') in {1,2}^4 (quick, every third "
              "pair) / {1,2,3}^4 (thorough) without root changes, and random histories in which 0..3 newer roots change the "
              "timestamp / snapshot / targets role (disjoint key, added key with the old one kept, both online roles, "
              "threshold 1->2, re-ordered key list, rotate-and-rotate-back; in a third of the histories the root role rotates its "
              "own key with every root as well), the repository moves between root epochs, the "
              "shipped root is the oldest, an intermediate or the newest one, every file is genuinely signed by a quorum of the "
              "epoch's keys (for overlapping key sets a random authorized subset) and unexpired, versions go up and down, "
              "stored versions are inflated to 2^63 in one history out of six, and one cycle in eight fails on purpose "
              "(timestamp missing / unparsable, snapshot transport error, expired, enforcement off); both consistent-snapshot "
              "settings. Non-trivial: versions differ between two cycles, or a root change occurs.")

PROPS["C03"] = {
    "package": "cyc", "exe": "m_client", "harness_args": ["--prop", "C03"],
    "rule": _HIST_RULE,
    "explanation": "Theorems (Tough/Props/C03.lean): for EVERY history (any length, any servers, failing cycles, any shipped "
                   "roots): after a cycle succeeded with timestamp v / snapshot v listing targets w / targets v, no later "
                   "cycle succeeds with less (or with the targets entry dropped) unless a cycle in between ended step 1 with a "
                   "root that changed the listed online keys or the authorization under which the stored document was valid "
                   "(targets: only the targets role's own authorization). Proved as a datastore invariant (Guard) lifted over "
                   "histories. Correspondence: per-cycle success and versions of load() on shared datastore directories vs the model.",
    "level_text": "Kernel-checked invariant over the datastore, lifted by induction to histories of unbounded length; "
                  "differential runs of multi-cycle histories against the real client.",
    "level_note": "Trusted: as C02. 'Newer root' is not part of the exemption predicate: the model (like the code) does not "
                  "persist the root for root-rollback protection, so a repository that withholds newer root files is outside "
                  "these theorems (see DESIGN.md, residual risk R1).",
    "trusted": _CLIENT_TRUSTED, "assumptions": [],
}

PROPS["C14"] = {
    "package": "cyc", "exe": "m_client", "harness_args": ["--prop", "C14"],
    "rule": _HIST_RULE,
    "explanation": "Theorems (Tough/Props/C14.lean): when step 1 ends with a root whose listed timestamp or snapshot keys "
                   "differ from the recorded root's, both stored files are cleared (also with overlapping key sets) and the "
                   "whole cycle equals the cycle on a datastore without them (recovery_after_rotation): stored versions, "
                   "however large, no longer constrain; the targets slot is untouched and keeps protecting. Correspondence "
                   "as C03 (same generator; histories with inflated stored versions and overlapping rotations).",
    "level_text": "Kernel-checked equality between the cycle on the real datastore and on the cleared one under a key "
                  "rotation; differential multi-cycle runs.",
    "level_note": "Trusted: as C02.",
    "trusted": _CLIENT_TRUSTED, "assumptions": [],
}

PROPS["C06"] = {
    "package": "c06", "exe": "m_c06",
    "rule": "one repository per consistent-snapshot setting with targets of every size 0..12 (quick) / 0..64 (thorough) and "
            "64, 255, 256, 1024, 4096, 8192, 65535, 65536 (thorough: each +-1), alternately listed by the top-level role "
            "and by a delegated role; per target: every chunking of the clean content (sizes <= 6), random chunkings, empty "
            "chunks, a bit flip at every position (short contents) or at sampled positions, truncation at every/sampled "
            "position, extension by 1, 2, 100 bytes (inside the last chunk and as an own chunk), substitution by another "
            "signed target's content, an endless stream after the content and from the start, a transport error at a random "
            "chunk; names without an entry. Non-trivial: the served stream differs from the signed content or has >= 2 chunks.",
    "explanation": "Theorems (Tough/Props/C06.lean): for every transport stream the consumer is handed at most the signed "
                   "length; the stream ends cleanly iff the transport had no error, the content is within the length and its "
                   "SHA-256 is the recorded digest, and then exactly the content was handed on; chunking is irrelevant. "
                   "Correspondence: Repository::read_target on a scripted transport, item by item until the first error: "
                   "bytes delivered, final status and the requested file name vs the model and the specification predicate.",
    "level_text": "Kernel-checked statements about the two stream adapters for all streams (arbitrary item lists), differential "
                  "runs of read_target over corruption classes at every position for short contents.",
    "level_note": "Trusted: Lean kernel, standard axioms; SHA-256 is an abstract function H (the driver uses the digest identity "
                  "computed by the harness with aws-lc); futures::Stream polling order; the scripted transport.",
    "trusted": ["modelled, not verified: SHA-256 (abstract H), futures stream combinators, the Transport implementation"],
    "assumptions": ["a consumer stops at the first error item (into_vec / the save_target loop do)"],
}

PROPS["C08"] = {
    "package": "c08", "exe": "m_c08",
    "rule": "names: every string of length <= 4 (quick) / <= 5 (thorough) over {/ . a \\ space ~ % e-acute} and random "
            "names of length 6..40 through TargetName::new (raw -> resolved or refusal). Saves: one raw name per distinct "
            "resolved form (700 sampled in quick), random long names and absolute names pointing at a unique location "
            "outside the sandbox; per save a random choice of file-name prefix mode, pre-existing file at the destination (an "
            "unrelated one, or one of exactly the signed length with other content), "
            "and transfer fault (clean, bit flip, oversize, truncated, transport error at chunk k), a third of the scripts with an "
            "empty chunk at a random position, for both "
            "consistent-snapshot settings; the transport stream snapshots the whole sandbox tree (output directory three "
            "levels deep, a bystander directory next to it) every time it is polled. Every save case is non-trivial.",
    "exhaustive": {"quick": True, "thorough": True},
    "explanation": "Theorems (Tough/Props/C08.lean): resolved names have only safe components; every file-system operation "
                   "of a save is at or below the output directory (else refused before anything is touched); after ANY "
                   "prefix of the save's operation trace the destination holds what it held before or the complete content "
                   "with the recorded SHA-256 within the signed length; a failed save leaves every file as it was; a "
                   "successful one leaves exactly the verified content. Correspondence: TargetName::new vs cleanName; "
                   "save_target into a watched sandbox: result, sandbox tree between every two stream items and afterwards.",
    "level_text": "Kernel-checked statements over the operation trace model (all names, all streams, all trace prefixes), "
                  "differential runs with an observer between transport chunks.",
    "level_note": "PARTIAL with respect to the runtime: that rename() is atomic and that a dropped NamedTempFile is unlinked "
                  "are POSIX/tempfile behaviour, modelled not verified; 'no moment' is proved for trace prefixes and "
                  "observed only at chunk boundaries. typed-path normalisation is transcribed, and checked exhaustively on "
                  "short names by the correspondence.",
    "trusted": ["modelled, not verified: typed-path 0.9 normalize/join, std::path join/parent/starts_with, tempfile::NamedTempFile, "
                "POSIX rename/unlink, url::Url::join (the harness serves whatever path below /t/ the client asks for)"],
    "assumptions": ["the temporary file name differs from the destination name and does not exist yet"],
}

PROPS["C07"] = {
    "package": "c07", "exe": "m_c07",
    "rule": "random delegation trees to depth 3 and fan-out 3 (<= 8 roles); each role delegated by 1..3 path patterns drawn "
            "from literals and 16 patterns with '*' and '?' (incl. patterns that only match because wildcards cross '/') or "
            "by 1..3 hash prefixes of length 0..4 (of real name digests, a quarter of them spelled in upper case; or random over {0 5 a f A F g}); 1..6 target names out of 12 (sub-directories, "
            "names needing resolution such as x/../a, d/./b, d//a, an absolute name) each listed by every role with probability "
            "1/3, every (role, name) entry with its own digest; both consistent-snapshot settings. Non-trivial: the tree has at "
            "least one delegated role.",
    "explanation": "Theorems (Tough/Props/C07.lean): find_target returns the first entry in pre-order whose whole delegation "
                   "chain matches the name (mutual structural induction over the tree, any depth and fan-out); a served "
                   "entry is listed under an authorized chain; validate succeeds iff every listed name is reachable through "
                   "an authorized chain; a successful cycle has validated its tree. Correspondence: load() verdict "
                   "(InvalidPath) and, for every name, the digest of the entry Targets::find_target serves, vs the model; "
                   "pattern and hash-prefix matching are computed in Lean (globMatch, cleanName) from the pattern strings.",
    "level_text": "Kernel-checked characterisation of the lookup over the delegation tree; differential runs over random "
                  "trees with real glob patterns and hash prefixes.",
    "level_note": "Trusted: as C02; globset's matching of the subset {literal, *, ?} is transcribed in Tough/Model/Glob.lean and "
                  "validated only by the correspondence (other glob syntax is not modelled); `terminating` is ignored by the "
                  "code and by the model.",
    "trusted": _CLIENT_TRUSTED + ["modelled, not verified: globset (subset: literals, '*', '?'; default options), SHA-256 of names for hash prefixes (supplied by the harness)"],
    "assumptions": [],
}

PROPS["C16"] = {
    "package": "c16", "exe": "m_c16",
    "rule": "delegated role names: every string of length <= 2 (quick) / <= 4 (thorough) over {/ \\ . % ? # : space 0x01 a 2 "
            "e-acute}, 500 sampled names of length 3..4 (quick), random names of length 5..64 (incl. emoji, tab, quote), the "
            "special names '.', '..', 'x.json', 'a%2Fb' vs 'a/b', '%2e%2e', '../../x', '/abs', 'C:\\x', '1.targets', ... and the "
            "reserved family (N.root, root, timestamp, snapshot, targets), each under both consistent-snapshot settings and "
            "several versions. Per name: Role::filename (what the editor writes), the URL path the client requests, the "
            "datastore entry, the path Repository::cache requests and the entry it writes, what FilesystemTransport returns "
            "for the role's file when that file is absent and a decoy lies at the percent-decoded path, and whether anything appeared outside the datastore / "
            "cache directories (their parents are watched). Every case is non-trivial; pairwise distinctness is checked "
            "over the whole run by the driver (a map from every file name observed at any site to the role name).",
    "exhaustive": {"quick": True, "thorough": True},
    "explanation": "Theorems (Tough/Props/C16.lean): encoded names use only [A-Za-z0-9_.~-%]; percent-decoding is a left "
                   "inverse, so the encoding is injective; a role file name has no '/', no NUL, is not empty, '.' or '..'; "
                   "within one naming mode two delegated roles share a file only if they share the name (and version); "
                   "under consistent snapshots a delegated file equals a root file only for the name 'root'; without them "
                   "the name 'N.root' collides with version N of root (witness; known finding C16-N.root).",
    "level_text": "Kernel-checked injectivity and plainness of the file naming for all byte strings and versions; exhaustive "
                  "short names and random long names through editor naming, client, datastore and cache.",
    "level_note": "Trusted: Lean kernel, standard axioms; url::Url::join and std::path::Path::join on a single plain segment "
                  "(observed, not modelled); decimal formatting of versions (digits) checked by the correspondence. A delegated "
                  "role carrying the very name of a top-level role is outside the statement ('two different role names') and "
                  "only recorded.",
    "trusted": ["modelled, not verified: percent_encoding::utf8_percent_encode, url::Url::join, std::path::Path::join"],
    "assumptions": [],
}

PROPS["C13"] = {
    "package": "c13", "exe": "m_c13",
    "rule": "key tables of 1..4 keys (ed25519 hex, rsa PEM, ecdsa PEM, ecdsa with hex-encoded point, the old key type "
            "'ecdsa-sha2-nistp256'; unknown extra members in the key and in keyval) inside a root document and inside a "
            "delegations object; per table: unaltered, one identifier with a flipped hex digit (first / middle / last), "
            "truncated by a byte / by a nibble, extended, upper-cased, mixed case, not hex, swapped with another key's, "
            "replaced by another key's, the member duplicated, the same key listed under both hex cases of its identifier. "
            "Key ids are recomputed by the harness as SHA-256 of the canonical JSON of the key as written. Non-trivial: any "
            "alteration, or extra members present.",
    "explanation": "Theorems (Tough/Props/C13.lean): a key table parses iff every identifier hex-decodes to the digest of its "
                   "key and no decoded identifier repeats (any table size); in a parsed table the key found under an "
                   "identifier hashes to it; hex decode(encode b) = b; the hex case is irrelevant. Correspondence: "
                   "serde_json::from_str of Signed<Root> / Targets with the table; on success every stored key's key_id() "
                   "equals its identifier and is stable across re-serialise / re-parse.",
    "level_text": "Kernel-checked iff for the key-table fold (all tables), differential runs over all key encodings and "
                  "identifier alterations for root and delegation tables.",
    "level_note": "Trusted: Lean kernel, standard axioms; SHA-256 and the canonical form of a key are taken from the harness "
                  "(C11 for the canonical form); SPKI/PEM decoding of keys is not modelled (stability across re-serialise is "
                  "observed only).",
    "trusted": ["modelled, not verified: serde map visiting order, hex crate, PEM/SPKI decoding (spki.rs)"],
    "assumptions": [],
}

PROPS["C18"] = {
    "package": "c18", "exe": "m_c18",
    "rule": "a scripted HTTP/1.1 server on 127.0.0.1, one script item per accepted request: 200 with the complete body, 200 "
            "stalled after 0 / 1 / half / all-but-one bytes, 200 broken off (connection closed mid-body), 500/502/503, 403/404/"
            "410, 400/401/416/429, connection closed before any response, request read but never answered; with and without "
            "Accept-Ranges (an honest server: honours Range iff it announces it); all scripts of length 1 and 2 over nine item "
            "kinds for tries 1..2 (quick) / 1..4 (thorough), random scripts of length <= tries+2 for tries 1..4 and resource "
            "sizes 0, 1, 2, 1 KiB, 4 KiB, 256 KiB; client time-outs 700 ms, 24 fetches in flight. The model input is the script "
            "the server actually executed. Non-trivial: the script contains something other than complete bodies.",
    "explanation": "Theorems (Tough/Props/C18.lean): for every script (any length and order) the bytes yielded are a prefix "
                   "of the resource (in order, no duplication, no gaps), a clean end means the whole resource, a Range request "
                   "is only sent after range support was announced, requests <= tries (tries >= 1), 403/404/410 are 'not "
                   "found' and other 4xx fail at once. Correspondence: bytes yielded, final status, number of requests and "
                   "Range headers seen by the server vs the model.",
    "level_text": "Kernel-checked invariant of the retry state machine over arbitrary event scripts; differential runs against "
                  "a real socket server with stalls and broken connections.",
    "level_note": "PARTIAL with respect to the runtime: reqwest/hyper/tokio (which events a stall or a closed connection "
                  "produce, time-out accuracy) are events of the model; 'yields exactly resource bytes' assumes an honest "
                  "server (a body is resource[offset..] for the offset it was asked for). Timing margins: 700 ms client "
                  "time-out vs 2.5 s stalls.",
    "trusted": ["modelled, not verified: reqwest 0.12 / hyper / tokio (response events, time-outs, error classification is_timeout/is_request)"],
    "assumptions": ["honest server content", "tries >= 1"],
}

PROPS["C20"] = {
    "package": "c20", "exe": "m_c20",
    "repo_builds": [{"cmd": ["cargo", "build", "-p", "tuftool", "--offline"], "cwd": "/repo",
                     "env": {"CARGO_TARGET_DIR": "/verif/.work/tuftool-target", "CARGO_PROFILE_DEV_DEBUG": "0"}}],
    "env": {"TUFTOOL": "/verif/.work/tuftool-target/debug/tuftool"},
    "rule": "sequences of 3..12 random `tuftool root` sub-commands (init [--version], add-key with 1-2 keys x 1-3 roles incl. "
            "repeats, remove-key with/without role, set-threshold, set-version incl. 2^32 and 2^64-1, bump-version, expire, sign "
            "with 1-2 keys [--cross-sign <earlier copy>] [-i]) over six real key files (RSA, Ed25519, ECDSA), 4 of 5 sequences "
            "start from a usable root (a third of those with separate root and online keys); 150 sequences quick / 1500 "
            "thorough, plus corpus sequences: the repaired defect, a key listed for other roles only asked to sign the root, "
            "the old root key kept as online key and cross-signed, a key removed from the root role only, a key left in the table "
            "without a role and then removed from a signed file. The real "
            "binary (built from /repo's tree) is run once per command; after every command the file is parsed with tough's "
            "schema and abstracted (key table, role key lists, thresholds, version, for every signature: by which key and "
            "whether it verifies over the CURRENT content, self-verification, stray files in the directory). Non-trivial: a "
            "sign followed by a content-changing command, a threshold above 1, or a cross-sign.",
    "explanation": "Theorems (Tough/Props/C20.lean): for every command sequence of any length, every signature in the file "
                   "is over the current content and no key signs twice (step_inv, run_inv); a successful content-changing "
                   "command leaves no signatures (content_change_clears_sigs); a failed command leaves the file as it was "
                   "(failed_command_leaves_file); a successful plain `sign` yields a file that verifies under its own root "
                   "role (plain_sign_self_verifies); the pre-fix sign is refuted by a concrete witness. Correspondence: "
                   "exit status and abstracted file after every command vs the model; the property is also evaluated "
                   "directly on what the binary left behind.",
    "level_text": "Kernel-checked invariant over arbitrary command sequences of the root-file state machine; differential "
                  "runs of the real tuftool binary, file inspected after every command.",
    "level_note": "PARTIAL with respect to the runtime: a crash of tuftool between truncating and writing root.json (the file is "
                  "written in place, not via rename) is outside the model; key generation (gen-rsa-key) is not driven; "
                  "signatures are abstracted to (key, content) pairs, their cryptographic validity over the current content is "
                  "checked by the harness with tough's own verifier.",
    "trusted": ["modelled, not verified: clap argument parsing, serde (de)serialisation of root.json, aws-lc signature primitives",
                "the harness's abstraction of root.json uses tough::schema (Root::verify_role, Key::key_id)"],
    "assumptions": ["key files name distinct keys", "no crash during the in-place write of root.json"],
}

PROPS["C15"] = {
    "package": "c15", "exe": "m_c15",
    "rule": "scenarios of (cycles run to their end) + one interrupted cycle + two follow-ups: plain version bump 5 -> 6, with "
            "delegated roles, with a root that rotates the online keys (step 1.9 removals), with a root that rotates the targets "
            "key, re-served same versions, first cycle on an empty datastore; both consistent-snapshot settings (quick: 3 "
            "scenarios, thorough: 12). The interrupted cycle runs in a child process (real client, file:// transport, one "
            "blocking thread) under strace; a dry run lists every system call that names the datastore directory (openat, "
            "write, fsync, rename, unlink); for EACH such call the cycle is re-run three times: SIGKILL on entry to the call, "
            "the call failing with ENOSPC, the call failing with EIO (strace -e inject=...:when=K, the log is checked to confirm "
            "that exactly the planned call was hit). After each interruption: every datastore file is classified (absent / "
            "version / garbage), then on copies of the directory a cycle against a replayed older repository (all versions 3 < "
            "5) and a cycle against the current repository are run. Non-trivial: a fault was injected.",
    "explanation": "Theorems (Tough/Props/C15.lean): every datastore state an update cycle can leave behind when it is cut "
                   "short after any number of datastore operations keeps the timestamp / snapshot / targets guard of C03 "
                   "(crash_ts, crash_snap, crash_tgt: stored document of version >= v that verifies under the recorded "
                   "root) unless the cycle saw a root change that exempts it; lifted to histories of any length in which "
                   "any cycle may be cut short anywhere (timestamp/snapshot/targets_protected_despite_crashes); from "
                   "every crash state of a successful cycle the same cycle succeeds again with the same view "
                   "(crash_states_complete: the list of crash states misses none; crash_no_lockout and, for any later repository acceptable before and after, crash_no_lockout_any_repository; via Proofs/ClientRerun.lean: a step depends on the datastore only through the clock "
                   "sample and whether its own stored document blocks the result); the "
                   "truncate-then-write create of the original code is refuted by a concrete witness. Correspondence: the "
                   "datastore the real client leaves behind is one of the model's crash states, and both follow-up cycles "
                   "end as the model's do from that state; the property is also evaluated directly: the replay must be "
                   "refused whenever the model refuses it from every state the interruption could have left, and the "
                   "current repository must be accepted.",
    "level_text": "Kernel-checked invariant over every crash point of the cycle model and every history of interrupted cycles; "
                  "fault enumeration over every datastore system call of the real client (kill / ENOSPC / EIO).",
    "level_note": "Both halves are proved over the model: protection (crash_ts/snap/tgt and their lifts to histories of "
                  "interrupted cycles) and no lock-out: from every datastore a successful cycle can leave behind when cut short, "
                  "the same cycle succeeds again with the same view (crash_no_lockout), and so does ANY later cycle of the same "
                  "client, against any repository, that is accepted both from the datastore before the interrupted cycle and from "
                  "the one after it (crash_no_lockout_any_repository, via crash_shape: where every crash state lies between the "
                  "two, and cycle_unblocked / cycle_rerun: acceptance depends on the datastore only through the clock sample, the "
                  "recorded root's online keys and whether a stored document blocks). The list of crash states is complete for "
                  "the model (crash_states_complete). PARTIAL with respect to the runtime: the model's create is atomic: that the "
                  "real create (temporary file, fsync, rename) is atomic under process death and failed writes rests on POSIX "
                  "rename semantics and is exercised (fault enumeration), not proved; power loss (un-synced directory entries) is "
                  "outside the model; an interrupted cycle that would not have succeeded anyway is covered by the protection half "
                  "and by the enumeration only.",
    "trusted": ["strace 6.1 fault injection (inject=SYSCALL:signal=KILL|error=E:when=K) and its log",
                "modelled, not verified: the file system (rename replaces atomically; a failed call has no effect)"],
    "assumptions": ["process death or a failed system call, not power loss", "one client process per datastore directory"],
    "timeout": {"quick": 1800, "thorough": 7200},
}

PROPS["C12"] = {
    "package": "c12", "exe": "m_c12",
    "rule": "for each top-level role type (root, timestamp, snapshot, targets incl. delegations with both kinds of path "
            "set) a validly signed document written as a plain JSON tree by 'another implementation' (canonicalised and "
            "signed without tough's schema types): plain, and with unknown members (nested objects, arrays, null, non-ASCII "
            "strings) injected at every object level incl. inside keys and keyval (key ids recomputed); variants with the "
            "expiry respelled (+00:00, .000Z); then EVERY single-point mutation of the signed portion at every path: "
            "scalar changes (number +1 / 0 / float, boolean flip, string append / first character changed / upper-cased / "
            "null), member insertion (a fresh name; next to every member a sibling whose name differs from it only by a backslash or "
            "a quotation mark), a second `_type`, the other kind of path set first / last, member deletion, member "
            "duplication (same value, changed value first, changed value last), array element insertion / deletion / swap / "
            "duplication, `_type` set to every other role; every document presented as every other role (timestamp and "
            "snapshot share a key, targets lists it too); all members of all objects shuffled, whitespace, every string as "
            "\\uXXXX escapes; extra signature entries (stranger's valid signature, unknown key id, unknown members in the "
            "wrapper and in signature entries). Quick: every scalar mutant and a third of the structural ones (~900 cases); "
            "thorough: all (~2400). The document reaches tough as text with member order and duplicates as written.",
    "explanation": "Theorems (Tough/Props/C12.lean): tough keeps a clean value exactly as it is (norm_clean, by mutual "
                   "induction over values, lists, maps and struct members for every type of the schema table); hence a "
                   "conforming document with unknown members at any level that has a catch-all is verified against "
                   "exactly the canonical form its author signed (conforming_document_message_partial); what signatures "
                   "are checked against starts with the tag of the role the document is read AS, and the four tags differ "
                   "(reser_tag, reser_roles_differ, tags_differ); documents whose signatures are checked against the same "
                   "bytes have the same content up to the normal form of C11 (signed_bytes_determine_content), and documents "
                   "read as different top-level roles are never checked against the same bytes, whatever keys the roles "
                   "share (roles_never_share_signed_bytes: the tag survives the normal form and the canonical form is "
                   "injective). "
                   "Correspondence: parse / verify outcome and the bytes "
                   "tough checks signatures against (`canonical_form`) equal the model's `message`, for every mutant. "
                   "Property on the implementation: an accepted mutant has a parsed struct EQUAL (derived PartialEq) to "
                   "that of the unmutated document; formatting variants are accepted; a document presented as another "
                   "role is refused; conforming documents are accepted.",
    "level_text": "Kernel-checked schema normalisation theorems (conformance, role tags); differential run over every "
                  "single-point mutation of real signed documents, comparing the exact bytes signatures are checked against.",
    "level_note": "PARTIAL: (1) 'a change that alters a used value makes the document unacceptable' is proved up to the "
                  "unforgeability of signatures: documents checked against the same bytes have the same content up to "
                  "C11's normal form (signed_bytes_determine_content, using the injectivity of the canonical form); "
                  "documents read as different top-level roles are never checked against the same bytes "
                  "(roles_never_share_signed_bytes; assumes of the string normaliser, beyond C11's assumptions, that ASCII "
                  "tags are fixed and that only `_type` normalises to `_type` - true of Unicode NFC); "
                  "on the implementation both are checked mutant by mutant with struct equality; (2) the conformance "
                  "theorem excludes unknown members inside `delegations` and `delegations.roles[]` (known findings, with "
                  "a Lean witness); (3) chrono's RFC 3339 re-spelling and key identifiers are oracles of the model "
                  "(`tnorm`, `keyOk`), supplied per case by the harness from chrono and `Key::key_id`.",
    "trusted": ["modelled, not verified: serde / serde_json parsing of text into values, chrono DateTime round trip, signature primitives",
                "the schema table (Tough/Model/Schema.lean) is a hand transcription of tough/src/schema/mod.rs, checked only by correspondence"],
    "assumptions": ["signatures are unforgeable", "strings of the generated documents are NFC (no NFC table is passed)",
                    "for roles_never_share_signed_bytes: string normalisation fixes the four role tags and maps nothing but `_type` to `_type` (TagOk; true of Unicode NFC, satisfied by `id`)"],
}

PROPS["C19"] = {
    "package": "c19", "exe": "m_c19",
    "repo_builds": [{"cmd": ["cargo", "build", "-p", "tuftool", "--offline"], "cwd": "/repo",
                     "env": {"CARGO_TARGET_DIR": "/verif/.work/tuftool-target", "CARGO_PROFILE_DEV_DEBUG": "0"}}],
    "env": {"TUFTOOL": "/verif/.work/tuftool-target/debug/tuftool"},
    "rule": "random repositories: 1..7 targets (names with spaces, non-ASCII, '%', sub-directories; sizes 0..4097) spread over "
            "a delegation tree of up to 6 roles, depth <= 3 (role names with spaces, '/', '..', non-ASCII, '%41', digits), every "
            "role trusted for exactly what its subtree lists; root chains of 1..3 versions (the client ships version 1); both "
            "consistent-snapshot settings; with and without pinned lengths / hashes. The source is served from memory the way "
            "a web server would (percent-decoded paths). Each repository is loaded with the real client, then "
            "`Repository::cache` is called with all targets or a random subset (<= 4), with or without the root chain; in "
            "1 case of 5 one target file of the source is corrupted. Observed: result of `cache`, every file below the "
            "sandbox (escapes), the metadata directory (names, byte identity with the source), every target (identical / "
            "different / absent, unexpected files), then the copy is loaded through file:// URLs (with the shipped root when "
            "the chain was copied, else with the trusted root) and every cached target is read back. The same copy is also made "
            "by the `tuftool clone` binary built from /repo, from the source written to a directory (always with the root "
            "chain; every third repository quick, every fifth thorough), and held against the same expectations. 250 / 4000 "
            "repositories.",
    "explanation": "Theorems (Tough/Props/C19.lean, Tough/Proofs/ClientCongr.lean, Tough/Proofs/ClientReqs.lean): an update cycle "
                   "depends on the repository only through the files it requests (cycle_congr: two servers that answer alike for "
                   "every requested file give the same cycle, by induction through the root walk, the delegation loading and every "
                   "phase); every file a successful cycle requests is on `cache`'s list or is the probe for the next root version "
                   "(cycle_reqsIn, requests_covered, requests_covered_from_trusted_root: by induction through the root walk and "
                   "the delegation tree); hence a copy of a loaded repository made by a `cache` that succeeded loads exactly like "
                   "the original, with the root chain from the shipped root (copy_of_loaded_repository_loads_alike) and without it "
                   "from the trusted root (copy_without_chain_loads_alike), provided the source has no later root version; the "
                   "copy answers only for copied files (cachedServer_get, copy_serves_only_copied); composed with C10, a copy (without "
                   "chain) of what the editor published loads with exactly the signed root, timestamp, snapshot and tree "
                   "(copy_of_published_repository_loads); with the chain requested every "
                   "root version 1..trusted is among the copied files (root_chain_complete). Correspondence: which metadata files "
                   "are copied, whether `cache` succeeds, and what loading the copy yields, vs the model; the property is "
                   "evaluated directly on the directories.",
    "level_text": "Kernel-checked: the cycle depends only on requested files, the requested files are the copied ones, hence the "
                  "copy loads alike; differential runs of cache + reload over random repositories with odd names.",
    "level_note": "The metadata half is proved in full over the model. PARTIAL with respect to the rest: target copying rests on "
                  "C08 (save_target); metadata is re-fetched from the source without verification (a source that changes between "
                  "load and cache is outside the model); a source that serves an unreadable or same-version file under the next "
                  "root's name is excluded by hypothesis (the copy then stops at the same root but by a different path; covered "
                  "by the differential runs); known finding: a cached target whose name needs URL escaping cannot be read back "
                  "through file://.",
    "trusted": ["modelled, not verified: tokio file I/O (after the fix: write_all + flush), Url::join, the file system"],
    "assumptions": ["the source does not change between `load` and `cache`"],
}

PROPS["C17"] = {
    "package": "c17", "exe": "m_c17",
    "repo_builds": [{"cmd": ["cargo", "build", "-p", "tuftool", "--offline"], "cwd": "/repo",
                     "env": {"CARGO_TARGET_DIR": "/verif/.work/tuftool-target", "CARGO_PROFILE_DEV_DEBUG": "0"}}],
    "env": {"TUFTOOL": "/verif/.work/tuftool-target/debug/tuftool"},
    "rule": "random repositories as for C19 (delegation trees to depth 3 with up to 6 roles, target and role names with spaces, "
            "non-ASCII and sub-directories, both consistent-snapshot settings, pinned lengths / hashes or not), every target "
            "entry with custom data, in a quarter of the repositories a target `pkg/../tool.txt` to which the update adds `tool.txt`, every other delegation marked terminating, every timestamp / snapshot / targets document with two unknown top-level members (a number "
            "and a nested object with non-ASCII text); loaded with the real client, passed through RepositoryEditor::from_repo, "
            "new versions and expirations set for targets, snapshot and timestamp, 0..2 new targets added, signed with the online "
            "keys (ECDSA key files), written, and loaded again. Facts compared before / after: every target of every role "
            "(length, digest, custom data, unknown members), the delegation structure (keys, per role key ids / threshold / "
            "paths / terminating), every delegated document and its signatures, the unknown top-level members of targets, "
            "snapshot and timestamp, the versions. The same update (versions and expirations only) is also run through the "
            "`tuftool update` binary built from /repo on the source written to a directory (every third repository) and its "
            "re-loaded output is held against the same expectation. 150 / 2000 repositories.",
    "explanation": "Theorem (Tough/Props/C17.lean, update_preserves): for every repository, every set of new versions and "
                   "every list of added targets the update succeeds and yields the set versions, for every name the added "
                   "target or else exactly the old one, the same delegation structure, and the same unknown members of "
                   "targets, snapshot and timestamp; the code before the repair provably drops the snapshot's "
                   "(old_build_snapshot_drops_extra); whatever the sequence of add_target / remove_target / clear_targets "
                   "calls, what a role lists when built is what the sequence means as assignments to one map "
                   "(target_edits_are_assignments; the C10 driver runs this editor model on the edits of its programs). "
                   "Correspondence: the facts of the re-loaded repository equal the "
                   "model's result member by member.",
    "level_text": "Kernel-checked preservation theorem of the editor's update path (a transcription of from_repo / build_targets / "
                  "build_snapshot / build_timestamp); differential run over random repositories with custom data and unknown members.",
    "level_note": "The model treats the delegation structure as one opaque value, as the editor does (it is cloned and written "
                  "back); that the re-serialised delegated documents still verify is checked by re-loading (signatures are over "
                  "the canonical form, C11/C12). The CLI route (tuftool update) is not driven; it calls the same library path.",
    "trusted": ["the editor model (Tough/Model/Editor.lean) is a hand transcription of tough/src/editor/{mod,targets}.rs, checked only by correspondence"],
    "assumptions": [],
}

PROPS["C10"] = {
    "package": "c10", "exe": "m_c10",
    "rule": "editing programs against the real editor (library API): the owner creates a repository (RepositoryEditor::new, "
            "0..3 of 2..7 targets with names in sub-directories / with spaces / non-ASCII and sizes 0..32 KiB, versions and "
            "expirations, targets role with 1..2 keys of mixed algorithms and threshold 1..2, both consistent-snapshot settings), "
            "signs and writes it; in 2 of 3 programs it is loaded again and 1..3 delegated roles (depth up to 3, 1..3 keys of "
            "mixed algorithms, threshold 1..3, 0..3 targets each) are added through the cross-party flow: the role's holder "
            "builds and signs its own metadata with TargetsEditor (genuine / signed by too few keys / signed by other keys), "
            "the owner incorporates it with add_role under the top-level targets or, after sign_targets_editor + "
            "change_delegated_targets, under another role which is then re-signed with its own keys; in half of these programs "
            "the holder publishes an update (genuine and newer / under-signed / wrong keys / older version) incorporated with "
            "update_delegated_targets; in two thirds of the reloaded repositories the top-level targets are edited first (a target replaced by other content, removed, added back; replace-then-remove forced in a third of them); in a fifth of the programs with two or more roles the last role takes the name of an earlier one (under the same parent or elsewhere in the tree); the owner signs with an adequate or an inadequate key set, or with a version / expiration "
            "missing. If the editor reports success: write, publish every listed target through SignedRepository::copy_target / "
            "link_target with its name (and offer a file with other content - same length for half of the names - under a "
            "listed name, which must be refused and leave nothing behind), load with a fresh "
            "client, compare versions, every role's targets (length, digest), the delegation tree (names, key ids, thresholds, "
            "versions), download every target, and compare every snapshot / timestamp entry with the written file (length, "
            "SHA-256, version). 120 / 1500 programs.",
    "explanation": "Theorems (Tough/Props/C10.lean): every signature set the editor produces for a non-root role verifies "
                   "under that role's keys and threshold, whatever key sources were available (signRole_verifies, over C01's "
                   "verification model), and it refuses exactly when too few authorized keys are available "
                   "(signRole_none_iff); update_delegated_targets replaces a role only by metadata that meets the delegating "
                   "role's threshold and is not older (update_checked); add_role (after the repair) grafts only metadata a "
                   "threshold of the registered keys signed, which the client's identical check then accepts "
                   "(add_role_checked); the unrepaired add_role is refuted by a witness. No client ever loads a tree that holds a role name twice (duplicate_role_names_never_load, via Proofs/ClientNames.lean: the names of a loaded tree are pairwise distinct), so sign (after the repair) refuses such a tree. End to end: editor_roundtrip - the client model's update cycle on the directory the editor model writes (Tough/Model/Publish.lean: file names, snapshot and timestamp entries from the written buffers) returns exactly the signed root, timestamp, snapshot and delegation tree, for trees of any shape (Tough/Proofs/PublishTree.lean: fetch and attach passes by induction over the roles of a delegation, load_delegations by induction over the depth, with the visited-set bookkeeping), and written_meta_describes_files. The written directory of every published program is compared with Publish.lean's (file names, snapshot keys and versions, which entry describes which file). Correspondence: the outcome of every "
                   "step of the program, whether a repository is published, and everything a client sees of it, vs the model; "
                   "the property is evaluated directly (published => loads, describes its files, every listed target "
                   "downloads byte-identical).",
    "level_text": "Kernel-checked round trip: the update cycle of the client model, run on the files the editor model writes, "
                  "succeeds and yields exactly the signed documents (by induction over the delegation tree, any depth and width); "
                  "kernel-checked decision logic of signing and of incorporating foreign metadata; differential runs of editing "
                  "programs incl. the cross-party flow against the real editor and a fresh client, the written directory compared "
                  "file by file with the model's.",
    "level_note": "The end-to-end statement is proved over the models (editor_roundtrip in Tough/Props/C10.lean, via "
                  "Tough/Model/Publish.lean and Tough/Proofs/Publish*.lean): for every tree of signed targets documents in which "
                  "each delegated role is attached under its delegation and meets its keys and threshold (what signRole_verifies "
                  "/ add_role_checked / update_checked provide), with pairwise distinct role names and reachable targets (sign's "
                  "two final checks), the client with the same root and a fresh datastore loads the written directory and obtains "
                  "the identical root, timestamp, snapshot and tree; the written snapshot and timestamp entries describe the "
                  "written buffers (written_meta_describes_files). PARTIAL with respect to what is modelled rather than verified: "
                  "serialisation is abstract (a document's buffer has a length and a digest; that parsing the buffer gives the "
                  "document back is C12/C17 and the differential runs); role names are identifiers (file-name encoding is C16; a "
                  "delegated role named like a top-level role is outside the model); publication and download of target files "
                  "rest on C08 and are exercised, not proved; the editing operations that build the tree are exercised by the "
                  "differential runs (their effect on document contents is C17's editor model). Known finding: listed targets "
                  "whose names need URL escaping do not download through file:// (same as C19).",
    "trusted": ["modelled, not verified: key parsing, signature primitives, serde serialisation of the written files"],
    "assumptions": ["key files name distinct keys",
                    "editor_roundtrip: serialisation is abstract (a buffer has a length and a digest); the client holds the same, validly self-signed root, a fresh datastore, a clock before the four expiration times, max_root_updates > 0 and room for the timestamp file"],
}

_PENDING = "check under construction in this session (DESIGN.md §10 order of work); not claimed until it runs"
NOT_APPLICABLE = {f"C{i:02d}": _PENDING for i in range(1, 21)}
