"""Per-property configuration of the runner (`./check`)."""

PROPS = {
    "C11": {
        "package": "c11",
        "exe": "m_c11",
        "rule": "inputs: the corpus (past failures, Lean witnesses), every key set of size <=3 over strings of "
                "length <=1 (quick) / <=2 (thorough) on the alphabet {a,b,space,!,\",\\,0x01,e-acute} in every "
                "insertion order, and random values to depth 4 (keys/strings over control characters, quote, "
                "backslash, multi-byte and combining characters; integers across the i64/u64/i128 edges; one "
                "in ten with floats). A case is non-trivial when ordering its members by the escaped, quoted "
                "key text (the pre-fix behaviour, evaluated by the model `encodeOld`) gives other bytes than "
                "the canonical form; distinct = distinct input values.",
        "exhaustive": {"quick": True, "thorough": True},
        "explanation": "Theorems (Tough/Props/C11.lean): the CanonicalFormatter state machine driven by serde_json's "
                       "call-back sequence computes the recursive specification `canon` for every value "
                       "(encode_canonical), refuses exactly the values with floats, is independent of member "
                       "insertion order, and UTF-8 byte order is code-point order. Correspondence: the real "
                       "formatter is driven in-process through a Serialize wrapper with chosen member order; "
                       "bytes are compared with the compiled model and with `canon`.",
        "level_text": "Kernel-checked refinement theorem: for every JSON value the formatter state machine (model of "
                      "olpc-cjson driven by serde_json's call-backs) emits exactly the recursive OLPC specification; "
                      "order-independence and float refusal are theorems; the model is tied to the real formatter by "
                      "an exhaustive small-scope + random differential run on every check.",
        "level_note": "Trusted: Lean kernel; axioms propext/Classical.choice/Quot.sound; serde_json call-back order and "
                      "Unicode NFC are modelled (NfcOk hypotheses); the correspondence harness and runner. Injectivity of "
                      "the canonical encoding is not yet proved in Lean (checked differentially only).",
        "trusted": [
            "modelled, not verified: serde_json's Serializer (which Formatter call-backs it issues), "
            "unicode-normalization's NFC (abstract `nfc` with hypotheses NfcOk; table supplied per case)",
        ],
        "assumptions": [
            "NFC never produces a quotation mark or backslash from text without them and maps scalar values to scalar values (NfcOk)",
            "string normalisation per fragment equals normalisation of the whole string (escaped characters are starters)",
        ],
    },
}

_PENDING = "check under construction in this session (DESIGN.md §10 order of work); not claimed until it runs"
NOT_APPLICABLE = {f"C{i:02d}": _PENDING for i in range(1, 21)}
