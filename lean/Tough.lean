-- This module serves as the root of the `Tough` library.
-- Import modules here that should be built as part of the library.
import Tough.Basic
