/-
C03 — Rollback protection holds across update cycles sharing a datastore.
Model: `cycle` iterated over an arbitrary history of cycles on one datastore
(`Tough/Model/Client.lean`); the datastore now records the root each cycle ended step 1 with.

Shape of the proof: an invariant over the DATASTORE, not over the history.  `GuardTs ds v` says: the
stored timestamp has version ≥ v and verifies under the recorded root.  One cycle (whatever it is
served, whether it succeeds or fails, whatever root the application ships) either keeps the guard —
and then cannot succeed with a timestamp below v — or performs an *exempting* root change.
-/
import Tough.Proofs.ClientFrame
import Tough.Proofs.ExceptDec
namespace Tough.C03
open Tough.Sig Tough.Client

/-- one update cycle as the environment determines it: configuration (limits, enforcement, clock),
what the repository serves, and the root the application ships -/
structure Cyc where
  cfg : Config
  srv : Server
  shipped : Option Root

def Cyc.run (c : Cyc) (ds : Datastore) : Except Err View × St := cycle c.cfg c.srv c.shipped ⟨ds, []⟩

/-- the datastore after a history of cycles -/
def dsAfter (ds : Datastore) : List Cyc → Datastore
  | [] => ds
  | c :: cs => dsAfter (c.run ds).2.ds cs

/-- somewhere in the history an exempting step happened -/
def ExemptIn (E : Datastore → Cyc → Prop) (ds : Datastore) (H : List Cyc) : Prop :=
  ∃ pre c post, H = pre ++ c :: post ∧ E (dsAfter ds pre) c

theorem dsAfter_append (ds : Datastore) (a b : List Cyc) : dsAfter ds (a ++ b) = dsAfter (dsAfter ds a) b := by
  induction a generalizing ds with
  | nil => rfl
  | cons c cs ih => simp only [List.cons_append, dsAfter, ih]

/-- lifting a one-cycle invariant to every history -/
theorem lift {G : Datastore → Prop} {E : Datastore → Cyc → Prop} {P : View → Prop}
    (step : ∀ ds c, G ds → (G (c.run ds).2.ds ∧ ∀ v, (c.run ds).1 = .ok v → P v) ∨ E ds c) :
    ∀ (H : List Cyc) (ds : Datastore), G ds → ∀ c : Cyc,
      (∀ v, (c.run (dsAfter ds H)).1 = .ok v → P v) ∨ ExemptIn E ds (H ++ [c]) := by
  intro H
  induction H with
  | nil =>
    intro ds hg c
    rcases step ds c hg with ⟨_, h⟩ | h
    · exact Or.inl h
    · exact Or.inr ⟨[], c, [], rfl, h⟩
  | cons c0 rest ih =>
    intro ds hg c
    rcases step ds c0 hg with ⟨hg', _⟩ | h
    · rcases ih _ hg' c with h | ⟨pre, x, post, he, hx⟩
      · exact Or.inl h
      · exact Or.inr ⟨c0 :: pre, x, post, by simp [he], hx⟩
    · exact Or.inr ⟨[], c0, rest ++ [c], rfl, h⟩

/-! ### Timestamp -/

def GuardTs (v : Nat) (ds : Datastore) : Prop :=
  ∃ d R, ds.ts = .doc d ∧ ds.root = .doc R ∧ v ≤ d.version ∧ rootVerify R .timestamp d.msg d.sigs = true

/-- the step performs a root change that exempts the timestamp: step 1 ended with a root `R'` whose
listed timestamp or snapshot keys differ from those of the recorded root `R`, or under which the
stored timestamp (valid under `R`) is no longer validly signed — i.e. the keys or the threshold
authorized for the timestamp role changed -/
def ExemptTs (ds : Datastore) (c : Cyc) : Prop :=
  ∃ R R' st1, ds.root = .doc R ∧ loadRoot c.cfg c.srv c.shipped ⟨ds, []⟩ = (.ok R', st1) ∧
    (onlineKeysChanged R R' = true ∨
      ∃ d, ds.ts = .doc d ∧ rootVerify R .timestamp d.msg d.sigs = true ∧ rootVerify R' .timestamp d.msg d.sigs = false)

theorem step_ts (v : Nat) (ds : Datastore) (c : Cyc) (hg : GuardTs v ds) :
    (GuardTs v (c.run ds).2.ds ∧ ∀ w, (c.run ds).1 = .ok w → v ≤ w.ts.version) ∨ ExemptTs ds c := by
  obtain ⟨d, R, hts, hroot, hv, hver⟩ := hg
  unfold Cyc.run cycle
  split
  · -- load_root failed: nothing stored changed
    rename_i e st1 h1
    have := loadRoot_err_trust h1
    refine Or.inl ⟨⟨d, R, ?_, ?_, hv, hver⟩, by intro w hw; simp at hw⟩
    · exact (congrArg (·.1) this).trans hts
    · exact (congrArg (·.2.2.2) this).trans hroot
  · rename_i R' st1 h1
    have ok1 := loadRoot_ok h1
    obtain ⟨r0, hr0, _, _, _, hsame, hdiff⟩ := ok1.shipped
    have href : refRoot ds r0 = R := by simp [refRoot, hroot]
    simp only [href] at hsame hdiff
    by_cases hk : onlineKeysChanged R R' = true
    · exact Or.inr ⟨R, R', st1, hroot, h1, Or.inl hk⟩
    · have hk' : onlineKeysChanged R R' = false := by simpa using hk
      have hsl := hsame hk'
      have hts1 : st1.ds.ts = .doc d := (congrArg (·.1) hsl).trans hts
      by_cases hv' : rootVerify R' .timestamp d.msg d.sigs = true
      · -- the guard holds after step 1, now under R'
        left
        split
        · rename_i e st2 h2
          have := loadTimestamp_err_trust h2
          refine ⟨⟨d, R', ?_, ?_, hv, hv'⟩, by intro w hw; simp at hw⟩
          · exact (congrArg (·.1) this).trans hts1
          · exact (congrArg (·.2.2.2) this).trans ok1.recorded
        · rename_i ts st2 h2
          have ok2 := loadTimestamp_ok h2
          have hle : d.version ≤ ts.version := ok2.noRollback d hts1 hv'
          have hroot2 : st2.ds.root = .doc R' := (loadTimestamp_ok_root h2).trans ok1.recorded
          have k3 := loadSnapshot_keeps (cfg := c.cfg) (srv := c.srv) (root := R') (ts := ts) st2
          have g2 : ∀ s : St, s.ds.ts = st2.ds.ts → s.ds.root = st2.ds.root → GuardTs v s.ds :=
            fun s e1 e2 => ⟨ts, R', e1.trans ok2.storedTs, e2.trans hroot2, by omega, ok2.verified⟩
          split
          · rename_i e st3 h3
            rw [h3] at k3
            exact ⟨g2 st3 k3.1 k3.2.1, by intro w hw; simp at hw⟩
          · rename_i sn st3 h3
            rw [h3] at k3
            have k4 := loadTargets_keeps (cfg := c.cfg) (srv := c.srv) (root := R') (snap := sn) st3
            split
            · rename_i e st4 h4
              rw [h4] at k4
              exact ⟨g2 st4 (k4.1.trans k3.1) (k4.2.2.1.trans k3.2.1), by intro w hw; simp at hw⟩
            · rename_i t st4 h4
              rw [h4] at k4
              refine ⟨g2 st4 (k4.1.trans k3.1) (k4.2.2.1.trans k3.2.1), ?_⟩
              intro w hw
              simp only [Except.ok.injEq] at hw
              subst hw
              simp only; omega
      · exact Or.inr ⟨R, R', st1, hroot, h1, Or.inr ⟨d, hts, hver, by simpa using hv'⟩⟩

/-- a successful cycle establishes the guard at the version it trusted -/
theorem established_ts (ds : Datastore) (c : Cyc) (w : View) (h : (c.run ds).1 = .ok w) :
    GuardTs w.ts.version (c.run ds).2.ds := by
  unfold Cyc.run at h ⊢
  generalize hc : cycle c.cfg c.srv c.shipped ⟨ds, []⟩ = out at h
  obtain ⟨res, st'⟩ := out
  simp only at h; subst h
  have hcyc := hc
  unfold cycle at hc
  split at hc
  · simp at hc
  · rename_i R' st1 h1
    split at hc
    · simp at hc
    · rename_i ts st2 h2
      have ok2 := loadTimestamp_ok h2
      have hroot2 : st2.ds.root = .doc R' := (loadTimestamp_ok_root h2).trans (loadRoot_ok h1).recorded
      have k3 := loadSnapshot_keeps (cfg := c.cfg) (srv := c.srv) (root := R') (ts := ts) st2
      split at hc
      · simp at hc
      · rename_i sn st3 h3
        rw [h3] at k3
        have k4 := loadTargets_keeps (cfg := c.cfg) (srv := c.srv) (root := R') (snap := sn) st3
        split at hc
        · simp at hc
        · rename_i t st4 h4
          rw [h4] at k4
          simp only [Prod.mk.injEq, Except.ok.injEq] at hc
          obtain ⟨rfl, rfl⟩ := hc
          exact ⟨ts, R', (k4.1.trans k3.1).trans ok2.storedTs, (k4.2.2.1.trans k3.2.1).trans hroot2,
            Nat.le_refl _, ok2.verified⟩

/-- **C03.a (timestamp, full statement over histories).** Let cycle `cᵢ` succeed with timestamp
version `v` on any datastore. Then for EVERY later history `mid` of cycles on that datastore (any
length, any servers, successful or not, any shipped roots) and every further cycle `cⱼ`: if `cⱼ`
succeeds, its timestamp version is at least `v` — unless one of the cycles in between (or `cⱼ`
itself) ended step 1 with a root that changed the listed timestamp/snapshot keys or the
authorization under which the stored timestamp was valid. -/
theorem timestamp_rollback_protected (ds : Datastore) (ci : Cyc) (wi : View) (hi : (ci.run ds).1 = .ok wi)
    (mid : List Cyc) (cj : Cyc) :
    (∀ wj, (cj.run (dsAfter (ci.run ds).2.ds mid)).1 = .ok wj → wi.ts.version ≤ wj.ts.version) ∨
    ExemptIn ExemptTs (ci.run ds).2.ds (mid ++ [cj]) :=
  lift (G := GuardTs wi.ts.version) (P := fun w => wi.ts.version ≤ w.ts.version)
    (step_ts wi.ts.version) mid _ (established_ts ds ci wi hi) cj

/-! ### Snapshot (its own version, and the version it lists for the top-level targets) -/

def GuardSnap (v w : Nat) (ds : Datastore) : Prop :=
  ∃ d R, ds.snap = .doc d ∧ ds.root = .doc R ∧ v ≤ d.version ∧
    (∃ m, d.find .targets = some m ∧ w ≤ m.version) ∧ rootVerify R .snapshot d.msg d.sigs = true

def ExemptSnap (ds : Datastore) (c : Cyc) : Prop :=
  ∃ R R' st1, ds.root = .doc R ∧ loadRoot c.cfg c.srv c.shipped ⟨ds, []⟩ = (.ok R', st1) ∧
    (onlineKeysChanged R R' = true ∨
      ∃ d, ds.snap = .doc d ∧ rootVerify R .snapshot d.msg d.sigs = true ∧ rootVerify R' .snapshot d.msg d.sigs = false)

/-- what "not rolled back" means for a trusted snapshot -/
def SnapAtLeast (v w : Nat) (x : View) : Prop :=
  v ≤ x.snap.version ∧ ∃ m, x.snap.find .targets = some m ∧ w ≤ m.version

theorem step_snap (v w : Nat) (ds : Datastore) (c : Cyc) (hg : GuardSnap v w ds) :
    (GuardSnap v w (c.run ds).2.ds ∧ ∀ x, (c.run ds).1 = .ok x → SnapAtLeast v w x) ∨ ExemptSnap ds c := by
  obtain ⟨d, R, hsn, hroot, hv, ⟨m, hm, hw⟩, hver⟩ := hg
  unfold Cyc.run cycle
  split
  · rename_i e st1 h1
    have := loadRoot_err_trust h1
    refine Or.inl ⟨⟨d, R, ?_, ?_, hv, ⟨m, hm, hw⟩, hver⟩, by intro x hx; simp at hx⟩
    · exact (congrArg (·.2.1) this).trans hsn
    · exact (congrArg (·.2.2.2) this).trans hroot
  · rename_i R' st1 h1
    have ok1 := loadRoot_ok h1
    obtain ⟨r0, hr0, _, _, _, hsame, hdiff⟩ := ok1.shipped
    have href : refRoot ds r0 = R := by simp [refRoot, hroot]
    simp only [href] at hsame hdiff
    by_cases hk : onlineKeysChanged R R' = true
    · exact Or.inr ⟨R, R', st1, hroot, h1, Or.inl hk⟩
    · have hk' : onlineKeysChanged R R' = false := by simpa using hk
      have hsl := hsame hk'
      have hsn1 : st1.ds.snap = .doc d := (congrArg (·.2.1) hsl).trans hsn
      by_cases hv' : rootVerify R' .snapshot d.msg d.sigs = true
      · left
        have g1 : ∀ s : St, s.ds.snap = st1.ds.snap → s.ds.root = st1.ds.root → GuardSnap v w s.ds :=
          fun s e1 e2 => ⟨d, R', e1.trans hsn1, e2.trans ok1.recorded, hv, ⟨m, hm, hw⟩, hv'⟩
        split
        · rename_i e st2 h2
          have := loadTimestamp_err_trust h2
          exact ⟨g1 st2 (congrArg (·.2.1) this) (congrArg (·.2.2.2) this), by intro x hx; simp at hx⟩
        · rename_i ts st2 h2
          have ok2 := loadTimestamp_ok h2
          have hroot2 : st2.ds.root = st1.ds.root := loadTimestamp_ok_root h2
          have k3 := loadSnapshot_keeps (cfg := c.cfg) (srv := c.srv) (root := R') (ts := ts) st2
          split
          · rename_i e st3 h3
            rw [h3] at k3
            have := loadSnapshot_err_snap h3
            exact ⟨g1 st3 (this.trans ok2.storedSnap) (k3.2.1.trans hroot2), by intro x hx; simp at hx⟩
          · rename_i sn st3 h3
            rw [h3] at k3
            have ok3 := loadSnapshot_ok h3
            obtain ⟨hle, hlist⟩ := snapshotRollback_none (ok3.noRollback d (ok2.storedSnap.trans hsn1) hv')
            obtain ⟨m', hm', hmv⟩ := hlist m hm
            have hroot3 : st3.ds.root = .doc R' := (k3.2.1.trans hroot2).trans ok1.recorded
            have g3 : ∀ s : St, s.ds.snap = st3.ds.snap → s.ds.root = st3.ds.root → GuardSnap v w s.ds :=
              fun s e1 e2 => ⟨sn, R', e1.trans ok3.storedSnap, e2.trans hroot3, by omega, ⟨m', hm', by omega⟩, ok3.verified⟩
            have k4 := loadTargets_keeps (cfg := c.cfg) (srv := c.srv) (root := R') (snap := sn) st3
            split
            · rename_i e st4 h4
              rw [h4] at k4
              exact ⟨g3 st4 k4.2.1 k4.2.2.1, by intro x hx; simp at hx⟩
            · rename_i t st4 h4
              rw [h4] at k4
              refine ⟨g3 st4 k4.2.1 k4.2.2.1, ?_⟩
              intro x hx
              simp only [Except.ok.injEq] at hx
              subst hx
              exact ⟨by simp only; omega, m', hm', by omega⟩
      · exact Or.inr ⟨R, R', st1, hroot, h1, Or.inr ⟨d, hsn, hver, by simpa using hv'⟩⟩

theorem established_snap (ds : Datastore) (c : Cyc) (x : View) (h : (c.run ds).1 = .ok x) :
    ∃ m, x.snap.find .targets = some m ∧ GuardSnap x.snap.version m.version (c.run ds).2.ds := by
  unfold Cyc.run at h ⊢
  generalize hc : cycle c.cfg c.srv c.shipped ⟨ds, []⟩ = out at h
  obtain ⟨res, st'⟩ := out
  simp only at h; subst h
  unfold cycle at hc
  split at hc
  · simp at hc
  · rename_i R' st1 h1
    split at hc
    · simp at hc
    · rename_i ts st2 h2
      have hroot2 : st2.ds.root = .doc R' := (loadTimestamp_ok_root h2).trans (loadRoot_ok h1).recorded
      have k3 := loadSnapshot_keeps (cfg := c.cfg) (srv := c.srv) (root := R') (ts := ts) st2
      split at hc
      · simp at hc
      · rename_i sn st3 h3
        rw [h3] at k3
        have ok3 := loadSnapshot_ok h3
        have k4 := loadTargets_keeps (cfg := c.cfg) (srv := c.srv) (root := R') (snap := sn) st3
        split at hc
        · simp at hc
        · rename_i t st4 h4
          rw [h4] at k4
          obtain ⟨m, hm, _⟩ := (loadTargets_ok h4).pinned
          simp only [Prod.mk.injEq, Except.ok.injEq] at hc
          obtain ⟨rfl, rfl⟩ := hc
          exact ⟨m, hm, sn, R', k4.2.1.trans ok3.storedSnap, (k4.2.2.1.trans k3.2.1).trans hroot2,
            Nat.le_refl _, ⟨m, hm, Nat.le_refl _⟩, ok3.verified⟩

/-- **C03.b (snapshot).** After a cycle succeeded with snapshot version `v` listing version `w` for
the top-level targets, no later cycle on that datastore succeeds with a snapshot of lower version,
nor with one that lists a lower version of — or drops — the top-level targets entry, unless an
exempting root change happened in between. -/
theorem snapshot_rollback_protected (ds : Datastore) (ci : Cyc) (xi : View) (hi : (ci.run ds).1 = .ok xi)
    (mid : List Cyc) (cj : Cyc) :
    ∃ m, xi.snap.find .targets = some m ∧
      ((∀ xj, (cj.run (dsAfter (ci.run ds).2.ds mid)).1 = .ok xj → SnapAtLeast xi.snap.version m.version xj) ∨
        ExemptIn ExemptSnap (ci.run ds).2.ds (mid ++ [cj])) := by
  obtain ⟨m, hm, hg⟩ := established_snap ds ci xi hi
  exact ⟨m, hm, lift (G := GuardSnap xi.snap.version m.version) (P := SnapAtLeast xi.snap.version m.version)
    (step_snap _ _) mid _ hg cj⟩

/-! ### Top-level targets (never exempted by a rotation of the online keys) -/

def GuardTgt (v : Nat) (ds : Datastore) : Prop :=
  ∃ d R, ds.tgt = .doc d ∧ ds.root = .doc R ∧ v ≤ d.version ∧ rootVerify R .targets d.msg d.sigs = true

/-- only a change of the keys/threshold authorized for the targets role itself exempts -/
def ExemptTgt (ds : Datastore) (c : Cyc) : Prop :=
  ∃ R R' st1 d, ds.root = .doc R ∧ loadRoot c.cfg c.srv c.shipped ⟨ds, []⟩ = (.ok R', st1) ∧
    ds.tgt = .doc d ∧ rootVerify R .targets d.msg d.sigs = true ∧ rootVerify R' .targets d.msg d.sigs = false

theorem step_tgt (v : Nat) (ds : Datastore) (c : Cyc) (hg : GuardTgt v ds) :
    (GuardTgt v (c.run ds).2.ds ∧ ∀ x, (c.run ds).1 = .ok x → v ≤ (Tgt.doc x.tgt).version) ∨ ExemptTgt ds c := by
  obtain ⟨d, R, htg, hroot, hv, hver⟩ := hg
  unfold Cyc.run cycle
  split
  · rename_i e st1 h1
    have := loadRoot_err_trust h1
    refine Or.inl ⟨⟨d, R, ?_, ?_, hv, hver⟩, by intro x hx; simp at hx⟩
    · exact (congrArg (·.2.2.1) this).trans htg
    · exact (congrArg (·.2.2.2) this).trans hroot
  · rename_i R' st1 h1
    have ok1 := loadRoot_ok h1
    obtain ⟨r0, hr0, _, _, _, hsame, hdiff⟩ := ok1.shipped
    have htg1 : st1.ds.tgt = .doc d := by
      cases hk : onlineKeysChanged (refRoot ds r0) R' with
      | false => exact (congrArg (·.2.2) (hsame hk)).trans htg
      | true => exact (hdiff hk).2.2.trans htg
    by_cases hv' : rootVerify R' .targets d.msg d.sigs = true
    · left
      have g1 : ∀ s : St, s.ds.tgt = st1.ds.tgt → s.ds.root = st1.ds.root → GuardTgt v s.ds :=
        fun s e1 e2 => ⟨d, R', e1.trans htg1, e2.trans ok1.recorded, hv, hv'⟩
      split
      · rename_i e st2 h2
        have := loadTimestamp_err_trust h2
        exact ⟨g1 st2 (congrArg (·.2.2.1) this) (congrArg (·.2.2.2) this), by intro x hx; simp at hx⟩
      · rename_i ts st2 h2
        have ok2 := loadTimestamp_ok h2
        have hroot2 : st2.ds.root = st1.ds.root := loadTimestamp_ok_root h2
        have k3 := loadSnapshot_keeps (cfg := c.cfg) (srv := c.srv) (root := R') (ts := ts) st2
        split
        · rename_i e st3 h3
          rw [h3] at k3
          exact ⟨g1 st3 (k3.2.2.trans ok2.storedTgt) (k3.2.1.trans hroot2), by intro x hx; simp at hx⟩
        · rename_i sn st3 h3
          rw [h3] at k3
          have htg3 : st3.ds.tgt = .doc d := (k3.2.2.trans ok2.storedTgt).trans htg1
          have hroot3 : st3.ds.root = .doc R' := (k3.2.1.trans hroot2).trans ok1.recorded
          have k4 := loadTargets_keeps (cfg := c.cfg) (srv := c.srv) (root := R') (snap := sn) st3
          have g4 : ∀ (fin : Except Err Tgt × St), fin = loadTargets c.cfg c.srv R' sn st3 → GuardTgt v fin.2.ds := by
            intro fin hfin
            rw [← hfin] at k4
            rcases k4.2.2.2 with hsame4 | ⟨nd, hnd, hndv, hnb⟩
            · exact ⟨d, R', hsame4.trans htg3, k4.2.2.1.trans hroot3, hv, hv'⟩
            · simp only [storedBlocks, htg3, hv', Bool.true_and, decide_eq_false_iff_not] at hnb
              exact ⟨nd, R', hnd, k4.2.2.1.trans hroot3, by omega, hndv⟩
          split
          · rename_i e st4 h4
            exact ⟨g4 (.error e, st4) h4.symm, by intro x hx; simp at hx⟩
          · rename_i t st4 h4
            have gg := g4 (.ok t, st4) h4.symm
            refine ⟨gg, ?_⟩
            intro x hx
            simp only [Except.ok.injEq] at hx
            subst hx
            obtain ⟨nd, R2, e1, _, e3, _⟩ := gg
            have := loadTargets_ok_stored h4
            simp only at e1
            rw [this] at e1
            cases e1
            exact e3
    · exact Or.inr ⟨R, R', st1, d, hroot, h1, htg, hver, by simpa using hv'⟩

theorem established_tgt (ds : Datastore) (c : Cyc) (x : View) (h : (c.run ds).1 = .ok x) :
    GuardTgt (Tgt.doc x.tgt).version (c.run ds).2.ds := by
  unfold Cyc.run at h ⊢
  generalize hc : cycle c.cfg c.srv c.shipped ⟨ds, []⟩ = out at h
  obtain ⟨res, st'⟩ := out
  simp only at h; subst h
  unfold cycle at hc
  split at hc
  · simp at hc
  · rename_i R' st1 h1
    split at hc
    · simp at hc
    · rename_i ts st2 h2
      have hroot2 : st2.ds.root = .doc R' := (loadTimestamp_ok_root h2).trans (loadRoot_ok h1).recorded
      have k3 := loadSnapshot_keeps (cfg := c.cfg) (srv := c.srv) (root := R') (ts := ts) st2
      split at hc
      · simp at hc
      · rename_i sn st3 h3
        rw [h3] at k3
        have k4 := loadTargets_keeps (cfg := c.cfg) (srv := c.srv) (root := R') (snap := sn) st3
        split at hc
        · simp at hc
        · rename_i t st4 h4
          rw [h4] at k4
          simp only [Prod.mk.injEq, Except.ok.injEq] at hc
          obtain ⟨rfl, rfl⟩ := hc
          exact ⟨Tgt.doc t, R', loadTargets_ok_stored h4, (k4.2.2.1.trans k3.2.1).trans hroot2,
            Nat.le_refl _, (loadTargets_ok h4).verified⟩

/-- **C03.c (top-level targets).** The stored targets metadata is not affected by rotations of the
online keys: only a change of what is authorized for the targets role itself exempts. -/
theorem targets_rollback_protected (ds : Datastore) (ci : Cyc) (xi : View) (hi : (ci.run ds).1 = .ok xi)
    (mid : List Cyc) (cj : Cyc) :
    (∀ xj, (cj.run (dsAfter (ci.run ds).2.ds mid)).1 = .ok xj → (Tgt.doc xi.tgt).version ≤ (Tgt.doc xj.tgt).version) ∨
    ExemptIn ExemptTgt (ci.run ds).2.ds (mid ++ [cj]) :=
  lift (G := GuardTgt (Tgt.doc xi.tgt).version) (P := fun x => (Tgt.doc xi.tgt).version ≤ (Tgt.doc x.tgt).version)
    (step_tgt _) mid _ (established_tgt ds ci xi hi) cj

/-! ### The protection never locks a client out of a repository that moves forward

The only rollback-related ways a cycle can fail are the four `older`/`metaMissing` errors, and each
of them means that something served is strictly older than (or drops an entry of) a stored document
that still verifies under the current root. -/

theorem timestamp_older_means_older {cfg : Config} {srv : Server} {root : Root} {st st' : St}
    (h : loadTimestamp cfg srv root st = (.error (.older .timestamp), st')) :
    ∃ old new, st.ds.ts = .doc old ∧ rootVerify root .timestamp old.msg old.sigs = true ∧
      fetchFile srv .timestamp cfg.limits.maxTimestampSize none = .ok (.timestamp new) ∧ new.version < old.version := by
  unfold loadTimestamp at h
  simp only at h
  split at h
  · simp at h
  · rename_i ts hf
    split at h
    · simp at h
    · split at h
      · rename_i hb
        simp only [storedBlocks, St.req] at hb
        split at hb
        · rename_i old ho
          simp only [Bool.and_eq_true, decide_eq_true_eq] at hb
          exact ⟨old, ts, ho, hb.1, hf, hb.2⟩
        · simp at hb
      · split at h
        · rename_i e st2 hg
          simp only [Prod.mk.injEq, Except.error.injEq] at h
          obtain ⟨_, hcase⟩ := expiryGate_err (h.1 ▸ hg)
          rcases hcase with h1 | ⟨h1, _⟩ <;> cases h1
        · simp at h
  · simp at h

/-! ### The defect that was repaired

Before the fix the reference of step 1.9 was the SHIPPED root. With a shipped root that predates a
rotation of the timestamp key, every cycle deleted the stored timestamp and snapshot. `loadRootOld`
is that behaviour; the witness is a two-cycle history in which cycle 2 accepts timestamp version 3
after cycle 1 trusted version 5, with no root change between the cycles. -/

def loadRootOld (cfg : Config) (srv : Server) (shipped : Option Root) (st : St) : Except Err Root × St :=
  match shipped with
  | none => (.error .parseShipped, st)
  | some r0 =>
    if !rootVerify r0 .root r0.msg r0.sigs then (.error .verifyShipped, st)
    else
      match rootLoop cfg srv r0.version (cfg.limits.maxRootUpdates + 1) r0 st with
      | (.error e, st) => (.error e, st)
      | (.ok root, st) =>
        match expiryGate cfg .root root.expires st with
        | (.error e, st) => (.error e, st)
        | (.ok (), st) =>
          if onlineKeysChanged r0 root then (.ok root, clearOnline st) else (.ok root, st)

def k (ids : List Nat) (t : Nat) : Option RoleKeys := some ⟨ids, t⟩
def root1 : Root := ⟨1, 100, false, [1, 2, 9], k [1] 1, k [9] 1, k [9] 1, k [2] 1, 11, [⟨1, some 1, 11⟩]⟩
def root2 : Root := ⟨2, 100, false, [1, 3, 9], k [1] 1, k [9] 1, k [9] 1, k [3] 1, 12, [⟨1, some 1, 12⟩]⟩
def ts5 : Timestamp := ⟨5, 100, some ⟨5, none, none⟩, 25, [⟨3, some 3, 25⟩]⟩
def ts3 : Timestamp := ⟨3, 100, some ⟨3, none, none⟩, 23, [⟨3, some 3, 23⟩]⟩
def srvW (ts : Timestamp) : Server :=
  [(.rootV 2, .file ⟨.root root2, some 10, 0, .none⟩), (.timestamp, .file ⟨.timestamp ts, some 10, 0, .none⟩)]
def cfgW : Config := ⟨⟨100, 100, 100, 100, 8⟩, true, 0⟩

def tsVersionOf (r : Except Err Timestamp × St) : Option Nat :=
  match r.1 with | .ok t => some t.version | .error _ => none

/-- steps 0–2 of one cycle with the given `load_root` -/
def upToTimestamp (lr : Config → Server → Option Root → St → Except Err Root × St) (srv : Server) (ds : Datastore) :
    Except Err Timestamp × St :=
  match lr cfgW srv (some root1) ⟨ds, []⟩ with
  | (.error e, st) => (.error e, st)
  | (.ok r, st) => loadTimestamp cfgW srv r st

theorem old_step19_loses_rollback_protection_witness :
    tsVersionOf (upToTimestamp loadRootOld (srvW ts5) {}) = some 5 ∧
    tsVersionOf (upToTimestamp loadRootOld (srvW ts3) (upToTimestamp loadRootOld (srvW ts5) {}).2.ds) = some 3 := by
  decide

theorem fixed_step19_on_witness :
    tsVersionOf (upToTimestamp loadRoot (srvW ts5) {}) = some 5 ∧
    tsVersionOf (upToTimestamp loadRoot (srvW ts3) (upToTimestamp loadRoot (srvW ts5) {}).2.ds) = none := by
  decide

end Tough.C03
