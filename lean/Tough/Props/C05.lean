/-
C05 — Each role matches what the role above it pinned (no mix-and-match).
Model: `loadSnapshot`, `loadTargets`, `loadDelegs`, `fetchFile` in `Tough/Model/Client.lean`.
-/
import Tough.Proofs.Client
import Tough.Proofs.ExceptDec
namespace Tough.C05
open Tough.Sig Tough.Client

variable {cfg : Config} {srv : Server}

/-- what a successful read of a whole metadata file guarantees about the served file -/
theorem fetchFile_ok {name : FileName} {limit : Nat} {hash : Option Nat} {c : Content}
    (h : fetchFile srv name limit hash = .ok c) :
    ∃ f, srv.get name = .file f ∧ f.content = c ∧ (∃ n, f.len = some n ∧ n ≤ limit) ∧
      (∀ d, hash = some d → f.hash = d) := by
  unfold fetchFile at h
  split at h
  · simp at h
  · simp at h
  · rename_i f hf
    simp only at h
    split at h
    · simp at h
    · split at h
      · simp at h
      · rename_i n hn
        split at h
        · simp at h
        · rename_i hle
          refine ⟨f, hf, ?_, ⟨n, hn, by omega⟩, ?_⟩
          · split at h
            · split at h
              · simpa using h
              · simp at h
            · simpa using h
          · intro d hd
            subst hd
            simp only at h
            split at h
            · assumption
            · simp at h

/-- the document trusted as `k` is the one in the file served under `name`, which has the pinned
digest (if one is pinned) and is not longer than the pinned length (if one is pinned, else than the
configured limit) -/
def Pinned (srv : Server) (name : FileName) (m : Meta) (dflt : Nat) (c : Content) : Prop :=
  ∃ f, srv.get name = .file f ∧ f.content = c ∧
    (∀ d, m.hash = some d → f.hash = d) ∧
    (∃ n, f.len = some n ∧ (∀ l, m.length = some l → n ≤ l) ∧ (m.length = none → n ≤ dflt))

theorem pinned_of_fetch {name : FileName} {m : Meta} {dflt : Nat} {c : Content}
    (h : fetchFile srv name (m.length.getD dflt) m.hash = .ok c) : Pinned srv name m dflt c := by
  obtain ⟨f, hf, hc, ⟨n, hn, hle⟩, hh⟩ := fetchFile_ok h
  refine ⟨f, hf, hc, hh, n, hn, ?_, ?_⟩
  · intro l hl; simpa [hl] using hle
  · intro hl; simpa [hl] using hle

/-- **C05.a** The snapshot a cycle trusts has exactly the version the trusted timestamp lists, comes
from the file named by that entry (version-prefixed under consistent snapshots), has the listed
SHA-256 when one is listed and does not exceed the listed length when one is listed. -/
theorem cycle_ok_snapshot_pinned {shipped : Option Root} {st st' : St} {v : View}
    (h : cycle cfg srv shipped st = (.ok v, st')) :
    ∃ m, v.ts.snapshotMeta = some m ∧ v.snap.version = m.version ∧
      Pinned srv (.snapshot (versioned v.root.consistent m.version)) m cfg.limits.maxSnapshotSize (.snapshot v.snap) := by
  obtain ⟨_, _, _, _, _, hs, _⟩ := cycle_ok h
  obtain ⟨m, hm, hf, hv, _⟩ := hs.pinned
  exact ⟨m, hm, hv, pinned_of_fetch hf⟩

/-- **C05.b** Likewise the top-level targets metadata against the trusted snapshot. -/
theorem cycle_ok_targets_pinned {shipped : Option Root} {st st' : St} {v : View}
    (h : cycle cfg srv shipped st = (.ok v, st')) :
    ∃ m, v.snap.find .targets = some m ∧ (Tgt.doc v.tgt).version = m.version ∧
      Pinned srv (.targets (versioned v.root.consistent m.version)) m cfg.limits.maxTargetsSize
        (.targets (Tgt.doc v.tgt)) := by
  obtain ⟨_, _, _, _, _, _, hg⟩ := cycle_ok h
  obtain ⟨m, hm, hf, hv⟩ := hg.pinned
  exact ⟨m, hm, hv, pinned_of_fetch hf⟩

mutual
/-- every delegated role of the tree is listed in the snapshot with exactly its version and was
read from the file named by that entry -/
def TreeListed (cfg : Config) (srv : Server) (snap : Snapshot) (cs : Bool) : Tgt → Prop
  | .mk _ children => RolesListed cfg srv snap cs children
def RolesListed (cfg : Config) (srv : Server) (snap : Snapshot) (cs : Bool) : Roles → Prop
  | .nil => True
  | .cons r t rest =>
    (∃ m, snap.find (.role r.name) = some m ∧ (Tgt.doc t).version = m.version ∧
      ∃ f, srv.get (.role r.name (versioned cs m.version)) = .file f ∧ f.content = .targets (Tgt.doc t) ∧
        ∃ n, f.len = some n ∧ n ≤ m.length.getD cfg.limits.maxTargetsSize) ∧
    TreeListed cfg srv snap cs t ∧ RolesListed cfg srv snap cs rest
end

mutual
theorem treeListed_of_good {snap : Snapshot} {cs : Bool} :
    (t : Tgt) → Tgt.Good cfg srv snap cs t → TreeListed cfg srv snap cs t
  | .mk doc children, h => by
    simp only [Tgt.Good] at h
    simp only [TreeListed]
    cases hd : doc.deleg with
    | none => simp only [hd] at h; subst h; trivial
    | some d => simp only [hd] at h; exact rolesListed_of_good d children h
theorem rolesListed_of_good {snap : Snapshot} {cs : Bool} (d : Deleg) :
    (rs : Roles) → Roles.Good cfg srv snap cs d rs → RolesListed cfg srv snap cs rs
  | .nil, _ => trivial
  | .cons r t rest, h => by
    simp only [Roles.Good] at h
    simp only [RolesListed]
    obtain ⟨m, hm, hf, hv⟩ := h.1.pinned
    obtain ⟨f, hg, hc, hn, _⟩ := fetchFile_ok hf
    exact ⟨⟨m, hm, hv, f, hg, hc, hn⟩, treeListed_of_good t h.2.1, rolesListed_of_good d rest h.2.2⟩
end

/-- **C05.c** Every delegated role (any depth) must be listed in the trusted snapshot and has the
version listed there; under consistent snapshots the version-prefixed file is the one read. -/
theorem cycle_ok_delegated_listed_and_versioned {shipped : Option Root} {st st' : St} {v : View}
    (h : cycle cfg srv shipped st = (.ok v, st')) :
    TreeListed cfg srv v.snap v.root.consistent v.tgt := by
  obtain ⟨_, _, _, _, _, _, hg⟩ := cycle_ok h
  exact treeListed_of_good _ hg.tree

/-- **C05.d** a version that differs from the pinned one is refused, before signatures are even looked at -/
theorem snapshot_version_mismatch_refused (root : Root) (ts : Timestamp) (st : St) (m : Meta) (sn : Snapshot)
    (hm : ts.snapshotMeta = some m)
    (hf : fetchFile srv (.snapshot (versioned root.consistent m.version)) (m.length.getD cfg.limits.maxSnapshotSize) m.hash
      = .ok (.snapshot sn))
    (hv : sn.version ≠ m.version) :
    (loadSnapshot cfg srv root ts st).1 = .error (.versionMismatch .snapshot) := by
  simp [loadSnapshot, hm, hf, hv]

/-- a file whose digest differs from the pinned one is never parsed -/
theorem digest_mismatch_refused (name : FileName) (limit : Nat) (d : Nat) (f : File)
    (hg : srv.get name = .file f) (hd : f.hash ≠ d) :
    ∀ c, fetchFile srv name limit (some d) ≠ .ok c := by
  intro c h
  obtain ⟨f', hf', _, _, hh⟩ := fetchFile_ok h
  rw [hg] at hf'
  cases hf'
  exact hd (hh d rfl)

end Tough.C05
