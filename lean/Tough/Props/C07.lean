/-
C07 — A delegated role can only provide targets inside its delegated paths.
Model: `Tgt.find` / `Roles.find` / `Tgt.validate` of `Tough/Model/Client.lean` (`find_target`,
`validate` in schema/mod.rs; `paths` of a role = the names its path set matches) and the pattern
matcher of `Tough/Model/Glob.lean`.
-/
import Tough.Model.Client
import Tough.Model.Glob
import Tough.Proofs.Client
namespace Tough.C07
open Tough.Client Tough.Glob

mutual
/-- every entry of every role of the tree, in pre-order (the delegating role's own entries before
its delegates, delegates in listed order), with the chain of delegations above it -/
def preTgt (chain : List DRole) : Tgt → List (List DRole × Nat × TEntry)
  | .mk doc children => doc.entries.map (fun e => (chain, e.1, e.2)) ++ preRoles chain children
def preRoles (chain : List DRole) : Roles → List (List DRole × Nat × TEntry)
  | .nil => []
  | .cons r t rest => preTgt (chain ++ [r]) t ++ preRoles chain rest
end

/-- the name is inside the delegated paths of every delegation on the chain -/
def authorized (n : Nat) (chain : List DRole) : Bool := chain.all fun r => r.paths.contains n

def hit (n : Nat) (x : List DRole × Nat × TEntry) : Bool := x.2.1 == n && authorized n x.1

theorem lookup_eq_find (n : Nat) (chain : List DRole) (es : List (Nat × TEntry)) (h : authorized n chain = true) :
    ((es.map fun e => (chain, e.1, e.2)).find? (hit n)).map (·.2.2) = es.lookup n := by
  induction es with
  | nil => rfl
  | cons e rest ih =>
    obtain ⟨m, v⟩ := e
    simp only [List.map_cons, List.find?_cons, List.lookup, hit, h, Bool.and_true]
    by_cases hm : m = n
    · subst hm; simp
    · have h1 : (m == n) = false := by simp [hm]
      have h2 : (n == m) = false := by simp [Ne.symm hm]
      simp only [h1, h2]
      simpa [hit, h] using ih

theorem find?_append_map {α β} (p : α → Bool) (f : α → β) (a b : List α) :
    ((a ++ b).find? p).map f = ((a.find? p).map f).orElse (fun _ => (b.find? p).map f) := by
  rw [List.find?_append]
  cases a.find? p <;> simp

mutual
theorem find_tgt (n : Nat) (chain : List DRole) (h : authorized n chain = true) :
    (t : Tgt) → Tgt.find n t = ((preTgt chain t).find? (hit n)).map (·.2.2)
  | .mk doc children => by
    simp only [Tgt.find, preTgt, find?_append_map, lookup_eq_find n chain doc.entries h]
    cases hl : doc.entries.lookup n with
    | some e => simp
    | none => simp [find_roles n chain h children]
theorem find_roles (n : Nat) (chain : List DRole) (h : authorized n chain = true) :
    (rs : Roles) → Roles.find n rs = ((preRoles chain rs).find? (hit n)).map (·.2.2)
  | .nil => by simp [Roles.find, preRoles]
  | .cons r t rest => by
    simp only [Roles.find, preRoles, find?_append_map]
    by_cases hr : r.paths.contains n = true
    · have h' : authorized n (chain ++ [r]) = true := by
        simp only [authorized, List.all_append, List.all_cons, List.all_nil, Bool.and_true, Bool.and_eq_true] at h ⊢
        exact ⟨h, hr⟩
      simp only [hr, ↓reduceIte, ← find_tgt n (chain ++ [r]) h' t, ← find_roles n chain h rest]
      cases Tgt.find n t <;> simp
    · -- the role is pruned: nothing below it is authorized for `n`
      have hnone : (preTgt (chain ++ [r]) t).find? (hit n) = none := by
        apply List.find?_eq_none.mpr
        intro x hx
        have := skipped_tgt n (chain ++ [r]) (by
          simp only [authorized, List.all_append, List.all_cons, List.all_nil, Bool.and_true, Bool.and_eq_false_iff]
          right; simpa using hr) t x hx
        simpa using this
      simp only [hr, Bool.false_eq_true, ↓reduceIte, hnone, Option.map_none, ← find_roles n chain h rest]
      simp
theorem skipped_tgt (n : Nat) (chain : List DRole) (h : authorized n chain = false) :
    (t : Tgt) → ∀ x ∈ preTgt chain t, hit n x = false
  | .mk doc children => by
    intro x hx
    simp only [preTgt, List.mem_append, List.mem_map] at hx
    rcases hx with ⟨e, _, rfl⟩ | hx
    · simp [hit, h]
    · exact skipped_roles n chain h children x hx
theorem skipped_roles (n : Nat) (chain : List DRole) (h : authorized n chain = false) :
    (rs : Roles) → ∀ x ∈ preRoles chain rs, hit n x = false
  | .nil => by intro x hx; simp [preRoles] at hx
  | .cons r t rest => by
    intro x hx
    simp only [preRoles, List.mem_append] at hx
    rcases hx with hx | hx
    · have h' : authorized n (chain ++ [r]) = false := by
        simp only [authorized, List.all_append, Bool.and_eq_false_iff] at h ⊢
        exact Or.inl h
      exact skipped_tgt n (chain ++ [r]) h' t x hx
    · exact skipped_roles n chain h rest x hx
end

/-- **C07.a (full statement).** The entry a target is served from is the FIRST entry in pre-order
(own entries before delegates, delegates in listed order) that carries the name and whose whole
delegation chain — from the top-level targets role down to the role that lists it — matches the
name. Any depth, any fan-out. -/
theorem find_is_first_authorized (n : Nat) (t : Tgt) :
    Tgt.find n t = ((preTgt [] t).find? (hit n)).map (·.2.2) :=
  find_tgt n [] rfl t

/-- **C07.b** Hence an entry that is served is listed under an authorized chain. -/
theorem served_entry_is_authorized (n : Nat) (t : Tgt) (e : TEntry) (h : Tgt.find n t = some e) :
    ∃ chain, (chain, n, e) ∈ preTgt [] t ∧ authorized n chain = true := by
  rw [find_is_first_authorized] at h
  cases hf : (preTgt [] t).find? (hit n) with
  | none => simp [hf] at h
  | some x =>
    simp only [hf, Option.map_some, Option.some.injEq] at h
    obtain ⟨c, m, e'⟩ := x
    have hp := List.find?_some hf
    have hm := List.mem_of_find?_eq_some hf
    simp only [hit, Bool.and_eq_true, beq_iff_eq] at hp
    simp only at h
    subst h
    obtain ⟨rfl, ha⟩ := hp
    exact ⟨c, hm, ha⟩

mutual
theorem names_tgt (chain : List DRole) : (t : Tgt) → Tgt.names t = (preTgt chain t).map (·.2.1)
  | .mk doc children => by
    simp only [Tgt.names, preTgt, List.map_append, List.map_map, names_roles chain children]
    congr 1
theorem names_roles (chain : List DRole) : (rs : Roles) → Roles.names rs = (preRoles chain rs).map (·.2.1)
  | .nil => rfl
  | .cons r t rest => by
    simp only [Roles.names, preRoles, List.map_append, names_tgt (chain ++ [r]) t, names_roles chain rest]
end

/-- **C07.c** `validate` (run at load time on the whole tree) succeeds exactly when every name that
any role lists is reachable through an authorized chain; so a repository in which some role lists
a target that no authorized chain reaches is refused, and `find` never has to fall back on an
unauthorized entry. -/
theorem validate_ok_iff (t : Tgt) :
    t.validate = true ↔ ∀ x ∈ preTgt [] t, ∃ c e, (c, x.2.1, e) ∈ preTgt [] t ∧ authorized x.2.1 c = true := by
  unfold Tgt.validate
  rw [List.all_eq_true, names_tgt [] t]
  constructor
  · intro h x hx
    have := h x.2.1 (List.mem_map.mpr ⟨x, hx, rfl⟩)
    cases hf : Tgt.find x.2.1 t with
    | none => simp [hf] at this
    | some e =>
      obtain ⟨c, hc, ha⟩ := served_entry_is_authorized _ t e hf
      exact ⟨c, e, hc, ha⟩
  · intro h n hn
    obtain ⟨x, hx, rfl⟩ := List.mem_map.mp hn
    obtain ⟨c, e, hc, ha⟩ := h x hx
    rw [find_is_first_authorized]
    cases hf : (preTgt [] t).find? (hit x.2.1) with
    | some y => simp
    | none =>
      have := List.find?_eq_none.mp hf (c, x.2.1, e) hc
      simp [hit, ha] at this

/-- a successful cycle has validated its tree -/
theorem cycle_ok_validated {cfg : Config} {srv : Server} {shipped : Option Root} {st st' : St} {v : View}
    (h : cycle cfg srv shipped st = (.ok v, st')) : v.tgt.validate = true := by
  obtain ⟨_, _, _, _, _, _, hg⟩ := cycle_ok h
  exact hg.valid

/-! ### the pattern matcher: sanity of the model on the semantics the property relies on -/

example : globMatch "targets/*.tgz".toList "targets/foo.tgz".toList = true := by decide
example : globMatch "targets/*.tgz".toList "targets/foo.txt".toList = false := by decide
example : globMatch "foo-version-?.tgz".toList "foo-version-a.tgz".toList = true := by decide
example : globMatch "foo-version-?.tgz".toList "foo-version-alpha.tgz".toList = false := by decide
/-- wildcards cross `/` (globset's default; the doc comment in schema/mod.rs says otherwise) -/
example : globMatch "*.tgz".toList "targets/foo.tgz".toList = true := by decide

end Tough.C07
