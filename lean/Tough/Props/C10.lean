/-
C10 — Whatever the repository editor signs and writes, the client loads back unchanged.
Models: `Tough/Model/EditorSign.lean` (who signs, what incoming metadata is accepted) over
`Tough/Model/Sig.lean` (what the client's verification accepts, C01); `Tough/Model/Editor.lean` (what
the signed documents contain, C17); `Tough/Model/Client.lean` (the loading client).

Proved here: the decision logic — every signature set the editor produces for a non-root role verifies
under that role's keys and threshold (whatever keys were available); incoming metadata is incorporated
only if it meets the delegating role's threshold and is not older — and the end-to-end statement
`editor_roundtrip`: the update cycle of the client model, run on the files `write` produces
(`Tough/Model/Publish.lean`), succeeds and yields exactly the documents that were signed
(`Tough/Proofs/Publish*.lean`, by induction over the delegation tree).
-/
import Tough.Model.EditorSign
import Tough.Proofs.Sig
import Tough.Proofs.ClientNames
import Tough.Proofs.PublishCycle
namespace Tough.C10
open Tough.Sig Tough.EditorSign

theorem mem_dedupK {k : KeyId} {ks : List KeyId} : k ∈ dedupK ks ↔ k ∈ ks := by
  induction ks with
  | nil => simp [dedupK]
  | cons a as ih =>
    simp only [dedupK]
    split
    · rename_i h; simp only [List.contains_iff_mem] at h; simp [ih]; intro h'; subst h'; exact h
    · simp [ih]

theorem nodup_dedupK (ks : List KeyId) : (dedupK ks).Nodup := by
  induction ks with
  | nil => simp [dedupK]
  | cons a as ih =>
    simp only [dedupK]
    split
    · exact ih
    · rename_i h
      simp only [List.contains_iff_mem] at h
      exact List.nodup_cons.mpr ⟨by simpa [mem_dedupK] using h, ih⟩

theorem nodup_subset_length {l m : List KeyId} (hl : l.Nodup) (hs : ∀ x ∈ l, x ∈ m) : l.length ≤ m.length := by
  induction l generalizing m with
  | nil => simp
  | cons a as ih =>
    have ha : a ∈ m := hs a (List.mem_cons_self ..)
    obtain ⟨hna, has⟩ := List.nodup_cons.mp hl
    have : as.length ≤ (m.erase a).length := by
      apply ih has
      intro x hx
      have hxm := hs x (List.mem_cons_of_mem _ hx)
      have hne : x ≠ a := fun e => hna (e ▸ hx)
      exact (List.mem_erase_of_ne hne).mpr hxm
    rw [List.length_erase_of_mem ha] at this
    have hpos : 0 < m.length := List.length_pos_of_mem ha
    simp only [List.length_cons]
    omega

/-- genuine signatures by distinct keys, all listed for the role and present in the table, count one each -/
theorem verify_of_genuine (table : List KeyId) (rk : RoleKeys) (m : Msg) (ks : List KeyId)
    (hn : ks.Nodup) (ht : ∀ k ∈ ks, table.contains k = true) (hr : ∀ k ∈ ks, rk.keyids.contains k = true)
    (hthr : rk.threshold ≤ ks.length) : verify table rk m (ks.map (genuine m)) = true := by
  rw [verify_iff]
  refine Nat.le_trans hthr (nodup_subset_length hn ?_)
  intro k hk
  simp only [validSigners, List.mem_filter, Tough.Sig.mem_dedup, List.any_eq_true, List.mem_map]
  refine ⟨by simpa using hr k hk, genuine m k, ⟨k, hk, rfl⟩, ?_⟩
  have := ht k hk
  simp only [List.contains_iff_mem] at this
  simp [genuine, sigOk, this]

/-- **C10.a** Whatever key sources are handed to the editor: if it produces a signed non-root role at
all, that role verifies under the keys and the threshold of its key holder — the very check the
client (and `Root::verify_role` / `Delegations::verify_role` anywhere) applies. -/
theorem signRole_verifies (table avail : List KeyId) (rk : RoleKeys) (m : Msg) (sigs : List Sig)
    (h : signRole false table avail rk m = some sigs) : verify table rk m sigs = true := by
  unfold signRole at h
  simp only [Bool.not_false, Bool.true_and] at h
  split at h
  · cases h
  · rename_i hlt
    simp only [Option.some.injEq] at h
    subst h
    apply verify_of_genuine
    · exact (nodup_dedupK avail).filter _
    · intro k hk
      simp only [signingKeys, List.mem_filter, Bool.and_eq_true] at hk
      exact hk.2.1
    · intro k hk
      simp only [signingKeys, List.mem_filter, Bool.and_eq_true] at hk
      exact hk.2.2
    · simpa using hlt

/-- the editor refuses to sign exactly when too few of the available keys are authorized -/
theorem signRole_none_iff (table avail : List KeyId) (rk : RoleKeys) (m : Msg) :
    signRole false table avail rk m = none ↔ (signingKeys table avail rk).length < rk.threshold := by
  unfold signRole
  simp only [Bool.not_false, Bool.true_and]
  split
  · rename_i h; simpa using h
  · rename_i h; simp only [reduceCtorEq, false_iff]; simpa using h

/-- **C10.b (incoming metadata, `update_delegated_targets`).** An existing delegated role is replaced by
metadata supplied by its holder only if that metadata meets the delegating role's key threshold and
does not lower the role's version. -/
theorem update_checked (table : List KeyId) (rk : RoleKeys) (m : Msg) (sigs : List Sig) (cur new : Nat)
    (h : updateAccepted table rk m sigs cur new = true) :
    rk.threshold ≤ (validSigners table rk m sigs).length ∧ cur ≤ new := by
  simp only [updateAccepted, incomingVerifies, Bool.and_eq_true, decide_eq_true_eq] at h
  exact ⟨(verify_iff table rk m sigs).mp h.1, h.2⟩

/-- **C10.c (`add_role`, after the repair).** A role is grafted from metadata supplied by its holder
only if a threshold of the keys being registered for it signed that metadata; the loading client runs
the same verification with the same registered keys and threshold, hence accepts what was grafted. -/
theorem add_role_checked (table : List KeyId) (rk : RoleKeys) (m : Msg) (sigs : List Sig)
    (h : addRoleAccepted true table rk m sigs = true) :
    verify table rk m sigs = true ∧ rk.threshold ≤ (validSigners table rk m sigs).length := by
  simp only [addRoleAccepted, incomingVerifies, ↓reduceIte] at h
  exact ⟨h, (verify_iff table rk m sigs).mp h⟩

/-- before the repair `add_role` grafted metadata nobody authorized had signed: the editor went on to
sign and publish a repository that no client loads -/
theorem old_add_role_unchecked_witness :
    addRoleAccepted false [5, 6] ⟨[5, 6], 2⟩ 77 (holderSigs 77 [5]) = true ∧
    verify [5, 6] ⟨[5, 6], 2⟩ 77 (holderSigs 77 [5]) = false := by decide

theorem namesDistinct_iff (l : List Nat) : namesDistinct l = true ↔ l.Nodup := by
  induction l with
  | nil => simp [namesDistinct]
  | cons a rest ih =>
    simp only [namesDistinct, Bool.and_eq_true, Bool.not_eq_true', List.nodup_cons, ih]
    constructor
    · rintro ⟨h1, h2⟩; exact ⟨by simpa [List.contains_iff_mem] using h1, h2⟩
    · rintro ⟨h1, h2⟩; exact ⟨by simpa [List.contains_iff_mem] using h1, h2⟩

/-- **C10.d (`sign` refuses a role name used twice, after the repair).** No client ever loads a
delegation tree that holds a role name twice (`cycle_names_nodup`: `load_delegations` fetches each name
at most once per update) — whatever the repository serves.  A repository whose tree the editor's check
`namesDistinct` rejects could therefore never be "loaded back unchanged"; the editor must refuse it, and
with the check every tree it signs meets this necessary condition. -/
theorem duplicate_role_names_never_load (cfg : Client.Config) (srv : Client.Server) (shipped : Option Client.Root)
    (st st' : Client.St) (v : Client.View) (h : Client.cycle cfg srv shipped st = (.ok v, st')) :
    namesDistinct (Cache.tgtRoleNames v.tgt) = true :=
  (namesDistinct_iff _).mpr (Client.cycle_names_nodup h)

/-- before the repair the editor signed the tree `targets → [r0, r0]` -/
example : namesDistinct [0, 0] = false ∧ namesDistinct [0, 1, 2] = true := by decide

/-- the hypotheses of `signRole_verifies` are satisfiable with a threshold above one -/
example : ∃ sigs, signRole false [1, 2, 3] [3, 9, 1, 1] ⟨[1, 3, 4], 2⟩ 7 = some sigs := ⟨_, rfl⟩

/-- a delegated role signed by `SignedRole::new` with its delegation as key holder meets that delegation's
check (the one `TgtOk` asks for at every node of the tree) -/
theorem deleg_signRole_verifies (d : Client.Deleg) (r : Client.DRole) (avail : List KeyId) (m : Msg) (sigs : List Sig)
    (hfind : d.roles.find? (fun x => x.name == r.name) = some r)
    (h : signRole false d.keys avail ⟨r.keyids, r.threshold⟩ m = some sigs) :
    Client.delegVerify d r.name m sigs = true := by
  unfold Client.delegVerify
  rw [hfind]
  exact signRole_verifies _ _ _ _ _ h

open Tough.Publish in
/-- **C10 (round trip).** The editor has built the tree of targets roles (`p.tree`: documents with their
signatures, every delegated role attached under the role that delegates to it — `TgtOk`, whose signature
conditions are what `signRole_verifies` / `add_role_checked` / `update_checked` provide), and `sign`
succeeds: timestamp, snapshot and targets are signed by `SignedRole::new` with whatever keys were
available, the role names are pairwise distinct and every listed target is reachable through the path
sets (`sign`'s two final checks).  `write` puts the files on disk under the names of `Role::filename`,
with the snapshot and timestamp entries describing the written buffers (`Signed.server`).  Then a client
that holds the same (validly self-signed) root, with a fresh datastore, a clock before the four
expiration times, room for the timestamp file and at least one root update allowed, loads the directory
successfully and sees exactly what was put in: the same root, the timestamp and snapshot as built, and
the identical tree of targets documents — every target entry, delegation, key id, threshold, path set,
version and expiration of every role. -/
theorem editor_roundtrip (cfg : Client.Config) (ser : Ser) (p : Signed) (ds : Client.Datastore)
    (availT availS availG : List KeyId) (rkT rkS rkG : RoleKeys)
    (hroot : Client.rootVerify p.root .root p.root.msg p.root.sigs = true)
    (hroleT : p.root.role .timestamp = some rkT) (hroleS : p.root.role .snapshot = some rkS)
    (hroleG : p.root.role .targets = some rkG)
    (hsignT : signRole false p.root.keys availT rkT p.tsMsg = some p.tsSigs)
    (hsignS : signRole false p.root.keys availS rkS p.snapMsg = some p.snapSigs)
    (hsignG : signRole false p.root.keys availG rkG (Client.Tgt.doc p.tree).msg = some (Client.Tgt.doc p.tree).sigs)
    (htree : TgtOk p.tree)
    (hnames : namesDistinct (Cache.tgtRoleNames p.tree) = true) (hvalid : p.tree.validate = true)
    (hupd : 0 < cfg.limits.maxRootUpdates)
    (hsize : ser.len (.timestamp (p.timestamp ser)) ≤ cfg.limits.maxTimestampSize)
    (hexp : cfg.safe = true → cfg.now ≤ p.root.expires ∧ cfg.now ≤ p.tsExpires ∧ cfg.now ≤ p.snapExpires ∧
      cfg.now ≤ (Client.Tgt.doc p.tree).expires)
    (hfresh : ds.ts = .absent ∧ ds.snap = .absent ∧ ds.tgt = .absent)
    (hclock : cfg.safe = true → ∀ t0, ds.time = some t0 → t0 ≤ cfg.now) :
    ∃ st', Client.cycle cfg (p.server ser) (some p.root) ⟨ds, []⟩ =
      (.ok ⟨p.root, p.timestamp ser, p.snapshot ser, p.tree⟩, st') := by
  apply cycle_pub ser p ds hroot
  · simp only [Client.rootVerify, hroleT]; exact signRole_verifies _ _ _ _ _ hsignT
  · simp only [Client.rootVerify, hroleS]; exact signRole_verifies _ _ _ _ _ hsignS
  · simp only [Client.rootVerify, hroleG]; exact signRole_verifies _ _ _ _ _ hsignG
  · exact htree
  · exact (namesDistinct_iff _).mp hnames
  · exact hvalid
  · exact hupd
  · exact hsize
  · exact hexp
  · exact hfresh
  · exact hclock

open Tough.Publish in
/-- what the written snapshot and timestamp say about the written files: version, length and digest of
exactly the buffer that is in the file of that name -/
theorem written_meta_describes_files (ser : Ser) (p : Signed) (hn : (Cache.tgtRoleNames p.tree).Nodup) :
    (p.timestamp ser).snapshotMeta = some ⟨(p.snapshot ser).version, some (ser.len (.snapshot (p.snapshot ser))),
      some (ser.dig (.snapshot (p.snapshot ser)))⟩ ∧
    (p.server ser).get (.snapshot (Client.versioned p.root.consistent (p.snapshot ser).version)) =
      .file ⟨.snapshot (p.snapshot ser), some (ser.len (.snapshot (p.snapshot ser))), ser.dig (.snapshot (p.snapshot ser)), .none⟩ ∧
    (∀ q ∈ tgtNodes p.tree,
      (p.snapshot ser).find (.role q.1.name) = some ⟨(Client.Tgt.doc q.2).version,
        some (ser.len (.targets (Client.Tgt.doc q.2))), some (ser.dig (.targets (Client.Tgt.doc q.2)))⟩ ∧
      (p.server ser).get (.role q.1.name (Client.versioned p.root.consistent (Client.Tgt.doc q.2).version)) =
        .file ⟨.targets (Client.Tgt.doc q.2), some (ser.len (.targets (Client.Tgt.doc q.2))),
          ser.dig (.targets (Client.Tgt.doc q.2)), .none⟩) :=
  ⟨rfl, server_get_snapshot ser p hn, fun q hq => ⟨snapshot_find_role ser p hn q hq, server_get_role ser p hn q hq⟩⟩

/-! a little signed repository with a delegated role: the hypotheses of `editor_roundtrip` hold -/
namespace Ex
open Tough.Client Tough.Publish
def rootE : Root := ⟨1, 100, true, [1, 2, 3, 4], some ⟨[1], 1⟩, some ⟨[3], 1⟩, some ⟨[4], 1⟩, some ⟨[2], 1⟩, 11, [⟨1, some 1, 11⟩]⟩
def roleE : TargetsDoc := ⟨3, 100, [(0, ⟨5, 77⟩)], none, 15, [⟨5, some 5, 15⟩]⟩
def dE : Deleg := ⟨[5], [⟨9, [5], 1, [0]⟩]⟩
def tgE : TargetsDoc := ⟨7, 100, [], some dE, 14, [⟨4, some 4, 14⟩]⟩
def treeE : Tgt := .mk tgE (.cons ⟨9, [5], 1, [0]⟩ (.mk roleE .nil) .nil)
def pE : Signed := ⟨rootE, treeE, 6, 100, 13, [⟨3, some 3, 13⟩], 5, 100, 12, [⟨2, some 2, 12⟩]⟩
def serE : Ser := ⟨fun _ => 10, fun _ => 0⟩
def cfgE : Config := ⟨⟨100, 100, 100, 100, 8⟩, true, 0⟩

example : rootVerify rootE .root rootE.msg rootE.sigs = true ∧
    signRole false rootE.keys [2, 3, 4] ⟨[2], 1⟩ pE.tsMsg = some pE.tsSigs ∧
    signRole false rootE.keys [2, 3, 4] ⟨[3], 1⟩ pE.snapMsg = some pE.snapSigs ∧
    signRole false rootE.keys [2, 3, 4] ⟨[4], 1⟩ tgE.msg = some tgE.sigs ∧
    signRole false dE.keys [5] ⟨[5], 1⟩ roleE.msg = some roleE.sigs ∧
    namesDistinct (Cache.tgtRoleNames treeE) = true ∧ treeE.validate = true := by decide

example : Publish.TgtOk treeE := by
  simp only [treeE, Publish.TgtOk, tgE, dE, Publish.RolesOk, roleE, Tgt.doc, true_and, and_true]
  decide
end Ex

end Tough.C10
