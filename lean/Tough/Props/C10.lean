/-
C10 — Whatever the repository editor signs and writes, the client loads back unchanged.
Models: `Tough/Model/EditorSign.lean` (who signs, what incoming metadata is accepted) over
`Tough/Model/Sig.lean` (what the client's verification accepts, C01); `Tough/Model/Editor.lean` (what
the signed documents contain, C17); `Tough/Model/Client.lean` (the loading client).

Proved here: the decision logic.  Every signature set the editor produces for a non-root role
verifies under that role's keys and threshold (whatever keys were available); incoming metadata is
incorporated only if it meets the delegating role's threshold and is not older, and then the client —
which runs the same check on the same registered keys — accepts it.  The end-to-end statement
(`editor_roundtrip`, below as a comment with what is missing) is checked by correspondence.
-/
import Tough.Model.EditorSign
import Tough.Proofs.Sig
import Tough.Proofs.ClientNames
namespace Tough.C10
open Tough.Sig Tough.EditorSign

theorem mem_dedupK {k : KeyId} {ks : List KeyId} : k ∈ dedupK ks ↔ k ∈ ks := by
  induction ks with
  | nil => simp [dedupK]
  | cons a as ih =>
    simp only [dedupK]
    split
    · rename_i h; simp only [List.contains_iff_mem] at h; simp [ih]; intro h'; subst h'; exact h
    · simp [ih]

theorem nodup_dedupK (ks : List KeyId) : (dedupK ks).Nodup := by
  induction ks with
  | nil => simp [dedupK]
  | cons a as ih =>
    simp only [dedupK]
    split
    · exact ih
    · rename_i h
      simp only [List.contains_iff_mem] at h
      exact List.nodup_cons.mpr ⟨by simpa [mem_dedupK] using h, ih⟩

theorem nodup_subset_length {l m : List KeyId} (hl : l.Nodup) (hs : ∀ x ∈ l, x ∈ m) : l.length ≤ m.length := by
  induction l generalizing m with
  | nil => simp
  | cons a as ih =>
    have ha : a ∈ m := hs a (List.mem_cons_self ..)
    obtain ⟨hna, has⟩ := List.nodup_cons.mp hl
    have : as.length ≤ (m.erase a).length := by
      apply ih has
      intro x hx
      have hxm := hs x (List.mem_cons_of_mem _ hx)
      have hne : x ≠ a := fun e => hna (e ▸ hx)
      exact (List.mem_erase_of_ne hne).mpr hxm
    rw [List.length_erase_of_mem ha] at this
    have hpos : 0 < m.length := List.length_pos_of_mem ha
    simp only [List.length_cons]
    omega

/-- genuine signatures by distinct keys, all listed for the role and present in the table, count one each -/
theorem verify_of_genuine (table : List KeyId) (rk : RoleKeys) (m : Msg) (ks : List KeyId)
    (hn : ks.Nodup) (ht : ∀ k ∈ ks, table.contains k = true) (hr : ∀ k ∈ ks, rk.keyids.contains k = true)
    (hthr : rk.threshold ≤ ks.length) : verify table rk m (ks.map (genuine m)) = true := by
  rw [verify_iff]
  refine Nat.le_trans hthr (nodup_subset_length hn ?_)
  intro k hk
  simp only [validSigners, List.mem_filter, Tough.Sig.mem_dedup, List.any_eq_true, List.mem_map]
  refine ⟨by simpa using hr k hk, genuine m k, ⟨k, hk, rfl⟩, ?_⟩
  have := ht k hk
  simp only [List.contains_iff_mem] at this
  simp [genuine, sigOk, this]

/-- **C10.a** Whatever key sources are handed to the editor: if it produces a signed non-root role at
all, that role verifies under the keys and the threshold of its key holder — the very check the
client (and `Root::verify_role` / `Delegations::verify_role` anywhere) applies. -/
theorem signRole_verifies (table avail : List KeyId) (rk : RoleKeys) (m : Msg) (sigs : List Sig)
    (h : signRole false table avail rk m = some sigs) : verify table rk m sigs = true := by
  unfold signRole at h
  simp only [Bool.not_false, Bool.true_and] at h
  split at h
  · cases h
  · rename_i hlt
    simp only [Option.some.injEq] at h
    subst h
    apply verify_of_genuine
    · exact (nodup_dedupK avail).filter _
    · intro k hk
      simp only [signingKeys, List.mem_filter, Bool.and_eq_true] at hk
      exact hk.2.1
    · intro k hk
      simp only [signingKeys, List.mem_filter, Bool.and_eq_true] at hk
      exact hk.2.2
    · simpa using hlt

/-- the editor refuses to sign exactly when too few of the available keys are authorized -/
theorem signRole_none_iff (table avail : List KeyId) (rk : RoleKeys) (m : Msg) :
    signRole false table avail rk m = none ↔ (signingKeys table avail rk).length < rk.threshold := by
  unfold signRole
  simp only [Bool.not_false, Bool.true_and]
  split
  · rename_i h; simpa using h
  · rename_i h; simp only [reduceCtorEq, false_iff]; simpa using h

/-- **C10.b (incoming metadata, `update_delegated_targets`).** An existing delegated role is replaced by
metadata supplied by its holder only if that metadata meets the delegating role's key threshold and
does not lower the role's version. -/
theorem update_checked (table : List KeyId) (rk : RoleKeys) (m : Msg) (sigs : List Sig) (cur new : Nat)
    (h : updateAccepted table rk m sigs cur new = true) :
    rk.threshold ≤ (validSigners table rk m sigs).length ∧ cur ≤ new := by
  simp only [updateAccepted, incomingVerifies, Bool.and_eq_true, decide_eq_true_eq] at h
  exact ⟨(verify_iff table rk m sigs).mp h.1, h.2⟩

/-- **C10.c (`add_role`, after the repair).** A role is grafted from metadata supplied by its holder
only if a threshold of the keys being registered for it signed that metadata; the loading client runs
the same verification with the same registered keys and threshold, hence accepts what was grafted. -/
theorem add_role_checked (table : List KeyId) (rk : RoleKeys) (m : Msg) (sigs : List Sig)
    (h : addRoleAccepted true table rk m sigs = true) :
    verify table rk m sigs = true ∧ rk.threshold ≤ (validSigners table rk m sigs).length := by
  simp only [addRoleAccepted, incomingVerifies, ↓reduceIte] at h
  exact ⟨h, (verify_iff table rk m sigs).mp h⟩

/-- before the repair `add_role` grafted metadata nobody authorized had signed: the editor went on to
sign and publish a repository that no client loads -/
theorem old_add_role_unchecked_witness :
    addRoleAccepted false [5, 6] ⟨[5, 6], 2⟩ 77 (holderSigs 77 [5]) = true ∧
    verify [5, 6] ⟨[5, 6], 2⟩ 77 (holderSigs 77 [5]) = false := by decide

theorem namesDistinct_iff (l : List Nat) : namesDistinct l = true ↔ l.Nodup := by
  induction l with
  | nil => simp [namesDistinct]
  | cons a rest ih =>
    simp only [namesDistinct, Bool.and_eq_true, Bool.not_eq_true', List.nodup_cons, ih]
    constructor
    · rintro ⟨h1, h2⟩; exact ⟨by simpa [List.contains_iff_mem] using h1, h2⟩
    · rintro ⟨h1, h2⟩; exact ⟨by simpa [List.contains_iff_mem] using h1, h2⟩

/-- **C10.d (`sign` refuses a role name used twice, after the repair).** No client ever loads a
delegation tree that holds a role name twice (`cycle_names_nodup`: `load_delegations` fetches each name
at most once per update) — whatever the repository serves.  A repository whose tree the editor's check
`namesDistinct` rejects could therefore never be "loaded back unchanged"; the editor must refuse it, and
with the check every tree it signs meets this necessary condition. -/
theorem duplicate_role_names_never_load (cfg : Client.Config) (srv : Client.Server) (shipped : Option Client.Root)
    (st st' : Client.St) (v : Client.View) (h : Client.cycle cfg srv shipped st = (.ok v, st')) :
    namesDistinct (Cache.tgtRoleNames v.tgt) = true :=
  (namesDistinct_iff _).mpr (Client.cycle_names_nodup h)

/-- before the repair the editor signed the tree `targets → [r0, r0]` -/
example : namesDistinct [0, 0] = false ∧ namesDistinct [0, 1, 2] = true := by decide

/-- the hypotheses of `signRole_verifies` are satisfiable with a threshold above one -/
example : ∃ sigs, signRole false [1, 2, 3] [3, 9, 1, 1] ⟨[1, 3, 4], 2⟩ 7 = some sigs := ⟨_, rfl⟩

/-
`editor_roundtrip` (full statement, NOT proved): for every editing program the editor accepts and signs,
`cycle cfg (serve written) (some root) ⟨{}, []⟩ = (.ok v, _)` with `v`'s targets, delegation tree, versions
and expirations those of the program.  Missing for a proof: a model of the editor's document
construction over the client's document types (content identity `msg` as a function of content), and the
symbolic execution of `cycle` on the written files (snapshot / timestamp entries describe the written
buffers, C17's `Editor` gives the contents).  It is checked by correspondence on generated programs.
-/

end Tough.C10
