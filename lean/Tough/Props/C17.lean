/-
C17 — Updating a repository preserves everything that was not deliberately changed.
Model: `Tough/Model/Editor.lean`.
-/
import Tough.Model.Editor
namespace Tough.C17
open Tough.Editor

variable {δ : Type}

theorem addAll_fields (e : Editor δ) (added : List (Nat × Target)) :
    (addAll e added).existing = e.existing ∧ (addAll e added).deleg = e.deleg ∧ (addAll e added).targetsExtra = e.targetsExtra ∧
    (addAll e added).snapshotExtra = e.snapshotExtra ∧ (addAll e added).timestampExtra = e.timestampExtra ∧
    (addAll e added).targetsVersion = e.targetsVersion ∧ (addAll e added).targetsExpires = e.targetsExpires ∧
    (addAll e added).snapshotVersion = e.snapshotVersion ∧ (addAll e added).snapshotExpires = e.snapshotExpires ∧
    (addAll e added).timestampVersion = e.timestampVersion ∧ (addAll e added).timestampExpires = e.timestampExpires ∧
    (addAll e added).new.getD [] = added.reverse ++ e.new.getD [] := by
  induction added generalizing e with
  | nil => simp [addAll]
  | cons p rest ih =>
    have := ih (addTarget e p.1 p.2)
    simp only [addAll, List.foldl_cons] at this ⊢
    obtain ⟨h1, h2, h3, h4, h5, h6, h7, h8, h9, h10, h11, h12⟩ := this
    refine ⟨h1, h2, h3, h4, h5, h6, h7, h8, h9, h10, h11, ?_⟩
    rw [h12]
    simp [addTarget]

theorem lookup_append (a b : TMap) (n : Nat) : (a ++ b).lookup n = (a.lookup n).or (b.lookup n) := by
  induction a with
  | nil => simp
  | cons p rest ih =>
    obtain ⟨k, v⟩ := p
    simp only [List.cons_append, List.lookup_cons]
    cases n == k
    · simpa using ih
    · simp

/-- what the editor holds after `from_repo`, the setters and the additions -/
theorem updated_editor (r : Repo δ) (u : Update) :
    let e := applyUpdate (fromRepo r) u
    e.existing = some r.targets.targets ∧ e.deleg = some r.targets.deleg ∧ e.targetsExtra = some r.targets.extra ∧
    e.snapshotExtra = some r.snapshot.extra ∧ e.timestampExtra = some r.timestamp.extra ∧
    e.targetsVersion = some u.targetsVersion ∧ e.targetsExpires = some u.targetsExpires ∧
    e.snapshotVersion = some u.snapshotVersion ∧ e.snapshotExpires = some u.snapshotExpires ∧
    e.timestampVersion = some u.timestampVersion ∧ e.timestampExpires = some u.timestampExpires ∧
    e.new.getD [] = u.added.reverse := by
  obtain ⟨h1, h2, h3, h4, h5, h6, h7, h8, h9, h10, h11, h12⟩ := addAll_fields (setVersions (fromRepo r) u) u.added
  simp only [applyUpdate]
  refine ⟨h1, h2, h3, h4, h5, h6, h7, h8, h9, h10, h11, ?_⟩
  rw [h12]
  simp [setVersions, fromRepo]

/-- **C17 (full statement).** Loading a repository into the editor, setting new versions and
expirations, adding any targets and signing yields: the versions and expirations that were set; for
every name, the newly added target if one was added under that name (the last one added), otherwise
exactly the target the repository had — length, digest, custom data and unknown members; the same
delegation structure, delegated documents and their signatures included; and the same unknown
top-level members in targets, snapshot and timestamp. -/
theorem update_preserves (r : Repo δ) (u : Update) (noDeleg : δ) :
    ∃ r', update true r u noDeleg = .ok r' ∧
      r'.targets.version = u.targetsVersion ∧ r'.targets.expires = u.targetsExpires ∧
      r'.snapshot.version = u.snapshotVersion ∧ r'.snapshot.expires = u.snapshotExpires ∧
      r'.timestamp.version = u.timestampVersion ∧ r'.timestamp.expires = u.timestampExpires ∧
      (∀ n, r'.targets.targets.get n = (u.added.reverse.lookup n).or (r.targets.targets.get n)) ∧
      r'.targets.deleg = r.targets.deleg ∧
      r'.targets.extra = r.targets.extra ∧
      r'.snapshot.extra = r.snapshot.extra ∧
      r'.timestamp.extra = r.timestamp.extra := by
  obtain ⟨h1, h2, h3, h4, h5, h6, h7, h8, h9, h10, h11, h12⟩ := updated_editor r u
  unfold update
  generalize applyUpdate (fromRepo r) u = e at *
  refine ⟨⟨⟨u.targetsVersion, u.targetsExpires, (e.existing.getD []).extend (e.new.getD []), e.deleg.getD noDeleg, e.targetsExtra.getD 0⟩,
    ⟨u.snapshotVersion, u.snapshotExpires, e.snapshotExtra.getD 0⟩, ⟨u.timestampVersion, u.timestampExpires, e.timestampExtra.getD 0⟩⟩, ?_,
    rfl, rfl, rfl, rfl, rfl, rfl, ?_, ?_, ?_, ?_, ?_⟩
  · simp only [sign, buildTargets, buildSnapshot, buildTimestamp, h6, h7, h8, h9, h10, h11, ↓reduceIte]
  · intro n
    simp only [TMap.get, TMap.extend, h1, h12, Option.getD_some, lookup_append]
  · simp [h2]
  · simp [h3]
  · simp [h4]
  · simp [h5]

/-- the code before the repair loses the snapshot's unknown members on every update -/
theorem old_build_snapshot_drops_extra (r : Repo δ) (u : Update) (noDeleg : δ) :
    ∃ r', update false r u noDeleg = .ok r' ∧ r'.snapshot.extra = 0 := by
  obtain ⟨h1, h2, h3, h4, h5, h6, h7, h8, h9, h10, h11, h12⟩ := updated_editor r u
  unfold update
  generalize applyUpdate (fromRepo r) u = e at *
  refine ⟨⟨⟨u.targetsVersion, u.targetsExpires, (e.existing.getD []).extend (e.new.getD []), e.deleg.getD noDeleg, e.targetsExtra.getD 0⟩,
    ⟨u.snapshotVersion, u.snapshotExpires, 0⟩, ⟨u.timestampVersion, u.timestampExpires, e.timestampExtra.getD 0⟩⟩, ?_, rfl⟩
  simp only [sign, buildTargets, buildSnapshot, buildTimestamp, h6, h7, h8, h9, h10, h11]
  rfl

/-- a repository on which the difference shows -/
example : ∃ r', update false (δ := Nat) ⟨⟨1, 10, [(0, ⟨5, 7, 1, 0⟩)], 42, 3⟩, ⟨1, 10, 9⟩, ⟨1, 10, 8⟩⟩ ⟨2, 20, 2, 20, 2, 20, []⟩ 0 = .ok r' ∧
    r'.snapshot.extra ≠ 9 := ⟨_, rfl, by decide⟩

end Tough.C17
