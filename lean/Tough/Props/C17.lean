/-
C17 — Updating a repository preserves everything that was not deliberately changed.
Model: `Tough/Model/Editor.lean`.
-/
import Tough.Model.Editor
namespace Tough.C17
open Tough.Editor

variable {δ : Type}

theorem addAll_fields (e : Editor δ) (added : List (Nat × Target)) :
    (addAll e added).existing = e.existing ∧ (addAll e added).deleg = e.deleg ∧ (addAll e added).targetsExtra = e.targetsExtra ∧
    (addAll e added).snapshotExtra = e.snapshotExtra ∧ (addAll e added).timestampExtra = e.timestampExtra ∧
    (addAll e added).targetsVersion = e.targetsVersion ∧ (addAll e added).targetsExpires = e.targetsExpires ∧
    (addAll e added).snapshotVersion = e.snapshotVersion ∧ (addAll e added).snapshotExpires = e.snapshotExpires ∧
    (addAll e added).timestampVersion = e.timestampVersion ∧ (addAll e added).timestampExpires = e.timestampExpires ∧
    (addAll e added).new.getD [] = added.reverse ++ e.new.getD [] := by
  induction added generalizing e with
  | nil => simp [addAll]
  | cons p rest ih =>
    have := ih (addTarget e p.1 p.2)
    simp only [addAll, List.foldl_cons] at this ⊢
    obtain ⟨h1, h2, h3, h4, h5, h6, h7, h8, h9, h10, h11, h12⟩ := this
    refine ⟨h1, h2, h3, h4, h5, h6, h7, h8, h9, h10, h11, ?_⟩
    rw [h12]
    simp [addTarget]

theorem lookup_append (a b : TMap) (n : Nat) : (a ++ b).lookup n = (a.lookup n).or (b.lookup n) := by
  induction a with
  | nil => simp
  | cons p rest ih =>
    obtain ⟨k, v⟩ := p
    simp only [List.cons_append, List.lookup_cons]
    cases n == k
    · simpa using ih
    · simp

/-- what the editor holds after `from_repo`, the setters and the additions -/
theorem updated_editor (r : Repo δ) (u : Update) :
    let e := applyUpdate (fromRepo r) u
    e.existing = some r.targets.targets ∧ e.deleg = some r.targets.deleg ∧ e.targetsExtra = some r.targets.extra ∧
    e.snapshotExtra = some r.snapshot.extra ∧ e.timestampExtra = some r.timestamp.extra ∧
    e.targetsVersion = some u.targetsVersion ∧ e.targetsExpires = some u.targetsExpires ∧
    e.snapshotVersion = some u.snapshotVersion ∧ e.snapshotExpires = some u.snapshotExpires ∧
    e.timestampVersion = some u.timestampVersion ∧ e.timestampExpires = some u.timestampExpires ∧
    e.new.getD [] = u.added.reverse := by
  obtain ⟨h1, h2, h3, h4, h5, h6, h7, h8, h9, h10, h11, h12⟩ := addAll_fields (setVersions (fromRepo r) u) u.added
  simp only [applyUpdate]
  refine ⟨h1, h2, h3, h4, h5, h6, h7, h8, h9, h10, h11, ?_⟩
  rw [h12]
  simp [setVersions, fromRepo]

/-- **C17 (full statement).** Loading a repository into the editor, setting new versions and
expirations, adding any targets and signing yields: the versions and expirations that were set; for
every name, the newly added target if one was added under that name (the last one added), otherwise
exactly the target the repository had — length, digest, custom data and unknown members; the same
delegation structure, delegated documents and their signatures included; and the same unknown
top-level members in targets, snapshot and timestamp. -/
theorem update_preserves (r : Repo δ) (u : Update) (noDeleg : δ) :
    ∃ r', update true r u noDeleg = .ok r' ∧
      r'.targets.version = u.targetsVersion ∧ r'.targets.expires = u.targetsExpires ∧
      r'.snapshot.version = u.snapshotVersion ∧ r'.snapshot.expires = u.snapshotExpires ∧
      r'.timestamp.version = u.timestampVersion ∧ r'.timestamp.expires = u.timestampExpires ∧
      (∀ n, r'.targets.targets.get n = (u.added.reverse.lookup n).or (r.targets.targets.get n)) ∧
      r'.targets.deleg = r.targets.deleg ∧
      r'.targets.extra = r.targets.extra ∧
      r'.snapshot.extra = r.snapshot.extra ∧
      r'.timestamp.extra = r.timestamp.extra := by
  obtain ⟨h1, h2, h3, h4, h5, h6, h7, h8, h9, h10, h11, h12⟩ := updated_editor r u
  unfold update
  generalize applyUpdate (fromRepo r) u = e at *
  refine ⟨⟨⟨u.targetsVersion, u.targetsExpires, (e.existing.getD []).extend (e.new.getD []), e.deleg.getD noDeleg, e.targetsExtra.getD 0⟩,
    ⟨u.snapshotVersion, u.snapshotExpires, e.snapshotExtra.getD 0⟩, ⟨u.timestampVersion, u.timestampExpires, e.timestampExtra.getD 0⟩⟩, ?_,
    rfl, rfl, rfl, rfl, rfl, rfl, ?_, ?_, ?_, ?_, ?_⟩
  · simp only [sign, buildTargets, buildSnapshot, buildTimestamp, h6, h7, h8, h9, h10, h11, ↓reduceIte]
  · intro n
    simp only [TMap.get, TMap.extend, h1, h12, Option.getD_some, lookup_append]
  · simp [h2]
  · simp [h3]
  · simp [h4]
  · simp [h5]

/-! ### Edits of a role's targets are plain assignments

The editor keeps the targets a role already had and those added through the editor in two maps and
merges them when it builds the document.  Whatever the sequence of `add_target` / `remove_target` /
`clear_targets` calls, what gets listed is what the sequence means as assignments to one map: a name
holds the last target added under it, unless it was removed (or everything was cleared) afterwards. -/

/-- the meaning of an edit on a map from names to targets -/
def specOp (m : Nat → Option Target) : TOp → (Nat → Option Target)
  | .add n t => fun k => if k = n then some t else m k
  | .remove n => fun k => if k = n then none else m k
  | .clear => fun _ => none

theorem lookup_erase (m : TMap) (n k : Nat) : (m.erase n).lookup k = if k = n then none else m.lookup k := by
  induction m with
  | nil => simp [TMap.erase]
  | cons p rest ih =>
    obtain ⟨a, t⟩ := p
    simp only [TMap.erase, List.filter_cons] at ih ⊢
    by_cases han : a = n
    · subst han
      simp only [bne_self_eq_false, Bool.false_eq_true, ↓reduceIte, ih]
      by_cases hk : k = a
      · simp [hk]
      · have hka : (k == a) = false := by simpa using hk
        simp [hk, List.lookup_cons, hka]
    · have : (a != n) = true := by simpa using han
      simp only [this, ↓reduceIte, List.lookup_cons, ih]
      by_cases hk : k = n
      · subst hk
        have : (k == a) = false := by simpa using fun e => han e.symm
        simp [this]
      · simp [hk]

theorem listed_applyOp (e : Editor δ) (op : TOp) (k : Nat) :
    (listed (applyOp e op)).get k = specOp (fun k => (listed e).get k) op k := by
  cases op with
  | add n t =>
    simp only [applyOp, addTarget, listed, TMap.get, TMap.extend, Option.getD_some, List.cons_append, List.lookup_cons, specOp]
    by_cases hk : k = n
    · simp [hk]
    · have : (k == n) = false := by simpa using hk
      simp [this, hk]
  | remove n =>
    simp only [applyOp, removeTarget, listed, TMap.get, TMap.extend, specOp, lookup_append]
    have h1 : ((e.new.map (·.erase n)).getD []).lookup k = if k = n then none else (e.new.getD []).lookup k := by
      cases e.new with
      | none => simp
      | some m => simp [lookup_erase]
    have h2 : ((e.existing.map (·.erase n)).getD []).lookup k = if k = n then none else (e.existing.getD []).lookup k := by
      cases e.existing with
      | none => simp
      | some m => simp [lookup_erase]
    rw [h1, h2]
    by_cases hk : k = n <;> simp [hk]
  | clear => simp [applyOp, clearTargets, listed, TMap.get, TMap.extend, specOp]

/-- **C17/C10: what a role lists after any sequence of edits is what the edits mean as assignments** -/
theorem target_edits_are_assignments (e : Editor δ) (ops : List TOp) (k : Nat) :
    (listed (applyOps e ops)).get k = (ops.foldl specOp (fun k => (listed e).get k)) k := by
  induction ops generalizing e with
  | nil => rfl
  | cons op rest ih =>
    simp only [applyOps, List.foldl_cons] at ih ⊢
    rw [ih (applyOp e op)]
    have hf : (fun k => (listed (applyOp e op)).get k) = specOp (fun k => (listed e).get k) op := by
      funext k'
      exact listed_applyOp e op k'
    rw [hf]

/-- replace, then remove: the name is gone (the sequence a seeded change got wrong) -/
example (t t' : Target) :
    (listed (applyOps ({ existing := some [(7, t)] } : Editor Nat) [.add 7 t', .remove 7])).get 7 = none := by
  rw [target_edits_are_assignments]
  simp [specOp]

/-- the code before the repair loses the snapshot's unknown members on every update -/
theorem old_build_snapshot_drops_extra (r : Repo δ) (u : Update) (noDeleg : δ) :
    ∃ r', update false r u noDeleg = .ok r' ∧ r'.snapshot.extra = 0 := by
  obtain ⟨h1, h2, h3, h4, h5, h6, h7, h8, h9, h10, h11, h12⟩ := updated_editor r u
  unfold update
  generalize applyUpdate (fromRepo r) u = e at *
  refine ⟨⟨⟨u.targetsVersion, u.targetsExpires, (e.existing.getD []).extend (e.new.getD []), e.deleg.getD noDeleg, e.targetsExtra.getD 0⟩,
    ⟨u.snapshotVersion, u.snapshotExpires, 0⟩, ⟨u.timestampVersion, u.timestampExpires, e.timestampExtra.getD 0⟩⟩, ?_, rfl⟩
  simp only [sign, buildTargets, buildSnapshot, buildTimestamp, h6, h7, h8, h9, h10, h11]
  rfl

/-- a repository on which the difference shows -/
example : ∃ r', update false (δ := Nat) ⟨⟨1, 10, [(0, ⟨5, 7, 1, 0⟩)], 42, 3⟩, ⟨1, 10, 9⟩, ⟨1, 10, 8⟩⟩ ⟨2, 20, 2, 20, 2, 20, []⟩ 0 = .ok r' ∧
    r'.snapshot.extra ≠ 9 := ⟨_, rfl, by decide⟩

end Tough.C17
