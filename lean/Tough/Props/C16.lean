/-
C16 — Role names never steer file access outside the metadata directories, nor collide.
Model: `Tough/Model/FileName.lean`.
-/
import Tough.Model.FileName
namespace Tough.C16
open Tough.FileName

def okChar (c : Nat) : Bool := safeByte c || c == 37

theorem hexDigit_ok (n : Nat) (h : n < 16) : isAlnum (hexDigit n) = true ∧ hexDigit n ≠ 37 := by
  unfold hexDigit isAlnum
  split <;> simp <;> omega

/-- **C16.a** every byte of an encoded name is a letter, a digit, one of `_ . - ~`, or `%` -/
theorem encode_charset (name : List Nat) (hb : ∀ b ∈ name, b < 256) :
    ∀ c ∈ encodeFilename name, okChar c = true := by
  intro c hc
  simp only [encodeFilename, List.mem_flatMap] at hc
  obtain ⟨b, hbm, hcb⟩ := hc
  have hlt := hb b hbm
  unfold encByte at hcb
  split at hcb
  · simp only [List.mem_singleton] at hcb; subst hcb; simp [okChar, *]
  · simp only [List.mem_cons, List.not_mem_nil, or_false] at hcb
    rcases hcb with rfl | rfl | rfl
    · simp [okChar]
    · have := (hexDigit_ok (b / 16) (by omega)).1; simp [okChar, safeByte, this]
    · have := (hexDigit_ok (b % 16) (by omega)).1; simp [okChar, safeByte, this]

theorem hexVal_hexDigit (n : Nat) (h : n < 16) : hexVal (hexDigit n) = n := by
  unfold hexVal hexDigit
  split <;> split <;> omega

theorem safe_ne_percent (b : Nat) (h : safeByte b = true) : b ≠ 37 := by
  intro hb; subst hb; simp [safeByte, isAlnum] at h

theorem decode_cons_ne (c : Nat) (rest : List Nat) (h : c ≠ 37) : decode (c :: rest) = c :: decode rest := by
  match rest with
  | [] => rfl
  | [d] => rfl
  | a :: b :: r => simp [decode, h]

theorem decode_encByte (b : Nat) (hb : b < 256) (rest : List Nat) :
    decode (encByte b ++ rest) = b :: decode rest := by
  unfold encByte
  split
  · rename_i hs
    exact decode_cons_ne b rest (safe_ne_percent b hs)
  · simp only [List.cons_append, List.nil_append, decode, ↓reduceIte]
    rw [hexVal_hexDigit _ (by omega), hexVal_hexDigit _ (by omega)]
    congr 1; omega

theorem decode_encode (name : List Nat) (hb : ∀ b ∈ name, b < 256) (rest : List Nat) :
    decode (encodeFilename name ++ rest) = name ++ decode rest := by
  induction name with
  | nil => rfl
  | cons b bs ih =>
    simp only [encodeFilename, List.flatMap_cons, List.append_assoc] at ih ⊢
    rw [decode_encByte b (hb b List.mem_cons_self)]
    rw [ih (fun x hx => hb x (List.mem_cons_of_mem _ hx))]
    rfl

/-- **C16.b** two different role names never have the same encoding -/
theorem encode_injective (a b : List Nat) (ha : ∀ x ∈ a, x < 256) (hb : ∀ x ∈ b, x < 256)
    (h : encodeFilename a = encodeFilename b) : a = b := by
  have h1 := decode_encode a ha []
  have h2 := decode_encode b hb []
  rw [h] at h1
  simpa [decode] using h1.symm.trans h2

theorem digitsAux_digits (f v : Nat) : ∀ c ∈ digitsAux f v, 48 ≤ c ∧ c ≤ 57 := by
  induction f generalizing v with
  | zero => intro c hc; simp only [digitsAux, List.mem_singleton] at hc; omega
  | succ k ih =>
    intro c hc
    simp only [digitsAux] at hc
    split at hc
    · simp only [List.mem_singleton] at hc; omega
    · rcases List.mem_append.mp hc with h | h
      · exact ih _ c h
      · simp only [List.mem_singleton] at h; omega

theorem digits_are_digits (v : Nat) : ∀ c ∈ digits v, 48 ≤ c ∧ c ≤ 57 := digitsAux_digits v v

theorem digits_ne_nil (v : Nat) : digits v ≠ [] := by
  unfold digits
  cases v with
  | zero => simp [digitsAux]
  | succ k => simp only [digitsAux]; split <;> simp

/-- **C16.c (plain entries).** The file name of a delegated role contains no path separator and
no NUL, is not empty and is neither `.` nor `..`: joined to a directory path or to a base URL it
denotes an entry directly inside that directory. -/
theorem roleFile_plain (cs : Bool) (v : Nat) (name : List Nat) (hb : ∀ b ∈ name, b < 256) :
    (∀ c ∈ roleFile cs v name, c ≠ 47 ∧ c ≠ 0 ∧ c ≠ 92) ∧
    roleFile cs v name ≠ [] ∧ roleFile cs v name ≠ [46] ∧ roleFile cs v name ≠ [46, 46] := by
  have hjson : ∀ c ∈ dotJson, c ≠ 47 ∧ c ≠ 0 ∧ c ≠ 92 := by decide
  have henc : ∀ c ∈ encodeFilename name, c ≠ 47 ∧ c ≠ 0 ∧ c ≠ 92 := by
    intro c hc
    have := encode_charset name hb c hc
    simp only [okChar, safeByte, isAlnum, Bool.or_eq_true, Bool.and_eq_true, decide_eq_true_eq, beq_iff_eq] at this
    omega
  have hdig : ∀ c ∈ digits v ++ [46], c ≠ 47 ∧ c ≠ 0 ∧ c ≠ 92 := by
    intro c hc
    rcases List.mem_append.mp hc with h | h
    · have := digits_are_digits v c h; omega
    · simp only [List.mem_singleton] at h; omega
  have hlen : 5 ≤ (roleFile cs v name).length := by
    simp [roleFile, dotJson]; omega
  refine ⟨?_, ?_, ?_, ?_⟩
  · intro c hc
    simp only [roleFile, List.mem_append] at hc
    rcases hc with (h | h) | h
    · cases cs
      · simp at h
      · exact hdig c (by simpa using h)
    · exact henc c h
    · exact hjson c h
  · intro h; rw [h] at hlen; simp at hlen
  · intro h; rw [h] at hlen; simp at hlen
  · intro h; rw [h] at hlen; simp at hlen

theorem append_right_cancel' {a b s : List Nat} (h : a ++ s = b ++ s) : a = b := List.append_cancel_right h

def untilDot : List Nat → List Nat × List Nat
  | [] => ([], [])
  | c :: rest => if c = 46 then ([], c :: rest) else ((c :: (untilDot rest).1), (untilDot rest).2)

/-- splitting `digits v ++ [46] ++ x` at the first `.` recovers `digits v` -/
theorem span_digits (v : Nat) (x : List Nat) : untilDot (digits v ++ 46 :: x) = (digits v, 46 :: x) := by
  have hd := digits_are_digits v
  generalize digits v = ds at hd
  induction ds with
  | nil => simp [untilDot]
  | cons d rest ih =>
    have h1 := hd d List.mem_cons_self
    have hne : d ≠ 46 := by omega
    have := ih (fun c hc => hd c (List.mem_cons_of_mem _ hc))
    simp only [List.cons_append, untilDot, hne, ↓reduceIte, this]

/-- **C16.d (no collisions between delegated roles).** Within one naming mode, two delegated roles
get the same file name only if they have the same name (and, under consistent snapshots, the same
version). -/
theorem roleFile_injective (cs : Bool) (v v' : Nat) (a b : List Nat)
    (ha : ∀ x ∈ a, x < 256) (hb : ∀ x ∈ b, x < 256)
    (h : roleFile cs v a = roleFile cs v' b) : a = b ∧ (cs = true → digits v = digits v') := by
  cases cs with
  | false =>
    simp only [roleFile, Bool.false_eq_true, ↓reduceIte, List.nil_append] at h
    exact ⟨encode_injective a b ha hb (List.append_cancel_right h), by intro h; cases h⟩
  | true =>
    simp only [roleFile, ↓reduceIte, List.append_assoc, List.cons_append, List.nil_append] at h
    have s1 := span_digits v (encodeFilename a ++ dotJson)
    have s2 := span_digits v' (encodeFilename b ++ dotJson)
    rw [h] at s1
    rw [s1] at s2
    simp only [Prod.mk.injEq, List.cons.injEq, true_and] at s2
    exact ⟨encode_injective a b ha hb (List.append_cancel_right s2.2), fun _ => s2.1⟩

/-! ### Collisions with the files of the top-level roles

Read literally — "two different role names never map to the same file name", the four top-level
roles included — the property FAILS in repositories without consistent snapshots: the delegated
role name `N.root` (for any version number N) is written to, requested from and cached to
`N.root.json`, the file of version N of the root role.  This is a known finding (see
known_findings.json, C16-N.root).  With consistent snapshots a delegated file `v.<enc>.json` can only
coincide with a top-level file when the delegated role carries the very name of that role. -/

theorem nonconsistent_root_collision_witness :
    roleFile false 1 (str "2.root") = rootFile 2 ∧ str "2.root" ≠ str "root" := by decide

/-- under consistent snapshots a delegated role file equals a root file only for the name `root` -/
theorem consistent_root_collision_only_same_name (v n : Nat) (name : List Nat) (hb : ∀ x ∈ name, x < 256)
    (h : roleFile true v name = rootFile n) : name = str "root" := by
  simp only [roleFile, ↓reduceIte, rootFile, List.append_assoc, List.cons_append, List.nil_append] at h
  have s1 := span_digits v (encodeFilename name ++ dotJson)
  have e : str ".root.json" = 46 :: (encodeFilename (str "root") ++ dotJson) := by decide
  have s2 := span_digits n (encodeFilename (str "root") ++ dotJson)
  rw [e] at h
  rw [h] at s1
  rw [s1] at s2
  simp only [Prod.mk.injEq, List.cons.injEq, true_and] at s2
  exact encode_injective name (str "root") hb (by decide) (List.append_cancel_right s2.2)

end Tough.C16
