/-
C13 — A key is only trusted under the identifier that is the digest of its content.
Model: `Tough/Model/KeyTable.lean` (`deserialize_keys`, used for root key tables and delegation key
tables alike).
-/
import Tough.Model.KeyTable
import Tough.Proofs.ExceptDec
namespace Tough.C13
open Tough.KeyTable

variable {κ : Type} (kid : κ → Bytes)

/-- invariant of the fold: every entry of the table is stored under its own digest -/
theorem parseKeys_inv (ms : List (List Char × κ)) (table out : List (Bytes × κ))
    (hinv : ∀ e ∈ table, e.1 = kid e.2)
    (h : parseKeys kid ms table = .ok out) : ∀ e ∈ out, e.1 = kid e.2 := by
  induction ms generalizing table with
  | nil => simp only [parseKeys, Except.ok.injEq] at h; subst h; exact hinv
  | cons m rest ih =>
    obtain ⟨idText, key⟩ := m
    simp only [parseKeys] at h
    split at h
    · simp at h
    · rename_i id hid
      split at h
      · simp at h
      · rename_i hk
        split at h
        · simp at h
        · apply ih _ _ h
          intro e he
          rcases List.mem_append.mp he with he | he
          · exact hinv e he
          · simp only [List.mem_singleton] at he
            subst he
            simpa using hk

theorem lookup_mem {α β} [BEq α] [LawfulBEq α] {l : List (α × β)} {k : α} {v : β}
    (h : l.lookup k = some v) : (k, v) ∈ l := by
  induction l with
  | nil => simp [List.lookup] at h
  | cons x xs ih =>
    obtain ⟨a, b⟩ := x
    simp only [List.lookup] at h
    split at h
    · rename_i heq
      simp only [beq_iff_eq] at heq
      simp only [Option.some.injEq] at h
      subst heq; subst h
      exact List.mem_cons_self
    · exact List.mem_cons_of_mem _ (ih h)

/-- **C13.a** In a key table that parsed, the key found under an identifier has that identifier as
its digest: a signature naming key id `i` can only ever be checked against the key whose content
hashes to `i`. -/
theorem lookup_returns_named_key (ms : List (List Char × κ)) (out : List (Bytes × κ))
    (h : parseKeys kid ms [] = .ok out) (id : Bytes) (k : κ) (hl : out.lookup id = some k) :
    kid k = id := by
  have := parseKeys_inv kid ms [] out (by intro e he; cases he) h (id, k) (lookup_mem hl)
  exact this.symm

theorem lookup_isSome_iff {α β} [BEq α] [LawfulBEq α] (l : List (α × β)) (k : α) :
    (l.lookup k).isSome = true ↔ k ∈ l.map (·.1) := by
  induction l with
  | nil => simp [List.lookup]
  | cons x xs ih =>
    obtain ⟨a, b⟩ := x
    simp only [List.lookup, List.map_cons, List.mem_cons]
    by_cases h : k = a
    · subst h; simp
    · have : (k == a) = false := by simp [h]
      simp only [this, ih]
      constructor
      · intro hh; exact Or.inr hh
      · rintro (hh | hh)
        · exact absurd hh h
        · exact hh

/-- **C13.b (refusal, full statement).** The table parses if and only if every identifier is a hex
string that decodes to the digest of its key and no decoded identifier occurs twice (neither among
the new members nor against what is already in the table). Any number of keys. -/
theorem keys_parse_ok_iff (ms : List (List Char × κ)) (table : List (Bytes × κ)) :
    (∃ out, parseKeys kid ms table = .ok out) ↔
      (∀ m ∈ ms, decodeHex m.1 = some (kid m.2)) ∧
      (∀ m ∈ ms, kid m.2 ∉ table.map (·.1)) ∧ (ms.map (fun m => kid m.2)).Nodup := by
  induction ms generalizing table with
  | nil => simp [parseKeys]
  | cons m rest ih =>
    obtain ⟨idText, key⟩ := m
    simp only [parseKeys]
    cases hd : decodeHex idText with
    | none => simp [hd]
    | some id =>
      simp only
      by_cases hk : id = kid key
      · subst hk
        simp only [ne_eq, not_true_eq_false, ↓reduceIte]
        by_cases hl : (table.lookup (kid key)).isSome = true
        · have hm := (lookup_isSome_iff table (kid key)).mp hl
          simp only [hl, ↓reduceIte, reduceCtorEq, exists_false, false_iff, not_and]
          intro _ h2
          exact absurd hm (h2 (idText, key) List.mem_cons_self)
        · have hm : kid key ∉ table.map (·.1) := fun h => hl ((lookup_isSome_iff table (kid key)).mpr h)
          simp only [hl, Bool.false_eq_true, ↓reduceIte]
          rw [ih (table ++ [(kid key, key)])]
          constructor
          · rintro ⟨h1, h2, h3⟩
            refine ⟨?_, ?_, ?_⟩
            · intro m hm'
              rcases List.mem_cons.mp hm' with rfl | hm'
              · exact hd
              · exact h1 m hm'
            · intro m hm'
              rcases List.mem_cons.mp hm' with rfl | hm'
              · exact hm
              · intro hc
                exact h2 m hm' (by simp only [List.map_append, List.mem_append]; exact Or.inl hc)
            · simp only [List.map_cons, List.nodup_cons]
              refine ⟨?_, h3⟩
              intro hc
              obtain ⟨m, hm', he⟩ := List.mem_map.mp hc
              exact h2 m hm' (by simp [he])
          · rintro ⟨h1, h2, h3⟩
            simp only [List.map_cons, List.nodup_cons] at h3
            refine ⟨fun m hm' => h1 m (List.mem_cons_of_mem _ hm'), ?_, h3.2⟩
            intro m hm' hc
            simp only [List.map_append, List.map_cons, List.map_nil, List.mem_append, List.mem_singleton] at hc
            rcases hc with hc | hc
            · exact h2 m (List.mem_cons_of_mem _ hm') hc
            · exact h3.1 (List.mem_map.mpr ⟨m, hm', hc⟩)
      · simp only [ne_eq, hk, not_false_eq_true, ↓reduceIte, reduceCtorEq, exists_false, false_iff, not_and]
        intro h1
        have := h1 (idText, key) List.mem_cons_self
        rw [hd] at this
        simp only [Option.some.injEq] at this
        exact absurd this hk

theorem hexVal_hexChar (n : Nat) (h : n < 16) : hexVal (hexChar n) = some n := by
  have : ∀ m, m < 16 → hexVal (hexChar m) = some m := by decide
  exact this n h

/-- **C13.c** `decodeHex ∘ encodeHex = id`: identifiers the library prints for keys it generates or
imports decode to the same bytes again (stability across re-serialisation for hex-encoded values) -/
theorem hex_roundtrip (b : Bytes) (hb : ∀ x ∈ b, x < 256) : decodeHex (encodeHex b) = some b := by
  induction b with
  | nil => rfl
  | cons x xs ih =>
    have hx := hb x List.mem_cons_self
    simp only [encodeHex, decodeHex, hexVal_hexChar (x / 16) (by omega), hexVal_hexChar (x % 16) (by omega),
      ih (fun y hy => hb y (List.mem_cons_of_mem _ hy))]
    congr 2; omega

def upper : Char → Char
  | 'a' => 'A' | 'b' => 'B' | 'c' => 'C' | 'd' => 'D' | 'e' => 'E' | 'f' => 'F'
  | c => c

theorem hexVal_upper (c : Char) : hexVal (upper c) = hexVal c := by
  unfold upper
  split <;> rfl

/-- **C13.d** respelling an identifier in the other hex case does not change what it decodes to, so
the key is still found and still accepted (and an identifier that differs from another only in case
is a duplicate) -/
theorem hex_case_irrelevant : (s : List Char) → decodeHex (s.map upper) = decodeHex s
  | [] => rfl
  | [_] => rfl
  | a :: b :: rest => by
    simp only [List.map_cons, decodeHex, hexVal_upper, hex_case_irrelevant rest]

/-! ### Non-vacuity and the refusal cases of the quantifier on a toy table (kid := id) -/
example : (∃ out, parseKeys (fun k : Bytes => k) [("0a".toList, [10]), ("ff".toList, [255])] [] = .ok out) := by
  rw [keys_parse_ok_iff]; decide
example : parseKeys (fun k : Bytes => k) [("0b".toList, [10])] [] = .error .invalidKeyId := by decide
example : parseKeys (fun k : Bytes => k) [("0a".toList, [10]), ("0A".toList, [10])] [] = .error .duplicateKeyId := by decide
example : parseKeys (fun k : Bytes => k) [("0".toList, [10])] [] = .error .hex := by decide

end Tough.C13
