/-
C02 — Root rotation follows an unbroken, doubly-signed, forward-only chain.
Model: `loadRoot`/`rootLoop`/`rootStep` in `Tough/Model/Client.lean` (`load_root` in lib.rs).
-/
import Tough.Proofs.Client
import Tough.Props.C01
import Tough.Proofs.ExceptDec
namespace Tough.C02
open Tough.Sig Tough.Client

variable {cfg : Config} {srv : Server}

/-- **C02.a (full statement).** If steps 0–1 succeed with root `r`, then the shipped root `r0`
verifies under its own keys, there is a chain `r0 = a₀, a₁, …, aₙ = r` in which every `aᵢ₊₁` is the
document served as `(aᵢ.version+1).root.json`, is signed by a threshold of `aᵢ`'s root keys AND of
its own root keys, and has a higher version; and the walk stopped at `r` because version
`r.version + 1` is not available (or the file served under that name carries `r`'s own version).
In particular `r.version ≥ r0.version`. The chain length is unbounded in the statement. -/
theorem loadRoot_chain {shipped : Option Root} {st st' : St} {r : Root}
    (h : loadRoot cfg srv shipped st = (.ok r, st')) :
    ∃ r0, shipped = some r0 ∧ rootVerify r0 .root r0.msg r0.sigs = true ∧
      Chain cfg srv r0 r ∧ Stops cfg srv r ∧ r0.version ≤ r.version := by
  have ok := loadRoot_ok h
  obtain ⟨r0, e, v, c, _⟩ := ok.shipped
  exact ⟨r0, e, v, c, ok.stops, c.version_le⟩

/-- a hop is exactly: served under the next version's name, doubly signed, higher version -/
theorem hop_iff_next {a b : Root} : rootStep cfg srv a = .next b ↔ Hop cfg srv a b := by
  constructor
  · exact rootStep_next
  · intro h
    unfold rootStep
    rw [h.served]
    have := h.higher
    have h1 : ¬ b.version < a.version := by omega
    have h2 : ¬ b.version = a.version := by omega
    simp [h.byOld, h.byNew, h1, h2]

/-- **C02.b** A shipped root that does not verify under its own keys (or does not parse) is refused. -/
theorem shipped_unverified_refused (r0 : Root) (st : St)
    (h : rootVerify r0 .root r0.msg r0.sigs = false) :
    (loadRoot cfg srv (some r0) st).1 = .error .verifyShipped := by
  simp [loadRoot, h]

theorem shipped_unparsable_refused (st : St) : (loadRoot cfg srv none st).1 = .error .parseShipped := by
  simp [loadRoot]

/-- what one probe of the next version does, by what is served there (the eight ways of the
quantifier, plus the good case) -/
theorem rootStep_cases (a : Root) :
    -- not available ⇒ the walk stops with `a`
    ((fetchFile srv (.rootV (a.version + 1)) cfg.limits.maxRootSize none = .error .openNotFound ∨
      fetchFile srv (.rootV (a.version + 1)) cfg.limits.maxRootSize none = .error .openOther ∨
      fetchFile srv (.rootV (a.version + 1)) cfg.limits.maxRootSize none = .error .midNotFound) →
        rootStep cfg srv a = .stop) ∧
    -- unparsable ⇒ failure
    (fetchFile srv (.rootV (a.version + 1)) cfg.limits.maxRootSize none = .ok .garbage →
        rootStep cfg srv a = .fail (.parse .root)) ∧
    (∀ b, fetchFile srv (.rootV (a.version + 1)) cfg.limits.maxRootSize none = .ok (.root b) →
      -- not signed by a threshold of the old keys ⇒ failure
      (rootVerify a .root b.msg b.sigs = false → rootStep cfg srv a = .fail (.verify .root)) ∧
      -- not signed by a threshold of its own keys ⇒ failure
      (rootVerify b .root b.msg b.sigs = false → rootStep cfg srv a = .fail (.verify .root)) ∧
      -- doubly signed but lower version ⇒ failure
      (rootVerify a .root b.msg b.sigs = true → rootVerify b .root b.msg b.sigs = true →
        b.version < a.version → rootStep cfg srv a = .fail (.older .root)) ∧
      -- doubly signed, the trusted version itself (wrong file name) ⇒ stop, trusted root unchanged
      (rootVerify a .root b.msg b.sigs = true → rootVerify b .root b.msg b.sigs = true →
        b.version = a.version → rootStep cfg srv a = .stop) ∧
      -- doubly signed and higher (N+1 or skipping past) ⇒ accepted
      (rootVerify a .root b.msg b.sigs = true → rootVerify b .root b.msg b.sigs = true →
        a.version < b.version → rootStep cfg srv a = .next b)) := by
  refine ⟨?_, ?_, ?_⟩
  · rintro (h | h | h) <;> simp [rootStep, h]
  · intro h; simp [rootStep, h]
  · intro b hb
    refine ⟨?_, ?_, ?_, ?_, ?_⟩
    · intro h; simp [rootStep, hb, h]
    · intro h
      cases h1 : rootVerify a .root b.msg b.sigs <;> simp [rootStep, hb, h, h1]
    · intro h1 h2 h3; simp [rootStep, hb, h1, h2, h3]
    · intro h1 h2 h3; simp [rootStep, hb, h1, h2, h3]
    · intro h1 h2 h3
      have : ¬ b.version < a.version := by omega
      have : ¬ b.version = a.version := by omega
      simp [rootStep, hb, h1, h2, *]

/-- the loop follows the chain -/
theorem rootLoop_along_chain {v0 : Nat} {r a : Root} (c : Chain cfg srv r a) :
    ∀ (fuel : Nat) (st : St), v0 + cfg.limits.maxRootUpdates < r.version + fuel →
      a.version < v0 + cfg.limits.maxRootUpdates →
      ∃ fuel' st', 1 ≤ fuel' ∧ v0 + cfg.limits.maxRootUpdates < a.version + fuel' ∧
        rootLoop cfg srv v0 fuel r st = rootLoop cfg srv v0 fuel' a st' := by
  induction c with
  | refl a =>
    intro fuel st h1 h2
    exact ⟨fuel, st, by omega, h1, rfl⟩
  | @step x y z hop c' ih =>
    intro fuel st h1 h2
    have hh := hop.higher
    have hz : y.version ≤ z.version := c'.version_le
    cases fuel with
    | zero => omega
    | succ n =>
      obtain ⟨f', st', g1, g2, g3⟩ := ih n (st.req (.rootV (x.version + 1)) cfg.limits.maxRootSize) (by omega) h2
      refine ⟨f', st', g1, g2, ?_⟩
      rw [← g3]
      have hx : x.version < v0 + cfg.limits.maxRootUpdates := by omega
      have hx' : ¬ (v0 + cfg.limits.maxRootUpdates ≤ x.version) := by omega
      simp [rootLoop, hx', hop_iff_next.mpr hop]

/-- **C02.c (a broken hop fails the cycle).** If, anywhere along the chain starting at the shipped
root, the document served for the next version is broken in a way that `rootStep` classifies as a
failure (signed only by old keys, only by new keys, below either threshold, lower version,
unparsable, transport failure mid-stream), steps 0–1 fail with that error: the client does not
fall back to the last good root. -/
theorem broken_hop_fails {r0 a : Root} {e : Err} (st : St)
    (hv : rootVerify r0 .root r0.msg r0.sigs = true) (c : Chain cfg srv r0 a)
    (hb : a.version < r0.version + cfg.limits.maxRootUpdates)
    (hf : rootStep cfg srv a = .fail e) :
    (loadRoot cfg srv (some r0) st).1 = .error e := by
  obtain ⟨f', st', g1, _, g3⟩ :=
    rootLoop_along_chain (v0 := r0.version) c (cfg.limits.maxRootUpdates + 1) st (by omega) hb
  simp only [loadRoot, hv, Bool.not_true, Bool.false_eq_true, ↓reduceIte, g3]
  cases f' with
  | zero => omega
  | succ n => simp [rootLoop, hb, hf]

/-- **C02.d (only the final root authorizes).** Every top-level document of a successful cycle is
counted against the key ids that the FINAL root lists for its role: a key that some earlier root of
the chain authorized but the final root does not, contributes nothing. -/
theorem only_final_root_authorizes {shipped : Option Root} {st st' : St} {v : View}
    (h : cycle cfg srv shipped st = (.ok v, st')) (k : KeyId) :
    (∀ rk, v.root.role .timestamp = some rk → k ∉ rk.keyids → k ∉ validSigners v.root.keys rk v.ts.msg v.ts.sigs) ∧
    (∀ rk, v.root.role .snapshot = some rk → k ∉ rk.keyids → k ∉ validSigners v.root.keys rk v.snap.msg v.snap.sigs) ∧
    (∀ rk, v.root.role .targets = some rk → k ∉ rk.keyids →
      k ∉ validSigners v.root.keys rk (Tgt.doc v.tgt).msg (Tgt.doc v.tgt).sigs) := by
  refine ⟨?_, ?_, ?_⟩ <;>
  · intro rk _ hk hm
    exact hk ((C01.mem_validSigners _ _ _ _ _).mp hm).1

/-- the walk never asks for more newer roots than configured -/
theorem root_requests_bounded {r0 : Root} {st st' : St} {res : Except Err Root}
    (h : rootLoop cfg srv r0.version (cfg.limits.maxRootUpdates + 1) r0 st = (res, st')) :
    st'.reqs.length ≤ st.reqs.length + cfg.limits.maxRootUpdates := by
  rcases rootLoop_reqs _ h (Nat.le_refl _) with hb | hb
  · omega
  · rw [hb]; omega

/-! ### Non-vacuity: a two-hop chain with disjoint keys is accepted by the model -/

def k (ids : List Nat) (t : Nat) : Option RoleKeys := some ⟨ids, t⟩
def rootA : Root := ⟨1, 100, false, [1, 9], k [1] 1, k [9] 1, k [9] 1, k [9] 1, 11, [⟨1, some 1, 11⟩]⟩
def rootB : Root := ⟨2, 100, false, [2, 9], k [2] 1, k [9] 1, k [9] 1, k [9] 1, 12, [⟨1, some 1, 12⟩, ⟨2, some 2, 12⟩]⟩
def srvAB : Server := [(.rootV 2, .file ⟨.root rootB, some 10, 0, .none⟩)]
def cfg0 : Config := ⟨⟨100, 100, 100, 100, 8⟩, true, 0⟩

example : (loadRoot cfg0 srvAB (some rootA) ⟨{}, []⟩).1 = .ok rootB := by decide

end Tough.C02
