/-
C12 — Signatures bind all content the client uses; roles cannot be swapped.
Model: `Tough/Model/Schema.lean` (`norm` = parse-then-reserialise per object kind, `reser` adds the
type tag, `message` = canonical form of that = what `verify_role` checks signatures against).

What the client uses of a document IS `norm` of it (the typed struct), and signatures are checked
against `canon (reser …)`: so the signed bytes are a function of exactly the content used, and two
documents are interchangeable under a signature iff they normalise to values with the same canonical
form.  This file proves the conformance direction (a clean document written by another implementation,
unknown members included, is verified against exactly the bytes its author signed) and the value-level
role separation; the byte-level statements rest on the injectivity of the canonical form (C11).
-/
import Tough.Model.Schema
import Tough.Proofs.CJsonInj
import Tough.Proofs.CJsonOrder
namespace Tough.C12
open Tough.CJson Tough.Schema

/-! ### Clean documents: what a conforming implementation writes -/

mutual
/-- the value is of the type, in the spelling tough itself would write: times already normalised,
no null for an absent optional member, no empty `custom`, one path set per delegated role, and
unknown members only where tough's struct has a catch-all -/
def clean (env : Env) : Ty → JVal → Bool
  | .str, .str _ => true
  | .bool, .bool _ => true
  | .nat, .int i => decide (0 ≤ i ∧ i < 18446744073709551616)
  | .nznat, .int i => decide (0 < i ∧ i < 18446744073709551616)
  | .time, .str s => env.tnorm s == some s
  | .hex, .str s => isHex s
  | .any, _ => true
  | .obj k, .obj ms => fieldsOk k ms && cleanFields env k false ms
  | .arrHex, .arr xs => cleanList env .hex xs
  | .arrStr, .arr xs => cleanList env .str xs
  | .arrObj k, .arr xs => cleanList env (.obj k) xs
  | .mapAny, .obj _ => true
  | .mapObj k, .obj ms => cleanMap env (.obj k) ms
  | .roleMap, .obj ms => (memberNames ms).all (fun n => roleNames.contains n) && cleanMap env (.obj .roleKeys) ms
  | .keys, .obj ms => keysOk env ms && noDup (memberNames ms)
  | _, _ => false
def cleanList (env : Env) (t : Ty) : JList → Bool
  | .nil => true
  | .cons v rest => clean env t v && cleanList env t rest
def cleanMap (env : Env) (t : Ty) : JMembers → Bool
  | .nil => true
  | .cons _ v rest => clean env t v && cleanMap env t rest
def cleanFields (env : Env) (k : Kind) : Bool → JMembers → Bool
  | _, .nil => true
  | seen, .cons name v rest =>
    !(isPathSet k name && seen) &&
    cleanFields env k (seen || isPathSet k name) rest &&
    (match findField k name with
     | some f => !(f.req == .optional && isNull v) && clean env f.ty v && !(f.req == .defaultEmpty && isEmptyObj v)
     | none => !((tag k).isSome && name == S "_type") && hasExtra k)
end

mutual
/-- tough keeps a clean value exactly as it is -/
theorem norm_clean (env : Env) : (t : Ty) → (v : JVal) → clean env t v = true → norm env t v = some v
  | .str, .str _, _ => by simp [norm]
  | .bool, .bool _, _ => by simp [norm]
  | .nat, .int i, h => by simp only [clean, decide_eq_true_eq] at h; simp [norm, h]
  | .nznat, .int i, h => by simp only [clean, decide_eq_true_eq] at h; simp [norm, h]
  | .time, .str s, h => by simp only [clean, beq_iff_eq] at h; simp [norm, h]
  | .hex, .str s, h => by simp only [clean] at h; simp [norm, h]
  | .any, v, _ => by cases v <;> simp [norm]
  | .obj k, .obj ms, h => by
    simp only [clean, Bool.and_eq_true] at h
    simp [norm, h.1, normFields_clean env k false ms h.2]
  | .arrHex, .arr xs, h => by simp only [clean] at h; simp [norm, normList_clean env .hex xs h]
  | .arrStr, .arr xs, h => by simp only [clean] at h; simp [norm, normList_clean env .str xs h]
  | .arrObj k, .arr xs, h => by simp only [clean] at h; simp [norm, normList_clean env (.obj k) xs h]
  | .mapAny, .obj _, _ => by simp [norm]
  | .mapObj k, .obj ms, h => by simp only [clean] at h; simp [norm, normMap_clean env (.obj k) ms h]
  | .roleMap, .obj ms, h => by
    simp only [clean, Bool.and_eq_true] at h
    simp only [norm, h.1, ↓reduceIte, normMap_clean env (.obj .roleKeys) ms h.2, Option.map_some]
  | .keys, .obj ms, h => by simp only [clean] at h; simp [norm, h]
  | .str, .null, h | .str, .bool _, h | .str, .int _, h | .str, .float, h | .str, .arr _, h | .str, .obj _, h => by simp [clean] at h
  | .bool, .null, h | .bool, .str _, h | .bool, .int _, h | .bool, .float, h | .bool, .arr _, h | .bool, .obj _, h => by simp [clean] at h
  | .nat, .null, h | .nat, .str _, h | .nat, .bool _, h | .nat, .float, h | .nat, .arr _, h | .nat, .obj _, h => by simp [clean] at h
  | .nznat, .null, h | .nznat, .str _, h | .nznat, .bool _, h | .nznat, .float, h | .nznat, .arr _, h | .nznat, .obj _, h => by simp [clean] at h
  | .time, .null, h | .time, .bool _, h | .time, .int _, h | .time, .float, h | .time, .arr _, h | .time, .obj _, h => by simp [clean] at h
  | .hex, .null, h | .hex, .bool _, h | .hex, .int _, h | .hex, .float, h | .hex, .arr _, h | .hex, .obj _, h => by simp [clean] at h
  | .obj _, .null, h | .obj _, .bool _, h | .obj _, .int _, h | .obj _, .float, h | .obj _, .arr _, h | .obj _, .str _, h => by simp [clean] at h
  | .arrHex, .null, h | .arrHex, .bool _, h | .arrHex, .int _, h | .arrHex, .float, h | .arrHex, .obj _, h | .arrHex, .str _, h => by simp [clean] at h
  | .arrStr, .null, h | .arrStr, .bool _, h | .arrStr, .int _, h | .arrStr, .float, h | .arrStr, .obj _, h | .arrStr, .str _, h => by simp [clean] at h
  | .arrObj _, .null, h | .arrObj _, .bool _, h | .arrObj _, .int _, h | .arrObj _, .float, h | .arrObj _, .obj _, h | .arrObj _, .str _, h => by simp [clean] at h
  | .mapAny, .null, h | .mapAny, .bool _, h | .mapAny, .int _, h | .mapAny, .float, h | .mapAny, .arr _, h | .mapAny, .str _, h => by simp [clean] at h
  | .mapObj _, .null, h | .mapObj _, .bool _, h | .mapObj _, .int _, h | .mapObj _, .float, h | .mapObj _, .arr _, h | .mapObj _, .str _, h => by simp [clean] at h
  | .roleMap, .null, h | .roleMap, .bool _, h | .roleMap, .int _, h | .roleMap, .float, h | .roleMap, .arr _, h | .roleMap, .str _, h => by simp [clean] at h
  | .keys, .null, h | .keys, .bool _, h | .keys, .int _, h | .keys, .float, h | .keys, .arr _, h | .keys, .str _, h => by simp [clean] at h
theorem normList_clean (env : Env) (t : Ty) : (xs : JList) → cleanList env t xs = true → normList env t xs = some xs
  | .nil, _ => by simp [normList]
  | .cons v rest, h => by
    simp only [cleanList, Bool.and_eq_true] at h
    simp [normList, norm_clean env t v h.1, normList_clean env t rest h.2]
theorem normMap_clean (env : Env) (t : Ty) : (ms : JMembers) → cleanMap env t ms = true → normMap env t ms = some ms
  | .nil, _ => by simp [normMap]
  | .cons k v rest, h => by
    simp only [cleanMap, Bool.and_eq_true] at h
    simp [normMap, norm_clean env t v h.1, normMap_clean env t rest h.2]
theorem normFields_clean (env : Env) (k : Kind) : (seen : Bool) → (ms : JMembers) → cleanFields env k seen ms = true →
    normFields env k seen ms = some ms
  | _, .nil, _ => by simp [normFields]
  | seen, .cons name v rest, h => by
    simp only [cleanFields, Bool.and_eq_true, Bool.not_eq_true'] at h
    obtain ⟨⟨h1, h2⟩, h3⟩ := h
    have ih := normFields_clean env k (seen || isPathSet k name) rest h2
    simp only [normFields, h1, Bool.false_eq_true, ↓reduceIte, ih]
    cases hf : findField k name with
    | some f =>
      simp only [hf, Bool.and_eq_true, Bool.not_eq_true'] at h3
      obtain ⟨⟨a, b⟩, c⟩ := h3
      simp [a, norm_clean env f.ty v b, c]
    | none =>
      simp only [hf, Bool.and_eq_true, Bool.not_eq_true'] at h3
      simp [h3.1, h3.2]
end

theorem all_congr' {α : Type} (l : List α) (p q : α → Bool) (h : ∀ a ∈ l, p a = q a) : l.all p = l.all q := by
  induction l with
  | nil => rfl
  | cons a as ih =>
    simp only [List.all_cons]
    rw [h a (List.mem_cons_self ..), ih (fun b hb => h b (List.mem_cons_of_mem _ hb))]

theorem findField_type (k : Kind) : findField k (S "_type") = none := by cases k <;> decide
theorem isPathSet_type (k : Kind) : isPathSet k (S "_type") = false := by cases k <;> decide
theorem fields_not_type (k : Kind) : ∀ f ∈ fields k, (S "_type" == f.name) = false := by cases k <;> decide

theorem fieldsOk_tag (k : Kind) (t : Str) (ms : JMembers) :
    fieldsOk k (.cons (S "_type") (.str t) ms) = fieldsOk k ms := by
  simp only [fieldsOk, memberNames, List.any_cons, isPathSet_type, Bool.false_or]
  congr 1
  apply all_congr'
  intro f hf
  have := fields_not_type k f hf
  simp only [List.count_cons, this, Bool.false_eq_true, ↓reduceIte, Nat.add_zero]

/-- **C12.a (conforming documents, extra members included — `_partial`: see below).** A document of a
top-level role written the clean way — the type tag first, then members that are of their types,
with unknown members at ANY level where tough's struct has a catch-all — is verified against exactly
the canonical form of the document as its author wrote it.  So whatever threshold of authorized keys
signed that canonical form makes tough accept it.

Partial with respect to the property: `clean` admits no unknown member inside `delegations` and inside
an entry of `delegations.roles`, where tough's structs have no catch-all (known finding C12-extras-*):
there the statement is false, see `extras_in_delegations_change_the_message_witness`. -/
theorem conforming_document_message_partial (env : Env) (k : Kind) (t : Str) (ms : JMembers)
    (hk : tag k = some t) (hc : clean env (.obj k) (.obj ms) = true) :
    message env k (.obj (.cons (S "_type") (.str t) ms)) = canon env.nfc (.obj (.cons (S "_type") (.str t) ms)) := by
  have hn := norm_clean env (.obj k) (.obj ms) hc
  simp only [clean, Bool.and_eq_true] at hc
  have hn2 : norm env (.obj k) (.obj (.cons (S "_type") (.str t) ms)) = some (.obj ms) := by
    simp only [norm, fieldsOk_tag, hc.1, ↓reduceIte]
    simp only [normFields, isPathSet_type, Bool.false_and, Bool.false_eq_true, ↓reduceIte, Bool.or_false, findField_type, hk,
      Option.isSome_some, beq_self_eq_true, Bool.and_self]
    simp only [norm, hc.1, ↓reduceIte] at hn
    cases hx : normFields env k false ms with
    | none => simp [hx] at hn
    | some ms' => simp only [hx, Option.map_some, Option.some.injEq, JVal.obj.injEq] at hn; simp [hn]
  simp only [message, reser, hn2, hk]

/-- **C12.b (role separation, at the level of values).** Whatever the document says about its own
type, what tough verifies signatures against carries the tag of the role it is being read AS, as its
first member: a document read as two different roles is never checked against the same value. -/
theorem reser_tag (env : Env) (k : Kind) (j v : JVal) (t : Str) (hk : tag k = some t) (h : reser env k j = some v) :
    ∃ ms, v = .obj (.cons (S "_type") (.str t) ms) := by
  unfold reser at h
  rw [hk] at h
  cases hn : norm env (.obj k) j with
  | none => simp [hn] at h
  | some w =>
    cases w with
    | obj ms => simp only [hn, Option.some.injEq] at h; exact ⟨ms, h.symm⟩
    | null => simp [hn] at h
    | bool b => simp [hn] at h
    | int i => simp [hn] at h
    | float => simp [hn] at h
    | str s => simp [hn] at h
    | arr xs => simp [hn] at h

theorem reser_roles_differ (env : Env) (k k' : Kind) (j j' v v' : JVal) (t t' : Str)
    (hk : tag k = some t) (hk' : tag k' = some t') (hne : t ≠ t')
    (h : reser env k j = some v) (h' : reser env k' j' = some v') : v ≠ v' := by
  obtain ⟨ms, rfl⟩ := reser_tag env k j v t hk h
  obtain ⟨ms', rfl⟩ := reser_tag env k' j' v' t' hk' h'
  intro e
  simp only [JVal.obj.injEq, JMembers.cons.injEq, JVal.str.injEq, true_and] at e
  exact hne e.1

/-- the four role tags are pairwise different -/
theorem tags_differ : ∀ k k' : Kind, ∀ t t' : Str, tag k = some t → tag k' = some t' → k ≠ k' → t ≠ t' := by
  intro k k' t t' h h' hne
  cases k <;> cases k' <;> simp only [tag, Option.some.injEq, reduceCtorEq] at h h' <;> first | exact absurd rfl hne | (subst h; subst h'; decide)

/-- **C12.c (the signed bytes determine what is used).** Two documents that tough reads as the same
role and whose signatures it checks against the same bytes have the same re-serialised content up to
the normal form of C11 (string normalisation, member order, a later duplicate replacing an earlier one):
whoever changes a value that survives parsing — at any nesting level, inside members tough merely
carries along included — changes the bytes, and with unforgeable signatures the document is refused.
(Uses the injectivity of the canonical form, `canon_injective`.) -/
theorem signed_bytes_determine_content (env : Env) (hn : NfcOk env.nfc) (k : Kind) (j j' v v' : JVal)
    (hv : reser env k j = some v) (hv' : reser env k j' = some v')
    (val : validJ v = true) (val' : validJ v' = true)
    (b : Bytes) (hm : message env k j = some b) (hm' : message env k j' = some b) :
    nrm env.nfc v = nrm env.nfc v' := by
  simp only [message, hv] at hm
  simp only [message, hv'] at hm'
  exact canon_injective hn v v' val val' b hm hm'

/-! ### Role separation at the level of the signed bytes -/

/-- the first member with that key -/
def getJ (k : Str) : JMembers → Option JVal
  | .nil => none
  | .cons k' v rest => if k' = k then some v else getJ k rest

theorem getJ_insertJ_same (k : Str) (v : JVal) : ∀ acc : JMembers, getJ k (insertJ k v acc) = some v
  | .nil => by simp [insertJ, getJ]
  | .cons k' v' rest => by
    simp only [insertJ]
    split
    · simp [getJ]
    · split
      · rename_i h1 h2
        have hne : k' ≠ k := by
          intro e; subst e; rw [strLt_irrefl] at h2; cases h2
        simp only [getJ, hne, ↓reduceIte]
        exact getJ_insertJ_same k v rest
      · simp [getJ]

theorem getJ_insertJ_other (k k2 : Str) (v : JVal) (hne : k2 ≠ k) : ∀ acc : JMembers, getJ k (insertJ k2 v acc) = getJ k acc
  | .nil => by simp [insertJ, getJ, hne]
  | .cons k' v' rest => by
    simp only [insertJ]
    split
    · simp [getJ, hne]
    · split
      · simp only [getJ]
        split
        · rfl
        · exact getJ_insertJ_other k k2 v hne rest
      · rename_i h1 h2
        have e : k2 = k' := strLt_trichotomy (by simpa using h1) (by simpa using h2)
        subst e
        simp [getJ, hne]

theorem getJ_sortJAux (k : Str) : ∀ (ms acc : JMembers), k ∉ memberNames ms → getJ k (sortJAux ms acc) = getJ k acc
  | .nil, acc, _ => rfl
  | .cons k' v' rest, acc, h => by
    simp only [memberNames, List.mem_cons, not_or] at h
    simp only [sortJAux]
    rw [getJ_sortJAux k rest (insertJ k' v' acc) h.2]
    exact getJ_insertJ_other k k' v' (fun e => h.1 e.symm) acc

/-- a key that occurs once, as the first member, keeps its value through the ordering of the members -/
theorem getJ_sortJ_head (k : Str) (v : JVal) (ms : JMembers) (h : k ∉ memberNames ms) :
    getJ k (sortJ (.cons k v ms)) = some v := by
  simp only [sortJ, sortJAux]
  rw [getJ_sortJAux k ms _ h]
  exact getJ_insertJ_same k v .nil

theorem memberNames_nrmM (nfc : Str → Str) : ∀ ms : JMembers, memberNames (nrmM nfc ms) = (memberNames ms).map (normStr nfc)
  | .nil => by simp [nrmM, memberNames]
  | .cons k v rest => by simp [nrmM, memberNames, memberNames_nrmM nfc rest]

/-- the members tough keeps of a top-level role never include `_type`: it is written from the Rust type -/
theorem normFields_no_type (env : Env) (k : Kind) (hk : (tag k).isSome = true) :
    ∀ (ms : JMembers) (seen : Bool) (out : JMembers), normFields env k seen ms = some out → S "_type" ∉ memberNames out
  | .nil, seen, out, h => by
    simp only [normFields, Option.some.injEq] at h; subst h; simp [memberNames]
  | .cons name v rest, seen, out, h => by
    simp only [normFields] at h
    split at h
    · exact normFields_no_type env k hk rest true out h
    · cases hr : normFields env k (seen || isPathSet k name) rest with
      | none => simp [hr] at h
      | some rest' =>
        have ih := normFields_no_type env k hk rest _ rest' hr
        simp only [hr] at h
        cases hf : findField k name with
        | some f =>
          simp only [hf] at h
          have hname : name ≠ S "_type" := by
            intro e; subst e; rw [findField_type] at hf; cases hf
          split at h
          · simp only [Option.some.injEq] at h; subst h; exact ih
          · cases hn : norm env f.ty v with
            | none => simp [hn] at h
            | some v' =>
              simp only [hn] at h
              split at h
              · simp only [Option.some.injEq] at h; subst h; exact ih
              · simp only [Option.some.injEq] at h; subst h
                simp only [memberNames, List.mem_cons, not_or]
                exact ⟨fun e => hname e.symm, ih⟩
        | none =>
          simp only [hf, hk, Bool.true_and] at h
          split at h
          · simp only [Option.some.injEq] at h; subst h; exact ih
          · rename_i hnt
            have hname : name ≠ S "_type" := by
              intro e; subst e; simp at hnt
            split at h
            · simp only [Option.some.injEq] at h; subst h
              simp only [memberNames, List.mem_cons, not_or]
              exact ⟨fun e => hname e.symm, ih⟩
            · simp only [Option.some.injEq] at h; subst h; exact ih

/-- what the theorem below assumes about string normalisation, beyond `NfcOk` (Unicode NFC satisfies
both: ASCII text is already normalised, and nothing else normalises to ASCII letters or `_`) -/
structure TagOk (nfc : Str → Str) : Prop where
  tagsFixed : ∀ t ∈ roleNames, normStr nfc t = t
  typeOnly : ∀ k, normStr nfc k = normStr nfc (S "_type") → k = S "_type"

theorem tagOk_id : TagOk id := by
  have hid : ∀ s : Str, normStr id s = s := by
    intro s
    have aux : ∀ (s acc : Str), normStrAux id s acc = acc.reverse ++ s := by
      intro s
      induction s with
      | nil => intro acc; simp only [normStrAux]; split <;> simp_all
      | cons c cs ih =>
        intro acc
        simp only [normStrAux]
        split
        · split
          · rename_i h; simp only [List.isEmpty_iff] at h; subst h; simp [ih]
          · simp [ih]
        · rw [ih]; simp
    simp [normStr, aux]
  exact ⟨fun t _ => hid t, fun k h => by rw [hid, hid] at h; exact h⟩

/-- **C12.d (role separation, at the level of the signed bytes).** A document read as one top-level
role and a document read as another are never checked against the same bytes — even when the same key
is authorized for both roles, a signature over one is not a signature over the other.  (Value-level
separation `reser_tag` + injectivity of the canonical form up to its normal form + the type tag
surviving that normal form.) -/
theorem roles_never_share_signed_bytes (env : Env) (hn : NfcOk env.nfc) (ht : TagOk env.nfc)
    (k k' : Kind) (t t' : Str) (hk : tag k = some t) (hk' : tag k' = some t') (hne : k ≠ k')
    (j j' v v' : JVal) (hv : reser env k j = some v) (hv' : reser env k' j' = some v')
    (val : validJ v = true) (val' : validJ v' = true)
    (b : Bytes) (hm : message env k j = some b) (hm' : message env k' j' = some b) : False := by
  have hnrm : nrm env.nfc v = nrm env.nfc v' := by
    simp only [message, hv] at hm
    simp only [message, hv'] at hm'
    exact canon_injective hn v v' val val' b hm hm'
  -- the shape of the two values
  have shape : ∀ (k : Kind) (t : Str) (j v : JVal), tag k = some t → reser env k j = some v →
      ∃ ms, v = .obj (.cons (S "_type") (.str t) ms) ∧ S "_type" ∉ memberNames ms := by
    intro k t j v hk h
    unfold reser at h
    rw [hk] at h
    cases hno : norm env (.obj k) j with
    | none => simp [hno] at h
    | some w =>
      cases w with
      | obj ms =>
        simp only [hno, Option.some.injEq] at h
        refine ⟨ms, h.symm, ?_⟩
        cases j with
        | obj js =>
          simp only [norm] at hno
          split at hno
          · cases hf : normFields env k false js with
            | none => simp [hf] at hno
            | some out =>
              simp only [hf, Option.map_some, Option.some.injEq, JVal.obj.injEq] at hno
              subst hno
              exact normFields_no_type env k (by rw [hk]; rfl) js false out hf
          · cases hno
        | null => simp [norm] at hno
        | bool b => simp [norm] at hno
        | int i => simp [norm] at hno
        | float => simp [norm] at hno
        | str s => simp [norm] at hno
        | arr xs => simp [norm] at hno
      | null => simp [hno] at h
      | bool b => simp [hno] at h
      | int i => simp [hno] at h
      | float => simp [hno] at h
      | str s => simp [hno] at h
      | arr xs => simp [hno] at h
  obtain ⟨ms, rfl, hms⟩ := shape k t j v hk hv
  obtain ⟨ms', rfl, hms'⟩ := shape k' t' j' v' hk' hv'
  have key : ∀ (t : Str) (ms : JMembers), S "_type" ∉ memberNames ms →
      getJ (normStr env.nfc (S "_type")) (sortJ (nrmM env.nfc (.cons (S "_type") (.str t) ms))) = some (.str (normStr env.nfc t)) := by
    intro t ms h
    simp only [nrmM, nrm]
    apply getJ_sortJ_head
    rw [memberNames_nrmM]
    intro hmem
    obtain ⟨x, hx, e⟩ := List.mem_map.mp hmem
    exact h (ht.typeOnly x e ▸ hx)
  simp only [nrm, JVal.obj.injEq] at hnrm
  have e1 := key t ms hms
  have e2 := key t' ms' hms'
  rw [hnrm, e2] at e1
  simp only [Option.some.injEq, JVal.str.injEq] at e1
  have tin : ∀ (k : Kind) (t : Str), tag k = some t → t ∈ roleNames := by
    intro k t h
    cases k <;> simp only [tag, Option.some.injEq, reduceCtorEq] at h <;> (subst h; decide)
  rw [ht.tagsFixed t (tin k t hk), ht.tagsFixed t' (tin k' t' hk')] at e1
  exact tags_differ k' k t' t hk' hk (fun e => hne e.symm) e1

/-! ### Witnesses -/

def envW : Env := { nfc := id, tnorm := some, keyOk := fun _ _ => true }

def mems : List (String × JVal) → JMembers
  | [] => .nil
  | (k, v) :: rest => .cons (S k) v (mems rest)

def delegW (extra : List (String × JVal)) : JVal :=
  .obj (mems ([("keys", .obj .nil), ("roles", .arr .nil)] ++ extra))

/-- one document that parses as a snapshot and as a timestamp (same members): both readings have a
message, and the two messages differ — the premises of `roles_never_share_signed_bytes` other than the
equality of the bytes are satisfiable -/
def onlineW : JVal := .obj (mems [("_type", .str (S "snapshot")), ("spec_version", .str (S "1.0.0")), ("version", .int 3),
  ("expires", .str (S "2031-05-06T07:08:09Z")), ("meta", .obj .nil)])

example : (message envW .snapshot onlineW).isSome = true ∧ (message envW .timestamp onlineW).isSome = true ∧
    message envW .snapshot onlineW ≠ message envW .timestamp onlineW := by decide

/-- a small targets document; `topExtra` / `delegExtra`: unknown members at the top level / inside `delegations` -/
def targetsW (topExtra delegExtra : List (String × JVal)) : JMembers :=
  mems ([("spec_version", .str (S "1.0.0")), ("version", .int 3), ("expires", .str (S "2031-05-06T07:08:09Z")),
    ("targets", .obj .nil), ("delegations", delegW delegExtra)] ++ topExtra)

/-- the hypotheses of `conforming_document_message_partial` are satisfiable, unknown members included -/
example : clean envW (.obj .targets) (.obj (targetsW [("x-unknown", .arr (.cons (.int 1) (.cons .null .nil)))] [])) = true := by decide

/-- an unknown member inside `delegations` is dropped when the document is read: what signatures are
checked against is no longer what the author signed (the known finding; on the real code: harness
class `targets-base-extras-in-delegations`) -/
theorem extras_in_delegations_change_the_message_witness :
    message envW .targets (.obj (.cons (S "_type") (.str (S "targets")) (targetsW [] [("x-deleg", .int 1)]))) ≠
      canon id (.obj (.cons (S "_type") (.str (S "targets")) (targetsW [] [("x-deleg", .int 1)]))) := by
  decide

end Tough.C12
