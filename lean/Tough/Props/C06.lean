/-
C06 — Target bytes delivered to the caller are exactly the signed content.
Model: `Tough/Model/Stream.lean` (the adapters of io.rs behind `read_target` / `fetch_target`),
`Tgt.find` of `Tough/Model/Client.lean` for "not found".
-/
import Tough.Model.Stream
import Tough.Model.Client
namespace Tough.C06
open Tough.Stream

variable (H : Bytes → Nat)

theorem consume_maxSize_le (max : Nat) (size : Nat) (s : List Item) (hs : size ≤ max) :
    size + (consume (maxSize max size s)).1.length ≤ max := by
  induction s generalizing size with
  | nil => simp [maxSize, consume]; exact hs
  | cons i rest ih =>
    cases i with
    | data b =>
      simp only [maxSize]
      split
      · simp [consume]; exact hs
      · rename_i h
        simp only [consume, List.length_append]
        have := ih (size + b.length) (by omega)
        omega
    | err k =>
      simp only [maxSize]
      split <;> (simp [consume]; exact hs)

theorem consume_digest_eq (expected : Nat) (acc : Bytes) (s : List Item) :
    (consume (digestAdapter H expected acc s)).1 = (consume s).1 := by
  induction s generalizing acc with
  | nil => simp only [digestAdapter]; split <;> rfl
  | cons i rest ih =>
    cases i with
    | data b => simp only [digestAdapter, consume, ih]
    | err k => simp [digestAdapter, consume]

/-- **C06.a** Whatever the transport yields — any chunking, any corruption, an endless stream, errors
anywhere — the consumer is never handed more than the signed length in bytes (this holds for every
finite prefix of the stream, hence for endless streams). -/
theorem delivered_le_length (max expected : Nat) (s : List Item) :
    (consume (fetchSha256 H max expected s)).1.length ≤ max := by
  unfold fetchSha256
  rw [consume_digest_eq]
  have := consume_maxSize_le max 0 s (Nat.zero_le _)
  omega

theorem maxSize_noErr_iff (max size : Nat) (s : List Item) (hs : size ≤ max) :
    noErr (maxSize max size s) = true ↔ noErr s = true ∧ size + (content s).length ≤ max := by
  induction s generalizing size with
  | nil => simp [maxSize, noErr, content]; exact hs
  | cons i rest ih =>
    cases i with
    | data b =>
      simp only [maxSize]
      by_cases h : size + b.length > max
      · simp only [h, ↓reduceIte, noErr, List.all_cons, Bool.false_and, Bool.false_eq_true, content,
          List.length_append, false_iff, not_and]
        intro _; omega
      · simp only [h, ↓reduceIte, noErr, List.all_cons, Bool.true_and, content, List.length_append]
        have := ih (size + b.length) (by omega)
        simp only [noErr] at this
        rw [this]
        constructor
        · rintro ⟨a, b'⟩; exact ⟨a, by omega⟩
        · rintro ⟨a, b'⟩; exact ⟨a, by omega⟩
    | err k =>
      simp only [maxSize]
      split <;> simp [noErr]

theorem maxSize_noErr_id (max size : Nat) (s : List Item) (h : noErr (maxSize max size s) = true) :
    maxSize max size s = s := by
  induction s generalizing size with
  | nil => rfl
  | cons i rest ih =>
    cases i with
    | data b =>
      simp only [maxSize] at h ⊢
      split
      · rename_i hc; simp [hc, noErr] at h
      · rename_i hc
        simp only [hc, ↓reduceIte, noErr, List.all_cons, Bool.true_and] at h
        rw [ih _ (by simpa [noErr] using h)]
    | err k =>
      simp only [maxSize] at h
      split at h <;> simp [noErr] at h

theorem digest_noErr_iff (expected : Nat) (acc : Bytes) (s : List Item) :
    noErr (digestAdapter H expected acc s) = true ↔ noErr s = true ∧ H (acc ++ content s) = expected := by
  induction s generalizing acc with
  | nil =>
    simp only [digestAdapter, content, List.append_nil]
    split <;> simp_all [noErr]
  | cons i rest ih =>
    cases i with
    | data b =>
      simp only [digestAdapter, noErr, List.all_cons, Bool.true_and, content]
      have := ih (acc ++ b)
      simp only [noErr] at this
      rw [this, List.append_assoc]
    | err k => simp [digestAdapter, noErr]

/-- **C06.b (full statement).** The stream handed to the caller ends without error if and only if
the transport stream had no error, its content is not longer than the signed length, and the
SHA-256 of its content equals the digest recorded in the trusted targets metadata. -/
theorem clean_end_iff (max expected : Nat) (s : List Item) :
    noErr (fetchSha256 H max expected s) = true ↔
      noErr s = true ∧ (content s).length ≤ max ∧ H (content s) = expected := by
  unfold fetchSha256
  rw [digest_noErr_iff]
  constructor
  · rintro ⟨h1, h2⟩
    have hid := maxSize_noErr_id max 0 s h1
    rw [hid] at h1 h2
    have := (maxSize_noErr_iff max 0 s (Nat.zero_le _)).mp (by rw [hid]; exact h1)
    exact ⟨h1, by omega, by simpa using h2⟩
  · rintro ⟨h1, h2, h3⟩
    have hm := (maxSize_noErr_iff max 0 s (Nat.zero_le _)).mpr ⟨h1, by omega⟩
    have hid := maxSize_noErr_id max 0 s hm
    rw [hid]
    exact ⟨h1, by simpa using h3⟩

theorem consume_noErr (s : List Item) (h : noErr s = true) : consume s = (content s, true) := by
  induction s with
  | nil => rfl
  | cons i rest ih =>
    cases i with
    | data b =>
      simp only [noErr, List.all_cons, Bool.true_and] at h
      simp only [consume, content, ih (by simpa [noErr] using h)]
    | err k => simp [noErr] at h

theorem digest_noErr_id (expected : Nat) (acc : Bytes) (s : List Item)
    (h : noErr (digestAdapter H expected acc s) = true) : digestAdapter H expected acc s = s := by
  induction s generalizing acc with
  | nil => simp only [digestAdapter] at h ⊢; split at h <;> simp_all [noErr]
  | cons i rest ih =>
    cases i with
    | data b =>
      simp only [digestAdapter, noErr, List.all_cons, Bool.true_and] at h ⊢
      rw [ih _ (by simpa [noErr] using h)]
    | err k => simp [digestAdapter, noErr] at h

/-- **C06.c** If it ends without error, what was handed on is exactly the transported content, whose
SHA-256 is the recorded digest. -/
theorem clean_end_content (max expected : Nat) (s : List Item)
    (h : noErr (fetchSha256 H max expected s) = true) :
    consume (fetchSha256 H max expected s) = (content s, true) ∧ H (content s) = expected := by
  have hiff := (clean_end_iff H max expected s).mp h
  unfold fetchSha256 at h ⊢
  have h1 := digest_noErr_id H expected [] _ h
  rw [h1] at h ⊢
  have h2 := maxSize_noErr_id max 0 s h
  rw [h2] at h ⊢
  exact ⟨consume_noErr s h, hiff.2.2⟩

/-- and conversely the consumer sees an error whenever the content is anything else -/
theorem any_other_content_errors (max expected : Nat) (s : List Item)
    (h : H (content s) ≠ expected ∨ max < (content s).length ∨ noErr s = false) :
    noErr (fetchSha256 H max expected s) = false := by
  cases hn : noErr (fetchSha256 H max expected s) with
  | false => rfl
  | true =>
    obtain ⟨a, b, c⟩ := (clean_end_iff H max expected s).mp hn
    rcases h with h | h | h
    · exact absurd c h
    · omega
    · rw [a] at h; cases h

/-- **C06.d** The verdict does not depend on how the transport cuts the content into chunks. -/
theorem chunking_irrelevant (max expected : Nat) (s₁ s₂ : List Item)
    (hc : content s₁ = content s₂) (h1 : noErr s₁ = true) (h2 : noErr s₂ = true) :
    noErr (fetchSha256 H max expected s₁) = noErr (fetchSha256 H max expected s₂) := by
  apply Bool.eq_iff_iff.mpr
  rw [clean_end_iff, clean_end_iff, hc, h1, h2]

/-- **C06.e** a name without an authorized entry yields "not found", no data -/
theorem not_found (t : Tough.Client.Tgt) (n : Nat) (h : Tough.Client.Tgt.find n t = none) :
    (Tough.Client.Tgt.find n t).isSome = false := by simp [h]

/-! ### Non-vacuity / examples (H := sum of bytes) -/
def Hsum (b : Bytes) : Nat := b.foldl (· + ·) 0
example : consume (fetchSha256 Hsum 4 6 [.data [1, 2], .data [3]]) = ([1, 2, 3], true) := by decide
example : consume (fetchSha256 Hsum 4 6 [.data [1, 2], .data [3], .data [0, 0]]) = ([1, 2, 3], false) := by decide
example : consume (fetchSha256 Hsum 4 7 [.data [1, 2], .data [3]]) = ([1, 2, 3], false) := by decide

end Tough.C06
