/-
C08 — Saving a target is atomic, verified-only and confined to the output directory.
Model: `Tough/Model/Save.lean` (`cleanName`, `saveTrace`), streams of `Tough/Model/Stream.lean`.
"No moment at which partial content is observable" is stated over the model's operation trace
(every prefix of the trace); that `rename` is atomic is POSIX, not proved here.
-/
import Tough.Model.Save
import Tough.Props.C06
namespace Tough.C08
open Tough.Stream Tough.Save

/-! ### names -/

theorem mem_normalizeComps_aux (comps st : List Str) (hst : ∀ c ∈ st, c ≠ ['.'] ∧ c ≠ ['.', '.'] ∧ c ≠ []) 
    (hc : ∀ c ∈ comps, c ≠ []) :
    ∀ c ∈ comps.foldl (fun st c =>
      if c = ['.'] then st else if c = ['.', '.'] then st.dropLast else st ++ [c]) st,
      c ≠ ['.'] ∧ c ≠ ['.', '.'] ∧ c ≠ [] := by
  induction comps generalizing st with
  | nil => simpa using hst
  | cons x xs ih =>
    simp only [List.foldl_cons]
    apply ih
    · split
      · exact hst
      · split
        · intro c hc'; exact hst c (List.dropLast_subset _ hc')
        · rename_i h1 h2
          intro c hc'
          rcases List.mem_append.mp hc' with h | h
          · exact hst c h
          · simp only [List.mem_singleton] at h
            subst h
            exact ⟨h1, h2, hc c List.mem_cons_self⟩
    · intro c hc'; exact hc c (List.mem_cons_of_mem _ hc')

/-- **C08.a** Whatever `..` segments, leading slashes, repeated separators or other characters a
target name contains: the components of the resolved name are never empty, `.` or `..`. -/
theorem resolved_components_safe (name : Str) :
    ∀ c ∈ normalizeComps ((splitSlash name).filter (· ≠ [])), c ≠ ['.'] ∧ c ≠ ['.', '.'] ∧ c ≠ [] := by
  apply mem_normalizeComps_aux
  · intro c hc; cases hc
  · intro c hc
    simp only [List.mem_filter, decide_eq_true_eq] at hc
    exact hc.2

theorem cleanName_shape (name r : Str) (h : cleanName name = .ok r) :
    r = cleanCore name ∧ r ≠ [] ∧ r ≠ ['/'] ∧ name ≠ [] := by
  unfold cleanName at h
  split at h
  · simp at h
  · split at h
    · simp at h
    · split at h
      · simp at h
      · split at h
        · simp at h
        · rename_i h0 h1 h2
          simp only [Except.ok.injEq] at h
          subst h
          exact ⟨rfl, h1, h2, h0⟩

/-- the resolved name is the `/`-join of safe components, with a leading `/` iff the name had one -/
theorem cleanCore_shape (name : Str) :
    cleanCore name = joinSlash (normalizeComps ((splitSlash name).filter (· ≠ []))) ∨
    cleanCore name = '/' :: joinSlash (normalizeComps ((splitSlash name).filter (· ≠ []))) := by
  unfold cleanCore
  simp only
  split
  · exact Or.inr rfl
  · exact Or.inl rfl

/-! ### the file system map -/

theorem get_del_ne (fs : FS) (p q : Path) (h : q ≠ p) : (fs.del p).get q = fs.get q := by
  unfold FS.del FS.get
  induction fs with
  | nil => rfl
  | cons x xs ih =>
    obtain ⟨a, b⟩ := x
    rw [List.filter_cons]
    by_cases ha : a = p
    · have e1 : (!(a == p)) = false := by simp [ha]
      have e2 : (q == a) = false := by simp [ha, h]
      simp only [e1, Bool.false_eq_true, ↓reduceIte, List.lookup, e2]
      exact ih
    · have e1 : (!(a == p)) = true := by simp [ha]
      simp only [e1, ↓reduceIte, List.lookup]
      split
      · rfl
      · exact ih

theorem get_del_same (fs : FS) (p : Path) : (fs.del p).get p = none := by
  unfold FS.del FS.get
  induction fs with
  | nil => rfl
  | cons x xs ih =>
    obtain ⟨a, b⟩ := x
    rw [List.filter_cons]
    by_cases ha : a = p
    · have e1 : (!(a == p)) = false := by simp [ha]
      simp only [e1, Bool.false_eq_true, ↓reduceIte]
      exact ih
    · have e1 : (!(a == p)) = true := by simp [ha]
      have e2 : (p == a) = false := by simp [Ne.symm ha]
      simp only [e1, ↓reduceIte, List.lookup, e2]
      exact ih

theorem get_set_ne (fs : FS) (p q : Path) (b : Bytes) (h : q ≠ p) : (fs.set p b).get q = fs.get q := by
  have e : (q == p) = false := by simp [h]
  have := get_del_ne fs p q h
  unfold FS.get at this ⊢
  simp only [FS.set, List.lookup, e]
  exact this

theorem get_set_same (fs : FS) (p : Path) (b : Bytes) : (fs.set p b).get p = some b := by
  simp [FS.set, FS.get, List.lookup]

/-- while the temp file is being written nothing but the temp file changes, and it holds exactly
the data handed on so far -/
theorem writeOps_effect (t : Path) (items : List Item) (fs : FS) (cur : Bytes) (hcur : fs.get t = some cur) :
    ∀ k, (∀ q, q ≠ t → (applyOps fs ((writeOps t items).1.take k)).get q = fs.get q) ∧
      ((applyOps fs (writeOps t items).1).get t = some (cur ++ (consume items).1)) := by
  induction items generalizing fs cur with
  | nil => intro k; simp [writeOps, applyOps, consume, hcur]
  | cons i rest ih =>
    cases i with
    | data b =>
      intro k
      simp only [writeOps, consume]
      have hstep : (applyOp fs (.write t b)).get t = some (cur ++ b) := by
        simp [applyOp, hcur, get_set_same]
      have hother : ∀ q, q ≠ t → (applyOp fs (.write t b)).get q = fs.get q := by
        intro q hq; simp [applyOp, get_set_ne _ _ _ _ hq]
      refine ⟨?_, ?_⟩
      · intro q hq
        cases k with
        | zero => rfl
        | succ k' =>
          simp only [List.take_succ_cons, applyOps, List.foldl_cons]
          have := (ih (applyOp fs (.write t b)) (cur ++ b) hstep k').1 q hq
          simp only [applyOps] at this
          rw [this, hother q hq]
      · simp only [applyOps, List.foldl_cons]
        have := (ih (applyOp fs (.write t b)) (cur ++ b) hstep 0).2
        simp only [applyOps] at this
        rw [this, List.append_assoc]
    | err e =>
      intro k
      simp [writeOps, applyOps, consume, hcur]

theorem writeOps_paths (t : Path) (items : List Item) : ∀ op ∈ (writeOps t items).1, op.path = t := by
  induction items with
  | nil => intro op h; cases h
  | cons i rest ih =>
    cases i with
    | data b =>
      simp only [writeOps]
      intro op h
      rcases List.mem_cons.mp h with rfl | h
      · rfl
      · exact ih op h
    | err e => intro op h; cases h

variable (H : Bytes → Nat)

/-- **C08.b (confined).** Every file-system operation of a save — directories created, the temporary
file, the final rename — is at or below the output directory; a destination outside it is refused
before anything is touched. -/
theorem save_confined (outdir dst : Path) (tmp : Str) (items : List Item) :
    ∀ op ∈ (saveTrace outdir dst tmp items).2, outdir.isPrefixOf op.path = true := by
  unfold saveTrace
  split
  · intro op h; cases h
  · rename_i hne
    split
    · intro op h; cases h
    · rename_i hpre
      have hpre' : outdir.isPrefixOf dst.dropLast = true := by simpa using hpre
      have hp : ∀ x : Path, outdir.isPrefixOf (dst.dropLast ++ x) = true := by
        intro x
        rw [List.isPrefixOf_iff_prefix] at hpre' ⊢
        exact hpre'.trans (List.prefix_append _ _)
      have hdst : outdir.isPrefixOf dst = true := by
        have := hp [dst.getLast hne]
        rwa [List.dropLast_concat_getLast] at this
      have ht : outdir.isPrefixOf (dst.dropLast ++ [tmp]) = true := hp [tmp]
      have hw := writeOps_paths (dst.dropLast ++ [tmp]) items
      split
      · intro op h
        simp only [List.cons_append, List.nil_append, List.mem_cons, List.mem_append, List.not_mem_nil, or_false] at h
        rcases h with rfl | rfl | h | rfl
        · exact hpre'
        · exact ht
        · rw [hw op h]; exact ht
        · exact hdst
      · intro op h
        simp only [List.cons_append, List.nil_append, List.mem_cons, List.mem_append, List.not_mem_nil, or_false] at h
        rcases h with rfl | rfl | h | rfl
        · exact hpre'
        · exact ht
        · rw [hw op h]; exact ht
        · exact ht

/-- a relative file name whose components are the safe ones of a resolved name always lands below
the output directory: `..` cannot occur, so nothing needs to be refused -/
theorem relative_name_stays_inside (outdir file : Path) (hf : file ≠ []) :
    outdir.isPrefixOf (joinPath outdir false file).dropLast = true := by
  simp only [joinPath, Bool.false_eq_true, ↓reduceIte]
  rw [List.isPrefixOf_iff_prefix]
  have : (outdir ++ file).dropLast = outdir ++ file.dropLast := by
    rw [List.dropLast_append_of_ne_nil hf]
  rw [this]
  exact List.prefix_append _ _

theorem writeOps_ok_noErr (t : Path) (items : List Item) (h : (writeOps t items).2 = true) : noErr items = true := by
  induction items with
  | nil => rfl
  | cons i rest ih =>
    cases i with
    | data b => simp only [writeOps] at h; simpa [noErr] using ih h
    | err e => simp [writeOps] at h

theorem take_shape (a b l : Op) (ws : List Op) (k : Nat) :
    ([a, b] ++ ws ++ [l]).take k = [] ∨ ([a, b] ++ ws ++ [l]).take k = [a] ∨
    (∃ j, ([a, b] ++ ws ++ [l]).take k = a :: b :: ws.take j) ∨
    ([a, b] ++ ws ++ [l]).take k = a :: b :: (ws ++ [l]) := by
  cases k with
  | zero => left; rfl
  | succ k1 =>
    cases k1 with
    | zero => right; left; rfl
    | succ k2 =>
      right; right
      simp only [List.cons_append, List.nil_append, List.take_succ_cons]
      by_cases hk : k2 ≤ ws.length
      · left; exact ⟨k2, by rw [List.take_append_of_le_length hk]⟩
      · right
        rw [List.take_of_length_le]
        simp only [List.length_append, List.length_cons, List.length_nil]; omega

/-- the state of the destination after the first `k` operations of the save -/
def dstAfter (fs : FS) (outdir dst : Path) (tmp : Str) (items : List Item) (k : Nat) : Option Bytes :=
  (applyOps fs ((saveTrace outdir dst tmp items).2.take k)).get dst

/-- **C08.c (atomic, verified-only; full statement over the operation trace).** At every point of
the transfer — after any number `k` of the file-system operations the save performs — the
destination path holds either exactly what it held before, or the complete content, whose SHA-256 is
the recorded digest and whose length is within the signed length. A previous file survives every
failed attempt; partial or unverified content is never at the destination. -/
theorem save_atomic (max expected : Nat) (s : List Item) (fs : FS) (outdir dst : Path) (tmp : Str)
    (htmp : dst ≠ dst.dropLast ++ [tmp]) (k : Nat) :
    dstAfter fs outdir dst tmp (fetchSha256 H max expected s) k = fs.get dst ∨
    (dstAfter fs outdir dst tmp (fetchSha256 H max expected s) k = some (content s) ∧
      H (content s) = expected ∧ (content s).length ≤ max) := by
  unfold dstAfter saveTrace
  split
  · left; simp [applyOps]
  · split
    · left; simp [applyOps]
    · generalize hit : fetchSha256 H max expected s = items
      generalize ht : dst.dropLast ++ [tmp] = t at htmp
      generalize hfs1 : applyOp (applyOp fs (.mkdirAll dst.dropLast)) (.createTemp t) = fs1
      have h0 : fs1.get t = some [] := by rw [← hfs1]; simp [applyOp, get_set_same]
      have h0' : fs1.get dst = fs.get dst := by rw [← hfs1]; simp [applyOp, get_set_ne _ _ _ _ htmp]
      have hw := writeOps_effect t items fs1 [] h0
      have hmid : ∀ j, (applyOps fs (.mkdirAll dst.dropLast :: .createTemp t :: (writeOps t items).1.take j)).get dst = fs.get dst := by
        intro j
        simp only [applyOps, List.foldl_cons, hfs1]
        have := (hw j).1 dst htmp
        simp only [applyOps] at this
        rw [this, h0']
      split
      · rename_i hok
        have hclean : noErr (fetchSha256 H max expected s) = true := by rw [hit]; exact writeOps_ok_noErr t items hok
        obtain ⟨hcons, hH⟩ := C06.clean_end_content H max expected s hclean
        have hlen := C06.delivered_le_length H max expected s
        rw [hcons] at hlen
        rw [hit] at hcons
        rcases take_shape (.mkdirAll dst.dropLast) (.createTemp t) (.rename t dst) (writeOps t items).1 k with h | h | ⟨j, h⟩ | h
        · left; rw [h]; rfl
        · left; rw [h]; simp [applyOps, applyOp]
        · left; rw [h]; exact hmid j
        · right
          rw [h]
          refine ⟨?_, hH, by simpa using hlen⟩
          simp only [applyOps, List.foldl_cons, List.foldl_append, List.foldl_nil, hfs1]
          have h2 := (hw 0).2
          simp only [applyOps, List.nil_append] at h2
          simp only [applyOp, h2, get_set_same, hcons]
      · left
        rcases take_shape (.mkdirAll dst.dropLast) (.createTemp t) (.unlink t) (writeOps t items).1 k with h | h | ⟨j, h⟩ | h
        · rw [h]; rfl
        · rw [h]; simp [applyOps, applyOp]
        · rw [h]; exact hmid j
        · rw [h]
          simp only [applyOps, List.foldl_cons, List.foldl_append, List.foldl_nil, hfs1]
          have h1 := (hw (writeOps t items).1.length).1 dst htmp
          simp only [applyOps, List.take_length] at h1
          simp only [applyOp]
          rw [get_del_ne _ _ _ htmp, h1, h0']

/-- **C08.c' (success).** A save that reports success leaves exactly the verified content at the
destination. -/
theorem save_success (max expected : Nat) (s : List Item) (fs : FS) (outdir dst : Path) (tmp : Str)
    (h : (saveTrace outdir dst tmp (fetchSha256 H max expected s)).1 = .ok ()) :
    (applyOps fs (saveTrace outdir dst tmp (fetchSha256 H max expected s)).2).get dst = some (content s) ∧
    H (content s) = expected ∧ (content s).length ≤ max := by
  unfold saveTrace at h ⊢
  split
  · rename_i h1; simp [h1] at h
  · split
    · rename_i h1 h2; simp [h1, h2] at h
    · rename_i h1 h2
      split
      · rename_i hok
        generalize hit : fetchSha256 H max expected s = items at hok
        generalize ht : dst.dropLast ++ [tmp] = t at hok
        have hclean : noErr (fetchSha256 H max expected s) = true := by rw [hit]; exact writeOps_ok_noErr t items hok
        obtain ⟨hcons, hH⟩ := C06.clean_end_content H max expected s hclean
        have hlen := C06.delivered_le_length H max expected s
        rw [hcons] at hlen
        rw [hit] at hcons
        generalize hfs1 : applyOp (applyOp fs (.mkdirAll dst.dropLast)) (.createTemp t) = fs1
        have h0 : fs1.get t = some [] := by rw [← hfs1]; simp [applyOp, get_set_same]
        have h2 := (writeOps_effect t items fs1 [] h0 0).2
        refine ⟨?_, hH, by simpa using hlen⟩
        simp only [List.cons_append, List.nil_append, applyOps, List.foldl_cons, List.foldl_append, List.foldl_nil, hfs1]
        simp only [applyOps, List.nil_append] at h2
        simp only [applyOp, h2, get_set_same, hcons]
      · rename_i hok; simp [h1, h2, hok] at h

/-- **C08.d** A failed save leaves every file as it was (the temporary file is gone again). -/
theorem save_failure_leaves_files (items : List Item) (fs : FS) (outdir dst : Path) (tmp : Str)
    (hfree : fs.get (dst.dropLast ++ [tmp]) = none) (e : SaveErr)
    (h : (saveTrace outdir dst tmp items).1 = .error e) :
    ∀ q, (applyOps fs (saveTrace outdir dst tmp items).2).get q = fs.get q := by
  unfold saveTrace at h ⊢
  split
  · intro q; simp [applyOps]
  · split
    · intro q; simp [applyOps]
    · rename_i h1 h2
      simp only [h1, h2, ↓reduceIte] at h
      generalize ht : dst.dropLast ++ [tmp] = t at hfree h
      split
      · rename_i hok; simp [hok] at h
      · intro q
        generalize hfs1 : applyOp (applyOp fs (.mkdirAll dst.dropLast)) (.createTemp t) = fs1
        have h0 : fs1.get t = some [] := by rw [← hfs1]; simp [applyOp, get_set_same]
        have h0' : ∀ q, q ≠ t → fs1.get q = fs.get q := by
          intro q hq; rw [← hfs1]; simp [applyOp, get_set_ne _ _ _ _ hq]
        have hw := writeOps_effect t items fs1 [] h0
        simp only [List.cons_append, List.nil_append, applyOps, List.foldl_cons, List.foldl_append, List.foldl_nil, hfs1]
        simp only [applyOp]
        by_cases hq : q = t
        · subst hq; rw [get_del_same, hfree]
        · rw [get_del_ne _ _ _ hq]
          have h1' := (hw (writeOps t items).1.length).1 q hq
          simp only [applyOps, List.take_length] at h1'
          rw [h1', h0' q hq]

end Tough.C08
