/-
C18 — HTTP transport yields exactly the resource bytes or an error, retries bounded.
Model: `Tough/Model/Http.lean` (`RetryStream`).
-/
import Tough.Model.Http
namespace Tough.C18
open Tough.Http

/-- what holds of the machine's state between requests -/
structure Inv (tries : Nat) (res : Bytes) (st : St) : Prop where
  prefix_ : st.yielded = res.take st.nextByte
  bound : st.nextByte ≤ res.length
  ranged : ∀ r ∈ st.requests, ∀ n, r = some n → st.hasRange = true
  count : st.requests.length ≤ st.currentTry + 1 ∧ (st.requests = [] → st.currentTry = 0)

theorem take_drop_take (res : Bytes) (n k : Nat) (hn : n ≤ res.length) :
    res.take n ++ (res.drop n).take k = res.take (n + ((res.drop n).take k).length) := by
  have h1 : ((res.drop n).take k).length = min k (res.length - n) := by simp
  rw [h1]
  rw [List.take_add]
  congr 1
  simp only [List.take_eq_take_iff, List.length_drop]
  omega

/-- what the property says about the outcome of a fetch -/
def Good (tries : Nat) (res : Bytes) (out : Final × St) : Prop :=
  out.2.yielded = res.take out.2.nextByte ∧
  (out.1 = .ok → out.2.yielded = res) ∧
  (∀ r ∈ out.2.requests, ∀ n, r = some n → out.2.hasRange = true) ∧
  out.2.requests.length ≤ tries

/-- **C18 main invariant.** Whatever the script (any statuses, stalls, breaks, in any order, of any
length), at the end of the fetch: what was yielded is a prefix of the resource — in order, without
duplication or gaps; a request carried a Range header only if range support had been announced;
and the number of requests is at most `tries` (for `tries ≥ 1`). If the stream ended without error,
the resource was delivered completely. -/
theorem fetch_spec (tries : Nat) (ht : 1 ≤ tries) (res : Bytes) (script : List Resp) (st : St)
    (hprefix : st.yielded = res.take st.nextByte) (hb : st.nextByte ≤ res.length)
    (hr : ∀ r ∈ st.requests, ∀ n, r = some n → st.hasRange = true)
    (hnb : st.nextByte > 0 → st.hasRange = true)
    (hc : st.requests.length = st.currentTry) (hlt : st.currentTry < tries) :
    Good tries res (fetchWith mayRetry tries res script st) := by
  induction script generalizing st with
  | nil =>
    simp only [fetchWith]
    exact ⟨hprefix, by intro h; simp at h, hr, by show st.requests.length ≤ tries; omega⟩
  | cons r rest ih =>
    simp only [fetchWith]
    have hissue_len : (issue st).requests.length = st.currentTry + 1 := by simp [issue, hc]
    have hissue_r : ∀ r ∈ (issue st).requests, ∀ n, r = some n → st.hasRange = true := by
      intro r hr' n hn
      simp only [issue, List.mem_cons] at hr'
      rcases hr' with rfl | hr'
      · split at hn
        · cases hn
        · rename_i hne; exact hnb (by omega)
      · exact hr r hr' n hn
    have retry_case : ∀ (s : St), s.currentTry = st.currentTry → s.requests = (issue st).requests →
        s.yielded = res.take s.nextByte → s.nextByte ≤ res.length →
        (∀ r ∈ s.requests, ∀ n, r = some n → s.hasRange = true) →
        Good tries res (match mayRetry tries s with
          | (true, s') => fetchWith mayRetry tries res rest s'
          | (false, s') => (Final.errOther, s')) := by
      intro s hct hreq hpre hbd hrs
      simp only [mayRetry]
      by_cases hgo : (decide (tries - (s.currentTry + 1) > 0) && (s.hasRange || s.nextByte == 0)) = true
      · simp only [hgo]
        simp only [Bool.and_eq_true, decide_eq_true_eq, Bool.or_eq_true, beq_iff_eq] at hgo
        apply ih
        · exact hpre
        · exact hbd
        · exact hrs
        · intro hpos
          rcases hgo.2 with h | h
          · exact h
          · simp only at hpos; omega
        · simp only [hreq, hissue_len, hct]
        · simp only [hct]; omega
      · simp only [hgo]
        refine ⟨hpre, by intro h; simp at h, hrs, ?_⟩
        simp only [hreq, hissue_len]; omega
    have hbase : (issue st).yielded = res.take (issue st).nextByte := by simpa [issue] using hprefix
    have hbase_r : ∀ r ∈ (issue st).requests, ∀ n, r = some n → (issue st).hasRange = true := by
      intro r hr' n hn; simpa [issue] using hissue_r r hr' n hn
    cases r with
    | status c =>
      simp only
      split
      · exact retry_case (issue st) rfl rfl hbase (by simpa [issue] using hb) hbase_r
      · split
        · exact ⟨hbase, by intro h; simp at h, hbase_r, by rw [hissue_len]; omega⟩
        · exact ⟨hbase, by intro h; simp at h, hbase_r, by rw [hissue_len]; omega⟩
    | connectErr =>
      exact retry_case (issue st) rfl rfl hbase (by simpa [issue] using hb) hbase_r
    | body ar k e =>
      simp only
      have hnb' : (issue st).nextByte = st.nextByte := rfl
      have hy' : (issue st).yielded = st.yielded := rfl
      have hrange : ∀ r ∈ (issue st).requests, ∀ n, r = some n → ((issue st).hasRange || ar) = true := by
        intro r hr' n hn
        simp only [Bool.or_eq_true]
        exact Or.inl (hbase_r r hr' n hn)
      cases e with
      | complete =>
        simp only
        refine ⟨?_, ?_, hrange, ?_⟩
        · simp only [hnb', hy', hprefix, List.length_drop]
          rw [show st.nextByte + (res.length - st.nextByte) = res.length by omega, List.take_length]
          exact List.take_append_drop _ _
        · intro _
          simp only [hnb', hy', hprefix]
          exact List.take_append_drop _ _
        · simp only [hissue_len]; omega
      | fatal =>
        simp only
        refine ⟨?_, by intro h; simp at h, hrange, ?_⟩
        · simp only [hnb', hy', hprefix]
          exact take_drop_take res st.nextByte k hb
        · simp only [hissue_len]; omega
      | timeout =>
        simp only
        apply retry_case
        · rfl
        · rfl
        · simp only [hnb', hy', hprefix]
          exact take_drop_take res st.nextByte k hb
        · simp only [hnb', List.length_take, List.length_drop]; omega
        · exact hrange

/-- **C18.a–d for a whole fetch** -/
theorem fetch_correct (tries : Nat) (ht : 1 ≤ tries) (res : Bytes) (script : List Resp) :
    Good tries res (fetch tries res script) :=
  fetch_spec tries ht res script {} rfl (Nat.zero_le _) (by intro r h; cases h) (by intro h; cases h) rfl ht

/-- **C18.e** status classes: 403/404/410 are 'file not found', other client errors fail at once -/
theorem status_classes (tries : Nat) (res : Bytes) (rest : List Resp) (c : Nat) :
    ((c = 403 ∨ c = 404 ∨ c = 410) → (fetch tries res (.status c :: rest)).1 = .errNotFound) ∧
    ((400 ≤ c ∧ c < 500 ∧ c ≠ 403 ∧ c ≠ 404 ∧ c ≠ 410) →
      (fetch tries res (.status c :: rest)).1 = .errOther ∧ (fetch tries res (.status c :: rest)).2.requests.length = 1) := by
  constructor
  · intro h
    have : ¬ (500 ≤ c ∧ c < 600) := by omega
    simp [fetch, fetchWith, this, h]
  · intro h
    have h1 : ¬ (500 ≤ c ∧ c < 600) := by omega
    have h2 : ¬ (c = 403 ∨ c = 404 ∨ c = 410) := by omega
    simp [fetch, fetchWith, h1, h2, issue]

/-! ### The defect that was repaired: one request too many

`may_retry` computed the tries left before counting the current one, and the first request does
not pass through it: a server answering 500 every time received `tries + 1` requests. -/

theorem old_retry_count_witness :
    (fetchOld 1 [1, 2, 3] [.status 500, .status 500, .status 500]).2.requests.length = 2 ∧
    (fetchOld 4 [1, 2, 3] (List.replicate 8 (.status 500))).2.requests.length = 5 := by decide

theorem fixed_retry_count :
    (fetch 1 [1, 2, 3] [.status 500, .status 500, .status 500]).2.requests.length = 1 ∧
    (fetch 4 [1, 2, 3] (List.replicate 8 (.status 500))).2.requests.length = 4 := by decide

/-! ### Non-vacuity: a stalled response is resumed with a range request and completes -/
example : fetch 3 [1, 2, 3, 4, 5] [.body true 2 .timeout, .status 503, .body true 0 .complete]
    = (.ok, ⟨2, 5, true, [1, 2, 3, 4, 5], [some 2, some 2, none]⟩) := by decide
/-- without announced range support a stall after data cannot be resumed -/
example : (fetch 3 [1, 2, 3, 4, 5] [.body false 2 .timeout, .body false 0 .complete]).1 = .errOther := by decide

end Tough.C18
