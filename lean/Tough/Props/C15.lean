/-
C15 — Stored trust state survives crashes and I/O failures of the client.

Model: the update cycle of `Tough/Model/Client.lean`; every datastore operation logs the datastore as
it is once the operation is done, so `(c.run ds).2.states` lists every datastore a cycle can leave
behind when it is cut short after an operation (the process dies, or a write fails and the cycle
returns its error), and `ds` itself is what is left when it is cut short before the first one.
`Datastore::create` is atomic in this model (temporary file + rename: the fix recorded for C15); the
truncate-then-write of the original code is `crashStatesOld` below, with a witness that it loses
the protection.
-/
import Tough.Props.C03
import Tough.Proofs.ClientTrace
import Tough.Proofs.ExceptDec
namespace Tough.C15
open Tough.Sig Tough.Client Tough.C03

/-- the datastores an interrupted cycle can leave behind -/
def crashStates (c : Cyc) (ds : Datastore) : List Datastore := ds :: (c.run ds).2.states

theorem all_of_grows {G : Datastore → Prop} (hinv : ∀ a b : Datastore, a.trust = b.trust → G b → G a)
    {st st' : St} (a : ∀ d ∈ st.states, G d) (g0 : G st.ds) (g1 : G st'.ds)
    (h : Grows (fun d => d.trust = st.ds.trust ∨ d.trust = st'.ds.trust) st st') : ∀ d ∈ st'.states, G d := by
  intro d hd
  rcases h d hd with h | h | h
  · exact a d h
  · exact hinv _ _ h g0
  · exact hinv _ _ h g1

theorem guardTs_inv (v : Nat) (a b : Datastore) (h : a.trust = b.trust) (g : GuardTs v b) : GuardTs v a := by
  obtain ⟨d, R, h1, h2, h3, h4⟩ := g
  exact ⟨d, R, (congrArg (·.1) h).trans h1, (congrArg (·.2.2.2) h).trans h2, h3, h4⟩

theorem guardSnap_inv (v w : Nat) (a b : Datastore) (h : a.trust = b.trust) (g : GuardSnap v w b) : GuardSnap v w a := by
  obtain ⟨d, R, h1, h2, h3, h4, h5⟩ := g
  exact ⟨d, R, (congrArg (·.2.1) h).trans h1, (congrArg (·.2.2.2) h).trans h2, h3, h4, h5⟩

theorem guardTgt_inv (v : Nat) (a b : Datastore) (h : a.trust = b.trust) (g : GuardTgt v b) : GuardTgt v a := by
  obtain ⟨d, R, h1, h2, h3, h4⟩ := g
  exact ⟨d, R, (congrArg (·.2.2.1) h).trans h1, (congrArg (·.2.2.2) h).trans h2, h3, h4⟩

/-- **C15.a, timestamp.** Whatever a cycle is served and wherever it is cut short, the datastore it
leaves behind still holds a timestamp of version ≥ v that verifies under the recorded root — unless the
cycle's root phase changed the keys authorized for the online roles (the exemption of C03/C14). -/
theorem crash_ts (v : Nat) (ds : Datastore) (c : Cyc) (hg : GuardTs v ds) :
    (∀ x ∈ (c.run ds).2.states, GuardTs v x) ∨ ExemptTs ds c := by
  have hg0 := hg
  obtain ⟨d, R, hts, hroot, hv, hver⟩ := hg
  have inv := guardTs_inv v
  have gr1 := loadRoot_grows (cfg := c.cfg) (srv := c.srv) c.shipped ⟨ds, []⟩
  unfold Cyc.run cycle
  split
  · -- load_root failed
    rename_i e st1 h1
    have t1 := loadRoot_err_trust h1
    left
    intro x hx
    rw [h1] at gr1
    rcases gr1 x hx with h | h | h | ⟨⟨_, _, _, h, _⟩, _⟩
    · simp [St.states] at h
    · exact inv _ _ h hg0
    · exact inv _ _ (h.trans t1) hg0
    · rw [h1] at h; simp at h
  · rename_i R' st1 h1
    have ok1 := loadRoot_ok h1
    obtain ⟨r0, hr0, _, _, _, hsame, hdiff⟩ := ok1.shipped
    have href : refRoot ds r0 = R := by simp [refRoot, hroot]
    simp only [href] at hsame hdiff
    by_cases hk : onlineKeysChanged R R' = true
    · exact Or.inr ⟨R, R', st1, hroot, h1, Or.inl hk⟩
    · have hk' : onlineKeysChanged R R' = false := by simpa using hk
      have hsl := hsame hk'
      have hts1 : st1.ds.ts = .doc d := (congrArg (·.1) hsl).trans hts
      by_cases hv' : rootVerify R' .timestamp d.msg d.sigs = true
      · left
        have G1 : GuardTs v st1.ds := ⟨d, R', hts1, ok1.recorded, hv, hv'⟩
        have a1 : ∀ x ∈ st1.states, GuardTs v x := by
          intro x hx
          rw [h1] at gr1
          rcases gr1 x hx with h | h | h | ⟨⟨r0', R'', hs, hok, hrot⟩, _⟩
          · simp [St.states] at h
          · exact inv _ _ h hg0
          · exact inv _ _ h G1
          · rw [h1] at hok
            simp only [Except.ok.injEq] at hok
            rw [hr0] at hs
            simp only [Option.some.injEq] at hs
            subst hs; subst hok
            simp only [href] at hrot
            exact absurd hrot hk
        have gr2 := loadTimestamp_grows (cfg := c.cfg) (srv := c.srv) R' st1
        split
        · rename_i e st2 h2
          rw [h2] at gr2
          have t2 := loadTimestamp_err_trust h2
          have G2 : GuardTs v st2.ds := inv _ _ t2 G1
          exact all_of_grows inv a1 G1 G2 gr2
        · rename_i ts st2 h2
          rw [h2] at gr2
          have ok2 := loadTimestamp_ok h2
          have hle : d.version ≤ ts.version := ok2.noRollback d hts1 hv'
          have hroot2 : st2.ds.root = .doc R' := (loadTimestamp_ok_root h2).trans ok1.recorded
          have G2 : GuardTs v st2.ds := ⟨ts, R', ok2.storedTs, hroot2, by omega, ok2.verified⟩
          have a2 := all_of_grows inv a1 G1 G2 gr2
          have k3 := loadSnapshot_keeps (cfg := c.cfg) (srv := c.srv) (root := R') (ts := ts) st2
          have gr3 := loadSnapshot_grows (cfg := c.cfg) (srv := c.srv) R' ts st2
          have g2 : ∀ s : St, s.ds.ts = st2.ds.ts → s.ds.root = st2.ds.root → GuardTs v s.ds :=
            fun s e1 e2 => ⟨ts, R', e1.trans ok2.storedTs, e2.trans hroot2, by omega, ok2.verified⟩
          split
          · rename_i e st3 h3
            rw [h3] at k3 gr3
            exact all_of_grows inv a2 G2 (g2 st3 k3.1 k3.2.1) gr3
          · rename_i sn st3 h3
            rw [h3] at k3 gr3
            have G3 := g2 st3 k3.1 k3.2.1
            have a3 := all_of_grows inv a2 G2 G3 gr3
            have k4 := loadTargets_keeps (cfg := c.cfg) (srv := c.srv) (root := R') (snap := sn) st3
            have gr4 := loadTargets_grows (cfg := c.cfg) (srv := c.srv) R' sn st3
            split
            · rename_i e st4 h4
              rw [h4] at k4 gr4
              exact all_of_grows inv a3 G3 (g2 st4 (k4.1.trans k3.1) (k4.2.2.1.trans k3.2.1)) gr4
            · rename_i t st4 h4
              rw [h4] at k4 gr4
              exact all_of_grows inv a3 G3 (g2 st4 (k4.1.trans k3.1) (k4.2.2.1.trans k3.2.1)) gr4
      · exact Or.inr ⟨R, R', st1, hroot, h1, Or.inr ⟨d, hts, hver, by simpa using hv'⟩⟩

/-- **C15.a, snapshot** (version and the targets version it lists). -/
theorem crash_snap (v w : Nat) (ds : Datastore) (c : Cyc) (hg : GuardSnap v w ds) :
    (∀ x ∈ (c.run ds).2.states, GuardSnap v w x) ∨ ExemptSnap ds c := by
  have hg0 := hg
  obtain ⟨d, R, hsn, hroot, hv, ⟨m, hm, hw⟩, hver⟩ := hg
  have inv := guardSnap_inv v w
  have gr1 := loadRoot_grows (cfg := c.cfg) (srv := c.srv) c.shipped ⟨ds, []⟩
  unfold Cyc.run cycle
  split
  · rename_i e st1 h1
    have t1 := loadRoot_err_trust h1
    left
    intro x hx
    rw [h1] at gr1
    rcases gr1 x hx with h | h | h | ⟨⟨_, _, _, h, _⟩, _⟩
    · simp [St.states] at h
    · exact inv _ _ h hg0
    · exact inv _ _ (h.trans t1) hg0
    · rw [h1] at h; simp at h
  · rename_i R' st1 h1
    have ok1 := loadRoot_ok h1
    obtain ⟨r0, hr0, _, _, _, hsame, hdiff⟩ := ok1.shipped
    have href : refRoot ds r0 = R := by simp [refRoot, hroot]
    simp only [href] at hsame hdiff
    by_cases hk : onlineKeysChanged R R' = true
    · exact Or.inr ⟨R, R', st1, hroot, h1, Or.inl hk⟩
    · have hk' : onlineKeysChanged R R' = false := by simpa using hk
      have hsl := hsame hk'
      have hsn1 : st1.ds.snap = .doc d := (congrArg (·.2.1) hsl).trans hsn
      by_cases hv' : rootVerify R' .snapshot d.msg d.sigs = true
      · left
        have g1 : ∀ s : St, s.ds.snap = st1.ds.snap → s.ds.root = st1.ds.root → GuardSnap v w s.ds :=
          fun s e1 e2 => ⟨d, R', e1.trans hsn1, e2.trans ok1.recorded, hv, ⟨m, hm, hw⟩, hv'⟩
        have G1 : GuardSnap v w st1.ds := g1 st1 rfl rfl
        have a1 : ∀ x ∈ st1.states, GuardSnap v w x := by
          intro x hx
          rw [h1] at gr1
          rcases gr1 x hx with h | h | h | ⟨⟨r0', R'', hs, hok, hrot⟩, _⟩
          · simp [St.states] at h
          · exact inv _ _ h hg0
          · exact inv _ _ h G1
          · rw [h1] at hok
            simp only [Except.ok.injEq] at hok
            rw [hr0] at hs
            simp only [Option.some.injEq] at hs
            subst hs; subst hok
            simp only [href] at hrot
            exact absurd hrot hk
        have gr2 := loadTimestamp_grows (cfg := c.cfg) (srv := c.srv) R' st1
        split
        · rename_i e st2 h2
          rw [h2] at gr2
          have t2 := loadTimestamp_err_trust h2
          exact all_of_grows inv a1 G1 (inv _ _ t2 G1) gr2
        · rename_i ts st2 h2
          rw [h2] at gr2
          have ok2 := loadTimestamp_ok h2
          have hroot2 : st2.ds.root = st1.ds.root := loadTimestamp_ok_root h2
          have G2 := g1 st2 ok2.storedSnap hroot2
          have a2 := all_of_grows inv a1 G1 G2 gr2
          have k3 := loadSnapshot_keeps (cfg := c.cfg) (srv := c.srv) (root := R') (ts := ts) st2
          have gr3 := loadSnapshot_grows (cfg := c.cfg) (srv := c.srv) R' ts st2
          split
          · rename_i e st3 h3
            rw [h3] at k3 gr3
            have := loadSnapshot_err_snap h3
            exact all_of_grows inv a2 G2 (g1 st3 (this.trans ok2.storedSnap) (k3.2.1.trans hroot2)) gr3
          · rename_i sn st3 h3
            rw [h3] at k3 gr3
            have ok3 := loadSnapshot_ok h3
            obtain ⟨hle, hlist⟩ := snapshotRollback_none (ok3.noRollback d (ok2.storedSnap.trans hsn1) hv')
            obtain ⟨m', hm', hmv⟩ := hlist m hm
            have hroot3 : st3.ds.root = .doc R' := (k3.2.1.trans hroot2).trans ok1.recorded
            have g3 : ∀ s : St, s.ds.snap = st3.ds.snap → s.ds.root = st3.ds.root → GuardSnap v w s.ds :=
              fun s e1 e2 => ⟨sn, R', e1.trans ok3.storedSnap, e2.trans hroot3, by omega, ⟨m', hm', by omega⟩, ok3.verified⟩
            have G3 := g3 st3 rfl rfl
            have a3 := all_of_grows inv a2 G2 G3 gr3
            have k4 := loadTargets_keeps (cfg := c.cfg) (srv := c.srv) (root := R') (snap := sn) st3
            have gr4 := loadTargets_grows (cfg := c.cfg) (srv := c.srv) R' sn st3
            split
            · rename_i e st4 h4
              rw [h4] at k4 gr4
              exact all_of_grows inv a3 G3 (g3 st4 k4.2.1 k4.2.2.1) gr4
            · rename_i t st4 h4
              rw [h4] at k4 gr4
              exact all_of_grows inv a3 G3 (g3 st4 k4.2.1 k4.2.2.1) gr4
      · exact Or.inr ⟨R, R', st1, hroot, h1, Or.inr ⟨d, hsn, hver, by simpa using hv'⟩⟩

/-- **C15.a, targets.** -/
theorem crash_tgt (v : Nat) (ds : Datastore) (c : Cyc) (hg : GuardTgt v ds) :
    (∀ x ∈ (c.run ds).2.states, GuardTgt v x) ∨ ExemptTgt ds c := by
  have hg0 := hg
  obtain ⟨d, R, htg, hroot, hv, hver⟩ := hg
  have inv := guardTgt_inv v
  have gr1 := loadRoot_grows (cfg := c.cfg) (srv := c.srv) c.shipped ⟨ds, []⟩
  unfold Cyc.run cycle
  split
  · rename_i e st1 h1
    have t1 := loadRoot_err_trust h1
    left
    intro x hx
    rw [h1] at gr1
    rcases gr1 x hx with h | h | h | ⟨⟨_, _, _, h, _⟩, _⟩
    · simp [St.states] at h
    · exact inv _ _ h hg0
    · exact inv _ _ (h.trans t1) hg0
    · rw [h1] at h; simp at h
  · rename_i R' st1 h1
    have ok1 := loadRoot_ok h1
    obtain ⟨r0, hr0, _, _, _, hsame, hdiff⟩ := ok1.shipped
    have htg1 : st1.ds.tgt = .doc d := by
      cases hk : onlineKeysChanged (refRoot ds r0) R' with
      | false => exact (congrArg (·.2.2) (hsame hk)).trans htg
      | true => exact (hdiff hk).2.2.trans htg
    by_cases hv' : rootVerify R' .targets d.msg d.sigs = true
    · left
      have g1 : ∀ s : St, s.ds.tgt = st1.ds.tgt → s.ds.root = st1.ds.root → GuardTgt v s.ds :=
        fun s e1 e2 => ⟨d, R', e1.trans htg1, e2.trans ok1.recorded, hv, hv'⟩
      have G1 : GuardTgt v st1.ds := g1 st1 rfl rfl
      have a1 : ∀ x ∈ st1.states, GuardTgt v x := by
        intro x hx
        rw [h1] at gr1
        rcases gr1 x hx with h | h | h | ⟨_, e1, e2⟩
        · simp [St.states] at h
        · exact inv _ _ h hg0
        · exact inv _ _ h G1
        · -- half-cleared states of a rotation: targets and recorded root are as before
          exact ⟨d, R, e1.trans htg, e2.trans hroot, hv, hver⟩
      have gr2 := loadTimestamp_grows (cfg := c.cfg) (srv := c.srv) R' st1
      split
      · rename_i e st2 h2
        rw [h2] at gr2
        have t2 := loadTimestamp_err_trust h2
        exact all_of_grows inv a1 G1 (inv _ _ t2 G1) gr2
      · rename_i ts st2 h2
        rw [h2] at gr2
        have ok2 := loadTimestamp_ok h2
        have hroot2 : st2.ds.root = st1.ds.root := loadTimestamp_ok_root h2
        have G2 := g1 st2 ok2.storedTgt hroot2
        have a2 := all_of_grows inv a1 G1 G2 gr2
        have k3 := loadSnapshot_keeps (cfg := c.cfg) (srv := c.srv) (root := R') (ts := ts) st2
        have gr3 := loadSnapshot_grows (cfg := c.cfg) (srv := c.srv) R' ts st2
        split
        · rename_i e st3 h3
          rw [h3] at k3 gr3
          exact all_of_grows inv a2 G2 (g1 st3 (k3.2.2.trans ok2.storedTgt) (k3.2.1.trans hroot2)) gr3
        · rename_i sn st3 h3
          rw [h3] at k3 gr3
          have htg3 : st3.ds.tgt = .doc d := (k3.2.2.trans ok2.storedTgt).trans htg1
          have hroot3 : st3.ds.root = .doc R' := (k3.2.1.trans hroot2).trans ok1.recorded
          have G3 : GuardTgt v st3.ds := ⟨d, R', htg3, hroot3, hv, hv'⟩
          have a3 := all_of_grows inv a2 G2 G3 gr3
          have k4 := loadTargets_keeps (cfg := c.cfg) (srv := c.srv) (root := R') (snap := sn) st3
          have gr4 := loadTargets_grows (cfg := c.cfg) (srv := c.srv) R' sn st3
          have g4 : ∀ (fin : Except Err Tgt × St), fin = loadTargets c.cfg c.srv R' sn st3 → GuardTgt v fin.2.ds := by
            intro fin hfin
            rw [← hfin] at k4
            rcases k4.2.2.2 with hsame4 | ⟨nd, hnd, hndv, hnb⟩
            · exact ⟨d, R', hsame4.trans htg3, k4.2.2.1.trans hroot3, hv, hv'⟩
            · simp only [storedBlocks, htg3, hv', Bool.true_and, decide_eq_false_iff_not] at hnb
              exact ⟨nd, R', hnd, k4.2.2.1.trans hroot3, by omega, hndv⟩
          split
          · rename_i e st4 h4
            rw [h4] at gr4
            exact all_of_grows inv a3 G3 (g4 (.error e, st4) h4.symm) gr4
          · rename_i t st4 h4
            rw [h4] at gr4
            exact all_of_grows inv a3 G3 (g4 (.ok t, st4) h4.symm) gr4
    · exact Or.inr ⟨R, R', st1, d, hroot, h1, htg, hver, by simpa using hv'⟩

/-! ### Histories in which cycles may be cut short -/

/-- one cycle of a history: run to its end (`cut = none`), or cut short so that the `k`-th crash state
(0 = nothing written yet, 1 = after the first datastore operation, …) is what it leaves behind.  A cut
stands for the death of the process as well as for a failed datastore write, which ends the cycle with
an error and without the write. -/
structure Run where
  cyc : Cyc
  cut : Option Nat

/-- crash states in the order they occur -/
def crashSeq (c : Cyc) (ds : Datastore) : List Datastore := ds :: (c.run ds).2.states.reverse

def Run.after (r : Run) (ds : Datastore) : Datastore :=
  match r.cut with
  | none => (r.cyc.run ds).2.ds
  | some k => (crashSeq r.cyc ds)[k]?.getD ds

theorem Run.after_cases (r : Run) (ds : Datastore) :
    r.after ds = (r.cyc.run ds).2.ds ∨ r.after ds = ds ∨ r.after ds ∈ (r.cyc.run ds).2.states := by
  unfold Run.after
  cases r.cut with
  | none => exact Or.inl rfl
  | some k =>
    right
    simp only
    cases h : (crashSeq r.cyc ds)[k]? with
    | none => left; rfl
    | some x =>
      have hm : x ∈ crashSeq r.cyc ds := List.mem_of_getElem? h
      simp only [crashSeq, List.mem_cons, List.mem_reverse] at hm
      rcases hm with h' | h'
      · left; simp [h']
      · right; simpa using h'

def dsAfterRuns (ds : Datastore) : List Run → Datastore
  | [] => ds
  | r :: rs => dsAfterRuns (r.after ds) rs

/-- somewhere in the history (cut short or not) an exempting root change was seen -/
def ExemptInRuns (E : Datastore → Cyc → Prop) (ds : Datastore) (H : List Run) : Prop :=
  ∃ pre r post, H = pre ++ r :: post ∧ E (dsAfterRuns ds pre) r.cyc

theorem liftRuns {G : Datastore → Prop} {E : Datastore → Cyc → Prop} {P : View → Prop}
    (step : ∀ ds c, G ds → (G (c.run ds).2.ds ∧ ∀ v, (c.run ds).1 = .ok v → P v) ∨ E ds c)
    (crash : ∀ ds c, G ds → (∀ x ∈ (c.run ds).2.states, G x) ∨ E ds c) :
    ∀ (H : List Run) (ds : Datastore), G ds → ∀ c : Cyc,
      (∀ v, (c.run (dsAfterRuns ds H)).1 = .ok v → P v) ∨ ExemptInRuns E ds (H ++ [⟨c, none⟩]) := by
  intro H
  induction H with
  | nil =>
    intro ds hg c
    rcases step ds c hg with ⟨_, h⟩ | h
    · exact Or.inl h
    · exact Or.inr ⟨[], ⟨c, none⟩, [], rfl, h⟩
  | cons r rest ih =>
    intro ds hg c
    have hnext : G (r.after ds) ∨ E ds r.cyc := by
      rcases r.after_cases ds with h | h | h
      · rcases step ds r.cyc hg with ⟨hg', _⟩ | he
        · exact Or.inl (by rw [h]; exact hg')
        · exact Or.inr he
      · exact Or.inl (by rw [h]; exact hg)
      · rcases crash ds r.cyc hg with ha | he
        · exact Or.inl (ha _ h)
        · exact Or.inr he
    rcases hnext with hg' | he
    · rcases ih _ hg' c with h | ⟨pre, x, post, hx, hE⟩
      · exact Or.inl h
      · exact Or.inr ⟨r :: pre, x, post, by simp [hx], hE⟩
    · exact Or.inr ⟨[], r, rest ++ [⟨c, none⟩], rfl, he⟩

/-- **C15.a (timestamp, full statement).** Cycle `cᵢ` succeeded with timestamp version `v`.  Then
for EVERY later history of cycles on that datastore — any length, any servers, each one run to its
end or cut short after any number of datastore operations — a further cycle that succeeds trusts a
timestamp of version at least `v`, unless some cycle of the history saw a root that changed the
authorization of the online roles. -/
theorem timestamp_protected_despite_crashes (ds : Datastore) (ci : Cyc) (wi : View) (hi : (ci.run ds).1 = .ok wi)
    (mid : List Run) (cj : Cyc) :
    (∀ wj, (cj.run (dsAfterRuns (ci.run ds).2.ds mid)).1 = .ok wj → wi.ts.version ≤ wj.ts.version) ∨
    ExemptInRuns ExemptTs (ci.run ds).2.ds (mid ++ [⟨cj, none⟩]) :=
  liftRuns (G := GuardTs wi.ts.version) (P := fun w => wi.ts.version ≤ w.ts.version)
    (step_ts wi.ts.version) (crash_ts wi.ts.version) mid _ (established_ts ds ci wi hi) cj

/-- **C15.a (snapshot).** -/
theorem snapshot_protected_despite_crashes (ds : Datastore) (ci : Cyc) (xi : View) (hi : (ci.run ds).1 = .ok xi)
    (mid : List Run) (cj : Cyc) :
    ∃ m, xi.snap.find .targets = some m ∧
      ((∀ xj, (cj.run (dsAfterRuns (ci.run ds).2.ds mid)).1 = .ok xj → SnapAtLeast xi.snap.version m.version xj) ∨
        ExemptInRuns ExemptSnap (ci.run ds).2.ds (mid ++ [⟨cj, none⟩])) := by
  obtain ⟨m, hm, hg⟩ := established_snap ds ci xi hi
  exact ⟨m, hm, liftRuns (G := GuardSnap xi.snap.version m.version) (P := SnapAtLeast xi.snap.version m.version)
    (step_snap _ _) (crash_snap _ _) mid _ hg cj⟩

/-- **C15.a (top-level targets).** -/
theorem targets_protected_despite_crashes (ds : Datastore) (ci : Cyc) (xi : View) (hi : (ci.run ds).1 = .ok xi)
    (mid : List Run) (cj : Cyc) :
    (∀ xj, (cj.run (dsAfterRuns (ci.run ds).2.ds mid)).1 = .ok xj → (Tgt.doc xi.tgt).version ≤ (Tgt.doc xj.tgt).version) ∨
    ExemptInRuns ExemptTgt (ci.run ds).2.ds (mid ++ [⟨cj, none⟩]) :=
  liftRuns (G := GuardTgt (Tgt.doc xi.tgt).version) (P := fun x => (Tgt.doc xi.tgt).version ≤ (Tgt.doc x.tgt).version)
    (step_tgt _) (crash_tgt _) mid _ (established_tgt ds ci xi hi) cj

/-! ### The original `Datastore::create` (truncate, then write) loses the protection

Between the truncation and the completed write the file holds nothing or a prefix of the document:
it does not parse, and the rollback checks ignore a stored document that does not parse.  The witness
is a three-cycle history on one datastore without any root change: cycle 1 trusts timestamp version 5,
cycle 2 is served version 6 and is cut short inside the write of `timestamp.json`, cycle 3 is served
the replayed version 3 and accepts it. -/

def garble (what : String) (d : Datastore) : Datastore :=
  if what = "timestamp" then { d with ts := .garbage }
  else if what = "snapshot" then { d with snap := .garbage }
  else if what = "targets" then { d with tgt := .garbage }
  else if what = "root" then { d with root := .garbage }
  else if what = "latest_known_time" then { d with time := none }
  else d

/-- crash states of a log (oldest event first) when a create truncates the file before writing it -/
def crashSeqOldOf (ds : Datastore) : List Ev → List Datastore
  | [] => [ds]
  | .dsCreate w a :: rest => ds :: garble w ds :: crashSeqOldOf a rest
  | .dsRemove _ a :: rest => ds :: crashSeqOldOf a rest
  | _ :: rest => crashSeqOldOf ds rest

def ts6 : Timestamp := ⟨6, 100, some ⟨6, none, none⟩, 26, [⟨3, some 3, 26⟩]⟩

/-- the datastore after cycle 1 of the witness -/
def dsW1 : Datastore := (upToTimestamp loadRoot (srvW ts5) {}).2.ds

theorem truncating_create_loses_rollback_protection_witness :
    tsVersionOf (upToTimestamp loadRoot (srvW ts5) {}) = some 5 ∧
    (∃ x ∈ crashSeqOldOf dsW1 (upToTimestamp loadRoot (srvW ts6) dsW1).2.log.reverse,
      tsVersionOf (upToTimestamp loadRoot (srvW ts3) x) = some 3) := by
  refine ⟨by decide, { dsW1 with ts := .garbage, time := some 0 }, by decide, by decide⟩

/-- with the atomic create every crash state of the same cycle 2 refuses the replayed version 3 -/
theorem atomic_create_on_witness :
    ∀ x ∈ dsW1 :: (upToTimestamp loadRoot (srvW ts6) dsW1).2.states,
      tsVersionOf (upToTimestamp loadRoot (srvW ts3) x) = none := by
  decide

/-- the hypotheses of the crash theorems are satisfiable: cycle 1 of the witness establishes the guard -/
example : GuardTs 5 dsW1 := ⟨ts5, root2, by decide, by decide, by decide, by decide⟩

end Tough.C15
