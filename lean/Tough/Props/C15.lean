/-
C15 — Stored trust state survives crashes and I/O failures of the client.

Model: the update cycle of `Tough/Model/Client.lean`; every datastore operation logs the datastore as
it is once the operation is done, so `(c.run ds).2.states` lists every datastore a cycle can leave
behind when it is cut short after an operation (the process dies, or a write fails and the cycle
returns its error), and `ds` itself is what is left when it is cut short before the first one.
`Datastore::create` is atomic in this model (temporary file + rename: the fix recorded for C15); the
truncate-then-write of the original code is `crashStatesOld` below, with a witness that it loses
the protection.
-/
import Tough.Props.C03
import Tough.Proofs.ClientTrace
import Tough.Proofs.ClientRerun
import Tough.Proofs.ExceptDec
import Tough.Proofs.ClientCoh
namespace Tough.C15
open Tough.Sig Tough.Client Tough.C03

/-- the datastores an interrupted cycle can leave behind -/
def crashStates (c : Cyc) (ds : Datastore) : List Datastore := ds :: (c.run ds).2.states

/-- **the list of crash states is complete**: the datastore a cycle ends with — whether it ran to its end
or stopped with an error — is one of them, because the model's datastore changes only through operations
that log the state they produce (`cycle_tracked`: every step of the cycle either leaves datastore and
history alone or ends with the datastore it logged last) -/
theorem crash_states_complete (c : Cyc) (ds : Datastore) : (c.run ds).2.ds ∈ crashStates c ds := by
  have h := cycle_coherent (cfg := c.cfg) (srv := c.srv) c.shipped ds
  unfold crashStates Cyc.run
  rw [h]
  cases hs : (cycle c.cfg c.srv c.shipped ⟨ds, []⟩).2.states with
  | nil => simp
  | cons a l => simp

theorem all_of_grows {G : Datastore → Prop} (hinv : ∀ a b : Datastore, a.trust = b.trust → G b → G a)
    {st st' : St} (a : ∀ d ∈ st.states, G d) (g0 : G st.ds) (g1 : G st'.ds)
    (h : Grows (fun d => d.trust = st.ds.trust ∨ d.trust = st'.ds.trust) st st') : ∀ d ∈ st'.states, G d := by
  intro d hd
  rcases h d hd with h | h | h
  · exact a d h
  · exact hinv _ _ h g0
  · exact hinv _ _ h g1

theorem guardTs_inv (v : Nat) (a b : Datastore) (h : a.trust = b.trust) (g : GuardTs v b) : GuardTs v a := by
  obtain ⟨d, R, h1, h2, h3, h4⟩ := g
  exact ⟨d, R, (congrArg (·.1) h).trans h1, (congrArg (·.2.2.2) h).trans h2, h3, h4⟩

theorem guardSnap_inv (v w : Nat) (a b : Datastore) (h : a.trust = b.trust) (g : GuardSnap v w b) : GuardSnap v w a := by
  obtain ⟨d, R, h1, h2, h3, h4, h5⟩ := g
  exact ⟨d, R, (congrArg (·.2.1) h).trans h1, (congrArg (·.2.2.2) h).trans h2, h3, h4, h5⟩

theorem guardTgt_inv (v : Nat) (a b : Datastore) (h : a.trust = b.trust) (g : GuardTgt v b) : GuardTgt v a := by
  obtain ⟨d, R, h1, h2, h3, h4⟩ := g
  exact ⟨d, R, (congrArg (·.2.2.1) h).trans h1, (congrArg (·.2.2.2) h).trans h2, h3, h4⟩

/-- **C15.a, timestamp.** Whatever a cycle is served and wherever it is cut short, the datastore it
leaves behind still holds a timestamp of version ≥ v that verifies under the recorded root — unless the
cycle's root phase changed the keys authorized for the online roles (the exemption of C03/C14). -/
theorem crash_ts (v : Nat) (ds : Datastore) (c : Cyc) (hg : GuardTs v ds) :
    (∀ x ∈ (c.run ds).2.states, GuardTs v x) ∨ ExemptTs ds c := by
  have hg0 := hg
  obtain ⟨d, R, hts, hroot, hv, hver⟩ := hg
  have inv := guardTs_inv v
  have gr1 := loadRoot_grows (cfg := c.cfg) (srv := c.srv) c.shipped ⟨ds, []⟩
  unfold Cyc.run cycle
  split
  · -- load_root failed
    rename_i e st1 h1
    have t1 := loadRoot_err_trust h1
    left
    intro x hx
    rw [h1] at gr1
    rcases gr1 x hx with h | h | h | ⟨⟨_, _, _, h, _⟩, _⟩
    · simp [St.states] at h
    · exact inv _ _ h hg0
    · exact inv _ _ (h.trans t1) hg0
    · rw [h1] at h; simp at h
  · rename_i R' st1 h1
    have ok1 := loadRoot_ok h1
    obtain ⟨r0, hr0, _, _, _, hsame, hdiff⟩ := ok1.shipped
    have href : refRoot ds r0 = R := by simp [refRoot, hroot]
    simp only [href] at hsame hdiff
    by_cases hk : onlineKeysChanged R R' = true
    · exact Or.inr ⟨R, R', st1, hroot, h1, Or.inl hk⟩
    · have hk' : onlineKeysChanged R R' = false := by simpa using hk
      have hsl := hsame hk'
      have hts1 : st1.ds.ts = .doc d := (congrArg (·.1) hsl).trans hts
      by_cases hv' : rootVerify R' .timestamp d.msg d.sigs = true
      · left
        have G1 : GuardTs v st1.ds := ⟨d, R', hts1, ok1.recorded, hv, hv'⟩
        have a1 : ∀ x ∈ st1.states, GuardTs v x := by
          intro x hx
          rw [h1] at gr1
          rcases gr1 x hx with h | h | h | ⟨⟨r0', R'', hs, hok, hrot⟩, _⟩
          · simp [St.states] at h
          · exact inv _ _ h hg0
          · exact inv _ _ h G1
          · rw [h1] at hok
            simp only [Except.ok.injEq] at hok
            rw [hr0] at hs
            simp only [Option.some.injEq] at hs
            subst hs; subst hok
            simp only [href] at hrot
            exact absurd hrot hk
        have gr2 := loadTimestamp_grows (cfg := c.cfg) (srv := c.srv) R' st1
        split
        · rename_i e st2 h2
          rw [h2] at gr2
          have t2 := loadTimestamp_err_trust h2
          have G2 : GuardTs v st2.ds := inv _ _ t2 G1
          exact all_of_grows inv a1 G1 G2 gr2
        · rename_i ts st2 h2
          rw [h2] at gr2
          have ok2 := loadTimestamp_ok h2
          have hle : d.version ≤ ts.version := ok2.noRollback d hts1 hv'
          have hroot2 : st2.ds.root = .doc R' := (loadTimestamp_ok_root h2).trans ok1.recorded
          have G2 : GuardTs v st2.ds := ⟨ts, R', ok2.storedTs, hroot2, by omega, ok2.verified⟩
          have a2 := all_of_grows inv a1 G1 G2 gr2
          have k3 := loadSnapshot_keeps (cfg := c.cfg) (srv := c.srv) (root := R') (ts := ts) st2
          have gr3 := loadSnapshot_grows (cfg := c.cfg) (srv := c.srv) R' ts st2
          have g2 : ∀ s : St, s.ds.ts = st2.ds.ts → s.ds.root = st2.ds.root → GuardTs v s.ds :=
            fun s e1 e2 => ⟨ts, R', e1.trans ok2.storedTs, e2.trans hroot2, by omega, ok2.verified⟩
          split
          · rename_i e st3 h3
            rw [h3] at k3 gr3
            exact all_of_grows inv a2 G2 (g2 st3 k3.1 k3.2.1) gr3
          · rename_i sn st3 h3
            rw [h3] at k3 gr3
            have G3 := g2 st3 k3.1 k3.2.1
            have a3 := all_of_grows inv a2 G2 G3 gr3
            have k4 := loadTargets_keeps (cfg := c.cfg) (srv := c.srv) (root := R') (snap := sn) st3
            have gr4 := loadTargets_grows (cfg := c.cfg) (srv := c.srv) R' sn st3
            split
            · rename_i e st4 h4
              rw [h4] at k4 gr4
              exact all_of_grows inv a3 G3 (g2 st4 (k4.1.trans k3.1) (k4.2.2.1.trans k3.2.1)) gr4
            · rename_i t st4 h4
              rw [h4] at k4 gr4
              exact all_of_grows inv a3 G3 (g2 st4 (k4.1.trans k3.1) (k4.2.2.1.trans k3.2.1)) gr4
      · exact Or.inr ⟨R, R', st1, hroot, h1, Or.inr ⟨d, hts, hver, by simpa using hv'⟩⟩

/-- **C15.a, snapshot** (version and the targets version it lists). -/
theorem crash_snap (v w : Nat) (ds : Datastore) (c : Cyc) (hg : GuardSnap v w ds) :
    (∀ x ∈ (c.run ds).2.states, GuardSnap v w x) ∨ ExemptSnap ds c := by
  have hg0 := hg
  obtain ⟨d, R, hsn, hroot, hv, ⟨m, hm, hw⟩, hver⟩ := hg
  have inv := guardSnap_inv v w
  have gr1 := loadRoot_grows (cfg := c.cfg) (srv := c.srv) c.shipped ⟨ds, []⟩
  unfold Cyc.run cycle
  split
  · rename_i e st1 h1
    have t1 := loadRoot_err_trust h1
    left
    intro x hx
    rw [h1] at gr1
    rcases gr1 x hx with h | h | h | ⟨⟨_, _, _, h, _⟩, _⟩
    · simp [St.states] at h
    · exact inv _ _ h hg0
    · exact inv _ _ (h.trans t1) hg0
    · rw [h1] at h; simp at h
  · rename_i R' st1 h1
    have ok1 := loadRoot_ok h1
    obtain ⟨r0, hr0, _, _, _, hsame, hdiff⟩ := ok1.shipped
    have href : refRoot ds r0 = R := by simp [refRoot, hroot]
    simp only [href] at hsame hdiff
    by_cases hk : onlineKeysChanged R R' = true
    · exact Or.inr ⟨R, R', st1, hroot, h1, Or.inl hk⟩
    · have hk' : onlineKeysChanged R R' = false := by simpa using hk
      have hsl := hsame hk'
      have hsn1 : st1.ds.snap = .doc d := (congrArg (·.2.1) hsl).trans hsn
      by_cases hv' : rootVerify R' .snapshot d.msg d.sigs = true
      · left
        have g1 : ∀ s : St, s.ds.snap = st1.ds.snap → s.ds.root = st1.ds.root → GuardSnap v w s.ds :=
          fun s e1 e2 => ⟨d, R', e1.trans hsn1, e2.trans ok1.recorded, hv, ⟨m, hm, hw⟩, hv'⟩
        have G1 : GuardSnap v w st1.ds := g1 st1 rfl rfl
        have a1 : ∀ x ∈ st1.states, GuardSnap v w x := by
          intro x hx
          rw [h1] at gr1
          rcases gr1 x hx with h | h | h | ⟨⟨r0', R'', hs, hok, hrot⟩, _⟩
          · simp [St.states] at h
          · exact inv _ _ h hg0
          · exact inv _ _ h G1
          · rw [h1] at hok
            simp only [Except.ok.injEq] at hok
            rw [hr0] at hs
            simp only [Option.some.injEq] at hs
            subst hs; subst hok
            simp only [href] at hrot
            exact absurd hrot hk
        have gr2 := loadTimestamp_grows (cfg := c.cfg) (srv := c.srv) R' st1
        split
        · rename_i e st2 h2
          rw [h2] at gr2
          have t2 := loadTimestamp_err_trust h2
          exact all_of_grows inv a1 G1 (inv _ _ t2 G1) gr2
        · rename_i ts st2 h2
          rw [h2] at gr2
          have ok2 := loadTimestamp_ok h2
          have hroot2 : st2.ds.root = st1.ds.root := loadTimestamp_ok_root h2
          have G2 := g1 st2 ok2.storedSnap hroot2
          have a2 := all_of_grows inv a1 G1 G2 gr2
          have k3 := loadSnapshot_keeps (cfg := c.cfg) (srv := c.srv) (root := R') (ts := ts) st2
          have gr3 := loadSnapshot_grows (cfg := c.cfg) (srv := c.srv) R' ts st2
          split
          · rename_i e st3 h3
            rw [h3] at k3 gr3
            have := loadSnapshot_err_snap h3
            exact all_of_grows inv a2 G2 (g1 st3 (this.trans ok2.storedSnap) (k3.2.1.trans hroot2)) gr3
          · rename_i sn st3 h3
            rw [h3] at k3 gr3
            have ok3 := loadSnapshot_ok h3
            obtain ⟨hle, hlist⟩ := snapshotRollback_none (ok3.noRollback d (ok2.storedSnap.trans hsn1) hv')
            obtain ⟨m', hm', hmv⟩ := hlist m hm
            have hroot3 : st3.ds.root = .doc R' := (k3.2.1.trans hroot2).trans ok1.recorded
            have g3 : ∀ s : St, s.ds.snap = st3.ds.snap → s.ds.root = st3.ds.root → GuardSnap v w s.ds :=
              fun s e1 e2 => ⟨sn, R', e1.trans ok3.storedSnap, e2.trans hroot3, by omega, ⟨m', hm', by omega⟩, ok3.verified⟩
            have G3 := g3 st3 rfl rfl
            have a3 := all_of_grows inv a2 G2 G3 gr3
            have k4 := loadTargets_keeps (cfg := c.cfg) (srv := c.srv) (root := R') (snap := sn) st3
            have gr4 := loadTargets_grows (cfg := c.cfg) (srv := c.srv) R' sn st3
            split
            · rename_i e st4 h4
              rw [h4] at k4 gr4
              exact all_of_grows inv a3 G3 (g3 st4 k4.2.1 k4.2.2.1) gr4
            · rename_i t st4 h4
              rw [h4] at k4 gr4
              exact all_of_grows inv a3 G3 (g3 st4 k4.2.1 k4.2.2.1) gr4
      · exact Or.inr ⟨R, R', st1, hroot, h1, Or.inr ⟨d, hsn, hver, by simpa using hv'⟩⟩

/-- **C15.a, targets.** -/
theorem crash_tgt (v : Nat) (ds : Datastore) (c : Cyc) (hg : GuardTgt v ds) :
    (∀ x ∈ (c.run ds).2.states, GuardTgt v x) ∨ ExemptTgt ds c := by
  have hg0 := hg
  obtain ⟨d, R, htg, hroot, hv, hver⟩ := hg
  have inv := guardTgt_inv v
  have gr1 := loadRoot_grows (cfg := c.cfg) (srv := c.srv) c.shipped ⟨ds, []⟩
  unfold Cyc.run cycle
  split
  · rename_i e st1 h1
    have t1 := loadRoot_err_trust h1
    left
    intro x hx
    rw [h1] at gr1
    rcases gr1 x hx with h | h | h | ⟨⟨_, _, _, h, _⟩, _⟩
    · simp [St.states] at h
    · exact inv _ _ h hg0
    · exact inv _ _ (h.trans t1) hg0
    · rw [h1] at h; simp at h
  · rename_i R' st1 h1
    have ok1 := loadRoot_ok h1
    obtain ⟨r0, hr0, _, _, _, hsame, hdiff⟩ := ok1.shipped
    have htg1 : st1.ds.tgt = .doc d := by
      cases hk : onlineKeysChanged (refRoot ds r0) R' with
      | false => exact (congrArg (·.2.2) (hsame hk)).trans htg
      | true => exact (hdiff hk).2.2.trans htg
    by_cases hv' : rootVerify R' .targets d.msg d.sigs = true
    · left
      have g1 : ∀ s : St, s.ds.tgt = st1.ds.tgt → s.ds.root = st1.ds.root → GuardTgt v s.ds :=
        fun s e1 e2 => ⟨d, R', e1.trans htg1, e2.trans ok1.recorded, hv, hv'⟩
      have G1 : GuardTgt v st1.ds := g1 st1 rfl rfl
      have a1 : ∀ x ∈ st1.states, GuardTgt v x := by
        intro x hx
        rw [h1] at gr1
        rcases gr1 x hx with h | h | h | ⟨_, e1, e2⟩
        · simp [St.states] at h
        · exact inv _ _ h hg0
        · exact inv _ _ h G1
        · -- half-cleared states of a rotation: targets and recorded root are as before
          exact ⟨d, R, e1.trans htg, e2.trans hroot, hv, hver⟩
      have gr2 := loadTimestamp_grows (cfg := c.cfg) (srv := c.srv) R' st1
      split
      · rename_i e st2 h2
        rw [h2] at gr2
        have t2 := loadTimestamp_err_trust h2
        exact all_of_grows inv a1 G1 (inv _ _ t2 G1) gr2
      · rename_i ts st2 h2
        rw [h2] at gr2
        have ok2 := loadTimestamp_ok h2
        have hroot2 : st2.ds.root = st1.ds.root := loadTimestamp_ok_root h2
        have G2 := g1 st2 ok2.storedTgt hroot2
        have a2 := all_of_grows inv a1 G1 G2 gr2
        have k3 := loadSnapshot_keeps (cfg := c.cfg) (srv := c.srv) (root := R') (ts := ts) st2
        have gr3 := loadSnapshot_grows (cfg := c.cfg) (srv := c.srv) R' ts st2
        split
        · rename_i e st3 h3
          rw [h3] at k3 gr3
          exact all_of_grows inv a2 G2 (g1 st3 (k3.2.2.trans ok2.storedTgt) (k3.2.1.trans hroot2)) gr3
        · rename_i sn st3 h3
          rw [h3] at k3 gr3
          have htg3 : st3.ds.tgt = .doc d := (k3.2.2.trans ok2.storedTgt).trans htg1
          have hroot3 : st3.ds.root = .doc R' := (k3.2.1.trans hroot2).trans ok1.recorded
          have G3 : GuardTgt v st3.ds := ⟨d, R', htg3, hroot3, hv, hv'⟩
          have a3 := all_of_grows inv a2 G2 G3 gr3
          have k4 := loadTargets_keeps (cfg := c.cfg) (srv := c.srv) (root := R') (snap := sn) st3
          have gr4 := loadTargets_grows (cfg := c.cfg) (srv := c.srv) R' sn st3
          have g4 : ∀ (fin : Except Err Tgt × St), fin = loadTargets c.cfg c.srv R' sn st3 → GuardTgt v fin.2.ds := by
            intro fin hfin
            rw [← hfin] at k4
            rcases k4.2.2.2 with hsame4 | ⟨nd, hnd, hndv, hnb⟩
            · exact ⟨d, R', hsame4.trans htg3, k4.2.2.1.trans hroot3, hv, hv'⟩
            · simp only [storedBlocks, htg3, hv', Bool.true_and, decide_eq_false_iff_not] at hnb
              exact ⟨nd, R', hnd, k4.2.2.1.trans hroot3, by omega, hndv⟩
          split
          · rename_i e st4 h4
            rw [h4] at gr4
            exact all_of_grows inv a3 G3 (g4 (.error e, st4) h4.symm) gr4
          · rename_i t st4 h4
            rw [h4] at gr4
            exact all_of_grows inv a3 G3 (g4 (.ok t, st4) h4.symm) gr4
    · exact Or.inr ⟨R, R', st1, d, hroot, h1, htg, hver, by simpa using hv'⟩

/-! ### Histories in which cycles may be cut short -/

/-- one cycle of a history: run to its end (`cut = none`), or cut short so that the `k`-th crash state
(0 = nothing written yet, 1 = after the first datastore operation, …) is what it leaves behind.  A cut
stands for the death of the process as well as for a failed datastore write, which ends the cycle with
an error and without the write. -/
structure Run where
  cyc : Cyc
  cut : Option Nat

/-- crash states in the order they occur -/
def crashSeq (c : Cyc) (ds : Datastore) : List Datastore := ds :: (c.run ds).2.states.reverse

def Run.after (r : Run) (ds : Datastore) : Datastore :=
  match r.cut with
  | none => (r.cyc.run ds).2.ds
  | some k => (crashSeq r.cyc ds)[k]?.getD ds

theorem Run.after_cases (r : Run) (ds : Datastore) :
    r.after ds = (r.cyc.run ds).2.ds ∨ r.after ds = ds ∨ r.after ds ∈ (r.cyc.run ds).2.states := by
  unfold Run.after
  cases r.cut with
  | none => exact Or.inl rfl
  | some k =>
    right
    simp only
    cases h : (crashSeq r.cyc ds)[k]? with
    | none => left; rfl
    | some x =>
      have hm : x ∈ crashSeq r.cyc ds := List.mem_of_getElem? h
      simp only [crashSeq, List.mem_cons, List.mem_reverse] at hm
      rcases hm with h' | h'
      · left; simp [h']
      · right; simpa using h'

def dsAfterRuns (ds : Datastore) : List Run → Datastore
  | [] => ds
  | r :: rs => dsAfterRuns (r.after ds) rs

/-- somewhere in the history (cut short or not) an exempting root change was seen -/
def ExemptInRuns (E : Datastore → Cyc → Prop) (ds : Datastore) (H : List Run) : Prop :=
  ∃ pre r post, H = pre ++ r :: post ∧ E (dsAfterRuns ds pre) r.cyc

theorem liftRuns {G : Datastore → Prop} {E : Datastore → Cyc → Prop} {P : View → Prop}
    (step : ∀ ds c, G ds → (G (c.run ds).2.ds ∧ ∀ v, (c.run ds).1 = .ok v → P v) ∨ E ds c)
    (crash : ∀ ds c, G ds → (∀ x ∈ (c.run ds).2.states, G x) ∨ E ds c) :
    ∀ (H : List Run) (ds : Datastore), G ds → ∀ c : Cyc,
      (∀ v, (c.run (dsAfterRuns ds H)).1 = .ok v → P v) ∨ ExemptInRuns E ds (H ++ [⟨c, none⟩]) := by
  intro H
  induction H with
  | nil =>
    intro ds hg c
    rcases step ds c hg with ⟨_, h⟩ | h
    · exact Or.inl h
    · exact Or.inr ⟨[], ⟨c, none⟩, [], rfl, h⟩
  | cons r rest ih =>
    intro ds hg c
    have hnext : G (r.after ds) ∨ E ds r.cyc := by
      rcases r.after_cases ds with h | h | h
      · rcases step ds r.cyc hg with ⟨hg', _⟩ | he
        · exact Or.inl (by rw [h]; exact hg')
        · exact Or.inr he
      · exact Or.inl (by rw [h]; exact hg)
      · rcases crash ds r.cyc hg with ha | he
        · exact Or.inl (ha _ h)
        · exact Or.inr he
    rcases hnext with hg' | he
    · rcases ih _ hg' c with h | ⟨pre, x, post, hx, hE⟩
      · exact Or.inl h
      · exact Or.inr ⟨r :: pre, x, post, by simp [hx], hE⟩
    · exact Or.inr ⟨[], r, rest ++ [⟨c, none⟩], rfl, he⟩

/-- **C15.a (timestamp, full statement).** Cycle `cᵢ` succeeded with timestamp version `v`.  Then
for EVERY later history of cycles on that datastore — any length, any servers, each one run to its
end or cut short after any number of datastore operations — a further cycle that succeeds trusts a
timestamp of version at least `v`, unless some cycle of the history saw a root that changed the
authorization of the online roles. -/
theorem timestamp_protected_despite_crashes (ds : Datastore) (ci : Cyc) (wi : View) (hi : (ci.run ds).1 = .ok wi)
    (mid : List Run) (cj : Cyc) :
    (∀ wj, (cj.run (dsAfterRuns (ci.run ds).2.ds mid)).1 = .ok wj → wi.ts.version ≤ wj.ts.version) ∨
    ExemptInRuns ExemptTs (ci.run ds).2.ds (mid ++ [⟨cj, none⟩]) :=
  liftRuns (G := GuardTs wi.ts.version) (P := fun w => wi.ts.version ≤ w.ts.version)
    (step_ts wi.ts.version) (crash_ts wi.ts.version) mid _ (established_ts ds ci wi hi) cj

/-- **C15.a (snapshot).** -/
theorem snapshot_protected_despite_crashes (ds : Datastore) (ci : Cyc) (xi : View) (hi : (ci.run ds).1 = .ok xi)
    (mid : List Run) (cj : Cyc) :
    ∃ m, xi.snap.find .targets = some m ∧
      ((∀ xj, (cj.run (dsAfterRuns (ci.run ds).2.ds mid)).1 = .ok xj → SnapAtLeast xi.snap.version m.version xj) ∨
        ExemptInRuns ExemptSnap (ci.run ds).2.ds (mid ++ [⟨cj, none⟩])) := by
  obtain ⟨m, hm, hg⟩ := established_snap ds ci xi hi
  exact ⟨m, hm, liftRuns (G := GuardSnap xi.snap.version m.version) (P := SnapAtLeast xi.snap.version m.version)
    (step_snap _ _) (crash_snap _ _) mid _ hg cj⟩

/-- **C15.a (top-level targets).** -/
theorem targets_protected_despite_crashes (ds : Datastore) (ci : Cyc) (xi : View) (hi : (ci.run ds).1 = .ok xi)
    (mid : List Run) (cj : Cyc) :
    (∀ xj, (cj.run (dsAfterRuns (ci.run ds).2.ds mid)).1 = .ok xj → (Tgt.doc xi.tgt).version ≤ (Tgt.doc xj.tgt).version) ∨
    ExemptInRuns ExemptTgt (ci.run ds).2.ds (mid ++ [⟨cj, none⟩]) :=
  liftRuns (G := GuardTgt (Tgt.doc xi.tgt).version) (P := fun x => (Tgt.doc xi.tgt).version ≤ (Tgt.doc x.tgt).version)
    (step_tgt _) (crash_tgt _) mid _ (established_tgt ds ci xi hi) cj

/-! ### An interrupted cycle never locks the client out of the repository it was fetching

`Resumable` says which datastores a successful cycle passes through, slot by slot: either the recorded
root is still the one the cycle started with (then the targets slot is untouched and the online slots
are untouched or on their way to being cleared by a rotation), or the new root is recorded and every
slot holds what it held after the root phase or the document the cycle went on to trust. -/

def blocksTs (root : Root) (slot : Slot Timestamp) (ts : Timestamp) : Bool :=
  storedBlocks (fun old => rootVerify root .timestamp old.msg old.sigs) (·.version) slot ts.version
def blocksTgt (root : Root) (slot : Slot TargetsDoc) (t : TargetsDoc) : Bool :=
  storedBlocks (fun old => rootVerify root .targets old.msg old.sigs) (·.version) slot t.version

theorem self_not_blocksTs (root : Root) (ts : Timestamp) : blocksTs root (.doc ts) ts = false := by
  simp [blocksTs, storedBlocks]
theorem self_not_blocksTgt (root : Root) (t : TargetsDoc) : blocksTgt root (.doc t) t = false := by
  simp [blocksTgt, storedBlocks]
theorem self_not_blocksSnap (root : Root) (sn : Snapshot) : storedSnapshotBlocks root (.doc sn) sn = none := by
  simp only [storedSnapshotBlocks]
  split
  · simp only [snapshotRollback, Nat.lt_irrefl, ↓reduceIte]
    cases sn.find .targets with
    | none => rfl
    | some m => simp
  · rfl

/-- **C15.b (no lock-out, for the repository being fetched).** Let a cycle succeed with view `v`.
Then from EVERY datastore that cycle can leave behind when it is cut short — before its first datastore
operation, after any of them, or after a failed one — the same cycle (same repository, same clock)
succeeds again with the same view: an interruption never makes the client refuse the repository it was
in the middle of accepting. -/
theorem crash_no_lockout (c : Cyc) (ds : Datastore) (v : View) (h : (c.run ds).1 = .ok v) :
    ∀ d ∈ crashStates c ds, (c.run d).1 = .ok v := by
  intro d hd
  unfold Cyc.run at h ⊢
  -- the phases of the successful run
  cases hc : cycle c.cfg c.srv c.shipped ⟨ds, []⟩ with
  | mk res a4 =>
    rw [hc] at h
    simp only at h
    subst h
    have hcyc := hc
    unfold cycle at hc
    cases h0 : loadRoot c.cfg c.srv c.shipped ⟨ds, []⟩ with
    | mk r0r a1 =>
      rw [h0] at hc
      cases r0r with
      | error e => simp at hc
      | ok root =>
        simp only at hc
        cases h1 : loadTimestamp c.cfg c.srv root a1 with
        | mk r1 a2 =>
          rw [h1] at hc
          cases r1 with
          | error e => simp at hc
          | ok ts =>
            simp only at hc
            cases h2 : loadSnapshot c.cfg c.srv root ts a2 with
            | mk r2 a3 =>
              rw [h2] at hc
              cases r2 with
              | error e => simp at hc
              | ok sn =>
                simp only at hc
                cases h3 : loadTargets c.cfg c.srv root sn a3 with
                | mk r3 a4' =>
                  rw [h3] at hc
                  cases r3 with
                  | error e => simp at hc
                  | ok t =>
                    simp only [Prod.mk.injEq, Except.ok.injEq] at hc
                    obtain ⟨hv, ha4⟩ := hc
                    subst hv; subst ha4
                    -- facts about the boundary states
                    have ok1 := loadRoot_ok h0
                    have ok2 := loadTimestamp_ok h1
                    have ok3 := loadSnapshot_ok h2
                    obtain ⟨r0, hr0, _, _, _, hsame, hdiff⟩ := ok1.shipped
                    have clock0 : TimeOk c.cfg ds := fun hs t ht => by
                      have := ok1.clockOk hs t ht; omega
                    have k3 := loadSnapshot_keeps (cfg := c.cfg) (srv := c.srv) (root := root) (ts := ts) a2
                    rw [h2] at k3
                    have k4 := loadTargets_keeps (cfg := c.cfg) (srv := c.srv) (root := root) (snap := sn) a3
                    rw [h3] at k4
                    have st4 := loadTargets_ok_stored h3
                    have ub2 := loadTimestamp_unblocked h1
                    have ub3 := loadSnapshot_unblocked h2
                    have ub4 := loadTargets_unblocked h3
                    have root2 : a2.ds.root = a1.ds.root := loadTimestamp_ok_root h1
                    have a1tgt : a1.ds.tgt = ds.tgt := by
                      cases hk : onlineKeysChanged (refRoot ds r0) root with
                      | false => exact congrArg (·.2.2) (hsame hk)
                      | true => exact (hdiff hk).2.2
                    have a3snap : a3.ds.snap = .doc sn := ok3.storedSnap
                    have a3tgt : a3.ds.tgt = ds.tgt := (k3.2.2.trans ok2.storedTgt).trans a1tgt
                    -- the shape of d
                    have shape : TimeOk c.cfg d ∧
                        ((d.root = ds.root ∧ d.tgt = ds.tgt ∧
                            (onlineKeysChanged (refRoot ds r0) root = true ∨ (d.ts = ds.ts ∧ d.snap = ds.snap))) ∨
                         (d.root = .doc root ∧ (d.ts = a1.ds.ts ∨ d.ts = .doc ts) ∧ (d.snap = a1.ds.snap ∨ d.snap = .doc sn) ∧
                            (d.tgt = ds.tgt ∨ d.tgt = .doc (Tgt.doc t)))) := by
                      simp only [crashStates, Cyc.run, hcyc, List.mem_cons] at hd
                      rcases hd with rfl | hd
                      · exact ⟨clock0, Or.inl ⟨rfl, rfl, Or.inr ⟨rfl, rfl⟩⟩⟩
                      · have kt := cycle_keepsTime (cfg := c.cfg) (srv := c.srv) c.shipped ⟨ds, []⟩
                        rw [hcyc] at kt
                        have htime : TimeOk c.cfg d := by
                          rcases kt.1 d hd with hh | hh
                          · simp [St.states] at hh
                          · intro hs tt htt
                            rcases hh with e | e
                            · exact clock0 hs tt (e ▸ htt)
                            · rw [e] at htt; simp only [Option.some.injEq] at htt; subst htt; exact Int.lt_irrefl _
                        refine ⟨htime, ?_⟩
                        -- where in the run d occurs
                        have g4 := loadTargets_grows (cfg := c.cfg) (srv := c.srv) root sn a3
                        rw [h3] at g4
                        have g3 := loadSnapshot_grows (cfg := c.cfg) (srv := c.srv) root ts a2
                        rw [h2] at g3
                        have g2 := loadTimestamp_grows (cfg := c.cfg) (srv := c.srv) root a1
                        rw [h1] at g2
                        have g1 := loadRoot_grows (cfg := c.cfg) (srv := c.srv) c.shipped ⟨ds, []⟩
                        rw [h0] at g1
                        -- the trust states at the boundaries, slot by slot
                        have B1 : ∀ x : Datastore, x.trust = a1.ds.trust → (x.root = .doc root ∧ (x.ts = a1.ds.ts ∨ x.ts = .doc ts) ∧ (x.snap = a1.ds.snap ∨ x.snap = .doc sn) ∧ (x.tgt = ds.tgt ∨ x.tgt = .doc (Tgt.doc t))) :=
                          fun x e => ⟨(congrArg (·.2.2.2) e).trans ok1.recorded, Or.inl (congrArg (·.1) e), Or.inl (congrArg (·.2.1) e), Or.inl ((congrArg (·.2.2.1) e).trans a1tgt)⟩
                        have B2 : ∀ x : Datastore, x.trust = a2.ds.trust → (x.root = .doc root ∧ (x.ts = a1.ds.ts ∨ x.ts = .doc ts) ∧ (x.snap = a1.ds.snap ∨ x.snap = .doc sn) ∧ (x.tgt = ds.tgt ∨ x.tgt = .doc (Tgt.doc t))) :=
                          fun x e => ⟨((congrArg (·.2.2.2) e).trans root2).trans ok1.recorded, Or.inr ((congrArg (·.1) e).trans ok2.storedTs),
                            Or.inl ((congrArg (·.2.1) e).trans ok2.storedSnap), Or.inl (((congrArg (·.2.2.1) e).trans ok2.storedTgt).trans a1tgt)⟩
                        have B3 : ∀ x : Datastore, x.trust = a3.ds.trust → (x.root = .doc root ∧ (x.ts = a1.ds.ts ∨ x.ts = .doc ts) ∧ (x.snap = a1.ds.snap ∨ x.snap = .doc sn) ∧ (x.tgt = ds.tgt ∨ x.tgt = .doc (Tgt.doc t))) :=
                          fun x e => ⟨(((congrArg (·.2.2.2) e).trans k3.2.1).trans root2).trans ok1.recorded, Or.inr (((congrArg (·.1) e).trans k3.1).trans ok2.storedTs),
                            Or.inr ((congrArg (·.2.1) e).trans a3snap), Or.inl ((congrArg (·.2.2.1) e).trans a3tgt)⟩
                        have B4 : ∀ x : Datastore, x.trust = a4'.ds.trust → (x.root = .doc root ∧ (x.ts = a1.ds.ts ∨ x.ts = .doc ts) ∧ (x.snap = a1.ds.snap ∨ x.snap = .doc sn) ∧ (x.tgt = ds.tgt ∨ x.tgt = .doc (Tgt.doc t))) :=
                          fun x e => ⟨((((congrArg (·.2.2.2) e).trans k4.2.2.1).trans k3.2.1).trans root2).trans ok1.recorded,
                            Or.inr ((((congrArg (·.1) e).trans k4.1).trans k3.1).trans ok2.storedTs),
                            Or.inr (((congrArg (·.2.1) e).trans k4.2.1).trans a3snap), Or.inr ((congrArg (·.2.2.1) e).trans st4)⟩
                        rcases g4 d hd with hd3 | e | e
                        · rcases g3 d hd3 with hd2 | e | e
                          · rcases g2 d hd2 with hd1 | e | e
                            · rcases g1 d hd1 with hh | e | e | ⟨⟨r0', R'', hs, hok, hrot⟩, e1, e2⟩
                              · simp [St.states] at hh
                              · exact Or.inl ⟨congrArg (·.2.2.2) e, congrArg (·.2.2.1) e, Or.inr ⟨congrArg (·.1) e, congrArg (·.2.1) e⟩⟩
                              · exact Or.inr (B1 d e)
                              · rw [h0] at hok
                                simp only [Except.ok.injEq] at hok
                                rw [hr0] at hs
                                simp only [Option.some.injEq] at hs
                                subst hs; subst hok
                                exact Or.inl ⟨e2, e1, Or.inl hrot⟩
                            · exact Or.inr (B1 d e)
                            · exact Or.inr (B2 d e)
                          · exact Or.inr (B2 d e)
                          · exact Or.inr (B3 d e)
                        · exact Or.inr (B3 d e)
                        · exact Or.inr (B4 d e)
                    obtain ⟨htime, hshape⟩ := shape
                    -- the three stored documents, as they are after the root phase of the second run, block nothing
                    have a1ds : ∃ l, loadRoot c.cfg c.srv c.shipped ⟨ds, []⟩ = (.ok root, ⟨afterRoot c.cfg r0 root ds, l⟩) := by
                      obtain ⟨r0', l, hs, hl⟩ := loadRoot_rerun (cfg := c.cfg) (srv := c.srv) ⟨ds, []⟩ h0 clock0
                      rw [hr0] at hs; simp only [Option.some.injEq] at hs; subst hs
                      exact ⟨l, hl⟩
                    obtain ⟨l1, hl1⟩ := a1ds
                    have ea1 : a1.ds = afterRoot c.cfg r0 root ds := by
                      rw [h0] at hl1
                      simp only [Prod.mk.injEq, Except.ok.injEq, true_and] at hl1
                      rw [hl1]
                    have tsd : (afterRoot c.cfg r0 root d).ts = if onlineKeysChanged (refRoot d r0) root then .absent else d.ts := by
                      unfold afterRoot
                      have := congrArg (·.1) (gated_trust (cfg := c.cfg) d)
                      split <;> first | rfl | exact this
                    have snd : (afterRoot c.cfg r0 root d).snap = if onlineKeysChanged (refRoot d r0) root then .absent else d.snap := by
                      unfold afterRoot
                      have := congrArg (·.2.1) (gated_trust (cfg := c.cfg) d)
                      split <;> first | rfl | exact this
                    have tsa : a1.ds.ts = if onlineKeysChanged (refRoot ds r0) root then .absent else ds.ts := by
                      rw [ea1]; unfold afterRoot
                      have := congrArg (·.1) (gated_trust (cfg := c.cfg) ds)
                      split <;> first | rfl | exact this
                    have sna : a1.ds.snap = if onlineKeysChanged (refRoot ds r0) root then .absent else ds.snap := by
                      rw [ea1]; unfold afterRoot
                      have := congrArg (·.2.1) (gated_trust (cfg := c.cfg) ds)
                      split <;> first | rfl | exact this
                    have sn2 : a2.ds.snap = a1.ds.snap := ok2.storedSnap
                    have hrun := cycle_rerun (cfg := c.cfg) (srv := c.srv) (shipped := c.shipped) (v := ⟨root, ts, sn, t⟩) ⟨d, []⟩ hcyc htime
                      (by
                        intro r0' hs'
                        rw [hr0] at hs'; simp only [Option.some.injEq] at hs'; subst hs'
                        show blocksTs root (afterRoot c.cfg r0 root d).ts ts = false
                        rw [tsd]
                        rcases hshape with ⟨hr, _, hrot | ⟨e1, _⟩⟩ | ⟨hr, hts, _, _⟩
                        · have : refRoot d r0 = refRoot ds r0 := by simp [refRoot, hr]
                          rw [this, hrot]; rfl
                        · have : refRoot d r0 = refRoot ds r0 := by simp [refRoot, hr]
                          rw [this, e1]
                          have := ub2
                          rw [tsa] at this
                          exact this
                        · have : refRoot d r0 = root := by simp [refRoot, hr]
                          rw [this, onlineKeysChanged_self]
                          simp only [Bool.false_eq_true, ↓reduceIte]
                          rcases hts with e | e
                          · rw [e]; exact ub2
                          · rw [e]; exact self_not_blocksTs root ts)
                      (by
                        intro r0' hs'
                        rw [hr0] at hs'; simp only [Option.some.injEq] at hs'; subst hs'
                        show storedSnapshotBlocks root (afterRoot c.cfg r0 root d).snap sn = none
                        rw [snd]
                        rcases hshape with ⟨hr, _, hrot | ⟨_, e2⟩⟩ | ⟨hr, _, hsn, _⟩
                        · have : refRoot d r0 = refRoot ds r0 := by simp [refRoot, hr]
                          rw [this, hrot]; rfl
                        · have : refRoot d r0 = refRoot ds r0 := by simp [refRoot, hr]
                          rw [this, e2]
                          have := ub3
                          rw [sn2, sna] at this
                          exact this
                        · have : refRoot d r0 = root := by simp [refRoot, hr]
                          rw [this, onlineKeysChanged_self]
                          simp only [Bool.false_eq_true, ↓reduceIte]
                          rcases hsn with e | e
                          · rw [e, ← sn2]; exact ub3
                          · rw [e]; exact self_not_blocksSnap root sn)
                      (by
                        show blocksTgt root d.tgt (Tgt.doc t) = false
                        have base : blocksTgt root ds.tgt (Tgt.doc t) = false := by
                          have := ub4; rw [a3tgt] at this; exact this
                        rcases hshape with ⟨_, e, _⟩ | ⟨_, _, _, e | e⟩
                        · rw [e]; exact base
                        · rw [e]; exact base
                        · rw [e]; exact self_not_blocksTgt root _)
                    obtain ⟨b', hb'⟩ := hrun
                    rw [hb']

/-! ### No lock-out against any repository that is acceptable before and after the interrupted cycle -/

theorem afterRoot_ts (cfg : Config) (r0 root : Root) (d : Datastore) :
    (afterRoot cfg r0 root d).ts = if onlineKeysChanged (refRoot d r0) root then .absent else d.ts := by
  unfold afterRoot
  have := congrArg (·.1) (gated_trust (cfg := cfg) d)
  split <;> first | rfl | exact this

theorem afterRoot_snap (cfg : Config) (r0 root : Root) (d : Datastore) :
    (afterRoot cfg r0 root d).snap = if onlineKeysChanged (refRoot d r0) root then .absent else d.snap := by
  unfold afterRoot
  have := congrArg (·.2.1) (gated_trust (cfg := cfg) d)
  split <;> first | rfl | exact this

/-- "the online keys did not change" is transitive -/
theorem onlineKeys_unchanged_trans (a b c : Root) (h1 : onlineKeysChanged a b = false) (h2 : onlineKeysChanged b c = false) :
    onlineKeysChanged a c = false := by
  simp only [onlineKeysChanged, Bool.or_eq_false_iff, bne_eq_false_iff_eq] at *
  exact ⟨h1.1.trans h2.1, h1.2.trans h2.2⟩

/-- what a successful cycle shows about the datastore it started from: the stored clock sample is not
ahead of the clock, and none of the stored documents — as they are once the root phase has run —
blocks what the cycle came to trust.  (The converse is `cycle_rerun`.) -/
theorem cycle_unblocked {cfg : Config} {srv : Server} {shipped : Option Root} {a a' : St} {v : View}
    (h : cycle cfg srv shipped a = (.ok v, a')) :
    TimeOk cfg a.ds ∧ ∃ r0, shipped = some r0 ∧
      blocksTs v.root (afterRoot cfg r0 v.root a.ds).ts v.ts = false ∧
      storedSnapshotBlocks v.root (afterRoot cfg r0 v.root a.ds).snap v.snap = none ∧
      blocksTgt v.root a.ds.tgt (Tgt.doc v.tgt) = false := by
  have hcyc := h
  unfold cycle at h
  cases h0 : loadRoot cfg srv shipped a with
  | mk r0r a1 =>
    rw [h0] at h
    cases r0r with
    | error e => simp at h
    | ok root =>
      simp only at h
      cases h1 : loadTimestamp cfg srv root a1 with
      | mk r1 a2 =>
        rw [h1] at h
        cases r1 with
        | error e => simp at h
        | ok ts =>
          simp only at h
          cases h2 : loadSnapshot cfg srv root ts a2 with
          | mk r2 a3 =>
            rw [h2] at h
            cases r2 with
            | error e => simp at h
            | ok sn =>
              simp only at h
              cases h3 : loadTargets cfg srv root sn a3 with
              | mk r3 a4 =>
                rw [h3] at h
                cases r3 with
                | error e => simp at h
                | ok t =>
                  simp only [Prod.mk.injEq, Except.ok.injEq] at h
                  obtain ⟨hv, _⟩ := h
                  subst hv
                  have ok1 := loadRoot_ok h0
                  have ok2 := loadTimestamp_ok h1
                  obtain ⟨r0, hr0, _, _, _, hsame, hdiff⟩ := ok1.shipped
                  have clock0 : TimeOk cfg a.ds := fun hs t ht => by
                    have := ok1.clockOk hs t ht; omega
                  obtain ⟨r0', l, hs, hl⟩ := loadRoot_rerun (cfg := cfg) (srv := srv) a h0 clock0
                  rw [hr0] at hs; simp only [Option.some.injEq] at hs; subst hs
                  have ea1 : a1.ds = afterRoot cfg r0 root a.ds := by
                    rw [h0] at hl
                    simp only [Prod.mk.injEq, Except.ok.injEq, true_and] at hl
                    rw [hl]
                  have k3 := loadSnapshot_keeps (cfg := cfg) (srv := srv) (root := root) (ts := ts) a2
                  rw [h2] at k3
                  have a1tgt : a1.ds.tgt = a.ds.tgt := by
                    cases hk : onlineKeysChanged (refRoot a.ds r0) root with
                    | false => exact congrArg (·.2.2) (hsame hk)
                    | true => exact (hdiff hk).2.2
                  have a3tgt : a3.ds.tgt = a.ds.tgt := (k3.2.2.trans ok2.storedTgt).trans a1tgt
                  refine ⟨clock0, r0, hr0, ?_, ?_, ?_⟩
                  · have := loadTimestamp_unblocked h1
                    rw [ea1] at this; exact this
                  · have := loadSnapshot_unblocked h2
                    rw [ok2.storedSnap, ea1] at this; exact this
                  · have := loadTargets_unblocked h3
                    rw [a3tgt] at this; exact this

/-- where a crash state of a successful cycle lies between the datastore the cycle started from and the
one it ends with: before the new root is recorded the root and targets slots are the old ones and the
timestamp / snapshot slots are the old ones or already removed; from then on every slot holds what the
root phase left or what the cycle stores.  The last component describes the final datastore. -/
theorem crash_shape (c : Cyc) (ds : Datastore) (v : View) (r0 : Root) (hr0 : c.shipped = some r0)
    (h : (c.run ds).1 = .ok v) :
    (∀ d ∈ crashStates c ds,
      (d.time = ds.time ∨ d.time = some c.cfg.now) ∧
      ((d.root = ds.root ∧ d.tgt = ds.tgt ∧ (d.ts = ds.ts ∨ d.ts = .absent) ∧ (d.snap = ds.snap ∨ d.snap = .absent)) ∨
       (d.root = .doc v.root ∧
        (d.ts = (if onlineKeysChanged (refRoot ds r0) v.root then .absent else ds.ts) ∨ d.ts = .doc v.ts) ∧
        (d.snap = (if onlineKeysChanged (refRoot ds r0) v.root then .absent else ds.snap) ∨ d.snap = .doc v.snap) ∧
        (d.tgt = ds.tgt ∨ d.tgt = .doc (Tgt.doc v.tgt))))) ∧
    ((c.run ds).2.ds.root = .doc v.root ∧ (c.run ds).2.ds.ts = .doc v.ts ∧ (c.run ds).2.ds.snap = .doc v.snap ∧
      (c.run ds).2.ds.tgt = .doc (Tgt.doc v.tgt)) := by
  unfold Cyc.run at h ⊢
  cases hc : cycle c.cfg c.srv c.shipped ⟨ds, []⟩ with
  | mk res a4 =>
    rw [hc] at h
    simp only at h
    subst h
    have hcyc := hc
    unfold cycle at hc
    cases h0 : loadRoot c.cfg c.srv c.shipped ⟨ds, []⟩ with
    | mk r0r a1 =>
      rw [h0] at hc
      cases r0r with
      | error e => simp at hc
      | ok root =>
        simp only at hc
        cases h1 : loadTimestamp c.cfg c.srv root a1 with
        | mk r1 a2 =>
          rw [h1] at hc
          cases r1 with
          | error e => simp at hc
          | ok ts =>
            simp only at hc
            cases h2 : loadSnapshot c.cfg c.srv root ts a2 with
            | mk r2 a3 =>
              rw [h2] at hc
              cases r2 with
              | error e => simp at hc
              | ok sn =>
                simp only at hc
                cases h3 : loadTargets c.cfg c.srv root sn a3 with
                | mk r3 a4' =>
                  rw [h3] at hc
                  cases r3 with
                  | error e => simp at hc
                  | ok t =>
                    simp only [Prod.mk.injEq, Except.ok.injEq] at hc
                    obtain ⟨hv, ha4⟩ := hc
                    subst hv; subst ha4
                    have ok1 := loadRoot_ok h0
                    have ok2 := loadTimestamp_ok h1
                    have ok3 := loadSnapshot_ok h2
                    obtain ⟨r0', hr0', _, _, _, hsame, hdiff⟩ := ok1.shipped
                    rw [hr0] at hr0'; simp only [Option.some.injEq] at hr0'; subst hr0'
                    have clock0 : TimeOk c.cfg ds := fun hs t ht => by
                      have := ok1.clockOk hs t ht; omega
                    have k3 := loadSnapshot_keeps (cfg := c.cfg) (srv := c.srv) (root := root) (ts := ts) a2
                    rw [h2] at k3
                    have k4 := loadTargets_keeps (cfg := c.cfg) (srv := c.srv) (root := root) (snap := sn) a3
                    rw [h3] at k4
                    have st4 := loadTargets_ok_stored h3
                    have root2 : a2.ds.root = a1.ds.root := loadTimestamp_ok_root h1
                    have a1tgt : a1.ds.tgt = ds.tgt := by
                      cases hk : onlineKeysChanged (refRoot ds r0) root with
                      | false => exact congrArg (·.2.2) (hsame hk)
                      | true => exact (hdiff hk).2.2
                    have a3snap : a3.ds.snap = .doc sn := ok3.storedSnap
                    have a3tgt : a3.ds.tgt = ds.tgt := (k3.2.2.trans ok2.storedTgt).trans a1tgt
                    obtain ⟨r0', l, hs, hl⟩ := loadRoot_rerun (cfg := c.cfg) (srv := c.srv) ⟨ds, []⟩ h0 clock0
                    rw [hr0] at hs; simp only [Option.some.injEq] at hs; subst hs
                    have ea1 : a1.ds = afterRoot c.cfg r0 root ds := by
                      rw [h0] at hl
                      simp only [Prod.mk.injEq, Except.ok.injEq, true_and] at hl
                      rw [hl]
                    have tsa : a1.ds.ts = if onlineKeysChanged (refRoot ds r0) root then .absent else ds.ts := by
                      rw [ea1]; exact afterRoot_ts _ _ _ _
                    have sna : a1.ds.snap = if onlineKeysChanged (refRoot ds r0) root then .absent else ds.snap := by
                      rw [ea1]; exact afterRoot_snap _ _ _ _
                    refine ⟨?_, ?_⟩
                    · intro d hd
                      simp only [crashStates, Cyc.run, hcyc, List.mem_cons] at hd
                      rcases hd with rfl | hd
                      · exact ⟨Or.inl rfl, Or.inl ⟨rfl, rfl, Or.inl rfl, Or.inl rfl⟩⟩
                      · have kt := cycle_keepsTime (cfg := c.cfg) (srv := c.srv) c.shipped ⟨ds, []⟩
                        rw [hcyc] at kt
                        have htime : d.time = ds.time ∨ d.time = some c.cfg.now := by
                          rcases kt.1 d hd with hh | hh
                          · simp [St.states] at hh
                          · exact hh
                        refine ⟨htime, ?_⟩
                        have g4 := loadTargets_grows (cfg := c.cfg) (srv := c.srv) root sn a3
                        rw [h3] at g4
                        have g3 := loadSnapshot_grows (cfg := c.cfg) (srv := c.srv) root ts a2
                        rw [h2] at g3
                        have g2 := loadTimestamp_grows (cfg := c.cfg) (srv := c.srv) root a1
                        rw [h1] at g2
                        have g1 := loadRoot_grows2 (cfg := c.cfg) (srv := c.srv) c.shipped ⟨ds, []⟩
                        rw [h0] at g1
                        have B1 : ∀ x : Datastore, x.trust = a1.ds.trust → (x.root = .doc root ∧ (x.ts = a1.ds.ts ∨ x.ts = .doc ts) ∧ (x.snap = a1.ds.snap ∨ x.snap = .doc sn) ∧ (x.tgt = ds.tgt ∨ x.tgt = .doc (Tgt.doc t))) :=
                          fun x e => ⟨(congrArg (·.2.2.2) e).trans ok1.recorded, Or.inl (congrArg (·.1) e), Or.inl (congrArg (·.2.1) e), Or.inl ((congrArg (·.2.2.1) e).trans a1tgt)⟩
                        have B2 : ∀ x : Datastore, x.trust = a2.ds.trust → (x.root = .doc root ∧ (x.ts = a1.ds.ts ∨ x.ts = .doc ts) ∧ (x.snap = a1.ds.snap ∨ x.snap = .doc sn) ∧ (x.tgt = ds.tgt ∨ x.tgt = .doc (Tgt.doc t))) :=
                          fun x e => ⟨((congrArg (·.2.2.2) e).trans root2).trans ok1.recorded, Or.inr ((congrArg (·.1) e).trans ok2.storedTs),
                            Or.inl ((congrArg (·.2.1) e).trans ok2.storedSnap), Or.inl (((congrArg (·.2.2.1) e).trans ok2.storedTgt).trans a1tgt)⟩
                        have B3 : ∀ x : Datastore, x.trust = a3.ds.trust → (x.root = .doc root ∧ (x.ts = a1.ds.ts ∨ x.ts = .doc ts) ∧ (x.snap = a1.ds.snap ∨ x.snap = .doc sn) ∧ (x.tgt = ds.tgt ∨ x.tgt = .doc (Tgt.doc t))) :=
                          fun x e => ⟨(((congrArg (·.2.2.2) e).trans k3.2.1).trans root2).trans ok1.recorded, Or.inr (((congrArg (·.1) e).trans k3.1).trans ok2.storedTs),
                            Or.inr ((congrArg (·.2.1) e).trans a3snap), Or.inl ((congrArg (·.2.2.1) e).trans a3tgt)⟩
                        have B4 : ∀ x : Datastore, x.trust = a4'.ds.trust → (x.root = .doc root ∧ (x.ts = a1.ds.ts ∨ x.ts = .doc ts) ∧ (x.snap = a1.ds.snap ∨ x.snap = .doc sn) ∧ (x.tgt = ds.tgt ∨ x.tgt = .doc (Tgt.doc t))) :=
                          fun x e => ⟨((((congrArg (·.2.2.2) e).trans k4.2.2.1).trans k3.2.1).trans root2).trans ok1.recorded,
                            Or.inr ((((congrArg (·.1) e).trans k4.1).trans k3.1).trans ok2.storedTs),
                            Or.inr (((congrArg (·.2.1) e).trans k4.2.1).trans a3snap), Or.inr ((congrArg (·.2.2.1) e).trans st4)⟩
                        have fin : ∀ x : Datastore, (x.root = .doc root ∧ (x.ts = a1.ds.ts ∨ x.ts = .doc ts) ∧ (x.snap = a1.ds.snap ∨ x.snap = .doc sn) ∧ (x.tgt = ds.tgt ∨ x.tgt = .doc (Tgt.doc t))) →
                            (x.root = .doc root ∧
                              (x.ts = (if onlineKeysChanged (refRoot ds r0) root then .absent else ds.ts) ∨ x.ts = .doc ts) ∧
                              (x.snap = (if onlineKeysChanged (refRoot ds r0) root then .absent else ds.snap) ∨ x.snap = .doc sn) ∧
                              (x.tgt = ds.tgt ∨ x.tgt = .doc (Tgt.doc t))) := by
                          intro x hx
                          rw [tsa, sna] at hx
                          exact hx
                        rcases g4 d hd with hd3 | e | e
                        · rcases g3 d hd3 with hd2 | e | e
                          · rcases g2 d hd2 with hd1 | e | e
                            · rcases g1 d hd1 with hh | e | e | ⟨_, e1, e2, e3, e4⟩
                              · simp [St.states] at hh
                              · exact Or.inl ⟨congrArg (·.2.2.2) e, congrArg (·.2.2.1) e, Or.inl (congrArg (·.1) e), Or.inl (congrArg (·.2.1) e)⟩
                              · exact Or.inr (fin d (B1 d e))
                              · exact Or.inl ⟨e2, e1, e3, e4⟩
                            · exact Or.inr (fin d (B1 d e))
                            · exact Or.inr (fin d (B2 d e))
                          · exact Or.inr (fin d (B2 d e))
                          · exact Or.inr (fin d (B3 d e))
                        · exact Or.inr (fin d (B3 d e))
                        · exact Or.inr (fin d (B4 d e))
                    · exact ⟨(((k4.2.2.1).trans k3.2.1).trans root2).trans ok1.recorded, ((k4.1).trans k3.1).trans ok2.storedTs,
                        (k4.2.1).trans a3snap, st4⟩

/-- **C15.b, any later repository (no lock-out in general).** Let a cycle `c1` succeed from `ds`, and let
`c2` be any later cycle of the same client (same shipped root, clock not before `c1`'s) — against any
repository — that is acceptable both to a client that never started `c1` and to one that completed it:
`c2` succeeds from `ds` and from the datastore `c1` ends with, with view `v2`.  Then `c2` succeeds, with
the same view, from EVERY datastore `c1` can leave behind when it is cut short.  An interruption never
makes the client refuse a repository that it accepts before and after the interrupted update. -/
theorem crash_no_lockout_any_repository (c1 c2 : Cyc) (ds : Datastore) (v1 v2 : View)
    (hsh : c2.shipped = c1.shipped) (hnow : c1.cfg.now ≤ c2.cfg.now)
    (h1 : (c1.run ds).1 = .ok v1)
    (h2 : (c2.run ds).1 = .ok v2) (h2f : (c2.run (c1.run ds).2.ds).1 = .ok v2) :
    ∀ d ∈ crashStates c1 ds, (c2.run d).1 = .ok v2 := by
  intro d hd
  -- what c2's two successes say about `ds` and about the final datastore of c1
  have e2 : cycle c2.cfg c2.srv c2.shipped ⟨ds, []⟩ = (.ok v2, (c2.run ds).2) := by
    unfold Cyc.run at h2 ⊢; rw [← h2]
  have e2f : cycle c2.cfg c2.srv c2.shipped ⟨(c1.run ds).2.ds, []⟩ = (.ok v2, (c2.run (c1.run ds).2.ds).2) := by
    unfold Cyc.run at h2f ⊢; rw [← h2f]
  obtain ⟨t0, r0, hr0, pts, psn, ptg⟩ := cycle_unblocked e2
  obtain ⟨tf, r0', hr0', fts, fsn, ftg⟩ := cycle_unblocked e2f
  rw [hr0] at hr0'; simp only [Option.some.injEq] at hr0'; subst hr0'
  simp only at pts psn ptg fts fsn ftg t0 tf
  have hr1 : c1.shipped = some r0 := by rw [← hsh]; exact hr0
  obtain ⟨shape, ffin⟩ := crash_shape c1 ds v1 r0 hr1 h1
  obtain ⟨htime, hshape⟩ := shape d hd
  obtain ⟨froot, fts', fsn', ftg'⟩ := ffin
  rw [afterRoot_ts] at pts fts
  rw [afterRoot_snap] at psn fsn
  have hrf : refRoot (c1.run ds).2.ds r0 = v1.root := by simp [refRoot, froot]
  rw [hrf, fts'] at fts
  rw [hrf, fsn'] at fsn
  rw [ftg'] at ftg
  -- the clock
  have htimeOk : TimeOk c2.cfg d := by
    intro hs t ht
    rcases htime with e | e
    · exact t0 hs t (e ▸ ht)
    · rw [e] at ht; simp only [Option.some.injEq] at ht; subst ht; omega
  have hrun := cycle_rerun (cfg := c2.cfg) (srv := c2.srv) (shipped := c2.shipped) (v := v2) ⟨d, []⟩ e2 htimeOk
    (by
      intro r0' hs'
      rw [hr0] at hs'; simp only [Option.some.injEq] at hs'; subst hs'
      show blocksTs v2.root (afterRoot c2.cfg r0 v2.root d).ts v2.ts = false
      rw [afterRoot_ts]
      rcases hshape with ⟨hr, _, hts, _⟩ | ⟨hr, hts, _, _⟩
      · have : refRoot d r0 = refRoot ds r0 := by simp [refRoot, hr]
        rw [this]
        cases hk : onlineKeysChanged (refRoot ds r0) v2.root with
        | true => rfl
        | false =>
          rw [hk] at pts
          simp only [Bool.false_eq_true, ↓reduceIte] at pts ⊢
          rcases hts with e | e
          · rw [e]; exact pts
          · rw [e]; rfl
      · have : refRoot d r0 = v1.root := by simp [refRoot, hr]
        rw [this]
        cases hk : onlineKeysChanged v1.root v2.root with
        | true => rfl
        | false =>
          rw [hk] at fts
          simp only [Bool.false_eq_true, ↓reduceIte] at fts ⊢
          rcases hts with e | e
          · rw [e]
            cases hk1 : onlineKeysChanged (refRoot ds r0) v1.root with
            | true => rfl
            | false =>
              simp only [Bool.false_eq_true, ↓reduceIte]
              have := onlineKeys_unchanged_trans _ _ _ hk1 hk
              rw [this] at pts
              simpa using pts
          · rw [e]; exact fts)
    (by
      intro r0' hs'
      rw [hr0] at hs'; simp only [Option.some.injEq] at hs'; subst hs'
      rw [afterRoot_snap]
      rcases hshape with ⟨hr, _, _, hsn⟩ | ⟨hr, _, hsn, _⟩
      · have : refRoot d r0 = refRoot ds r0 := by simp [refRoot, hr]
        rw [this]
        cases hk : onlineKeysChanged (refRoot ds r0) v2.root with
        | true => rfl
        | false =>
          rw [hk] at psn
          simp only [Bool.false_eq_true, ↓reduceIte] at psn ⊢
          rcases hsn with e | e
          · rw [e]; exact psn
          · rw [e]; rfl
      · have : refRoot d r0 = v1.root := by simp [refRoot, hr]
        rw [this]
        cases hk : onlineKeysChanged v1.root v2.root with
        | true => rfl
        | false =>
          rw [hk] at fsn
          simp only [Bool.false_eq_true, ↓reduceIte] at fsn ⊢
          rcases hsn with e | e
          · rw [e]
            cases hk1 : onlineKeysChanged (refRoot ds r0) v1.root with
            | true => rfl
            | false =>
              simp only [Bool.false_eq_true, ↓reduceIte]
              have := onlineKeys_unchanged_trans _ _ _ hk1 hk
              rw [this] at psn
              simpa using psn
          · rw [e]; exact fsn)
    (by
      show blocksTgt v2.root d.tgt (Tgt.doc v2.tgt) = false
      rcases hshape with ⟨_, e, _, _⟩ | ⟨_, _, _, e | e⟩
      · rw [e]; exact ptg
      · rw [e]; exact ptg
      · rw [e]; exact ftg)
  obtain ⟨b', hb'⟩ := hrun
  unfold Cyc.run
  rw [hb']

/-- a complete, valid little repository: `crash_no_lockout`'s hypothesis is satisfiable, and the
conclusion is checked by evaluation on all of its crash states -/
def rootC : Root := ⟨1, 100, false, [1, 2, 3, 4], some ⟨[1], 1⟩, some ⟨[3], 1⟩, some ⟨[4], 1⟩, some ⟨[2], 1⟩, 11, [⟨1, some 1, 11⟩]⟩
def tgC : TargetsDoc := ⟨7, 100, [(0, ⟨5, 77⟩)], none, 14, [⟨4, some 4, 14⟩]⟩
def snC : Snapshot := ⟨6, 100, [(.targets, ⟨7, none, none⟩)], 13, [⟨3, some 3, 13⟩]⟩
def tsC : Timestamp := ⟨5, 100, some ⟨6, none, none⟩, 12, [⟨2, some 2, 12⟩]⟩
def cycC : Cyc := ⟨⟨⟨100, 100, 100, 100, 8⟩, true, 0⟩,
  [(.timestamp, .file ⟨.timestamp tsC, some 10, 0, .none⟩), (.snapshot none, .file ⟨.snapshot snC, some 10, 0, .none⟩),
   (.targets none, .file ⟨.targets tgC, some 10, 0, .none⟩)], some rootC⟩

def succeeds (r : Except Err View × St) : Bool := match r.1 with | .ok _ => true | .error _ => false

example : succeeds (cycC.run {}) = true ∧ (crashStates cycC {}).length = 9 ∧
    (crashStates cycC {}).all (fun d => succeeds (cycC.run d)) = true := by decide

/-- a newer state of the same repository: the hypotheses of `crash_no_lockout_any_repository` are
satisfiable (it is accepted before and after `cycC`), and the conclusion is checked by evaluation on all
nine crash states of `cycC` -/
def tgD : TargetsDoc := ⟨8, 100, [(0, ⟨5, 77⟩)], none, 24, [⟨4, some 4, 24⟩]⟩
def snD : Snapshot := ⟨7, 100, [(.targets, ⟨8, none, none⟩)], 23, [⟨3, some 3, 23⟩]⟩
def tsD : Timestamp := ⟨6, 100, some ⟨7, none, none⟩, 22, [⟨2, some 2, 22⟩]⟩
def cycD : Cyc := ⟨⟨⟨100, 100, 100, 100, 8⟩, true, 5⟩,
  [(.timestamp, .file ⟨.timestamp tsD, some 10, 0, .none⟩), (.snapshot none, .file ⟨.snapshot snD, some 10, 0, .none⟩),
   (.targets none, .file ⟨.targets tgD, some 10, 0, .none⟩)], some rootC⟩

example : cycD.shipped = cycC.shipped ∧ cycC.cfg.now ≤ cycD.cfg.now ∧ succeeds (cycC.run {}) = true ∧
    succeeds (cycD.run {}) = true ∧ succeeds (cycD.run (cycC.run {}).2.ds) = true ∧
    (crashStates cycC {}).all (fun d => succeeds (cycD.run d)) = true := by decide

/-! ### The original `Datastore::create` (truncate, then write) loses the protection

Between the truncation and the completed write the file holds nothing or a prefix of the document:
it does not parse, and the rollback checks ignore a stored document that does not parse.  The witness
is a three-cycle history on one datastore without any root change: cycle 1 trusts timestamp version 5,
cycle 2 is served version 6 and is cut short inside the write of `timestamp.json`, cycle 3 is served
the replayed version 3 and accepts it. -/

def garble (what : String) (d : Datastore) : Datastore :=
  if what = "timestamp" then { d with ts := .garbage }
  else if what = "snapshot" then { d with snap := .garbage }
  else if what = "targets" then { d with tgt := .garbage }
  else if what = "root" then { d with root := .garbage }
  else if what = "latest_known_time" then { d with time := none }
  else d

/-- crash states of a log (oldest event first) when a create truncates the file before writing it -/
def crashSeqOldOf (ds : Datastore) : List Ev → List Datastore
  | [] => [ds]
  | .dsCreate w a :: rest => ds :: garble w ds :: crashSeqOldOf a rest
  | .dsRemove _ a :: rest => ds :: crashSeqOldOf a rest
  | _ :: rest => crashSeqOldOf ds rest

def ts6 : Timestamp := ⟨6, 100, some ⟨6, none, none⟩, 26, [⟨3, some 3, 26⟩]⟩

/-- the datastore after cycle 1 of the witness -/
def dsW1 : Datastore := (upToTimestamp loadRoot (srvW ts5) {}).2.ds

theorem truncating_create_loses_rollback_protection_witness :
    tsVersionOf (upToTimestamp loadRoot (srvW ts5) {}) = some 5 ∧
    (∃ x ∈ crashSeqOldOf dsW1 (upToTimestamp loadRoot (srvW ts6) dsW1).2.log.reverse,
      tsVersionOf (upToTimestamp loadRoot (srvW ts3) x) = some 3) := by
  refine ⟨by decide, { dsW1 with ts := .garbage, time := some 0 }, by decide, by decide⟩

/-- with the atomic create every crash state of the same cycle 2 refuses the replayed version 3 -/
theorem atomic_create_on_witness :
    ∀ x ∈ dsW1 :: (upToTimestamp loadRoot (srvW ts6) dsW1).2.states,
      tsVersionOf (upToTimestamp loadRoot (srvW ts3) x) = none := by
  decide

/-- the hypotheses of the crash theorems are satisfiable: cycle 1 of the witness establishes the guard -/
example : GuardTs 5 dsW1 := ⟨ts5, root2, by decide, by decide, by decide, by decide⟩

end Tough.C15
