/-
C01 — Only metadata signed by a threshold of distinct authorized keys is trusted.

Model: `Tough/Model/Sig.lean` (`verify` = the loop of `Root::verify_role` and of
`Delegations::verify_role`), `Tough/Model/Client.lean` (the verification sites of an update cycle).
-/
import Tough.Proofs.Sig
import Tough.Proofs.Client
namespace Tough.C01
open Tough.Sig Tough.Client

/-- **C01.a (full statement, both APIs).** The verification loop — a counter and a mutable set,
left to right over the signature list — accepts exactly when the number of DISTINCT key ids that
are (i) authorized for the role, (ii) present in the key table and (iii) carry at least one valid
signature over the document's canonical form reaches the threshold.  Both directions: nothing
else counts, and a document that meets its threshold is not rejected. Any list length. -/
theorem verify_iff_threshold_of_distinct_valid_signers
    (table : List KeyId) (rk : RoleKeys) (m : Msg) (sigs : List Sig) :
    verify table rk m sigs = true ↔ rk.threshold ≤ (validSigners table rk m sigs).length :=
  verify_iff table rk m sigs

theorem root_verify_iff (r : Root) (ty : RoleType) (m : Msg) (sigs : List Sig) :
    rootVerify r ty m sigs = true ↔
      ∃ rk, r.role ty = some rk ∧ rk.threshold ≤ (validSigners r.keys rk m sigs).length := by
  unfold rootVerify
  cases h : r.role ty with
  | none => simp
  | some rk => simp [verify_iff]

theorem deleg_verify_iff (d : Deleg) (name : Nat) (m : Msg) (sigs : List Sig) :
    delegVerify d name m sigs = true ↔
      ∃ r, d.roles.find? (fun r => r.name == name) = some r ∧
        r.threshold ≤ (validSigners d.keys ⟨r.keyids, r.threshold⟩ m sigs).length := by
  unfold delegVerify
  cases h : d.roles.find? (fun r => r.name == name) with
  | none => simp
  | some r => simp [verify_iff]

/-- the members of `validSigners` are exactly what the statement says -/
theorem mem_validSigners (table : List KeyId) (rk : RoleKeys) (m : Msg) (sigs : List Sig) (k : KeyId) :
    k ∈ validSigners table rk m sigs ↔
      k ∈ rk.keyids ∧ k ∈ table ∧ ∃ s ∈ sigs, s.keyid = k ∧ s.signer = some k ∧ s.msg = m := by
  simp only [validSigners, List.mem_filter, mem_dedup, List.any_eq_true, sigOk, Bool.and_eq_true,
    beq_iff_eq, List.contains_iff_mem]
  constructor
  · rintro ⟨hk, s, hs, rfl, ⟨ht, hsg⟩, hm⟩
    exact ⟨hk, ht, s, hs, rfl, hsg, hm⟩
  · rintro ⟨hk, ht, s, hs, rfl, hsg, hm⟩
    exact ⟨hk, s, hs, rfl, ⟨ht, hsg⟩, hm⟩

theorem validSigners_nodup (table : List KeyId) (rk : RoleKeys) (m : Msg) (sigs : List Sig) :
    (validSigners table rk m sigs).Nodup :=
  (nodup_dedup rk.keyids).filter _

theorem verify_congr (table : List KeyId) (rk : RoleKeys) (m : Msg) (a b : List Sig)
    (hv : validSigners table rk m a = validSigners table rk m b) :
    verify table rk m a = verify table rk m b :=
  Bool.eq_iff_iff.mpr (by rw [verify_iff, verify_iff, hv])

theorem contains_false {l : List Nat} {k : Nat} : l.contains k = false ↔ k ∉ l := by
  rw [← Bool.not_eq_true, List.contains_iff_mem]

/-- a signature entry that is not a valid signature, over this content, by an authorized key that
is in the key table -/
def NonCounting (table : List KeyId) (rk : RoleKeys) (m : Msg) (s : Sig) : Prop :=
  counts table rk m s = false

/-- every class of the property's quantifier is non-counting -/
theorem nonCounting_classes (table : List KeyId) (rk : RoleKeys) (m : Msg) (s : Sig) :
    (s.signer ≠ some s.keyid                -- corrupted, or made by another key than the one named
      ∨ s.msg ≠ m                           -- over different content
      ∨ s.keyid ∉ rk.keyids                 -- key unknown or listed for another role only
      ∨ s.keyid ∉ table)                    -- key id authorized but absent from the key table
    → NonCounting table rk m s := by
  intro h
  simp only [NonCounting, counts, sigOk, Bool.and_eq_false_iff, contains_false,
    beq_eq_false_iff_ne, ne_eq]
  rcases h with h | h | h | h
  · exact Or.inr (Or.inl (Or.inr h))
  · exact Or.inr (Or.inr h)
  · exact Or.inl h
  · exact Or.inr (Or.inl (Or.inl h))

theorem any_counts (table : List KeyId) (m : Msg) (l : List Sig) (s : Sig) (k : KeyId) :
    ((l ++ [s]).any fun x => x.keyid == k && sigOk table x m) =
      ((l.any fun x => x.keyid == k && sigOk table x m) || (s.keyid == k && sigOk table s m)) := by
  simp [List.any_append]

/-- **C01.b** A non-counting signature changes nothing, wherever it stands in the list. -/
theorem noncounting_sig_irrelevant (table : List KeyId) (rk : RoleKeys) (m : Msg)
    (pre post : List Sig) (s : Sig) (h : NonCounting table rk m s) :
    verify table rk m (pre ++ s :: post) = verify table rk m (pre ++ post) := by
  have hv : validSigners table rk m (pre ++ s :: post) = validSigners table rk m (pre ++ post) := by
    unfold validSigners
    apply List.filter_congr
    intro k hk
    have hk' : k ∈ rk.keyids := mem_dedup.mp hk
    simp only [List.any_append, List.any_cons]
    have : (s.keyid == k && sigOk table s m) = false := by
      by_cases he : s.keyid = k
      · subst he
        simp only [NonCounting, counts, Bool.and_eq_false_iff, contains_false] at h
        rcases h with h | h
        · exact absurd hk' h
        · simp [h]
      · simp [he]
    simp [this]
  exact verify_congr _ _ _ _ _ hv

/-- **C01.c** A second signature by a key that already has a valid one changes nothing. -/
theorem repeated_signature_irrelevant (table : List KeyId) (rk : RoleKeys) (m : Msg)
    (pre post : List Sig) (s s' : Sig) (hs : s ∈ pre ++ post) (hk : s'.keyid = s.keyid)
    (hok : sigOk table s m = true) :
    verify table rk m (pre ++ s' :: post) = verify table rk m (pre ++ post) := by
  have hv : validSigners table rk m (pre ++ s' :: post) = validSigners table rk m (pre ++ post) := by
    apply validSigners_congr
    intro k
    simp only [List.any_append, List.any_cons]
    by_cases he : s'.keyid = k
    · have hany : ((pre ++ post).any fun x => x.keyid == k && sigOk table x m) = true := by
        rw [List.any_eq_true]
        exact ⟨s, hs, by simp [← he, hk, hok]⟩
      rw [List.any_append] at hany
      generalize pre.any (fun x => x.keyid == k && sigOk table x m) = p at hany ⊢
      generalize post.any (fun x => x.keyid == k && sigOk table x m) = q at hany ⊢
      cases p <;> cases q <;> simp_all
    · have : (s'.keyid == k) = false := by simp [he]
      simp [this]
  exact verify_congr _ _ _ _ _ hv

/-- **C01.d** The verdict does not depend on the order of the signature entries. -/
theorem order_irrelevant (table : List KeyId) (rk : RoleKeys) (m : Msg) (a b : List Sig)
    (hp : a.Perm b) : verify table rk m a = verify table rk m b := by
  have hv : validSigners table rk m a = validSigners table rk m b := by
    apply validSigners_congr
    intro k
    have : ∀ (l : List Sig), (l.any fun s => s.keyid == k && sigOk table s m) = true ↔
        ∃ s ∈ l, (s.keyid == k && sigOk table s m) = true := fun l => List.any_eq_true
    cases ha : a.any (fun s => s.keyid == k && sigOk table s m) <;>
      cases hb : b.any (fun s => s.keyid == k && sigOk table s m) <;> try rfl
    · obtain ⟨s, hs, h⟩ := (this b).mp hb
      have := (this a).mpr ⟨s, hp.mem_iff.mpr hs, h⟩
      simp_all
    · obtain ⟨s, hs, h⟩ := (this a).mp ha
      have := (this b).mpr ⟨s, hp.mem_iff.mp hs, h⟩
      simp_all
  exact verify_congr _ _ _ _ _ hv

/-! ### The verification sites of an update cycle -/

mutual
/-- every delegated role of the loaded tree is signed by a threshold of distinct keys that its
parent's delegations object authorizes for it (any depth) -/
def TreeVerified : Tgt → Prop
  | .mk doc children =>
    match doc.deleg with
    | none => True
    | some d => RolesVerified d children
def RolesVerified (d : Deleg) : Roles → Prop
  | .nil => True
  | .cons r t rest =>
    (∃ r', d.roles.find? (fun x => x.name == r.name) = some r' ∧
      r'.threshold ≤ (validSigners d.keys ⟨r'.keyids, r'.threshold⟩ (Tgt.doc t).msg (Tgt.doc t).sigs).length) ∧
    TreeVerified t ∧ RolesVerified d rest
end

mutual
theorem treeVerified_of_good {cfg : Config} {srv : Server} {snap : Snapshot} {cs : Bool} :
    (t : Tgt) → Tgt.Good cfg srv snap cs t → TreeVerified t
  | .mk doc children, h => by
    simp only [Tgt.Good] at h
    simp only [TreeVerified]
    cases hd : doc.deleg with
    | none => trivial
    | some d =>
      simp only [hd] at h
      exact rolesVerified_of_good d children h
theorem rolesVerified_of_good {cfg : Config} {srv : Server} {snap : Snapshot} {cs : Bool} (d : Deleg) :
    (rs : Roles) → Roles.Good cfg srv snap cs d rs → RolesVerified d rs
  | .nil, _ => trivial
  | .cons r t rest, h => by
    simp only [Roles.Good] at h
    simp only [RolesVerified]
    exact ⟨(deleg_verify_iff d r.name _ _).mp h.1.verified, treeVerified_of_good t h.2.1,
      rolesVerified_of_good d rest h.2.2⟩
end

/-- **C01.e (every site).** If an update cycle succeeds, then the shipped root, every newer root
on the way (under the previous root's keys *and* under its own), the timestamp, the snapshot, the
top-level targets (each under the final root) and every delegated role at any depth (under its
parent's delegations) carry valid signatures by at least the role's threshold of distinct
authorized keys. -/
theorem cycle_ok_all_sites_verified {cfg : Config} {srv : Server} {shipped : Option Root}
    {st st' : St} {v : View} (h : cycle cfg srv shipped st = (.ok v, st')) :
    (∃ r0, shipped = some r0 ∧
      (∃ rk, r0.role .root = some rk ∧ rk.threshold ≤ (validSigners r0.keys rk r0.msg r0.sigs).length) ∧
      Chain cfg srv r0 v.root) ∧
    (∃ rk, v.root.role .timestamp = some rk ∧ rk.threshold ≤ (validSigners v.root.keys rk v.ts.msg v.ts.sigs).length) ∧
    (∃ rk, v.root.role .snapshot = some rk ∧ rk.threshold ≤ (validSigners v.root.keys rk v.snap.msg v.snap.sigs).length) ∧
    (∃ rk, v.root.role .targets = some rk ∧
      rk.threshold ≤ (validSigners v.root.keys rk (Tgt.doc v.tgt).msg (Tgt.doc v.tgt).sigs).length) ∧
    TreeVerified v.tgt := by
  obtain ⟨st1, st2, st3, hr, ht, hs, hg⟩ := cycle_ok h
  obtain ⟨r0, e0, v0, c, _⟩ := hr.shipped
  exact ⟨⟨r0, e0, (root_verify_iff _ _ _ _).mp v0, c⟩, (root_verify_iff _ _ _ _).mp ht.verified,
    (root_verify_iff _ _ _ _).mp hs.verified, (root_verify_iff _ _ _ _).mp hg.verified,
    treeVerified_of_good _ hg.tree⟩

/-- each hop of the chain is doubly verified in the sense of the specification -/
theorem hop_verified {cfg : Config} {srv : Server} {a b : Root} (h : Hop cfg srv a b) :
    (∃ rk, a.role .root = some rk ∧ rk.threshold ≤ (validSigners a.keys rk b.msg b.sigs).length) ∧
    (∃ rk, b.role .root = some rk ∧ rk.threshold ≤ (validSigners b.keys rk b.msg b.sigs).length) :=
  ⟨(root_verify_iff _ _ _ _).mp h.byOld, (root_verify_iff _ _ _ _).mp h.byNew⟩

/-! ### The defect that was repaired

`Delegations::verify_role` had no set: `verifyNoSet` counts every valid signature.  Two
signatures by key 1 met threshold 2 although only one key signed. -/

def dupSig : Sig := ⟨1, some 1, 0⟩

theorem delegVerify_counted_duplicates_witness :
    verifyNoSet [1, 2] ⟨[1, 2], 2⟩ 0 [dupSig, dupSig] = true ∧
    ¬ (2 ≤ (validSigners [1, 2] ⟨[1, 2], 2⟩ 0 [dupSig, dupSig]).length) := by
  decide

theorem fixed_verify_on_witness : verify [1, 2] ⟨[1, 2], 2⟩ 0 [dupSig, dupSig] = false := by decide

/-! ### Non-vacuity: threshold 2 of 3, met by two distinct keys, not met by one key twice -/
example : verify [1, 2, 3] ⟨[1, 2, 3], 2⟩ 7 [⟨1, some 1, 7⟩, ⟨9, some 9, 7⟩, ⟨3, some 3, 7⟩] = true := by decide
example : verify [1, 2, 3] ⟨[1, 2, 3], 2⟩ 7 [⟨1, some 1, 7⟩, ⟨1, some 1, 7⟩, ⟨2, none, 7⟩] = false := by decide

end Tough.C01
