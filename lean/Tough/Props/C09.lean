/-
C09 — Work and data taken from an untrusted repository are bounded.
Model: `fetchFile`, `rootLoop`, `loadDelegs` (with its `visited` set) in `Tough/Model/Client.lean`.
The server is an arbitrary association of file names to responses (oversized, endless, cyclic
delegations, unbounded chains of valid roots are all just servers).
-/
import Tough.Proofs.ClientBound
import Tough.Props.C02
import Tough.Props.C05
namespace Tough.C09
open Tough.Sig Tough.Client

variable {cfg : Config} {srv : Server}

/-- **C09.a** A file that is read successfully is not longer than the limit it was read under;
an endless stream is never read successfully. -/
theorem accepted_le_limit {name : FileName} {limit : Nat} {hash : Option Nat} {c : Content}
    (h : fetchFile srv name limit hash = .ok c) :
    ∃ f n, srv.get name = .file f ∧ f.len = some n ∧ n ≤ limit := by
  obtain ⟨f, hf, _, ⟨n, hn, hle⟩, _⟩ := C05.fetchFile_ok h
  exact ⟨f, n, hf, hn, hle⟩

/-- **C09.b (which bound applies).** In a successful cycle: every root of the chain was read under
`max_root_size`, the timestamp under `max_timestamp_size`, the snapshot under the length pinned by
the timestamp (else `max_snapshot_size`), the top-level targets under the length pinned by the
snapshot (else `max_targets_size`) and every delegated role under the length of ITS OWN snapshot
entry (else `max_targets_size`). -/
theorem bound_used {shipped : Option Root} {st st' : St} {v : View}
    (h : cycle cfg srv shipped st = (.ok v, st')) :
    (∃ f n, srv.get .timestamp = .file f ∧ f.len = some n ∧ n ≤ cfg.limits.maxTimestampSize) ∧
    (∃ m, v.ts.snapshotMeta = some m ∧ ∃ f n, srv.get (.snapshot (versioned v.root.consistent m.version)) = .file f ∧
      f.len = some n ∧ n ≤ m.length.getD cfg.limits.maxSnapshotSize) ∧
    (∃ m, v.snap.find .targets = some m ∧ ∃ f n, srv.get (.targets (versioned v.root.consistent m.version)) = .file f ∧
      f.len = some n ∧ n ≤ m.length.getD cfg.limits.maxTargetsSize) ∧
    C05.TreeListed cfg srv v.snap v.root.consistent v.tgt := by
  obtain ⟨_, _, _, _, ht, hs, hg⟩ := cycle_ok h
  refine ⟨accepted_le_limit ht.fetched, ?_, ?_, C05.treeListed_of_good _ hg.tree⟩
  · obtain ⟨m, hm, hf, _⟩ := hs.pinned
    exact ⟨m, hm, accepted_le_limit hf⟩
  · obtain ⟨m, hm, hf, _⟩ := hg.pinned
    exact ⟨m, hm, accepted_le_limit hf⟩

theorem hop_within_root_limit {a b : Root} (h : Hop cfg srv a b) :
    ∃ f n, srv.get (.rootV (a.version + 1)) = .file f ∧ f.len = some n ∧ n ≤ cfg.limits.maxRootSize :=
  accepted_le_limit h.served

/-- **C09.c** never more newer-root requests than `max_root_updates`, whatever the outcome -/
theorem root_requests_le {r0 : Root} {st st' : St} {res : Except Err Root}
    (h : rootLoop cfg srv r0.version (cfg.limits.maxRootUpdates + 1) r0 st = (res, st')) :
    st'.reqs.length ≤ st.reqs.length + cfg.limits.maxRootUpdates :=
  C02.root_requests_bounded h

/-- **C09.d (delegations, any outcome, any server).** Loading the delegation graph below the
top-level targets issues at most as many requests as the trusted snapshot has entries — also when
roles delegate to themselves or to each other — and the recursion always comes to an end by itself
(the model's fuel is never what stops it). -/
theorem role_requests_le (snap : Snapshot) (consistent : Bool) (d : Deleg) (st : St) :
    (loadDelegs cfg srv snap consistent (snap.metas.length + 1) d [] st).2.reqs.length
      ≤ st.reqs.length + snap.metas.length ∧
    ∀ st', loadDelegs cfg srv snap consistent (snap.metas.length + 1) d [] st ≠ (.error .fuel, st') := by
  have hb := budget_le_metas snap []
  refine ⟨?_, fun st' => loadDelegs_no_fuel _ d [] st st' (by omega)⟩
  have hp := (loadDelegs_paid (cfg := cfg) (srv := srv) (snap := snap) (consistent := consistent)
    (snap.metas.length + 1) d [] st).1
  generalize loadDelegs cfg srv snap consistent (snap.metas.length + 1) d [] st = out at hp
  obtain ⟨res, st2⟩ := out
  cases res with
  | error e => simp only [Paid] at hp ⊢; omega
  | ok pr => obtain ⟨rs, v⟩ := pr; simp only [Paid] at hp ⊢; omega

/-- expiry checks issue no requests -/
theorem expiryGate_reqs (r : RoleType) (e : Int) (st : St) : (expiryGate cfg r e st).2.reqs = st.reqs := by
  unfold expiryGate
  split
  · unfold checkExpired
    split
    · rename_i e' st1 h
      rw [(systemTime_err h).2.1]
    · rename_i t st1 h
      have := (systemTime_ok h).2.2.2.2
      split <;> simpa using this
  · rfl

/-- **C09.e** each of the three top-level fetches is a single request, whatever is served -/
theorem timestamp_requests_le (root : Root) (st : St) :
    (loadTimestamp cfg srv root st).2.reqs.length ≤ st.reqs.length + 1 := by
  unfold loadTimestamp
  simp only
  split
  · simp [reqs_req]
  · split
    · simp [reqs_req]
    · split
      · simp [reqs_req]
      · have := expiryGate_reqs (cfg := cfg) .timestamp (by assumption : Timestamp).expires (st.req .timestamp cfg.limits.maxTimestampSize)
        split
        · rename_i e st1 h
          rw [h] at this; simp only at this; simp [this, reqs_req]
        · rename_i st1 h
          rw [h] at this; simp only at this
          simp only [reqs_log_nonreq, this, reqs_req, List.length_cons, Nat.le_refl]
  · simp [reqs_req]

theorem snapshot_requests_le (root : Root) (ts : Timestamp) (st : St) :
    (loadSnapshot cfg srv root ts st).2.reqs.length ≤ st.reqs.length + 1 := by
  unfold loadSnapshot
  split
  · simp
  · rename_i m hm
    simp only
    split
    · simp [reqs_req]
    · rename_i sn hf
      split
      · simp [reqs_req]
      · split
        · simp [reqs_req]
        · split
          · simp [reqs_req]
          · have := expiryGate_reqs (cfg := cfg) .snapshot sn.expires
              (st.req (.snapshot (versioned root.consistent m.version)) (m.length.getD cfg.limits.maxSnapshotSize))
            split
            · rename_i e st1 h
              rw [h] at this; simp only at this; simp [this, reqs_req]
            · rename_i st1 h
              rw [h] at this; simp only at this
              simp only [reqs_log_nonreq, this, reqs_req, List.length_cons, Nat.le_refl]
    · simp [reqs_req]

theorem loadRoot_requests_le (shipped : Option Root) (st : St) :
    (loadRoot cfg srv shipped st).2.reqs.length ≤ st.reqs.length + cfg.limits.maxRootUpdates := by
  unfold loadRoot
  split
  · simp
  · rename_i r0
    split
    · simp
    · simp only
      split
      · rename_i e st1 hl
        exact root_requests_le hl
      · rename_i r1 st1 hl
        have hb := root_requests_le hl
        have hg := expiryGate_reqs (cfg := cfg) .root r1.expires st1
        split
        · rename_i e st2 h2
          rw [h2] at hg; simp only at hg; simp only [hg]; exact hb
        · rename_i st2 h2
          rw [h2] at hg; simp only at hg
          split
          · simp only [recordRoot, clearOnline, St.reqs, List.filterMap_cons] at hg ⊢
            simp only [St.reqs] at hb; rw [hg]; exact hb
          · simp only [recordRoot, St.reqs, List.filterMap_cons] at hg ⊢
            simp only [St.reqs] at hb; rw [hg]; exact hb

/-- the top-level targets file is one request; the delegation graph below it costs at most one request
per entry of the snapshot -/
theorem targets_requests_le (root : Root) (snap : Snapshot) (st : St) :
    (loadTargets cfg srv root snap st).2.reqs.length ≤ st.reqs.length + 1 + snap.metas.length := by
  unfold loadTargets
  split
  · simp; omega
  · rename_i m hm
    simp only
    split
    · simp [reqs_req]
    · rename_i doc hf
      split
      · simp [reqs_req]
      · split
        · simp [reqs_req]
        · split
          · simp [reqs_req]
          · have hg := expiryGate_reqs (cfg := cfg) .targets doc.expires
              (st.req (.targets (versioned root.consistent m.version)) (m.length.getD cfg.limits.maxTargetsSize))
            split
            · rename_i e st1 h
              rw [h] at hg; simp only at hg; simp [hg, reqs_req]
            · rename_i st1 h
              rw [h] at hg; simp only at hg
              have hch : ∀ s : St, (loadChildren cfg srv snap root.consistent doc s).2.reqs.length ≤ s.reqs.length + snap.metas.length := by
                intro s
                unfold loadChildren
                cases doc.deleg with
                | none => simp
                | some d => exact (role_requests_le snap root.consistent d s).1
              have h2 := hch { ds := { st1.ds with tgt := .doc doc }, log := .dsCreate "targets" { st1.ds with tgt := .doc doc } :: st1.log }
              rw [reqs_log_nonreq, hg, reqs_req] at h2
              simp only [List.length_cons] at h2
              split
              · rename_i e st2 heq; rw [heq] at h2; simp only at h2 ⊢; omega
              · rename_i ch vis st2 heq
                rw [heq] at h2; simp only at h2
                split <;> (simp only; omega)
    · simp [reqs_req]

/-- **C09.f (the whole cycle).** Whatever the repository serves and however the cycle ends, it issues at
most `max_root_updates` root requests, three requests for timestamp, snapshot and targets, and one
request per entry of a snapshot document the repository serves (`n = 0` when the cycle never got as far
as accepting a snapshot). -/
theorem cycle_requests_bounded (shipped : Option Root) (st : St) :
    ∃ n, (n = 0 ∨ ∃ name f sn, srv.get name = .file f ∧ f.content = .snapshot sn ∧ n = sn.metas.length) ∧
      (cycle cfg srv shipped st).2.reqs.length ≤ st.reqs.length + cfg.limits.maxRootUpdates + 3 + n := by
  unfold cycle
  have h1 := loadRoot_requests_le (cfg := cfg) (srv := srv) shipped st
  split
  · rename_i e s1 e1
    rw [e1] at h1
    exact ⟨0, Or.inl rfl, by simp only at h1 ⊢; omega⟩
  · rename_i root s1 e1
    rw [e1] at h1; simp only at h1
    have h2 := timestamp_requests_le (cfg := cfg) (srv := srv) root s1
    split
    · rename_i e s2 e2
      rw [e2] at h2
      exact ⟨0, Or.inl rfl, by simp only at h2 ⊢; omega⟩
    · rename_i ts s2 e2
      rw [e2] at h2; simp only at h2
      have h3 := snapshot_requests_le (cfg := cfg) (srv := srv) root ts s2
      split
      · rename_i e s3 e3
        rw [e3] at h3
        exact ⟨0, Or.inl rfl, by simp only at h3 ⊢; omega⟩
      · rename_i sn s3 e3
        rw [e3] at h3; simp only at h3
        obtain ⟨m, _, hf, _, _⟩ := (loadSnapshot_ok e3).pinned
        obtain ⟨f, hget, hcont, _, _⟩ := C05.fetchFile_ok hf
        have h4 := targets_requests_le (cfg := cfg) (srv := srv) root sn s3
        refine ⟨sn.metas.length, Or.inr ⟨_, f, sn, hget, hcont, rfl⟩, ?_⟩
        split
        · rename_i e s4 e4
          rw [e4] at h4; simp only at h4 ⊢; omega
        · rename_i t s4 e4
          rw [e4] at h4; simp only at h4 ⊢; omega

/-! ### The defects that were repaired

(1) `load_delegations` had no memory of the roles it had loaded: a role delegating to itself made
the number of requests grow with the recursion depth without bound.  The old behaviour is the
model below (`loadDelegsOld`, no `visited` check); against a static self-delegating server its
request count exceeds any bound as the fuel (recursion depth allowed) grows.
(2) delegated roles were limited by the pinned length of targets.json: see `bound_used`, which now
states the role's own entry. -/

/-- first pass without the duplicate check (pre-fix) -/
def fetchRolesOld (cfg : Config) (srv : Server) (snap : Snapshot) (consistent : Bool) (d : Deleg) :
    List DRole → St → Except Err (List (DRole × TargetsDoc)) × St
  | [], st => (.ok [], st)
  | r :: rest, st =>
    match snap.find (.role r.name) with
    | none => (.error .roleNotInMeta, st)
    | some m =>
      let name := FileName.role r.name (versioned consistent m.version)
      let st := st.req name (m.length.getD cfg.limits.maxTargetsSize)
      match fetchFile srv name (m.length.getD cfg.limits.maxTargetsSize) none with
      | .ok (.targets doc) =>
        if !delegVerify d r.name doc.msg doc.sigs then (.error (.verify .targets), st)
        else if doc.version != m.version then (.error (.versionMismatch .targets), st)
        else
          match fetchRolesOld cfg srv snap consistent d rest st with
          | (.error e, st) => (.error e, st)
          | (.ok more, st) => (.ok ((r, doc) :: more), st)
      | _ => (.error (.transport .targets), st)

/-- number of role requests the pre-fix recursion issues along one self-delegating role with
`depth` levels of recursion allowed -/
def selfDelegRequestsOld (cfg : Config) (srv : Server) (snap : Snapshot) (d : Deleg) : Nat → St → St
  | 0, st => st
  | depth + 1, st =>
    match fetchRolesOld cfg srv snap false d d.roles st with
    | (.ok ((_, doc) :: _), st') =>
      (match doc.deleg with
       | some d' => selfDelegRequestsOld cfg srv snap d' depth st'
       | none => st')
    | (_, st') => st'

def selfRole : DRole := ⟨0, [1], 1, []⟩
def selfDeleg : Deleg := ⟨[1], [selfRole]⟩
def selfDoc : TargetsDoc := ⟨1, 100, [], some selfDeleg, 5, [⟨1, some 1, 5⟩]⟩
def selfSnap : Snapshot := ⟨1, 100, [(.targets, ⟨1, none, none⟩), (.role 0, ⟨1, none, none⟩)], 6, []⟩
def selfSrv : Server := [(.role 0 none, .file ⟨.targets selfDoc, some 10, 0, .none⟩)]

theorem old_self_delegation_unbounded_witness :
    (selfDelegRequestsOld C02.cfg0 selfSrv selfSnap selfDeleg 40 ⟨{}, []⟩).reqs.length = 40 := by
  decide

/-- the repaired client stops after one request for the role and fails -/
def failsWith {α : Type} (e : Err) : Except Err α → Bool
  | .error e' => e' == e
  | .ok _ => false

theorem fixed_self_delegation :
    failsWith .duplicateRole
      (loadDelegs C02.cfg0 selfSrv selfSnap false (selfSnap.metas.length + 1) selfDeleg [] ⟨{}, []⟩).1 = true ∧
    (loadDelegs C02.cfg0 selfSrv selfSnap false (selfSnap.metas.length + 1) selfDeleg [] ⟨{}, []⟩).2.reqs.length = 1 := by
  decide

end Tough.C09
