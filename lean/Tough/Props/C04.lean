/-
C04 — Freeze protection: expired metadata is never trusted while enforcement is on.
Model: `expiryGate`/`checkExpired`/`systemTime` at their four call sites in the update cycle and
`readGate` (the check at the start of `read_target`, hence of `save_target` and `cache`), all in
`Tough/Model/Client.lean`.  Equality of clock sample and expiry is left unconstrained by the
property (the load path uses `<=`, the read path `<`); the theorems state exactly what the code does.
-/
import Tough.Proofs.Client
import Tough.Proofs.ExceptDec
namespace Tough.C04
open Tough.Sig Tough.Client

variable {cfg : Config} {srv : Server}

/-- **C04.a** With enforcement on, a successful cycle implies that the final root, the timestamp,
the snapshot and the top-level targets are all unexpired at the cycle's clock, and that the clock
is not earlier than the time recorded in the datastore. -/
theorem safe_cycle_ok_implies_fresh {shipped : Option Root} {st st' : St} {v : View}
    (hs : cfg.safe = true) (h : cycle cfg srv shipped st = (.ok v, st')) :
    cfg.now ≤ v.root.expires ∧ cfg.now ≤ v.ts.expires ∧ cfg.now ≤ v.snap.expires ∧
    cfg.now ≤ (Tgt.doc v.tgt).expires ∧ (∀ t0, st.ds.time = some t0 → t0 ≤ cfg.now) := by
  obtain ⟨_, _, _, hr, ht, hsn, hg⟩ := cycle_ok h
  exact ⟨hr.fresh hs, ht.fresh hs, hsn.fresh hs, hg.fresh hs, hr.clockOk hs⟩

/-- **C04.b** Hence: if any of the four is expired at the time of the cycle, the cycle fails. -/
theorem expired_role_fails {shipped : Option Root} {st st' : St} {v : View} (hs : cfg.safe = true)
    (h : cycle cfg srv shipped st = (.ok v, st')) :
    ¬ (v.root.expires < cfg.now ∨ v.ts.expires < cfg.now ∨ v.snap.expires < cfg.now ∨
       (Tgt.doc v.tgt).expires < cfg.now) := by
  obtain ⟨a, b, c, d, _⟩ := safe_cycle_ok_implies_fresh hs h
  omega

/-- **C04.c** Roots that are only stepping stones may be expired: the walk does not look at the
expiry of the root it is standing on. -/
theorem intermediate_roots_may_be_expired (a : Root) (e : Int) :
    rootStep cfg srv { a with expires := e } = rootStep cfg srv a := rfl

/-- `readGate` fails once the earliest expiry is reached -/
theorem read_after_expiry_fails (v : View) (st : St) (hs : cfg.safe = true)
    (hclock : ∀ t0, st.ds.time = some t0 → t0 ≤ cfg.now) (hexp : v.earliest.1 ≤ cfg.now) :
    (readGate cfg v st).1 = .error (.expired v.earliest.2) := by
  unfold readGate systemTime
  simp only [hs, ↓reduceIte]
  cases ht : st.ds.time with
  | none =>
    simp only
    have : ¬ cfg.now < v.earliest.1 := by omega
    simp [this]
  | some t0 =>
    have := hclock t0 ht
    have h1 : ¬ cfg.now < t0 := by omega
    have h2 : ¬ cfg.now < v.earliest.1 := by omega
    simp [h1, h2]

theorem earliest_le (v : View) :
    v.earliest.1 ≤ v.root.expires ∧ v.earliest.1 ≤ v.ts.expires ∧ v.earliest.1 ≤ v.snap.expires ∧
    v.earliest.1 ≤ (Tgt.doc v.tgt).expires := by
  simp only [View.earliest, List.foldl_cons, List.foldl_nil]
  split <;> split <;> split <;> split <;> simp <;> omega

/-- **C04.d** reading (saving, caching) a target from a loaded repository fails once ANY of the
four expirations has passed -/
theorem read_fails_once_any_expired (v : View) (st : St) (hs : cfg.safe = true)
    (hclock : ∀ t0, st.ds.time = some t0 → t0 ≤ cfg.now)
    (hexp : v.root.expires ≤ cfg.now ∨ v.ts.expires ≤ cfg.now ∨ v.snap.expires ≤ cfg.now ∨
      (Tgt.doc v.tgt).expires ≤ cfg.now) :
    ∃ r, (readGate cfg v st).1 = .error (.expired r) := by
  obtain ⟨a, b, c, d⟩ := earliest_le v
  exact ⟨_, read_after_expiry_fails v st hs hclock (by omega)⟩

/-- and it is let through while all four are in the future and the clock did not step back -/
theorem read_before_expiry_ok (v : View) (st : St)
    (hclock : ∀ t0, st.ds.time = some t0 → t0 ≤ cfg.now) (hfresh : cfg.now < v.earliest.1) :
    (readGate cfg v st).1 = .ok () := by
  unfold readGate systemTime
  by_cases hs : cfg.safe = true
  · simp only [hs, ↓reduceIte]
    cases ht : st.ds.time with
    | none => simp [hfresh]
    | some t0 =>
      have := hclock t0 ht
      have h1 : ¬ cfg.now < t0 := by omega
      simp [h1, hfresh]
  · simp [hs]

/-- **C04.e** If the clock is earlier than the time recorded in the datastore, every operation that
samples the clock fails (instead of judging expiry against the earlier time). -/
theorem clock_backwards_fails (st : St) (t0 : Int) (ht : st.ds.time = some t0) (hb : cfg.now < t0) :
    (∀ r e, cfg.safe = true → (expiryGate cfg r e st).1 = .error .clock) ∧
    (∀ v, cfg.safe = true → (readGate cfg v st).1 = .error .clock) := by
  refine ⟨?_, ?_⟩
  · intro r e hs
    simp [expiryGate, hs, checkExpired, systemTime, ht, hb]
  · intro v hs
    simp [readGate, hs, systemTime, ht, hb]

/-- the first gate of a cycle is the final root's: with a stepped-back clock the cycle fails as
soon as the root walk is over, before any other metadata is fetched -/
theorem cycle_clock_backwards_fails (r0 : Root) (st : St) (t0 : Int) (hs : cfg.safe = true)
    (ht : st.ds.time = some t0) (hb : cfg.now < t0) :
    ∀ v st', cycle cfg srv (some r0) st ≠ (.ok v, st') := by
  intro v st' h
  have := (safe_cycle_ok_implies_fresh hs h).2.2.2.2 t0 ht
  omega

/-! ### Enforcement switched off -/

theorem expiryGate_unsafe (hs : cfg.safe = false) (r : RoleType) (e : Int) (st : St) :
    expiryGate cfg r e st = (.ok (), st) := by simp [expiryGate, hs]

theorem rootStep_now (n : Int) (a : Root) : rootStep { cfg with now := n } srv a = rootStep cfg srv a := rfl

theorem rootLoop_now (n : Int) (v0 fuel : Nat) (a : Root) (st : St) :
    rootLoop { cfg with now := n } srv v0 fuel a st = rootLoop cfg srv v0 fuel a st := by
  induction fuel generalizing a st with
  | zero => rfl
  | succ k ih =>
    simp only [rootLoop, rootStep_now]
    split
    · rfl
    · split <;> first | rfl | exact ih _ _

theorem fetchRoles_now (n : Int) (snap : Snapshot) (cs : Bool) (d : Deleg) (roles : List DRole)
    (visited : List Nat) (st : St) :
    fetchRoles { cfg with now := n } srv snap cs d roles visited st = fetchRoles cfg srv snap cs d roles visited st := by
  induction roles generalizing visited st with
  | nil => rfl
  | cons r rest ih => simp only [fetchRoles, ih]

theorem loadDelegs_now (n : Int) (snap : Snapshot) (cs : Bool) (fuel : Nat) :
    loadDelegs { cfg with now := n } srv snap cs fuel = loadDelegs cfg srv snap cs fuel := by
  induction fuel with
  | zero => rfl
  | succ k ih =>
    funext d visited st
    simp only [loadDelegs, fetchRoles_now, ih]

/-- **C04.f** With enforcement switched off the clock plays no part at all: neither expired
metadata nor a clock that stepped back can make the cycle fail, the result is the same for every
clock value. -/
theorem unsafe_ignores_time (hs : cfg.safe = false) (n : Int) (shipped : Option Root) (st : St) :
    cycle { cfg with now := n } srv shipped st = cycle cfg srv shipped st := by
  have g : ∀ (c : Config), c.safe = false → ∀ r e s, expiryGate c r e s = (.ok (), s) :=
    fun c hc r e s => by simp [expiryGate, hc]
  have g1 := g cfg hs
  have g2 := g { cfg with now := n } hs
  simp only [cycle, loadRoot, loadTimestamp, loadSnapshot, loadTargets, loadChildren, g1, g2, rootLoop_now, loadDelegs_now]

theorem unsafe_read_ignores_time (hs : cfg.safe = false) (v : View) (st : St) :
    readGate cfg v st = (.ok (), st) := by simp [readGate, hs]

/-! ### Not expired is never reported as expired -/

/-- an "expired" verdict of a gate means that the document's expiry really lies before the clock -/
theorem gate_expired_is_expired {r r' : RoleType} {e : Int} {st st' : St}
    (h : expiryGate cfg r e st = (.error (.expired r'), st')) : r' = r ∧ e < cfg.now ∧ cfg.safe = true := by
  obtain ⟨hs, hcase⟩ := expiryGate_err h
  rcases hcase with h1 | ⟨h1, h2⟩
  · cases h1
  · cases h1; exact ⟨rfl, h2, hs⟩

theorem read_expired_is_expired {v : View} {st st' : St} {r : RoleType}
    (h : readGate cfg v st = (.error (.expired r), st')) : v.earliest.1 ≤ cfg.now ∧ cfg.safe = true := by
  unfold readGate at h
  by_cases hs : cfg.safe = true
  · simp only [hs, ↓reduceIte] at h
    split at h
    · rename_i e st1 hst
      simp only [Prod.mk.injEq, Except.error.injEq] at h
      have := (systemTime_err hst).1
      rw [h.1] at this; cases this
    · rename_i t st1 hst
      have := (systemTime_ok hst).1
      subst this
      split at h
      · simp at h
      · rename_i hlt; exact ⟨by omega, hs⟩
  · simp [hs] at h

/-! ### Non-vacuity: an expired intermediate root on the way to a fresh final root is accepted -/

def k (ids : List Nat) (t : Nat) : Option RoleKeys := some ⟨ids, t⟩
def r1 : Root := ⟨1, 1000, false, [1, 9], k [1] 1, k [9] 1, k [9] 1, k [9] 1, 11, [⟨1, some 1, 11⟩]⟩
def r2 : Root := ⟨2, -500, false, [1, 9], k [1] 1, k [9] 1, k [9] 1, k [9] 1, 12, [⟨1, some 1, 12⟩]⟩
def r3 : Root := ⟨3, 1000, false, [1, 9], k [1] 1, k [9] 1, k [9] 1, k [9] 1, 13, [⟨1, some 1, 13⟩]⟩
def srv3 : Server := [(.rootV 2, .file ⟨.root r2, some 10, 0, .none⟩), (.rootV 3, .file ⟨.root r3, some 10, 0, .none⟩)]
def cfgSafe : Config := ⟨⟨100, 100, 100, 100, 8⟩, true, 0⟩

example : (loadRoot cfgSafe srv3 (some r1) ⟨{}, []⟩).1 = .ok r3 := by decide
example : (loadRoot cfgSafe [(.rootV 2, .file ⟨.root r2, some 10, 0, .none⟩)] (some r1) ⟨{}, []⟩).1
    = .error (.expired .root) := by decide

end Tough.C04
