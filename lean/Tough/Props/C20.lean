/-
C20 — tuftool root subcommands keep root.json well-formed, without stale signatures.
Model: `Tough/Model/RootCmd.lean`.
-/
import Tough.Model.RootCmd
namespace Tough.C20
open Tough.RootCmd

/-- every signature in the file is over the file's current content, and no key signs twice -/
structure Inv (f : RootFile) : Prop where
  current : ∀ s ∈ f.sigs, s.over = f.content
  distinct : (f.sigs.map (·.keyid)).Nodup

def InvOpt : Option RootFile → Prop
  | none => True
  | some f => Inv f

theorem inv_nosigs (c : Content) : Inv ⟨c, []⟩ := ⟨(by intro s h; cases h), (by simp)⟩

theorem mem_dedup {k : Nat} {ks : List Nat} : k ∈ dedup ks ↔ k ∈ ks := by
  induction ks with
  | nil => simp [dedup]
  | cons a as ih =>
    simp only [dedup]
    split
    · rename_i h; simp only [List.contains_iff_mem] at h; simp [ih]; intro h'; subst h'; exact h
    · simp [ih]

theorem nodup_dedup (ks : List Nat) : (dedup ks).Nodup := by
  induction ks with
  | nil => simp [dedup]
  | cons a as ih =>
    simp only [dedup]
    split
    · exact ih
    · rename_i h
      simp only [List.contains_iff_mem] at h
      exact List.nodup_cons.mpr ⟨by simpa [mem_dedup] using h, ih⟩

/-- **C20.a (invariant).** One sub-command, successful or not, preserves: every signature in the file
is over the current content (no stale signatures) and no key id signs twice. -/
theorem step_inv (file : Option RootFile) (c : Cmd) (h : InvOpt file) : InvOpt (apply file c).1 := by
  unfold apply
  cases hs : step file c with
  | none => simpa using h
  | some f' =>
    simp only
    cases c with
    | init v =>
      simp only [step] at hs
      split at hs
      · simp at hs
      · simp only [Option.some.injEq] at hs; subst hs; exact inv_nosigs _
    | addKey keys roles =>
      cases file with
      | none => simp [step] at hs
      | some f => simp only [step, Option.map_some, Option.some.injEq] at hs; subst hs; exact inv_nosigs _
    | removeKey id role =>
      cases file with
      | none => simp [step] at hs
      | some f =>
        simp only [step, Option.map_some, Option.some.injEq] at hs
        subst hs
        cases role <;> exact inv_nosigs _
    | setThreshold r n =>
      simp only [step] at hs
      split at hs
      · simp at hs
      · cases file with
        | none => simp at hs
        | some f => simp only [Option.map_some, Option.some.injEq] at hs; subst hs; exact inv_nosigs _
    | setVersion n =>
      simp only [step] at hs
      split at hs
      · simp at hs
      · cases file with
        | none => simp at hs
        | some f => simp only [Option.map_some, Option.some.injEq] at hs; subst hs; exact inv_nosigs _
    | bumpVersion =>
      cases file with
      | none => simp [step] at hs
      | some f =>
        simp only [step, Option.bind_some] at hs
        split at hs
        · simp at hs
        · simp only [Option.some.injEq] at hs; subst hs; exact inv_nosigs _
    | expire t =>
      cases file with
      | none => simp [step] at hs
      | some f => simp only [step, Option.map_some, Option.some.injEq] at hs; subst hs; exact inv_nosigs _
    | sign keys cross ignore =>
      cases file with
      | none => simp [step] at hs
      | some f =>
        have hf : Inv f := h
        simp only [step, Option.bind_some] at hs
        split at hs
        · simp at hs
        · split at hs
          · simp at hs
          · split at hs
            · simp at hs
            · simp only [Option.some.injEq] at hs
              subst hs
              constructor
              · intro s hsm
                simp only [List.mem_append, List.mem_map, List.mem_filter] at hsm
                rcases hsm with ⟨k, _, rfl⟩ | ⟨hsm, _⟩
                · rfl
                · exact hf.current s hsm
              · simp only [List.map_append, List.map_map]
                apply List.nodup_append.mpr
                refine ⟨?_, ?_, ?_⟩
                · have : (List.map ((fun x => x.keyid) ∘ fun k => ({ keyid := k, over := f.content } : SigE))
                      (dedup ((keys.filter ((cross.map (·.content)).getD f.content).keys.contains).filter
                        ((cross.map (·.content)).getD f.content).rootR.keyids.contains)))
                      = dedup ((keys.filter ((cross.map (·.content)).getD f.content).keys.contains).filter
                        ((cross.map (·.content)).getD f.content).rootR.keyids.contains) := by
                    simp [Function.comp_def]
                  rw [this]
                  exact nodup_dedup _
                · exact (List.Nodup.sublist (List.Sublist.map _ List.filter_sublist) hf.distinct)
                · intro a ha b hb hab
                  subst hab
                  simp only [List.mem_map, Function.comp_apply] at ha
                  obtain ⟨k, hk, rfl⟩ := ha
                  simp only [List.mem_map, List.mem_filter, Bool.not_eq_true', List.any_eq_false, List.mem_map,
                    beq_iff_eq] at hb
                  obtain ⟨s, ⟨_, hs2⟩, hs3⟩ := hb
                  have := hs2 ⟨k, f.content⟩ ⟨k, hk, rfl⟩
                  simp at this
                  exact this hs3.symm

/-- the file after a whole sequence of sub-commands, each replacing the file only when it succeeds -/
def run (file : Option RootFile) : List Cmd → Option RootFile
  | [] => file
  | c :: cs => run (apply file c).1 cs

/-- **C20.a for every command sequence** (any length, starting without a file) -/
theorem run_inv (cs : List Cmd) (file : Option RootFile) (h : InvOpt file) : InvOpt (run file cs) := by
  induction cs generalizing file with
  | nil => exact h
  | cons c rest ih => exact ih _ (step_inv file c h)

/-- **C20.b** every content-changing sub-command that succeeds removes all existing signatures -/
theorem content_change_clears_sigs (file : Option RootFile) (c : Cmd) (f' : RootFile)
    (hc : ∀ k x i, c ≠ .sign k x i) (hs : step file c = some f') : f'.sigs = [] := by
  cases c with
  | sign k x i => exact absurd rfl (hc k x i)
  | init v =>
    simp only [step] at hs; split at hs
    · simp at hs
    · simp only [Option.some.injEq] at hs; subst hs; rfl
  | addKey keys roles => cases file <;> simp [step] at hs; subst hs; rfl
  | removeKey id role => cases file <;> simp [step] at hs; subst hs; cases role <;> rfl
  | setThreshold r n =>
    simp only [step] at hs; split at hs
    · simp at hs
    · cases file <;> simp at hs; subst hs; rfl
  | setVersion n =>
    simp only [step] at hs; split at hs
    · simp at hs
    · cases file <;> simp at hs; subst hs; rfl
  | bumpVersion =>
    cases file with
    | none => simp [step] at hs
    | some f =>
      simp only [step, Option.bind_some] at hs; split at hs
      · simp at hs
      · simp only [Option.some.injEq] at hs; subst hs; rfl
  | expire t => cases file <;> simp [step] at hs; subst hs; rfl

/-- **C20.c** a sub-command that exits with an error leaves the previous file intact -/
theorem failed_command_leaves_file (file : Option RootFile) (c : Cmd) (h : (apply file c).2 = false) :
    (apply file c).1 = file := by
  unfold apply at h ⊢
  cases hs : step file c with
  | none => rfl
  | some f => simp [hs] at h

theorem nodup_subset_length {l m : List Nat} (hl : l.Nodup) (hs : ∀ x ∈ l, x ∈ m) : l.length ≤ m.length := by
  induction l generalizing m with
  | nil => simp
  | cons a as ih =>
    have ha := hs a List.mem_cons_self
    have hnd := List.nodup_cons.mp hl
    have : as.length ≤ (m.erase a).length := by
      apply ih hnd.2
      intro x hx
      have hxm := hs x (List.mem_cons_of_mem _ hx)
      have hne : x ≠ a := fun h => hnd.1 (h ▸ hx)
      exact (List.mem_erase_of_ne hne).mpr hxm
    rw [List.length_erase_of_mem ha] at this
    have hpos : 0 < m.length := List.length_pos_of_mem ha
    simp only [List.length_cons]
    omega

/-- **C20.d (full statement).** A `sign` that succeeds without `--ignore-threshold` and without
`--cross-sign` leaves a root that verifies under its own root keys and threshold — whatever earlier
commands (cross-signing included) put into the file. -/
theorem plain_sign_self_verifies (f f' : RootFile) (keys : List Nat) (hinv : Inv f)
    (hs : step (some f) (.sign keys none false) = some f') : selfVerifies f' = true := by
  have hinv' : Inv f' := by
    have := step_inv (some f) (.sign keys none false) hinv
    simpa [apply, hs, InvOpt] using this
  simp only [step, Option.bind_some, Option.map_none, Option.getD_none] at hs
  split at hs
  · simp at hs
  · split at hs
    · simp at hs
    · split at hs
      · simp at hs
      · rename_i hthr
        simp only [Bool.not_false, Bool.and_true, decide_eq_true_eq, Nat.not_lt] at hthr
        have hcontent : f'.content = f.content := by simp only [Option.some.injEq] at hs; rw [← hs]
        have hsigs : f'.sigs = ((dedup ((keys.filter f.content.keys.contains).filter f.content.rootR.keyids.contains)).map
            fun k => (⟨k, f.content⟩ : SigE)) ++ f.sigs.filter fun s =>
              !(((dedup ((keys.filter f.content.keys.contains).filter f.content.rootR.keyids.contains)).map
                fun k => (⟨k, f.content⟩ : SigE)).any fun n => n.keyid == s.keyid) := by
          simp only [Option.some.injEq] at hs; rw [← hs]
        rw [← hsigs] at hthr
        -- the counted signatures have distinct key ids, each authorized, in the table, over the current content
        unfold selfVerifies
        rw [hcontent]
        simp only [decide_eq_true_eq]
        refine Nat.le_trans hthr ?_
        have hK : ((f'.sigs.filter fun s => f.content.rootR.keyids.contains s.keyid && f.content.keys.contains s.keyid).map (·.keyid)).Nodup :=
          List.Nodup.sublist (List.Sublist.map _ List.filter_sublist) hinv'.distinct
        have := nodup_subset_length hK (m := (dedup f.content.rootR.keyids).filter fun k =>
            f.content.keys.contains k && f'.sigs.any fun s => s.keyid == k && s.over == f.content) (by
          intro k hk
          simp only [List.mem_map, List.mem_filter, Bool.and_eq_true] at hk
          obtain ⟨s, ⟨hsm, h1, h2⟩, rfl⟩ := hk
          simp only [List.mem_filter, mem_dedup, Bool.and_eq_true, List.any_eq_true, beq_iff_eq]
          refine ⟨by simpa using h1, h2, s, hsm, rfl, ?_⟩
          have := hinv'.current s hsm
          rw [hcontent] at this
          simp [this])
        simpa using this

/-! ### The defect that was repaired

A root with threshold 2 and own keys {1, 2}; a cross-sign step (keys of the previous root: {9}) with
`--ignore-threshold`, then a plain `sign` with key 1 only.  Before the fix the count was 2
(signature by 9 + signature by 1) and the command succeeded; the file does not verify under its own
keys. -/

def c0 : Content := ⟨2, 0, [1, 2], ⟨[1, 2], 2⟩, ⟨[1], 1⟩, ⟨[1], 1⟩, ⟨[1], 1⟩⟩
def oldRoot : RootFile := ⟨⟨1, 0, [9], ⟨[9], 1⟩, ⟨[9], 1⟩, ⟨[9], 1⟩, ⟨[9], 1⟩⟩, []⟩
def afterCross : RootFile := ⟨c0, [⟨9, c0⟩]⟩

theorem cross_sign_step : step (some ⟨c0, []⟩) (.sign [9] (some oldRoot) true) = some afterCross := by decide

theorem old_sign_counts_cross_signatures_witness :
    (signOld afterCross [1] none false).isSome = true ∧
    (signOld afterCross [1] none false).map selfVerifies = some false := by decide

theorem fixed_sign_refuses : step (some afterCross) (.sign [1] none false) = none := by decide

/-! ### Non-vacuity -/
example : (step (some afterCross) (.sign [1, 2] none false)).map selfVerifies = some true := by decide

end Tough.C20
