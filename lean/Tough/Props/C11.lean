/-
C11 — Canonical JSON output is the OLPC canonical form of the value, and only of it.

Property theorems only; helper lemmas live in `Tough/Proofs/CJson*.lean`.
Model: `Tough/Model/CJson.lean` (the `CanonicalFormatter` state machine driven by serde_json's
call-back sequence).  Specification: `Tough/Spec/CJson.lean` (`canon`).
-/
import Tough.Proofs.CJsonCanon
import Tough.Proofs.CJsonSort
import Tough.Proofs.CJsonInj
import Tough.Proofs.ExceptDec
namespace Tough.C11
open Tough.CJson


/-- **C11.a (canonical form, full statement).** For every JSON value whose strings consist of
Unicode scalar values, the bytes produced by the formatter are the OLPC canonical form `canon v`
(no whitespace; members ordered by the code points of their normalised keys; strings normalised
with only `"` and `\` escaped; integers in shortest decimal form) and a value containing a
floating point number is refused. No bound on depth, width or string length. -/
theorem encode_canonical {nfc : Str → Str} (hn : NfcOk nfc) (v : JVal) (hv : validJ v = true) :
    encode nfc v = match canon nfc v with
      | some b => .ok b
      | none => .error .float :=
  encode_eq_canon hn v hv

mutual
theorem canon_none_iff (nfc : Str → Str) (v : JVal) : canon nfc v = none ↔ hasFloat v = true := by
  cases v with
  | null => simp [canon, hasFloat]
  | bool b => cases b <;> simp [canon, hasFloat]
  | int i => simp [canon, hasFloat]
  | float => simp [canon, hasFloat]
  | str s => simp [canon, hasFloat]
  | arr xs => simp [canon, hasFloat, canonList_none_iff nfc xs true]
  | obj ms => simp [canon, hasFloat, canonMembers_none_iff nfc ms]
theorem canonList_none_iff (nfc : Str → Str) (xs : JList) (first : Bool) :
    canonList nfc first xs = none ↔ hasFloatL xs = true := by
  cases xs with
  | nil => simp [canonList, hasFloatL]
  | cons v rest =>
    simp only [canonList, hasFloatL, Bool.or_eq_true, ← canon_none_iff nfc v,
      ← canonList_none_iff nfc rest false]
    cases canon nfc v <;> cases canonList nfc false rest <;> simp
theorem canonMembers_none_iff (nfc : Str → Str) (ms : JMembers) :
    canonMembers nfc ms = none ↔ hasFloatM ms = true := by
  cases ms with
  | nil => simp [canonMembers, hasFloatM]
  | cons k v rest =>
    simp only [canonMembers, hasFloatM, Bool.or_eq_true, ← canon_none_iff nfc v,
      ← canonMembers_none_iff nfc rest]
    cases canon nfc v <;> cases canonMembers nfc rest <;> simp
end

/-- **C11.b (floats refused, and only floats).** The formatter fails exactly on values that
contain a floating point number, and then with the float error. -/
theorem encode_float_refused {nfc : Str → Str} (hn : NfcOk nfc) (v : JVal) (hv : validJ v = true) :
    (hasFloat v = true ↔ encode nfc v = .error .float) ∧
    (hasFloat v = false ↔ ∃ b, encode nfc v = .ok b) := by
  rw [encode_canonical hn v hv]
  have := canon_none_iff nfc v
  cases h : canon nfc v with
  | none =>
    have hf : hasFloat v = true := this.mp h
    simp [hf]
  | some b =>
    have hf : hasFloat v = false := by
      cases hh : hasFloat v with
      | false => rfl
      | true => rw [this.mpr hh] at h; simp at h
    simp [hf]

/-- members of an object as a list -/
def membersList : JMembers → List (Str × JVal)
  | .nil => []
  | .cons k v rest => (k, v) :: membersList rest

/-- the canonical members computed from a list of `(key, value)` pairs, as a list-level function -/
def consOpt (k : Str) (ob : Option Bytes) (a : Option (List Member)) : Option (List Member) :=
  match ob, a with
  | some b, some es => some ((k, b) :: es)
  | _, _ => none
def canonPairs (nfc : Str → Str) : List (Str × JVal) → Option (List Member)
  | [] => some []
  | kv :: rest => consOpt (normStr nfc kv.1) (canon nfc kv.2) (canonPairs nfc rest)

theorem canonMembers_eq (nfc : Str → Str) : (ms : JMembers) →
    canonMembers nfc ms = canonPairs nfc (membersList ms)
  | .nil => rfl
  | .cons k v rest => by
    simp only [canonMembers, membersList, canonPairs, consOpt, canonMembers_eq nfc rest]
    cases canon nfc v <;> cases canonPairs nfc (membersList rest) <;> rfl

theorem canonPairs_keys (nfc : Str → Str) : (l : List (Str × JVal)) → (es : List Member) →
    canonPairs nfc l = some es → es.map (·.1) = l.map fun kv => normStr nfc kv.1
  | [], es, h => by simp [canonPairs] at h; subst h; rfl
  | kv :: rest, es, h => by
    simp only [canonPairs, consOpt] at h
    cases hb : canon nfc kv.2 with
    | none => simp [hb] at h
    | some b =>
      cases hr : canonPairs nfc rest with
      | none => simp [hb, hr] at h
      | some es' =>
        simp only [hb, hr, Option.some.injEq] at h
        subst h
        simp [canonPairs_keys nfc rest es' hr]

inductive OptPerm : Option (List Member) → Option (List Member) → Prop
  | bothNone : OptPerm none none
  | bothSome {a b} : a.Perm b → OptPerm (some a) (some b)

theorem OptPerm.trans' {a b c : Option (List Member)} (h1 : OptPerm a b) (h2 : OptPerm b c) :
    OptPerm a c := by
  cases h1 with
  | bothNone => exact h2
  | bothSome p1 => cases h2 with
    | bothSome p2 => exact .bothSome (p1.trans p2)

theorem OptPerm.consStep {a b : Option (List Member)} (h : OptPerm a b) (k : Str) (ob : Option Bytes) :
    OptPerm (consOpt k ob a) (consOpt k ob b) := by
  unfold consOpt
  cases ob with
  | none => exact .bothNone
  | some v => cases h with
    | bothNone => exact .bothNone
    | bothSome p => exact .bothSome ((List.perm_cons _).mpr p)

theorem canonPairs_perm (nfc : Str → Str) {l₁ l₂ : List (Str × JVal)} (hp : l₁.Perm l₂) :
    OptPerm (canonPairs nfc l₁) (canonPairs nfc l₂) := by
  induction hp with
  | nil => exact .bothSome (List.Perm.refl _)
  | cons x _ ih =>
    simp only [canonPairs]
    exact ih.consStep _ _
  | swap x y l =>
    simp only [canonPairs, consOpt]
    cases canon nfc x.2 <;> cases canon nfc y.2 <;> cases canonPairs nfc l <;>
      first | exact .bothNone | exact .bothSome (List.Perm.swap _ _ _)
  | trans _ _ ih1 ih2 => exact ih1.trans' ih2

/-- **C11.c (insertion order is irrelevant).** Two objects whose member lists are permutations of
one another, with keys that stay distinct after normalisation, have the same canonical bytes —
for any number of members, and (because `canon` of a compound value is a function of the `canon`
of its parts, see `canon_congr_*`) at any nesting depth. -/
theorem encode_order_independent (nfc : Str → Str) (ms ms' : JMembers)
    (hp : (membersList ms).Perm (membersList ms'))
    (hd : ((membersList ms).map fun kv => normStr nfc kv.1).Nodup) :
    canon nfc (.obj ms) = canon nfc (.obj ms') := by
  simp only [canon, canonMembers_eq]
  have h := canonPairs_perm nfc hp
  generalize h1 : canonPairs nfc (membersList ms) = o1 at h
  generalize h2 : canonPairs nfc (membersList ms') = o2 at h
  cases h with
  | bothNone => rfl
  | bothSome hperm =>
    rename_i e₁ e₂
    simp only [Option.map_some]
    rw [sortMembers_perm hperm ((canonPairs_keys nfc _ _ h1) ▸ hd)]

/-- congruence: the canonical bytes of an array/object are determined by those of its parts -/
theorem canon_congr_member (nfc : Str → Str) (k : Str) (v w : JVal) (rest : JMembers)
    (h : canon nfc v = canon nfc w) :
    canon nfc (.obj (.cons k v rest)) = canon nfc (.obj (.cons k w rest)) := by
  simp only [canon, canonMembers, h]

theorem canon_congr_elem (nfc : Str → Str) (v w : JVal) (rest : JList)
    (h : canon nfc v = canon nfc w) :
    canon nfc (.arr (.cons v rest)) = canon nfc (.arr (.cons w rest)) := by
  simp only [canon, canonList, h]

/-- **C11.d (the order is by code points, equivalently by UTF-8 bytes).** -/
theorem utf8_order_is_codepoint_order (a b : Str) (ha : ∀ c ∈ a, c < 0x110000)
    (hb : ∀ c ∈ b, c < 0x110000) : bytesLt (utf8s a) (utf8s b) = strLt a b :=
  utf8_lex_iso a b ha hb

/-- **C11.e (members of the output are strictly increasing by key code points).** -/
theorem canon_members_sorted (es : List Member) (hd : (es.map (·.1)).Nodup) :
    (sortMembers es).Pairwise (fun a b => strLt a.1 b.1 = true) :=
  (sortMembers_sorted_perm es hd).1

/-! ### The defect that was repaired (kept as documentation and as a regression witness)

Before the fix the `BTreeMap` was keyed by the *serialized* key (quotes and escapes included).
`{"a":1,"a!":2}` then came out as `{"a!":2,"a":1}`: `"a"` = 22 61 22 and `"a!"` = 22 61 21 22,
and 21 < 22.  The canonical order is `a` < `a!`. -/

def witnessObj : JVal :=
  .obj (.cons [0x61] (.int 1) (.cons [0x61, 0x21] (.int 2) .nil))

theorem old_formatter_not_canonical_witness :
    encodeOld id witnessObj ≠ (match canon id witnessObj with | some b => .ok b | none => .error .float) := by
  decide

theorem fixed_formatter_on_witness :
    encode id witnessObj = .ok [0x7B, 0x22, 0x61, 0x22, 0x3A, 0x31, 0x2C, 0x22, 0x61, 0x21, 0x22, 0x3A, 0x32, 0x7D] := by
  decide

/-! ### Non-vacuity -/

example : NfcOk id := nfcOk_id
example : validJ witnessObj = true := by decide
example : (membersList (.cons [0x61] (.int 1) (.cons [0x62] (.int 2) .nil))).Perm
    (membersList (.cons [0x62] (.int 2) (.cons [0x61] (.int 1) .nil))) := List.Perm.swap _ _ _

/-! ### Only of it: the bytes determine the value -/

/-- **C11.e (injectivity, full statement).** If the formatter produces the same bytes for two values,
the two values have the same normal form `nrm`: they differ at most in string / key normalisation, in
the order in which members were inserted, and in members that a later member with the same key
replaced.  No bound on depth, width or string length.  (`nrm` normalises every string and key with
`normStr`, orders the members of every object by key and keeps the last of several members with one
key; nothing else.) -/
theorem encode_injective {nfc : Str → Str} (hn : NfcOk nfc) (v w : JVal) (hv : validJ v = true) (hw : validJ w = true)
    (b : Bytes) (h1 : encode nfc v = .ok b) (h2 : encode nfc w = .ok b) : nrm nfc v = nrm nfc w := by
  rw [encode_canonical hn v hv] at h1
  rw [encode_canonical hn w hw] at h2
  cases hc1 : canon nfc v with
  | none => simp [hc1] at h1
  | some b1 =>
    cases hc2 : canon nfc w with
    | none => simp [hc2] at h2
    | some b2 =>
      simp only [hc1, Except.ok.injEq] at h1
      simp only [hc2, Except.ok.injEq] at h2
      subst h1; subst h2
      exact canon_injective hn v w hv hw _ hc1 hc2

/-- conversely, values with the same normal form are serialised to the same bytes -/
theorem encode_respects_nrm {nfc : Str → Str} (hn : NfcOk nfc) (v w : JVal) (hv : validJ v = true) (hw : validJ w = true)
    (b c : Bytes) (h1 : encode nfc v = .ok b) (h2 : encode nfc w = .ok c) (h : nrm nfc v = nrm nfc w) : b = c := by
  rw [encode_canonical hn v hv] at h1
  rw [encode_canonical hn w hw] at h2
  cases hc1 : canon nfc v with
  | none => simp [hc1] at h1
  | some b1 =>
    cases hc2 : canon nfc w with
    | none => simp [hc2] at h2
    | some b2 =>
      simp only [hc1, Except.ok.injEq] at h1
      simp only [hc2, Except.ok.injEq] at h2
      subst h1; subst h2
      exact canon_eq_of_nrm_eq nfc v w _ _ hc1 hc2 h

/-- the normal form keeps what distinguishes values: a changed number and an added member change it,
the insertion order does not (evaluated on small values, through the rendering, which is injective) -/
example : render (nrm id (.obj (.cons [97] (.int 1) .nil))) ≠ render (nrm id (.obj (.cons [97] (.int 2) .nil))) ∧
    render (nrm id (.obj (.cons [97] (.int 1) .nil))) ≠ render (nrm id (.obj (.cons [97] (.int 1) (.cons [98] .null .nil)))) ∧
    render (nrm id (.obj (.cons [98] .null (.cons [97] (.int 1) .nil)))) = render (nrm id (.obj (.cons [97] (.int 1) (.cons [98] .null .nil)))) := by
  decide

end Tough.C11
