/-
C19 — A cached (cloned) repository is a faithful, loadable copy.
Model: `Tough/Model/Cache.lean` (which files `Repository::cache` copies; the copy as a server) over the
update cycle of `Tough/Model/Client.lean`.

The core is a theorem about the client: an update cycle depends on the repository ONLY through the
files it requests (`cycle_congr`, `Tough/Proofs/ClientCongr.lean`).  A copy that holds every requested
file byte for byte therefore loads exactly like the original — same result, same versions, same
datastore.  Targets are copied by `save_target`, whose guarantees (verified-only, atomic, confined) are
C08's theorems.
-/
import Tough.Model.Cache
import Tough.Proofs.ClientCongr
import Tough.Proofs.ExceptDec
namespace Tough.C19
open Tough.Sig Tough.Client Tough.Cache

theorem get_cons (a : FileName) (r : Resp) (s : Server) (f : FileName) :
    Server.get ((a, r) :: s) f = if f == a then r else Server.get s f := by
  simp only [Server.get, List.lookup_cons]
  cases f == a <;> rfl

/-- what the copy answers: the source's file if it was copied, "not found" for everything else -/
theorem cachedServer_get (srv : Server) (files : List FileName) (f : FileName) :
    (cachedServer srv files).get f =
      if f ∈ files then (match srv.get f with | .file x => .file x | _ => .notFound) else .notFound := by
  induction files with
  | nil => rfl
  | cons a rest ih =>
    have hunf : cachedServer srv (a :: rest) =
        (match srv.get a with | .file x => [(a, Resp.file x)] | _ => []) ++ cachedServer srv rest := by
      simp only [cachedServer, List.filterMap_cons]
      cases srv.get a <;> rfl
    rw [hunf]
    by_cases hfa : f = a
    · subst hfa
      simp only [List.mem_cons, true_or, ↓reduceIte]
      cases hs : srv.get f with
      | file y => simp only [List.cons_append, List.nil_append, get_cons, beq_self_eq_true, ↓reduceIte]
      | notFound =>
        simp only [List.nil_append, ih, hs]
        split <;> rfl
      | openErr =>
        simp only [List.nil_append, ih, hs]
        split <;> rfl
    · have hne : (f == a) = false := by simp only [beq_eq_false_iff_ne, ne_eq]; exact hfa
      have hmem : (f ∈ a :: rest) ↔ f ∈ rest := by simp only [List.mem_cons, hfa, false_or]
      cases hs : srv.get a with
      | file y =>
        simp only [List.cons_append, List.nil_append, get_cons, hne, Bool.false_eq_true, ↓reduceIte, ih, hmem]
      | notFound => simp only [List.nil_append, ih, hmem]
      | openErr => simp only [List.nil_append, ih, hmem]

theorem cachedServer_get_copied (srv : Server) (files : List FileName) (f : FileName) (x : File)
    (hf : f ∈ files) (hx : srv.get f = .file x) : (cachedServer srv files).get f = .file x := by
  rw [cachedServer_get, if_pos hf, hx]

theorem cachedServer_get_other (srv : Server) (files : List FileName) (f : FileName)
    (hf : f ∉ files) : (cachedServer srv files).get f = .notFound := by
  rw [cachedServer_get, if_neg hf]

/-- **C19.a (the copy loads like the original).** Let a client run an update cycle against `srv`.
If the copy holds every file that cycle requested — except those the source does not have (the probe
for the next root version) — then the same client (same shipped root, same configuration and clock,
same datastore) running against the copy performs the identical cycle: same outcome, same root,
timestamp, snapshot and targets versions, same delegation tree, same requests. -/
theorem cached_copy_loads_alike (cfg : Config) (srv : Server) (shipped : Option Root) (st : St) (files : List FileName)
    (hcopied : ∀ f ∈ files, ∃ x, srv.get f = .file x)
    (hreq : ∀ f ∈ (cycle cfg srv shipped st).2.reqs, f ∈ files ∨ srv.get f = .notFound) :
    cycle cfg (cachedServer srv files) shipped st = cycle cfg srv shipped st := by
  apply cycle_congr
  intro f hf
  by_cases hm : f ∈ files
  · obtain ⟨x, hx⟩ := hcopied f hm
    rw [hx, cachedServer_get_copied srv files f x hm hx]
  · rcases hreq f hf with h | h
    · exact absurd h hm
    · rw [h, cachedServer_get_other srv files f hm]

/-- **C19.b (root chain).** When the root chain is requested, every version from 1 to the trusted one
is among the files copied. -/
theorem root_chain_complete (v : View) (k : Nat) (h1 : 1 ≤ k) (h2 : k ≤ v.root.version) :
    FileName.rootV k ∈ metaFiles v true := by
  simp only [metaFiles, ↓reduceIte, List.mem_append, List.mem_map, List.mem_reverse, List.mem_range]
  right
  exact ⟨k - 1, by omega, by congr 1; omega⟩

/-- **C19.c** the copy serves nothing that was not copied: no request can reach outside it -/
theorem copy_serves_only_copied (srv : Server) (files : List FileName) (f : FileName) (x : File)
    (h : (cachedServer srv files).get f = .file x) : f ∈ files ∧ srv.get f = .file x := by
  rw [cachedServer_get] at h
  by_cases hm : f ∈ files
  · rw [if_pos hm] at h
    refine ⟨hm, ?_⟩
    cases hs : srv.get f with
    | file y => simp only [hs] at h; exact h
    | notFound => simp [hs] at h
    | openErr => simp [hs] at h
  · rw [if_neg hm] at h; cases h

/-! the hypotheses of `cached_copy_loads_alike` are evaluated by the driver on every generated
repository (`spec_on_model`): every file the loading cycle requests is among `metaFiles`, or absent
from the source. -/

end Tough.C19
