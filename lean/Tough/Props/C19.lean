/-
C19 — A cached (cloned) repository is a faithful, loadable copy.
Model: `Tough/Model/Cache.lean` (which files `Repository::cache` copies; the copy as a server) over the
update cycle of `Tough/Model/Client.lean`.

The core is a theorem about the client: an update cycle depends on the repository ONLY through the
files it requests (`cycle_congr`, `Tough/Proofs/ClientCongr.lean`).  A copy that holds every requested
file byte for byte therefore loads exactly like the original — same result, same versions, same
datastore.  Targets are copied by `save_target`, whose guarantees (verified-only, atomic, confined) are
C08's theorems.
-/
import Tough.Model.Cache
import Tough.Proofs.ClientCongr
import Tough.Proofs.ClientReqs
import Tough.Proofs.PublishCycle
import Tough.Proofs.ExceptDec
namespace Tough.C19
open Tough.Sig Tough.Client Tough.Cache

theorem get_cons (a : FileName) (r : Resp) (s : Server) (f : FileName) :
    Server.get ((a, r) :: s) f = if f == a then r else Server.get s f := by
  simp only [Server.get, List.lookup_cons]
  cases f == a <;> rfl

/-- what the copy answers: the source's file if it was copied, "not found" for everything else -/
theorem cachedServer_get (srv : Server) (files : List FileName) (f : FileName) :
    (cachedServer srv files).get f =
      if f ∈ files then (match srv.get f with | .file x => .file x | _ => .notFound) else .notFound := by
  induction files with
  | nil => rfl
  | cons a rest ih =>
    have hunf : cachedServer srv (a :: rest) =
        (match srv.get a with | .file x => [(a, Resp.file x)] | _ => []) ++ cachedServer srv rest := by
      simp only [cachedServer, List.filterMap_cons]
      cases srv.get a <;> rfl
    rw [hunf]
    by_cases hfa : f = a
    · subst hfa
      simp only [List.mem_cons, true_or, ↓reduceIte]
      cases hs : srv.get f with
      | file y => simp only [List.cons_append, List.nil_append, get_cons, beq_self_eq_true, ↓reduceIte]
      | notFound =>
        simp only [List.nil_append, ih, hs]
        split <;> rfl
      | openErr =>
        simp only [List.nil_append, ih, hs]
        split <;> rfl
    · have hne : (f == a) = false := by simp only [beq_eq_false_iff_ne, ne_eq]; exact hfa
      have hmem : (f ∈ a :: rest) ↔ f ∈ rest := by simp only [List.mem_cons, hfa, false_or]
      cases hs : srv.get a with
      | file y =>
        simp only [List.cons_append, List.nil_append, get_cons, hne, Bool.false_eq_true, ↓reduceIte, ih, hmem]
      | notFound => simp only [List.nil_append, ih, hmem]
      | openErr => simp only [List.nil_append, ih, hmem]

theorem cachedServer_get_copied (srv : Server) (files : List FileName) (f : FileName) (x : File)
    (hf : f ∈ files) (hx : srv.get f = .file x) : (cachedServer srv files).get f = .file x := by
  rw [cachedServer_get, if_pos hf, hx]

theorem cachedServer_get_other (srv : Server) (files : List FileName) (f : FileName)
    (hf : f ∉ files) : (cachedServer srv files).get f = .notFound := by
  rw [cachedServer_get, if_neg hf]

/-- **C19.a (the copy loads like the original).** Let a client run an update cycle against `srv`.
If the copy holds every file that cycle requested — except those the source does not have (the probe
for the next root version) — then the same client (same shipped root, same configuration and clock,
same datastore) running against the copy performs the identical cycle: same outcome, same root,
timestamp, snapshot and targets versions, same delegation tree, same requests. -/
theorem cached_copy_loads_alike (cfg : Config) (srv : Server) (shipped : Option Root) (st : St) (files : List FileName)
    (hcopied : ∀ f ∈ files, ∃ x, srv.get f = .file x)
    (hreq : ∀ f ∈ (cycle cfg srv shipped st).2.reqs, f ∈ files ∨ srv.get f = .notFound) :
    cycle cfg (cachedServer srv files) shipped st = cycle cfg srv shipped st := by
  apply cycle_congr
  intro f hf
  by_cases hm : f ∈ files
  · obtain ⟨x, hx⟩ := hcopied f hm
    rw [hx, cachedServer_get_copied srv files f x hm hx]
  · rcases hreq f hf with h | h
    · exact absurd h hm
    · rw [h, cachedServer_get_other srv files f hm]

/-- **C19.b (root chain).** When the root chain is requested, every version from 1 to the trusted one
is among the files copied. -/
theorem root_chain_complete (v : View) (k : Nat) (h1 : 1 ≤ k) (h2 : k ≤ v.root.version) :
    FileName.rootV k ∈ metaFiles v true := by
  simp only [metaFiles, ↓reduceIte, List.mem_append, List.mem_map, List.mem_reverse, List.mem_range]
  right
  exact ⟨k - 1, by omega, by congr 1; omega⟩

/-- **C19.c** the copy serves nothing that was not copied: no request can reach outside it -/
theorem copy_serves_only_copied (srv : Server) (files : List FileName) (f : FileName) (x : File)
    (h : (cachedServer srv files).get f = .file x) : f ∈ files ∧ srv.get f = .file x := by
  rw [cachedServer_get] at h
  by_cases hm : f ∈ files
  · rw [if_pos hm] at h
    refine ⟨hm, ?_⟩
    cases hs : srv.get f with
    | file y => simp only [hs] at h; exact h
    | notFound => simp [hs] at h
    | openErr => simp [hs] at h
  · rw [if_neg hm] at h; cases h

/-- the file of a delegated role of the loaded tree, at the version the snapshot lists, is what
`delegated_filename` computes -/
theorem roleFile_of_listed (v : View) (r : Nat) (m : Meta) (h : v.snap.find (.role r) = some m) :
    roleFile v r = some (.role r (versioned v.root.consistent m.version)) := by
  unfold roleFile versioned
  cases v.root.consistent <;> simp [h]

/-- **C19.d (the copied files cover the loading cycle).** Every file a successful update cycle asked
for is among the files `cache` copies (with the root chain), or is the probe for the root version after
the trusted one.  (`cycle_reqsIn`, `Tough/Proofs/ClientReqs.lean`.) -/
theorem requests_covered (cfg : Config) (srv : Server) (shipped : Option Root) (ds : Datastore) (v : View)
    (h : (cycle cfg srv shipped ⟨ds, []⟩).1 = .ok v) :
    ∀ f ∈ (cycle cfg srv shipped ⟨ds, []⟩).2.reqs, f ∈ metaFiles v true ∨ f = .rootV (v.root.version + 1) := by
  have hc : cycle cfg srv shipped ⟨ds, []⟩ = (.ok v, (cycle cfg srv shipped ⟨ds, []⟩).2) := by rw [← h]
  intro f hf
  rcases cycle_reqsIn hc f hf with h0 | ⟨k, rfl, h1, _, h2⟩ | rfl | rfl | rfl | ⟨r, hr, m, hm, rfl⟩
  · simp [St.reqs] at h0
  · by_cases hk : k = v.root.version + 1
    · exact Or.inr (by rw [hk])
    · exact Or.inl (root_chain_complete v k h1 (by omega))
  · exact Or.inl (by simp [metaFiles])
  · exact Or.inl (by simp [metaFiles])
  · exact Or.inl (by simp [metaFiles])
  · refine Or.inl ?_
    simp only [metaFiles, List.mem_append, List.mem_filterMap]
    exact Or.inl (Or.inr ⟨r, hr, roleFile_of_listed v r m hm⟩)

/-- **C19 (a copy of a loaded repository loads like the original).** A client loads a repository
(`v`); `cache` copies the metadata with the root chain and succeeds (every file on its list could be
copied); the source has no root version after the trusted one.  Then the same client — same shipped
root, configuration, clock and datastore — loads the copy exactly as it loaded the original: same view,
same datastore, same requests. -/
theorem copy_of_loaded_repository_loads_alike (cfg : Config) (srv : Server) (shipped : Option Root) (ds : Datastore)
    (v : View) (h : (cycle cfg srv shipped ⟨ds, []⟩).1 = .ok v)
    (hcopied : ∀ f ∈ metaFiles v true, copyable srv f = true)
    (hprobe : srv.get (.rootV (v.root.version + 1)) = .notFound) :
    cycle cfg (cachedServer srv (metaFiles v true)) shipped ⟨ds, []⟩ = cycle cfg srv shipped ⟨ds, []⟩ := by
  apply cached_copy_loads_alike
  · intro f hf
    have := hcopied f hf
    unfold copyable at this
    cases hs : srv.get f with
    | file x => exact ⟨x, rfl⟩
    | notFound => simp [hs] at this
    | openErr => simp [hs] at this
  · intro f hf
    rcases requests_covered cfg srv shipped ds v h f hf with h1 | rfl
    · exact Or.inl h1
    · exact Or.inr hprobe

/-- **C19.e (without the root chain).** The copy made without the root chain holds the same files except
the roots; a client that ships the root the original was loaded to asks only for later root versions -/
theorem requests_covered_from_trusted_root (cfg : Config) (srv : Server) (R : Root) (ds : Datastore) (w : View)
    (h : (cycle cfg srv (some R) ⟨ds, []⟩).1 = .ok w) :
    ∀ f ∈ (cycle cfg srv (some R) ⟨ds, []⟩).2.reqs, f ∈ metaFiles w false ∨ ∃ k, f = .rootV k ∧ R.version < k := by
  have hc : cycle cfg srv (some R) ⟨ds, []⟩ = (.ok w, (cycle cfg srv (some R) ⟨ds, []⟩).2) := by rw [← h]
  intro f hf
  rcases cycle_reqsIn hc f hf with h0 | ⟨k, rfl, _, h1, _⟩ | rfl | rfl | rfl | ⟨r, hr, m, hm, rfl⟩
  · simp [St.reqs] at h0
  · exact Or.inr ⟨k, rfl, h1 R rfl⟩
  · exact Or.inl (by simp [metaFiles])
  · exact Or.inl (by simp [metaFiles])
  · exact Or.inl (by simp [metaFiles])
  · refine Or.inl ?_
    simp only [metaFiles, List.mem_append, List.mem_filterMap]
    exact Or.inl (Or.inr ⟨r, hr, roleFile_of_listed w r m hm⟩)

/-- a client that ships the trusted root loads a copy made without the root chain like the original,
provided the source has no later root version -/
theorem copy_without_chain_loads_alike (cfg : Config) (srv : Server) (R : Root) (ds : Datastore)
    (w : View) (h : (cycle cfg srv (some R) ⟨ds, []⟩).1 = .ok w)
    (hcopied : ∀ f ∈ metaFiles w false, copyable srv f = true)
    (hprobe : ∀ k, R.version < k → srv.get (.rootV k) = .notFound) :
    cycle cfg (cachedServer srv (metaFiles w false)) (some R) ⟨ds, []⟩ = cycle cfg srv (some R) ⟨ds, []⟩ := by
  apply cached_copy_loads_alike
  · intro f hf
    have := hcopied f hf
    unfold copyable at this
    cases hs : srv.get f with
    | file x => exact ⟨x, rfl⟩
    | notFound => simp [hs] at this
    | openErr => simp [hs] at this
  · intro f hf
    rcases requests_covered_from_trusted_root cfg srv R ds w h f hf with h1 | ⟨k, rfl, hk⟩
    · exact Or.inl h1
    · exact Or.inr (hprobe k hk)

/-! `hprobe` is needed: `load_root` also stops at a file `(N+1).root.json` that cannot be opened or that
carries version N again; such a file is not copied, and although the copy then stops at the same root
the two cycles are no longer the same computation.  The driver evaluates `hcopied` and `hprobe` on every
generated repository (`spec_on_model`). -/

end Tough.C19

namespace Tough.C19
open Tough.Sig Tough.Client Tough.Cache

/-! a complete little repository (two root versions, consistent snapshots, one delegated role): the
hypotheses of `copy_of_loaded_repository_loads_alike` are satisfiable, six files are copied -/
def root1E : Root := ⟨1, 100, true, [1, 2, 3, 4], some ⟨[1], 1⟩, some ⟨[3], 1⟩, some ⟨[4], 1⟩, some ⟨[2], 1⟩, 11, [⟨1, some 1, 11⟩]⟩
def root2E : Root := ⟨2, 100, true, [1, 2, 3, 4], some ⟨[1], 1⟩, some ⟨[3], 1⟩, some ⟨[4], 1⟩, some ⟨[2], 1⟩, 21, [⟨1, some 1, 21⟩]⟩
def roleE : TargetsDoc := ⟨3, 100, [(0, ⟨5, 77⟩)], none, 15, [⟨5, some 5, 15⟩]⟩
def tgE : TargetsDoc := ⟨7, 100, [], some ⟨[5], [⟨9, [5], 1, [0]⟩]⟩, 14, [⟨4, some 4, 14⟩]⟩
def snE : Snapshot := ⟨6, 100, [(.targets, ⟨7, none, none⟩), (.role 9, ⟨3, none, none⟩)], 13, [⟨3, some 3, 13⟩]⟩
def tsE : Timestamp := ⟨5, 100, some ⟨6, none, none⟩, 12, [⟨2, some 2, 12⟩]⟩
def cfgE : Config := ⟨⟨100, 100, 100, 100, 8⟩, true, 0⟩
def srvE : Server :=
  [(.rootV 1, .file ⟨.root root1E, some 10, 0, .none⟩), (.rootV 2, .file ⟨.root root2E, some 10, 0, .none⟩),
   (.timestamp, .file ⟨.timestamp tsE, some 10, 0, .none⟩), (.snapshot (some 6), .file ⟨.snapshot snE, some 10, 0, .none⟩),
   (.targets (some 7), .file ⟨.targets tgE, some 10, 0, .none⟩), (.role 9 (some 3), .file ⟨.targets roleE, some 10, 0, .none⟩)]


example : ∃ v, (cycle cfgE srvE (some root1E) ⟨{}, []⟩).1 = .ok v ∧
    (metaFiles v true).all (copyable srvE) = true ∧ srvE.get (.rootV (v.root.version + 1)) = .notFound ∧
    (metaFiles v true).length = 6 ∧ tgtRoleNames v.tgt = [9] :=
  ⟨_, rfl, by decide, by decide, by decide, by decide⟩

end Tough.C19

namespace Tough.C19
open Tough.Sig Tough.Client Tough.Cache Tough.Publish

/-! ### Composition with C10: a copy of what the editor published loads like the original -/

theorem server_get_later_root (ser : Ser) (p : Signed) (k : Nat) (hk : p.root.version < k) :
    (p.server ser).get (.rootV k) = .notFound := by
  unfold Server.get
  rw [lookup_none_of_not_mem]
  simp only [Signed.server, List.map_cons, List.map_map, List.cons_append, List.nil_append,
    List.mem_cons, List.mem_map, Function.comp]
  rintro (h | h | h | h | ⟨q, _, h⟩)
  · simp only [FileName.rootV.injEq] at h; omega
  · cases h
  · cases h
  · cases h
  · simp [nodeFile] at h

/-- **C10 ∘ C19.** The editor signs and writes a repository (`Signed.server`, hypotheses of
`cycle_pub` = what `sign` guarantees); a client with the same root loads it (view = exactly what was
signed); `cache` copies the metadata without the root chain.  Then a client holding that root loads the
COPY with the same result: the same root, timestamp, snapshot and delegation tree the editor signed. -/
theorem copy_of_published_repository_loads (cfg : Config) (ser : Ser) (p : Signed) (ds : Datastore)
    (hroot : rootVerify p.root .root p.root.msg p.root.sigs = true)
    (hts : rootVerify p.root .timestamp p.tsMsg p.tsSigs = true)
    (hsn : rootVerify p.root .snapshot p.snapMsg p.snapSigs = true)
    (htg : rootVerify p.root .targets (Tgt.doc p.tree).msg (Tgt.doc p.tree).sigs = true)
    (htree : TgtOk p.tree) (hn : (tgtRoleNames p.tree).Nodup) (hvalid : p.tree.validate = true)
    (hupd : 0 < cfg.limits.maxRootUpdates)
    (hsize : ser.len (.timestamp (p.timestamp ser)) ≤ cfg.limits.maxTimestampSize)
    (hexp : cfg.safe = true → cfg.now ≤ p.root.expires ∧ cfg.now ≤ p.tsExpires ∧ cfg.now ≤ p.snapExpires ∧
      cfg.now ≤ (Tgt.doc p.tree).expires)
    (hfresh : ds.ts = .absent ∧ ds.snap = .absent ∧ ds.tgt = .absent)
    (hclock : cfg.safe = true → ∀ t0, ds.time = some t0 → t0 ≤ cfg.now) :
    ∃ st', cycle cfg (cachedServer (p.server ser) (metaFiles ⟨p.root, p.timestamp ser, p.snapshot ser, p.tree⟩ false))
        (some p.root) ⟨ds, []⟩ = (.ok ⟨p.root, p.timestamp ser, p.snapshot ser, p.tree⟩, st') := by
  obtain ⟨st', hpub⟩ := cycle_pub (cfg := cfg) ser p ds hroot hts hsn htg htree hn hvalid hupd hsize hexp hfresh hclock
  have hview : (cycle cfg (p.server ser) (some p.root) ⟨ds, []⟩).1 = .ok ⟨p.root, p.timestamp ser, p.snapshot ser, p.tree⟩ := by
    rw [hpub]
  have hcopy := copy_without_chain_loads_alike cfg (p.server ser) p.root ds _ hview
    (by
      intro f hf
      simp only [metaFiles, Bool.false_eq_true, ↓reduceIte, List.append_nil, List.mem_append, List.mem_cons,
        List.mem_filterMap, List.not_mem_nil, or_false] at hf
      unfold copyable
      rcases hf with (rfl | rfl | rfl) | ⟨r, hr, hrf⟩
      · have : (p.snapshot ser).version = p.snapVersion := rfl
        rw [this, server_get_snapshot ser p hn]; rfl
      · rw [server_get_targets ser p hn]; rfl
      · rw [server_get_timestamp ser p hn]; rfl
      · -- a delegated role of the tree: its file was written under the name `cache` computes
        rw [tgtRoleNames_nodes] at hr
        obtain ⟨q, hq, rfl⟩ := List.mem_map.mp hr
        have hfind := snapshot_find_role ser p hn q hq
        have : roleFile ⟨p.root, p.timestamp ser, p.snapshot ser, p.tree⟩ q.1.name =
            some (.role q.1.name (versioned p.root.consistent (Tgt.doc q.2).version)) := by
          have := roleFile_of_listed ⟨p.root, p.timestamp ser, p.snapshot ser, p.tree⟩ q.1.name _ hfind
          simpa [metaOf] using this
        rw [this] at hrf
        simp only [Option.some.injEq] at hrf
        subst hrf
        rw [server_get_role ser p hn q hq]; rfl)
    (fun k hk => server_get_later_root ser p k hk)
  exact ⟨st', by rw [hcopy, hpub]⟩

end Tough.C19
