/-
C14 — Online-key rotation lets clients recover from fast-forwarded versions.
Model: step 1.9 in `loadRoot` (`onlineKeysChanged` against the recorded root, `clearOnline`).
-/
import Tough.Props.C03
import Tough.Proofs.ClientLog
namespace Tough.C14
open Tough.Sig Tough.Client Tough.C03

variable {cfg : Config} {srv : Server}

def clearDs (ds : Datastore) : Datastore := { ds with ts := .absent, snap := .absent }

/-- **C14.a** When step 1 ends with a root whose listed timestamp or snapshot keys differ from those
of the root recorded at the previous update (the shipped root if none is recorded), both stored
files are gone before the timestamp is fetched — also when some old keys remain authorized — and the
stored targets metadata is untouched. -/
theorem rotation_clears_online_state {shipped : Option Root} {st st' : St} {R' : Root}
    (h : loadRoot cfg srv shipped st = (.ok R', st')) :
    ∃ r0, shipped = some r0 ∧
      (onlineKeysChanged (refRoot st.ds r0) R' = true →
        st'.ds.ts = .absent ∧ st'.ds.snap = .absent ∧ st'.ds.tgt = st.ds.tgt) := by
  obtain ⟨r0, h0, _, _, _, _, hd⟩ := (loadRoot_ok h).shipped
  exact ⟨r0, h0, hd⟩

/-! the root walk and the expiry gate do not look at the stored timestamp / snapshot -/

theorem rootLoop_indep (v0 fuel : Nat) (r : Root) (a b : St) :
    (rootLoop cfg srv v0 fuel r a).1 = (rootLoop cfg srv v0 fuel r b).1 ∧
    (rootLoop cfg srv v0 fuel r a).2.ds = a.ds := by
  induction fuel generalizing r a b with
  | zero => exact ⟨rfl, rfl⟩
  | succ n ih =>
    simp only [rootLoop]
    split
    · exact ⟨rfl, rfl⟩
    · split
      · exact ⟨rfl, rfl⟩
      · exact ⟨rfl, rfl⟩
      · rename_i new _
        exact ih new (a.req (.rootV (r.version + 1)) cfg.limits.maxRootSize) (b.req (.rootV (r.version + 1)) cfg.limits.maxRootSize)

theorem systemTime_clear (a b : St) (h : b.ds = clearDs a.ds) :
    (systemTime cfg b).1 = (systemTime cfg a).1 ∧ (systemTime cfg b).2.ds = clearDs (systemTime cfg a).2.ds := by
  have ht : b.ds.time = a.ds.time := by rw [h]; rfl
  unfold systemTime
  rw [ht]
  split
  · split
    · exact ⟨rfl, h⟩
    · exact ⟨rfl, by simp only [h, clearDs]⟩
  · exact ⟨rfl, by simp only [h, clearDs]⟩

theorem expiryGate_clear (r : RoleType) (e : Int) (a b : St) (h : b.ds = clearDs a.ds) :
    (expiryGate cfg r e b).1 = (expiryGate cfg r e a).1 ∧ (expiryGate cfg r e b).2.ds = clearDs (expiryGate cfg r e a).2.ds := by
  unfold expiryGate
  split
  · unfold checkExpired
    have := systemTime_clear (cfg := cfg) a b h
    generalize systemTime cfg a = oa at this
    generalize systemTime cfg b = ob at this
    obtain ⟨ra, sa⟩ := oa
    obtain ⟨rb, sb⟩ := ob
    simp only at this
    obtain ⟨h1, h2⟩ := this
    subst h1
    cases rb with
    | error e' => exact ⟨rfl, h2⟩
    | ok t => simp only; split <;> exact ⟨rfl, h2⟩
  · exact ⟨rfl, h⟩

/-- the steps of a cycle after `load_root` -/
def afterRoot (cfg : Config) (srv : Server) (root : Root) (st : St) : Except Err View × St :=
  match loadTimestamp cfg srv root st with
  | (.error e, st) => (.error e, st)
  | (.ok ts, st) =>
    match loadSnapshot cfg srv root ts st with
    | (.error e, st) => (.error e, st)
    | (.ok snap, st) =>
      match loadTargets cfg srv root snap st with
      | (.error e, st) => (.error e, st)
      | (.ok tgt, st) => (.ok ⟨root, ts, snap, tgt⟩, st)

theorem afterRoot_ext (root : Root) (st : St) (l : List Ev) :
    afterRoot cfg srv root (st.ext l) = ((afterRoot cfg srv root st).1, (afterRoot cfg srv root st).2.ext l) := by
  unfold afterRoot
  rw [loadTimestamp_ext]
  generalize loadTimestamp cfg srv root st = o1
  obtain ⟨r1, s1⟩ := o1
  cases r1 with
  | error e => rfl
  | ok ts =>
    simp only
    rw [loadSnapshot_ext]
    generalize loadSnapshot cfg srv root ts s1 = o2
    obtain ⟨r2, s2⟩ := o2
    cases r2 with
    | error e => rfl
    | ok sn =>
      simp only
      rw [loadTargets_ext]
      generalize loadTargets cfg srv root sn s2 = o3
      obtain ⟨r3, s3⟩ := o3
      cases r3 with
      | error e => rfl
      | ok t => rfl

theorem cycle_eq_afterRoot (shipped : Option Root) (st : St) :
    cycle cfg srv shipped st =
      match loadRoot cfg srv shipped st with
      | (.error e, st) => (.error e, st)
      | (.ok root, st) => afterRoot cfg srv root st := by
  unfold cycle afterRoot
  rfl

/-- **C14.b (recovery, full statement).** If the root at the end of step 1 replaced listed timestamp
or snapshot keys, the whole cycle — its result and the datastore it leaves — is the same as on a
datastore without stored timestamp and snapshot: whatever versions they had (up to 2^63 or beyond)
does not constrain what is accepted. Hence a correctly signed repository restarted at low versions,
which a fresh client would accept, is accepted. -/
theorem recovery_after_rotation (shipped : Option Root) (ds : Datastore) (R' : Root) (st1 : St) (r0 : Root)
    (h0 : shipped = some r0)
    (h : loadRoot cfg srv shipped ⟨ds, []⟩ = (.ok R', st1))
    (hk : onlineKeysChanged (refRoot ds r0) R' = true) :
    (cycle cfg srv shipped ⟨ds, []⟩).1 = (cycle cfg srv shipped ⟨clearDs ds, []⟩).1 ∧
    (cycle cfg srv shipped ⟨ds, []⟩).2.ds = (cycle cfg srv shipped ⟨clearDs ds, []⟩).2.ds := by
  have key : ∃ st2, loadRoot cfg srv shipped ⟨clearDs ds, []⟩ = (.ok R', st2) ∧ st2.ds = st1.ds := by
    subst h0
    unfold loadRoot at h ⊢
    simp only at h ⊢
    by_cases hv : (!rootVerify r0 .root r0.msg r0.sigs) = true
    · simp [hv] at h
    · simp only [hv, Bool.false_eq_true, ↓reduceIte] at h ⊢
      have hl := rootLoop_indep (cfg := cfg) (srv := srv) r0.version (cfg.limits.maxRootUpdates + 1) r0 ⟨ds, []⟩ ⟨clearDs ds, []⟩
      have hl2 := (rootLoop_indep (cfg := cfg) (srv := srv) r0.version (cfg.limits.maxRootUpdates + 1) r0 ⟨clearDs ds, []⟩ ⟨ds, []⟩).2
      have hr : refRoot (clearDs ds) r0 = refRoot ds r0 := rfl
      rw [hr]
      generalize rootLoop cfg srv r0.version (cfg.limits.maxRootUpdates + 1) r0 ⟨ds, []⟩ = oa at h hl
      generalize rootLoop cfg srv r0.version (cfg.limits.maxRootUpdates + 1) r0 ⟨clearDs ds, []⟩ = ob at hl hl2 ⊢
      obtain ⟨ra, sa⟩ := oa
      obtain ⟨rb, sb⟩ := ob
      simp only at hl hl2
      obtain ⟨e1, e2⟩ := hl
      subst e1
      cases ra with
      | error e => simp at h
      | ok root =>
        simp only at h ⊢
        have hg := expiryGate_clear (cfg := cfg) .root root.expires sa sb (by rw [hl2, e2])
        generalize expiryGate cfg .root root.expires sa = ga at h hg
        generalize expiryGate cfg .root root.expires sb = gb at hg ⊢
        obtain ⟨rga, ta⟩ := ga
        obtain ⟨rgb, tb⟩ := gb
        simp only at hg
        obtain ⟨g1, g2⟩ := hg
        subst g1
        cases rgb with
        | error e => simp at h
        | ok u =>
          simp only at h ⊢
          split at h
          · rename_i hc
            simp only [Prod.mk.injEq, Except.ok.injEq] at h
            obtain ⟨rfl, h2⟩ := h
            simp only [hc, ↓reduceIte]
            refine ⟨_, rfl, ?_⟩
            rw [← h2]
            simp only [recordRoot, clearOnline, g2, clearDs]
          · rename_i hc
            simp only [Prod.mk.injEq, Except.ok.injEq] at h
            obtain ⟨rfl, _⟩ := h
            exact absurd hk hc
  obtain ⟨st2, hk2, hds⟩ := key
  rw [cycle_eq_afterRoot, cycle_eq_afterRoot, h, hk2]
  simp only
  exact same_ds_of_ext (afterRoot cfg srv R') (afterRoot_ext R') st1 st2 hds.symm

/-- **C14.c** Stored state of roles whose keys did not change keeps protecting: the top-level targets
are exempted only by a change of what is authorized for the targets role (C03.c); and as long as the
listed online keys are unchanged and the stored timestamp still verifies, it keeps constraining. -/
theorem unrotated_roles_still_protected (ds : Datastore) (ci : Cyc) (xi : View) (hi : (ci.run ds).1 = .ok xi)
    (mid : List Cyc) (cj : Cyc) :
    (∀ xj, (cj.run (dsAfter (ci.run ds).2.ds mid)).1 = .ok xj → (Tgt.doc xi.tgt).version ≤ (Tgt.doc xj.tgt).version) ∨
    ExemptIn ExemptTgt (ci.run ds).2.ds (mid ++ [cj]) :=
  targets_rollback_protected ds ci xi hi mid cj

/-! ### The defect that was repaired (lock-out with overlapping keys)

Cycle 1 (root v1, timestamp key 2) stores an attacker-inflated timestamp v900. The repository
publishes root v2 whose timestamp role lists keys [2, 3] (old key kept) and restarts at timestamp
v2 signed by key 3. The application now ships root v2. Before the fix the reference of step 1.9 was
the shipped root = final root: nothing was deleted, the stored v900 still verified (key 2), and the
valid repository was refused for ever. -/

def rootA : Root := ⟨1, 100, false, [1, 2, 9], k [1] 1, k [9] 1, k [9] 1, k [2] 1, 11, [⟨1, some 1, 11⟩]⟩
def rootB : Root := ⟨2, 100, false, [1, 2, 3, 9], k [1] 1, k [9] 1, k [9] 1, k [2, 3] 1, 12, [⟨1, some 1, 12⟩]⟩
def ts900 : Timestamp := ⟨900, 100, some ⟨900, none, none⟩, 25, [⟨2, some 2, 25⟩]⟩
def tsLow : Timestamp := ⟨2, 100, some ⟨2, none, none⟩, 23, [⟨3, some 3, 23⟩]⟩
def srv1 : Server := [(.timestamp, .file ⟨.timestamp ts900, some 10, 0, .none⟩)]
def srv2 : Server := [(.rootV 2, .file ⟨.root rootB, some 10, 0, .none⟩), (.timestamp, .file ⟨.timestamp tsLow, some 10, 0, .none⟩)]

def upTo (lr : Config → Server → Option Root → St → Except Err Root × St) (srv : Server) (shipped : Root)
    (ds : Datastore) : Except Err Timestamp × St :=
  match lr cfgW srv (some shipped) ⟨ds, []⟩ with
  | (.error e, st) => (.error e, st)
  | (.ok r, st) => loadTimestamp cfgW srv r st

theorem old_step19_locks_out_witness :
    tsVersionOf (upTo loadRootOld srv1 rootA {}) = some 900 ∧
    tsVersionOf (upTo loadRootOld srv2 rootB (upTo loadRootOld srv1 rootA {}).2.ds) = none := by
  decide

theorem fixed_step19_recovers :
    tsVersionOf (upTo loadRoot srv1 rootA {}) = some 900 ∧
    tsVersionOf (upTo loadRoot srv2 rootB (upTo loadRoot srv1 rootA {}).2.ds) = some 2 := by
  decide

end Tough.C14
