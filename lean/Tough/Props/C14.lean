/-
C14 — Online-key rotation lets clients recover from fast-forwarded versions.
Model: step 1.9 in `loadRoot` (`onlineKeysChanged` against the recorded root, `clearOnline`).
-/
import Tough.Props.C03
namespace Tough.C14
open Tough.Sig Tough.Client Tough.C03

variable {cfg : Config} {srv : Server}

def clearDs (ds : Datastore) : Datastore := { ds with ts := .absent, snap := .absent }

/-- **C14.a** When step 1 ends with a root whose listed timestamp or snapshot keys differ from those
of the root recorded at the previous update (the shipped root if none is recorded), both stored
files are gone before the timestamp is fetched — also when some old keys remain authorized — and the
stored targets metadata is untouched. -/
theorem rotation_clears_online_state {shipped : Option Root} {st st' : St} {R' : Root}
    (h : loadRoot cfg srv shipped st = (.ok R', st')) :
    ∃ r0, shipped = some r0 ∧
      (onlineKeysChanged (refRoot st.ds r0) R' = true →
        st'.ds.ts = .absent ∧ st'.ds.snap = .absent ∧ st'.ds.tgt = st.ds.tgt) := by
  obtain ⟨r0, h0, _, _, _, _, hd⟩ := (loadRoot_ok h).shipped
  exact ⟨r0, h0, hd⟩

/-! the root walk and the expiry gate do not look at the stored timestamp / snapshot -/

theorem rootLoop_clear (v0 fuel : Nat) (r : Root) (st : St) :
    rootLoop cfg srv v0 fuel r { st with ds := clearDs st.ds } =
      ((rootLoop cfg srv v0 fuel r st).1,
        { (rootLoop cfg srv v0 fuel r st).2 with ds := clearDs (rootLoop cfg srv v0 fuel r st).2.ds }) := by
  induction fuel generalizing r st with
  | zero => rfl
  | succ n ih =>
    simp only [rootLoop]
    split
    · rfl
    · split
      · rfl
      · rfl
      · rename_i new _
        exact ih new (st.req (.rootV (r.version + 1)) cfg.limits.maxRootSize)

theorem systemTime_clear (st : St) :
    systemTime cfg { st with ds := clearDs st.ds } =
      ((systemTime cfg st).1, { (systemTime cfg st).2 with ds := clearDs (systemTime cfg st).2.ds }) := by
  unfold systemTime
  simp only [clearDs]
  split
  · split <;> rfl
  · rfl

theorem expiryGate_clear (r : RoleType) (e : Int) (st : St) :
    expiryGate cfg r e { st with ds := clearDs st.ds } =
      ((expiryGate cfg r e st).1, { (expiryGate cfg r e st).2 with ds := clearDs (expiryGate cfg r e st).2.ds }) := by
  unfold expiryGate
  split
  · unfold checkExpired
    rw [systemTime_clear]
    generalize systemTime cfg st = out
    obtain ⟨res, s⟩ := out
    cases res with
    | error e' => rfl
    | ok t => simp only; split <;> rfl
  · rfl

/-- **C14.b (recovery, full statement).** If the root at the end of step 1 replaced listed timestamp
or snapshot keys, the whole cycle — result and resulting datastore — is the same as on a datastore
without stored timestamp and snapshot: whatever versions they had (up to 2^63 or beyond) does not
constrain what is accepted. Hence a correctly signed repository restarted at low versions, which a
fresh client would accept, is accepted. -/
theorem recovery_after_rotation (shipped : Option Root) (ds : Datastore) (R' : Root) (st1 : St) (r0 : Root)
    (h0 : shipped = some r0)
    (h : loadRoot cfg srv shipped ⟨ds, []⟩ = (.ok R', st1))
    (hk : onlineKeysChanged (refRoot ds r0) R' = true) :
    cycle cfg srv shipped ⟨ds, []⟩ = cycle cfg srv shipped ⟨clearDs ds, []⟩ := by
  have key : loadRoot cfg srv shipped ⟨clearDs ds, []⟩ = loadRoot cfg srv shipped ⟨ds, []⟩ := by
    subst h0
    unfold loadRoot at h ⊢
    simp only at h ⊢
    split
    · rename_i hv; simp [hv] at h
    · have hl := rootLoop_clear (cfg := cfg) (srv := srv) r0.version (cfg.limits.maxRootUpdates + 1) r0 ⟨ds, []⟩
      simp only at hl
      have hr : refRoot (clearDs ds) r0 = refRoot ds r0 := rfl
      rw [hl, hr]
      rename_i hv
      simp only [hv, Bool.false_eq_true, ↓reduceIte] at h
      generalize rootLoop cfg srv r0.version (cfg.limits.maxRootUpdates + 1) r0 ⟨ds, []⟩ = out at h ⊢
      obtain ⟨res, s⟩ := out
      cases res with
      | error e => simp at h
      | ok root =>
        simp only at h ⊢
        have hg := expiryGate_clear (cfg := cfg) .root root.expires s
        rw [hg]
        generalize expiryGate cfg .root root.expires s = out2 at h ⊢
        obtain ⟨res2, s2⟩ := out2
        cases res2 with
        | error e => simp at h
        | ok u =>
          simp only at h ⊢
          split at h
          · rename_i hc
            simp only [Prod.mk.injEq, Except.ok.injEq] at h
            obtain ⟨rfl, _⟩ := h
            simp only [hc, ↓reduceIte]
            rfl
          · rename_i hc
            simp only [Prod.mk.injEq, Except.ok.injEq] at h
            obtain ⟨rfl, _⟩ := h
            exact absurd hk hc
  unfold cycle
  rw [key]

/-- **C14.c** Stored state of roles whose keys did not change keeps protecting: the top-level targets
are exempted only by a change of what is authorized for the targets role (C03.c); and as long as the
listed online keys are unchanged and the stored timestamp still verifies, it keeps constraining. -/
theorem unrotated_roles_still_protected (ds : Datastore) (ci : Cyc) (xi : View) (hi : (ci.run ds).1 = .ok xi)
    (mid : List Cyc) (cj : Cyc) :
    (∀ xj, (cj.run (dsAfter (ci.run ds).2.ds mid)).1 = .ok xj → (Tgt.doc xi.tgt).version ≤ (Tgt.doc xj.tgt).version) ∨
    ExemptIn ExemptTgt (ci.run ds).2.ds (mid ++ [cj]) :=
  targets_rollback_protected ds ci xi hi mid cj

/-! ### The defect that was repaired (lock-out with overlapping keys)

Cycle 1 (root v1, timestamp key 2) stores an attacker-inflated timestamp v900. The repository
publishes root v2 whose timestamp role lists keys [2, 3] (old key kept) and restarts at timestamp
v2 signed by key 3. The application now ships root v2. Before the fix the reference of step 1.9 was
the shipped root = final root: nothing was deleted, the stored v900 still verified (key 2), and the
valid repository was refused for ever. -/

def rootA : Root := ⟨1, 100, false, [1, 2, 9], k [1] 1, k [9] 1, k [9] 1, k [2] 1, 11, [⟨1, some 1, 11⟩]⟩
def rootB : Root := ⟨2, 100, false, [1, 2, 3, 9], k [1] 1, k [9] 1, k [9] 1, k [2, 3] 1, 12, [⟨1, some 1, 12⟩]⟩
def ts900 : Timestamp := ⟨900, 100, some ⟨900, none, none⟩, 25, [⟨2, some 2, 25⟩]⟩
def tsLow : Timestamp := ⟨2, 100, some ⟨2, none, none⟩, 23, [⟨3, some 3, 23⟩]⟩
def srv1 : Server := [(.timestamp, .file ⟨.timestamp ts900, some 10, 0, .none⟩)]
def srv2 : Server := [(.rootV 2, .file ⟨.root rootB, some 10, 0, .none⟩), (.timestamp, .file ⟨.timestamp tsLow, some 10, 0, .none⟩)]

def upTo (lr : Config → Server → Option Root → St → Except Err Root × St) (srv : Server) (shipped : Root)
    (ds : Datastore) : Except Err Timestamp × St :=
  match lr cfgW srv (some shipped) ⟨ds, []⟩ with
  | (.error e, st) => (.error e, st)
  | (.ok r, st) => loadTimestamp cfgW srv r st

theorem old_step19_locks_out_witness :
    tsVersionOf (upTo loadRootOld srv1 rootA {}) = some 900 ∧
    tsVersionOf (upTo loadRootOld srv2 rootB (upTo loadRootOld srv1 rootA {}).2.ds) = none := by
  decide

theorem fixed_step19_recovers :
    tsVersionOf (upTo loadRoot srv1 rootA {}) = some 900 ∧
    tsVersionOf (upTo loadRoot srv2 rootB (upTo loadRoot srv1 rootA {}).2.ds) = some 2 := by
  decide

end Tough.C14
