def hello := "world"
