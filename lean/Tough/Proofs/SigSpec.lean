/- re-export of the specification function for drivers (core-only, links into executables) -/
import Tough.Proofs.Sig
