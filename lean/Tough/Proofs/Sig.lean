import Tough.Model.Sig
namespace Tough.Sig

/-- removes earlier duplicates -/
def dedup : List KeyId → List KeyId
  | [] => []
  | k :: ks => if ks.contains k then dedup ks else k :: dedup ks

/-- **Specification.** The distinct authorized key ids that are present in the key table and have
at least one valid signature over the message in the list. -/
def validSigners (table : List KeyId) (rk : RoleKeys) (m : Msg) (sigs : List Sig) : List KeyId :=
  (dedup rk.keyids).filter fun k => sigs.any fun s => s.keyid == k && sigOk table s m

theorem mem_dedup {k : KeyId} {ks : List KeyId} : k ∈ dedup ks ↔ k ∈ ks := by
  induction ks with
  | nil => simp [dedup]
  | cons a as ih =>
    simp only [dedup]
    split
    · rename_i h; simp only [List.contains_iff_mem] at h; simp [ih]; intro h'; subst h'; exact h
    · simp [ih]

theorem nodup_dedup (ks : List KeyId) : (dedup ks).Nodup := by
  induction ks with
  | nil => simp [dedup]
  | cons a as ih =>
    simp only [dedup]
    split
    · exact ih
    · rename_i h
      simp only [List.contains_iff_mem] at h
      exact List.nodup_cons.mpr ⟨by simpa [mem_dedup] using h, ih⟩

/-- loop invariant -/
theorem verifyLoop_spec (table : List KeyId) (rk : RoleKeys) (m : Msg) (sigs : List Sig)
    (seen : List KeyId) (hnd : seen.Nodup) :
    let r := verifyLoop table rk m sigs (seen.length, seen)
    r.1 = r.2.length ∧ r.2.Nodup ∧
      ∀ k, k ∈ r.2 ↔ (k ∈ seen ∨ ∃ s ∈ sigs, s.keyid = k ∧ counts table rk m s = true) := by
  induction sigs generalizing seen with
  | nil => simp [verifyLoop, hnd]
  | cons s rest ih =>
    simp only [verifyLoop]
    by_cases hc : counts table rk m s = true
    · simp only [hc, ↓reduceIte]
      by_cases hs : seen.contains s.keyid = true
      · simp only [hs, ↓reduceIte]
        obtain ⟨h1, h2, h3⟩ := ih seen hnd
        refine ⟨h1, h2, fun k => ?_⟩
        rw [h3 k]
        simp only [List.contains_iff_mem] at hs
        constructor
        · rintro (h | ⟨s', hs', he, hc'⟩)
          · exact Or.inl h
          · exact Or.inr ⟨s', List.mem_cons_of_mem _ hs', he, hc'⟩
        · rintro (h | ⟨s', hs', he, hc'⟩)
          · exact Or.inl h
          · rcases List.mem_cons.mp hs' with rfl | hm
            · subst he; exact Or.inl hs
            · exact Or.inr ⟨s', hm, he, hc'⟩
      · simp only [hs]
        have hs' : s.keyid ∉ seen := by simpa [List.contains_iff_mem] using hs
        have hnd' : (s.keyid :: seen).Nodup := List.nodup_cons.mpr ⟨hs', hnd⟩
        obtain ⟨h1, h2, h3⟩ := ih (s.keyid :: seen) hnd'
        simp only [List.length_cons] at h1 h2 h3
        simp only [Bool.false_eq_true, ↓reduceIte]
        refine ⟨h1, h2, fun k => ?_⟩
        rw [h3 k]
        constructor
        · rintro (h | ⟨s', hs'', he, hc'⟩)
          · rcases List.mem_cons.mp h with rfl | hm
            · exact Or.inr ⟨s, List.mem_cons_self, rfl, hc⟩
            · exact Or.inl hm
          · exact Or.inr ⟨s', List.mem_cons_of_mem _ hs'', he, hc'⟩
        · rintro (h | ⟨s', hs'', he, hc'⟩)
          · exact Or.inl (List.mem_cons_of_mem _ h)
          · rcases List.mem_cons.mp hs'' with rfl | hm
            · subst he; exact Or.inl List.mem_cons_self
            · exact Or.inr ⟨s', hm, he, hc'⟩
    · simp only [hc]
      obtain ⟨h1, h2, h3⟩ := ih seen hnd
      simp only [Bool.false_eq_true, ↓reduceIte] at *
      refine ⟨h1, h2, fun k => ?_⟩
      rw [h3 k]
      constructor
      · rintro (h | ⟨s', hs', he, hc'⟩)
        · exact Or.inl h
        · exact Or.inr ⟨s', List.mem_cons_of_mem _ hs', he, hc'⟩
      · rintro (h | ⟨s', hs', he, hc'⟩)
        · exact Or.inl h
        · rcases List.mem_cons.mp hs' with rfl | hm
          · exact absurd hc' hc
          · exact Or.inr ⟨s', hm, he, hc'⟩

theorem verifyLoop_perm_validSigners (table : List KeyId) (rk : RoleKeys) (m : Msg) (sigs : List Sig) :
    (verifyLoop table rk m sigs (0, [])).1 = (validSigners table rk m sigs).length := by
  obtain ⟨h1, h2, h3⟩ := verifyLoop_spec table rk m sigs [] List.nodup_nil
  simp only [List.length_nil] at h1 h2 h3
  have hperm : (verifyLoop table rk m sigs (0, [])).2.Perm (validSigners table rk m sigs) := by
    apply (List.perm_ext_iff_of_nodup h2 ((nodup_dedup rk.keyids).filter _)).mpr
    intro k
    rw [h3 k]
    simp only [List.not_mem_nil, false_or, validSigners, List.mem_filter, mem_dedup, List.any_eq_true,
      counts, Bool.and_eq_true, List.contains_iff_mem, beq_iff_eq]
    constructor
    · rintro ⟨s, hs, rfl, ha, hok⟩; exact ⟨ha, s, hs, rfl, hok⟩
    · rintro ⟨ha, s, hs, rfl, hok⟩; exact ⟨s, hs, rfl, ha, hok⟩
  rw [h1, hperm.length_eq]

/-- the loop with its mutable set and counter accepts iff the *set* of valid signers is large enough -/
theorem verify_iff (table : List KeyId) (rk : RoleKeys) (m : Msg) (sigs : List Sig) :
    verify table rk m sigs = true ↔ rk.threshold ≤ (validSigners table rk m sigs).length := by
  unfold verify
  rw [verifyLoop_perm_validSigners]
  simp

/-- `validSigners` only looks at *whether* some signature in the list is valid for a key -/
theorem validSigners_congr (table : List KeyId) (rk : RoleKeys) (m : Msg) (a b : List Sig)
    (h : ∀ k, (a.any fun s => s.keyid == k && sigOk table s m) = (b.any fun s => s.keyid == k && sigOk table s m)) :
    validSigners table rk m a = validSigners table rk m b := by
  unfold validSigners
  congr 1
  funext k
  exact h k

end Tough.Sig
