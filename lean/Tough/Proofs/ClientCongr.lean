import Tough.Proofs.ClientLog
namespace Tough.Client
open Tough.Sig

/-! ## An update cycle depends on the repository only through the files it asks for

If two servers answer alike for every file a cycle requests from the first one, the cycle run
against the second one is the same computation: same result, same datastore, same log.  (C19: a copy
that holds the requested files byte for byte loads like the original; C05: nothing that was not asked
for can influence what is trusted.) -/

def AgreeOn (fs : List FileName) (a b : Server) : Prop := ∀ f ∈ fs, a.get f = b.get f

theorem AgreeOn.mono {fs gs : List FileName} {a b : Server} (h : AgreeOn gs a b) (hs : ∀ f ∈ fs, f ∈ gs) : AgreeOn fs a b :=
  fun f hf => h f (hs f hf)

theorem fetchFile_congr {a b : Server} {n : FileName} (h : a.get n = b.get n) (l : Nat) (hs : Option Nat) :
    fetchFile b n l hs = fetchFile a n l hs := by
  unfold fetchFile; rw [h]

theorem mem_reqs_req (st : St) (f : FileName) (n : Nat) : f ∈ (st.req f n).reqs := by
  rw [reqs_req]; exact List.mem_cons_self ..

theorem reqs_sub_req (st : St) (f : FileName) (n : Nat) : ∀ x ∈ st.reqs, x ∈ (st.req f n).reqs := by
  intro x hx; rw [reqs_req]; exact List.mem_cons_of_mem _ hx

/-- requests are never forgotten -/
theorem reqs_sub {α : Type} (f : St → α × St) (hf : ∀ st l, f (st.ext l) = ((f st).1, (f st).2.ext l)) (st : St) :
    ∀ x ∈ st.reqs, x ∈ (f st).2.reqs := by
  obtain ⟨new, h⟩ := log_grows f hf st
  intro x hx
  simp only [St.reqs, h, List.filterMap_append, List.mem_append]
  exact Or.inr hx

theorem reqs_nonreq (st : St) (ds : Datastore) (e : Ev) (he : ∀ f, e ≠ .req f) :
    ({ ds := ds, log := e :: st.log } : St).reqs = st.reqs := by
  cases e with
  | req f => exact absurd rfl (he f)
  | limit n => simp [St.reqs, List.filterMap_cons]
  | dsCreate w a => simp [St.reqs, List.filterMap_cons]
  | dsRemove w a => simp [St.reqs, List.filterMap_cons]

variable {cfg : Config} {srv srv' : Server}

theorem rootStep_congr (root : Root) (h : srv.get (.rootV (root.version + 1)) = srv'.get (.rootV (root.version + 1))) :
    rootStep cfg srv' root = rootStep cfg srv root := by
  unfold rootStep; rw [fetchFile_congr h]

theorem rootLoop_congr (v0 fuel : Nat) (r : Root) (st : St)
    (h : AgreeOn (rootLoop cfg srv v0 fuel r st).2.reqs srv srv') :
    rootLoop cfg srv' v0 fuel r st = rootLoop cfg srv v0 fuel r st := by
  induction fuel generalizing r st with
  | zero => rfl
  | succ n ih =>
    simp only [rootLoop] at h ⊢
    by_cases hc : (!decide (r.version < v0 + cfg.limits.maxRootUpdates)) = true
    · simp only [hc, ↓reduceIte]
    · simp only [hc, Bool.false_eq_true, ↓reduceIte] at h ⊢
      have hname : srv.get (.rootV (r.version + 1)) = srv'.get (.rootV (r.version + 1)) := by
        apply h
        cases hs : rootStep cfg srv r with
        | stop => simp only [hs]; exact mem_reqs_req _ _ _
        | fail e => simp only [hs]; exact mem_reqs_req _ _ _
        | next new =>
          simp only [hs]
          exact reqs_sub (rootLoop cfg srv v0 n new) (rootLoop_ext v0 n new) _ _ (mem_reqs_req _ _ _)
      rw [rootStep_congr r hname]
      cases hs : rootStep cfg srv r with
      | stop => rfl
      | fail e => rfl
      | next new =>
        simp only [hs] at h ⊢
        exact ih new _ h

theorem loadRoot_congr (shipped : Option Root) (st : St)
    (h : AgreeOn (loadRoot cfg srv shipped st).2.reqs srv srv') :
    loadRoot cfg srv' shipped st = loadRoot cfg srv shipped st := by
  unfold loadRoot at h ⊢
  cases shipped with
  | none => rfl
  | some r0 =>
    simp only at h ⊢
    by_cases hv : (!rootVerify r0 .root r0.msg r0.sigs) = true
    · simp only [hv, ↓reduceIte]
    · simp only [hv, Bool.false_eq_true, ↓reduceIte] at h ⊢
      have hl : rootLoop cfg srv' r0.version (cfg.limits.maxRootUpdates + 1) r0 st =
          rootLoop cfg srv r0.version (cfg.limits.maxRootUpdates + 1) r0 st := by
        apply rootLoop_congr
        refine h.mono ?_
        generalize rootLoop cfg srv r0.version (cfg.limits.maxRootUpdates + 1) r0 st = o1
        obtain ⟨r1, s1⟩ := o1
        cases r1 with
        | error e => intro f hf; exact hf
        | ok root =>
          simp only
          intro f hf
          have g := reqs_sub (expiryGate cfg .root root.expires) (expiryGate_ext .root root.expires) s1 f hf
          generalize expiryGate cfg .root root.expires s1 = o2 at g
          obtain ⟨r2, s2⟩ := o2
          cases r2 with
          | error e => exact g
          | ok u =>
            simp only
            split
            · simp only [recordRoot, clearOnline, St.reqs, List.filterMap_cons] at g ⊢
              exact g
            · simp only [recordRoot, St.reqs, List.filterMap_cons] at g ⊢
              exact g
      rw [hl]

theorem loadTimestamp_congr (root : Root) (st : St)
    (h : AgreeOn (loadTimestamp cfg srv root st).2.reqs srv srv') :
    loadTimestamp cfg srv' root st = loadTimestamp cfg srv root st := by
  have hname : srv.get .timestamp = srv'.get .timestamp := by
    apply h
    have : ∀ x ∈ (st.req .timestamp cfg.limits.maxTimestampSize).reqs, x ∈ (loadTimestamp cfg srv root st).2.reqs := by
      unfold loadTimestamp
      simp only
      split
      · exact fun x hx => hx
      · rename_i ts hf
        split
        · exact fun x hx => hx
        · split
          · exact fun x hx => hx
          · intro x hx
            have g := reqs_sub (expiryGate cfg .timestamp ts.expires) (expiryGate_ext .timestamp ts.expires) _ x hx
            generalize expiryGate cfg .timestamp ts.expires (st.req .timestamp cfg.limits.maxTimestampSize) = o at g
            obtain ⟨r2, s2⟩ := o
            cases r2 with
            | error e => exact g
            | ok u => simp only [St.reqs, List.filterMap_cons] at g ⊢; exact g
      · exact fun x hx => hx
    exact this _ (mem_reqs_req _ _ _)
  unfold loadTimestamp
  simp only
  rw [fetchFile_congr hname]

theorem loadSnapshot_congr (root : Root) (ts : Timestamp) (st : St)
    (h : AgreeOn (loadSnapshot cfg srv root ts st).2.reqs srv srv') :
    loadSnapshot cfg srv' root ts st = loadSnapshot cfg srv root ts st := by
  unfold loadSnapshot at h ⊢
  cases hm : ts.snapshotMeta with
  | none => rfl
  | some m =>
    simp only [hm] at h ⊢
    have hname : srv.get (.snapshot (versioned root.consistent m.version)) = srv'.get (.snapshot (versioned root.consistent m.version)) := by
      apply h
      have : ∀ x ∈ (st.req (.snapshot (versioned root.consistent m.version)) (m.length.getD cfg.limits.maxSnapshotSize)).reqs, x ∈
          (match fetchFile srv (.snapshot (versioned root.consistent m.version)) (m.length.getD cfg.limits.maxSnapshotSize) m.hash with
            | .error _ => ((.error (.transport .snapshot) : Except Err Snapshot), st.req (.snapshot (versioned root.consistent m.version)) (m.length.getD cfg.limits.maxSnapshotSize))
            | .ok (.snapshot sn) =>
              if sn.version != m.version then (.error (.versionMismatch .snapshot), st.req (.snapshot (versioned root.consistent m.version)) (m.length.getD cfg.limits.maxSnapshotSize))
              else if !rootVerify root .snapshot sn.msg sn.sigs then (.error (.verify .snapshot), st.req (.snapshot (versioned root.consistent m.version)) (m.length.getD cfg.limits.maxSnapshotSize))
              else
                match storedSnapshotBlocks root (st.req (.snapshot (versioned root.consistent m.version)) (m.length.getD cfg.limits.maxSnapshotSize)).ds.snap sn with
                | some e => (.error e, st.req (.snapshot (versioned root.consistent m.version)) (m.length.getD cfg.limits.maxSnapshotSize))
                | none =>
                  match expiryGate cfg .snapshot sn.expires (st.req (.snapshot (versioned root.consistent m.version)) (m.length.getD cfg.limits.maxSnapshotSize)) with
                  | (.error e, st) => (.error e, st)
                  | (.ok (), st) =>
                    (.ok sn, { st with ds := { st.ds with snap := .doc sn }, log := .dsCreate "snapshot" { st.ds with snap := .doc sn } :: st.log })
            | .ok _ => (.error (.parse .snapshot), st.req (.snapshot (versioned root.consistent m.version)) (m.length.getD cfg.limits.maxSnapshotSize))).2.reqs := by
        split
        · exact fun x hx => hx
        · rename_i sn hf
          split
          · exact fun x hx => hx
          · split
            · exact fun x hx => hx
            · split
              · exact fun x hx => hx
              · intro x hx
                have g := reqs_sub (expiryGate cfg .snapshot sn.expires) (expiryGate_ext .snapshot sn.expires) _ x hx
                generalize expiryGate cfg .snapshot sn.expires (st.req (.snapshot (versioned root.consistent m.version)) (m.length.getD cfg.limits.maxSnapshotSize)) = o at g
                obtain ⟨r2, s2⟩ := o
                cases r2 with
                | error e => exact g
                | ok u => simp only [St.reqs, List.filterMap_cons] at g ⊢; exact g
        · exact fun x hx => hx
      exact this _ (mem_reqs_req _ _ _)
    rw [fetchFile_congr hname]

theorem fetchRoles_congr {snap : Snapshot} {cs : Bool} (d : Deleg) (roles : List DRole) (visited : List Nat) (st : St)
    (h : AgreeOn (fetchRoles cfg srv snap cs d roles visited st).2.reqs srv srv') :
    fetchRoles cfg srv' snap cs d roles visited st = fetchRoles cfg srv snap cs d roles visited st := by
  induction roles generalizing visited st with
  | nil => rfl
  | cons r rest ih =>
    simp only [fetchRoles] at h ⊢
    cases hm : snap.find (.role r.name) with
    | none => rfl
    | some m =>
      simp only [hm] at h ⊢
      by_cases hv : visited.contains r.name = true
      · simp only [hv, ↓reduceIte]
      · simp only [hv, Bool.false_eq_true, ↓reduceIte] at h ⊢
        have hname : srv.get (.role r.name (versioned cs m.version)) = srv'.get (.role r.name (versioned cs m.version)) := by
          apply h
          split
          · exact mem_reqs_req _ _ _
          · rename_i doc hf
            split
            · exact mem_reqs_req _ _ _
            · split
              · exact mem_reqs_req _ _ _
              · have g := reqs_sub (fetchRoles cfg srv snap cs d rest (r.name :: visited)) (fetchRoles_ext d rest (r.name :: visited))
                  { ds := (st.req (.role r.name (versioned cs m.version)) (m.length.getD cfg.limits.maxTargetsSize)).ds,
                    log := .dsCreate "role" (st.req (.role r.name (versioned cs m.version)) (m.length.getD cfg.limits.maxTargetsSize)).ds :: (st.req (.role r.name (versioned cs m.version)) (m.length.getD cfg.limits.maxTargetsSize)).log }
                  (.role r.name (versioned cs m.version))
                  (by simp only [St.reqs, List.filterMap_cons]; exact mem_reqs_req _ _ _)
                generalize fetchRoles cfg srv snap cs d rest (r.name :: visited) _ = o at g
                obtain ⟨r2, s2⟩ := o
                cases r2 with
                | error e => exact g
                | ok p => exact g
          · exact mem_reqs_req _ _ _
        rw [fetchFile_congr hname]
        split
        · rfl
        · rename_i doc hf
          simp only [hf] at h
          split
          · rfl
          · rename_i hv1
            simp only [hv1, Bool.false_eq_true, ↓reduceIte] at h
            split
            · rfl
            · rename_i hv2
              simp only [hv2, Bool.false_eq_true, ↓reduceIte] at h
              have hrec : fetchRoles cfg srv' snap cs d rest (r.name :: visited)
                    { ds := (st.req (.role r.name (versioned cs m.version)) (m.length.getD cfg.limits.maxTargetsSize)).ds,
                      log := .dsCreate "role" (st.req (.role r.name (versioned cs m.version)) (m.length.getD cfg.limits.maxTargetsSize)).ds :: (st.req (.role r.name (versioned cs m.version)) (m.length.getD cfg.limits.maxTargetsSize)).log } =
                  fetchRoles cfg srv snap cs d rest (r.name :: visited)
                    { ds := (st.req (.role r.name (versioned cs m.version)) (m.length.getD cfg.limits.maxTargetsSize)).ds,
                      log := .dsCreate "role" (st.req (.role r.name (versioned cs m.version)) (m.length.getD cfg.limits.maxTargetsSize)).ds :: (st.req (.role r.name (versioned cs m.version)) (m.length.getD cfg.limits.maxTargetsSize)).log } := by
                apply ih
                refine h.mono ?_
                intro f hf'
                generalize fetchRoles cfg srv snap cs d rest (r.name :: visited) _ = o at hf' ⊢
                obtain ⟨r2, s2⟩ := o
                cases r2 with
                | error e => exact hf'
                | ok p => exact hf'
              rw [hrec]
        · rfl

theorem attachRoles_congr (recur recur' : Deleg → List Nat → St → Except Err (Roles × List Nat) × St)
    (hext : ∀ d v s l, recur d v (s.ext l) = ((recur d v s).1, (recur d v s).2.ext l))
    (hrec : ∀ d v s, AgreeOn (recur d v s).2.reqs srv srv' → recur' d v s = recur d v s)
    (loaded : List (DRole × TargetsDoc)) (visited : List Nat) (st : St)
    (h : AgreeOn (attachRoles recur loaded visited st).2.reqs srv srv') :
    attachRoles recur' loaded visited st = attachRoles recur loaded visited st := by
  induction loaded generalizing visited st with
  | nil => rfl
  | cons p rest ih =>
    obtain ⟨r, doc⟩ := p
    simp only [attachRoles] at h ⊢
    cases hd : doc.deleg with
    | none =>
      simp only [hd] at h ⊢
      have : attachRoles recur' rest visited st = attachRoles recur rest visited st := by
        apply ih
        refine h.mono ?_
        intro f hf
        generalize attachRoles recur rest visited st = o at hf ⊢
        obtain ⟨r2, s2⟩ := o
        cases r2 <;> exact hf
      rw [this]
    | some d' =>
      simp only [hd] at h ⊢
      have h1 : recur' d' visited st = recur d' visited st := by
        apply hrec
        refine h.mono ?_
        intro f hf
        generalize recur d' visited st = o1 at hf ⊢
        obtain ⟨r1, s1⟩ := o1
        cases r1 with
        | error e => exact hf
        | ok p1 =>
          simp only
          have g := reqs_sub (attachRoles recur rest p1.2) (attachRoles_ext recur hext rest p1.2) s1 f hf
          generalize attachRoles recur rest p1.2 s1 = o2 at g ⊢
          obtain ⟨r2, s2⟩ := o2
          cases r2 <;> exact g
      rw [h1]
      generalize recur d' visited st = o1 at h ⊢
      obtain ⟨r1, s1⟩ := o1
      cases r1 with
      | error e => rfl
      | ok p1 =>
        simp only at h ⊢
        have : attachRoles recur' rest p1.2 s1 = attachRoles recur rest p1.2 s1 := by
          apply ih
          refine h.mono ?_
          intro f hf
          generalize attachRoles recur rest p1.2 s1 = o2 at hf ⊢
          obtain ⟨r2, s2⟩ := o2
          cases r2 <;> exact hf
        rw [this]

theorem loadDelegs_congr {snap : Snapshot} {cs : Bool} (fuel : Nat) : ∀ (d : Deleg) (visited : List Nat) (st : St),
    AgreeOn (loadDelegs cfg srv snap cs fuel d visited st).2.reqs srv srv' →
    loadDelegs cfg srv' snap cs fuel d visited st = loadDelegs cfg srv snap cs fuel d visited st := by
  induction fuel with
  | zero => intro d v st _; rfl
  | succ n ih =>
    intro d visited st h
    simp only [loadDelegs] at h ⊢
    have h1 : fetchRoles cfg srv' snap cs d d.roles visited st = fetchRoles cfg srv snap cs d d.roles visited st := by
      apply fetchRoles_congr
      refine h.mono ?_
      intro f hf
      generalize fetchRoles cfg srv snap cs d d.roles visited st = o1 at hf ⊢
      obtain ⟨r1, s1⟩ := o1
      cases r1 with
      | error e => exact hf
      | ok p => exact reqs_sub (attachRoles (loadDelegs cfg srv snap cs n) p.1 p.2) (attachRoles_ext _ (loadDelegs_ext n) p.1 p.2) s1 f hf
    rw [h1]
    generalize fetchRoles cfg srv snap cs d d.roles visited st = o1 at h ⊢
    obtain ⟨r1, s1⟩ := o1
    cases r1 with
    | error e => rfl
    | ok p => exact attachRoles_congr _ _ (loadDelegs_ext n) ih p.1 p.2 s1 h

theorem loadTargets_congr (root : Root) (snap : Snapshot) (st : St)
    (h : AgreeOn (loadTargets cfg srv root snap st).2.reqs srv srv') :
    loadTargets cfg srv' root snap st = loadTargets cfg srv root snap st := by
  unfold loadTargets at h ⊢
  cases hm : snap.find .targets with
  | none => rfl
  | some m =>
    simp only [hm] at h ⊢
    have hname : srv.get (.targets (versioned root.consistent m.version)) = srv'.get (.targets (versioned root.consistent m.version)) := by
      apply h
      split
      · exact mem_reqs_req _ _ _
      · rename_i doc hf
        split
        · exact mem_reqs_req _ _ _
        · split
          · exact mem_reqs_req _ _ _
          · split
            · exact mem_reqs_req _ _ _
            · have g := reqs_sub (expiryGate cfg .targets doc.expires) (expiryGate_ext .targets doc.expires) _ _ (mem_reqs_req st (.targets (versioned root.consistent m.version)) (m.length.getD cfg.limits.maxTargetsSize))
              generalize expiryGate cfg .targets doc.expires (st.req (.targets (versioned root.consistent m.version)) (m.length.getD cfg.limits.maxTargetsSize)) = o at g ⊢
              obtain ⟨r2, s2⟩ := o
              cases r2 with
              | error e => exact g
              | ok u =>
                simp only
                have g2 := reqs_sub (loadChildren cfg srv snap root.consistent doc) (loadChildren_ext doc)
                  { ds := { s2.ds with tgt := .doc doc }, log := .dsCreate "targets" { s2.ds with tgt := .doc doc } :: s2.log }
                  (.targets (versioned root.consistent m.version)) (by simp only [St.reqs, List.filterMap_cons] at g ⊢; exact g)
                generalize loadChildren cfg srv snap root.consistent doc _ = o2 at g2 ⊢
                obtain ⟨r3, s3⟩ := o2
                cases r3 with
                | error e => exact g2
                | ok p => simp only; split <;> exact g2
      · exact mem_reqs_req _ _ _
    rw [fetchFile_congr hname]
    split
    · rfl
    · rename_i doc hf
      simp only [hf] at h
      split
      · rfl
      · rename_i hv1
        simp only [hv1, Bool.false_eq_true, ↓reduceIte] at h
        split
        · rfl
        · rename_i hv2
          simp only [hv2, Bool.false_eq_true, ↓reduceIte] at h
          split
          · rfl
          · rename_i hv3
            simp only [hv3, Bool.false_eq_true, ↓reduceIte] at h
            generalize expiryGate cfg .targets doc.expires (st.req (.targets (versioned root.consistent m.version)) (m.length.getD cfg.limits.maxTargetsSize)) = o at h ⊢
            obtain ⟨r2, s2⟩ := o
            cases r2 with
            | error e => rfl
            | ok u =>
              simp only at h ⊢
              have hc : loadChildren cfg srv' snap root.consistent doc
                    { ds := { s2.ds with tgt := .doc doc }, log := .dsCreate "targets" { s2.ds with tgt := .doc doc } :: s2.log } =
                  loadChildren cfg srv snap root.consistent doc
                    { ds := { s2.ds with tgt := .doc doc }, log := .dsCreate "targets" { s2.ds with tgt := .doc doc } :: s2.log } := by
                unfold loadChildren at h ⊢
                cases hd : doc.deleg with
                | none => rfl
                | some d =>
                  simp only [hd] at h ⊢
                  apply loadDelegs_congr
                  refine h.mono ?_
                  intro f hf'
                  generalize loadDelegs cfg srv snap root.consistent (snap.metas.length + 1) d [] _ = o2 at hf' ⊢
                  obtain ⟨r3, s3⟩ := o2
                  cases r3 with
                  | error e => exact hf'
                  | ok p => simp only; split <;> exact hf'
              rw [hc]
    · rfl

/-- **The update cycle depends on the server only through the files it requests.** -/
theorem cycle_congr (shipped : Option Root) (st : St)
    (h : AgreeOn (cycle cfg srv shipped st).2.reqs srv srv') :
    cycle cfg srv' shipped st = cycle cfg srv shipped st := by
  unfold cycle at h ⊢
  have h0 : loadRoot cfg srv' shipped st = loadRoot cfg srv shipped st := by
    apply loadRoot_congr
    refine h.mono ?_
    intro f hf
    generalize loadRoot cfg srv shipped st = o0 at hf ⊢
    obtain ⟨r0, s0⟩ := o0
    cases r0 with
    | error e => exact hf
    | ok root =>
      simp only
      have g1 := reqs_sub (loadTimestamp cfg srv root) (loadTimestamp_ext root) s0 f hf
      generalize loadTimestamp cfg srv root s0 = o1 at g1 ⊢
      obtain ⟨r1, s1⟩ := o1
      cases r1 with
      | error e => exact g1
      | ok ts =>
        simp only
        have g2 := reqs_sub (loadSnapshot cfg srv root ts) (loadSnapshot_ext root ts) s1 f g1
        generalize loadSnapshot cfg srv root ts s1 = o2 at g2 ⊢
        obtain ⟨r2, s2⟩ := o2
        cases r2 with
        | error e => exact g2
        | ok sn =>
          simp only
          have g3 := reqs_sub (loadTargets cfg srv root sn) (loadTargets_ext root sn) s2 f g2
          generalize loadTargets cfg srv root sn s2 = o3 at g3 ⊢
          obtain ⟨r3, s3⟩ := o3
          cases r3 <;> exact g3
  rw [h0]
  generalize loadRoot cfg srv shipped st = o0 at h ⊢
  obtain ⟨r0, s0⟩ := o0
  cases r0 with
  | error e => rfl
  | ok root =>
    simp only at h ⊢
    have h1 : loadTimestamp cfg srv' root s0 = loadTimestamp cfg srv root s0 := by
      apply loadTimestamp_congr
      refine h.mono ?_
      intro f hf
      generalize loadTimestamp cfg srv root s0 = o1 at hf ⊢
      obtain ⟨r1, s1⟩ := o1
      cases r1 with
      | error e => exact hf
      | ok ts =>
        simp only
        have g2 := reqs_sub (loadSnapshot cfg srv root ts) (loadSnapshot_ext root ts) s1 f hf
        generalize loadSnapshot cfg srv root ts s1 = o2 at g2 ⊢
        obtain ⟨r2, s2⟩ := o2
        cases r2 with
        | error e => exact g2
        | ok sn =>
          simp only
          have g3 := reqs_sub (loadTargets cfg srv root sn) (loadTargets_ext root sn) s2 f g2
          generalize loadTargets cfg srv root sn s2 = o3 at g3 ⊢
          obtain ⟨r3, s3⟩ := o3
          cases r3 <;> exact g3
    rw [h1]
    generalize loadTimestamp cfg srv root s0 = o1 at h ⊢
    obtain ⟨r1, s1⟩ := o1
    cases r1 with
    | error e => rfl
    | ok ts =>
      simp only at h ⊢
      have h2 : loadSnapshot cfg srv' root ts s1 = loadSnapshot cfg srv root ts s1 := by
        apply loadSnapshot_congr
        refine h.mono ?_
        intro f hf
        generalize loadSnapshot cfg srv root ts s1 = o2 at hf ⊢
        obtain ⟨r2, s2⟩ := o2
        cases r2 with
        | error e => exact hf
        | ok sn =>
          simp only
          have g3 := reqs_sub (loadTargets cfg srv root sn) (loadTargets_ext root sn) s2 f hf
          generalize loadTargets cfg srv root sn s2 = o3 at g3 ⊢
          obtain ⟨r3, s3⟩ := o3
          cases r3 <;> exact g3
      rw [h2]
      generalize loadSnapshot cfg srv root ts s1 = o2 at h ⊢
      obtain ⟨r2, s2⟩ := o2
      cases r2 with
      | error e => rfl
      | ok sn =>
        simp only at h ⊢
        have h3 : loadTargets cfg srv' root sn s2 = loadTargets cfg srv root sn s2 := by
          apply loadTargets_congr
          refine h.mono ?_
          intro f hf
          generalize loadTargets cfg srv root sn s2 = o3 at hf ⊢
          obtain ⟨r3, s3⟩ := o3
          cases r3 <;> exact hf
        rw [h3]

end Tough.Client
