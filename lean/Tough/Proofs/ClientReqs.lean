import Tough.Proofs.Client
import Tough.Model.Cache
namespace Tough.Client
open Tough.Sig Tough.Cache

/-! ## Which files a successful update cycle asks for

Every request of a cycle that ends with the view `v` is one of: a root version above the shipped one and
at most one above the trusted one, `timestamp.json`, the snapshot file of `v`'s snapshot version, the
targets file of `v`'s targets version, or the file of a delegated role that is part of `v`'s tree, at
the version the snapshot lists.  (C19: these are the files `Repository::cache` copies.) -/

/-- every request made between `st` and `st'` satisfies `P` -/
def ReqsIn (P : FileName → Prop) (st st' : St) : Prop := ∀ f ∈ st'.reqs, f ∈ st.reqs ∨ P f

theorem ReqsIn.refl (P : FileName → Prop) (st : St) : ReqsIn P st st := fun _ h => Or.inl h

theorem ReqsIn.of_eq {P : FileName → Prop} {st st' : St} (h : st'.reqs = st.reqs) : ReqsIn P st st' :=
  fun f hf => Or.inl (h ▸ hf)

theorem ReqsIn.trans {P : FileName → Prop} {a b c : St} (h1 : ReqsIn P a b) (h2 : ReqsIn P b c) : ReqsIn P a c :=
  fun f hf => match h2 f hf with
    | .inl h => h1 f h
    | .inr h => .inr h

theorem ReqsIn.mono {P Q : FileName → Prop} {st st' : St} (h : ReqsIn P st st') (hpq : ∀ f, P f → Q f) : ReqsIn Q st st' :=
  fun f hf => (h f hf).imp id (hpq f)

theorem ReqsIn.req {P : FileName → Prop} (st : St) (f : FileName) (n : Nat) (h : P f) : ReqsIn P st (st.req f n) := by
  intro x hx
  rw [reqs_req] at hx
  rcases List.mem_cons.mp hx with rfl | hx
  · exact Or.inr h
  · exact Or.inl hx

theorem reqs_push (ds : Datastore) (st : St) (e : Ev) (he : ∀ f, e ≠ .req f) :
    ({ ds := ds, log := e :: st.log } : St).reqs = st.reqs := by
  cases e with
  | req f => exact absurd rfl (he f)
  | limit n => simp [St.reqs, List.filterMap_cons]
  | dsCreate w a => simp [St.reqs, List.filterMap_cons]
  | dsRemove w a => simp [St.reqs, List.filterMap_cons]

variable {cfg : Config} {srv : Server}

/-- the root walk asks for versions above the one it starts from, up to one above the one it ends with -/
theorem rootLoop_reqsIn {v0 : Nat} (fuel : Nat) : ∀ {r R : Root} {st st' : St},
    rootLoop cfg srv v0 fuel r st = (.ok R, st') →
    r.version ≤ R.version ∧
    ReqsIn (fun f => ∃ k, f = .rootV k ∧ r.version < k ∧ k ≤ R.version + 1) st st' := by
  induction fuel with
  | zero => intro r R st st' h; simp [rootLoop] at h
  | succ n ih =>
    intro r R st st' h
    simp only [rootLoop] at h
    split at h
    · simp at h
    · split at h
      · simp only [Prod.mk.injEq, Except.ok.injEq] at h
        obtain ⟨rfl, rfl⟩ := h
        exact ⟨Nat.le_refl _, ReqsIn.req _ _ _ ⟨r.version + 1, rfl, by omega, by omega⟩⟩
      · simp at h
      · rename_i new hn
        have hh := (rootStep_next hn).higher
        obtain ⟨hle, hr⟩ := ih h
        refine ⟨by omega, ?_⟩
        refine ReqsIn.trans (ReqsIn.req _ _ _ ⟨r.version + 1, rfl, by omega, by omega⟩) (hr.mono ?_)
        rintro f ⟨k, rfl, h1, h2⟩
        exact ⟨k, rfl, by omega, h2⟩

theorem loadRoot_reqsIn {shipped : Option Root} {st st' : St} {root : Root}
    (h : loadRoot cfg srv shipped st = (.ok root, st')) :
    ReqsIn (fun f => ∃ k, f = .rootV k ∧ 1 ≤ k ∧ (∀ r0, shipped = some r0 → r0.version < k) ∧ k ≤ root.version + 1) st st' := by
  unfold loadRoot at h
  split at h
  · simp at h
  · rename_i r0
    split at h
    · simp at h
    · simp only at h
      split at h
      · simp at h
      · rename_i r1 st1 hl
        obtain ⟨_, hr⟩ := rootLoop_reqsIn _ hl
        have hr' : ReqsIn (fun f => ∃ k, f = .rootV k ∧ 1 ≤ k ∧ (∀ r, some r0 = some r → r.version < k) ∧ k ≤ r1.version + 1) st st1 :=
          hr.mono (by
            rintro f ⟨k, rfl, h1, h2⟩
            exact ⟨k, rfl, by omega, fun r hr => by cases hr; exact h1, h2⟩)
        split at h
        · simp at h
        · rename_i st2 hg
          obtain ⟨_, _, g3⟩ := expiryGate_ok hg
          split at h
          · simp only [Prod.mk.injEq, Except.ok.injEq] at h
            obtain ⟨rfl, rfl⟩ := h
            refine hr'.trans (ReqsIn.of_eq ?_)
            simp only [recordRoot, clearOnline]
            rw [← g3]
            simp [St.reqs, List.filterMap_cons]
          · simp only [Prod.mk.injEq, Except.ok.injEq] at h
            obtain ⟨rfl, rfl⟩ := h
            refine hr'.trans (ReqsIn.of_eq ?_)
            simp only [recordRoot]
            rw [← g3]
            simp [St.reqs, List.filterMap_cons]

/-- the file of a delegated role among `names`, at the version the snapshot lists -/
def RoleReq (snap : Snapshot) (cs : Bool) (names : List Nat) (f : FileName) : Prop :=
  ∃ r ∈ names, ∃ m, snap.find (.role r) = some m ∧ f = .role r (versioned cs m.version)

theorem RoleReq.mono {snap : Snapshot} {cs : Bool} {a b : List Nat} (hs : ∀ r ∈ a, r ∈ b) {f : FileName}
    (h : RoleReq snap cs a f) : RoleReq snap cs b f := by
  obtain ⟨r, hr, m, hm, hf⟩ := h
  exact ⟨r, hs r hr, m, hm, hf⟩

variable {snap : Snapshot} {cs : Bool}

theorem fetchRoles_reqsIn {d : Deleg} {roles : List DRole} {visited visited' : List Nat} {st st' : St}
    {loaded : List (DRole × TargetsDoc)}
    (h : fetchRoles cfg srv snap cs d roles visited st = (.ok (loaded, visited'), st')) :
    ReqsIn (RoleReq snap cs (loaded.map (·.1.name))) st st' := by
  induction roles generalizing visited st loaded with
  | nil =>
    simp only [fetchRoles, Prod.mk.injEq, Except.ok.injEq] at h
    obtain ⟨_, rfl⟩ := h
    exact ReqsIn.refl _ _
  | cons r rest ih =>
    simp only [fetchRoles] at h
    split at h
    · simp at h
    · rename_i m hm
      split at h
      · simp at h
      · split at h
        · simp at h
        · rename_i doc hf
          split at h
          · simp at h
          · split at h
            · simp at h
            · split at h
              · simp at h
              · rename_i more vis2 st2 hrec
                simp only [Prod.mk.injEq, Except.ok.injEq] at h
                obtain ⟨⟨rfl, rfl⟩, rfl⟩ := h
                have h1 : ReqsIn (RoleReq snap cs (((r, doc) :: more).map (·.1.name))) st
                    (st.req (.role r.name (versioned cs m.version)) (m.length.getD cfg.limits.maxTargetsSize)) :=
                  ReqsIn.req _ _ _ ⟨r.name, by simp, m, hm, rfl⟩
                have h2 := (ih hrec).mono (Q := RoleReq snap cs (((r, doc) :: more).map (·.1.name)))
                  (fun f hf => RoleReq.mono (fun x hx => by simp only [List.map_cons, List.mem_cons]; exact Or.inr hx) hf)
                refine h1.trans (ReqsIn.trans (ReqsIn.of_eq ?_) h2)
                exact reqs_push _ _ _ (by intro f hc; cases hc)
        · simp at h

theorem attachRoles_reqsIn
    {recur : Deleg → List Nat → St → Except Err (Roles × List Nat) × St}
    (hrec : ∀ d' v s rs v' s', recur d' v s = (.ok (rs, v'), s') → ReqsIn (RoleReq snap cs (rolesRoleNames rs)) s s')
    {loaded : List (DRole × TargetsDoc)} {visited visited' : List Nat} {st st' : St} {rs : Roles}
    (h : attachRoles recur loaded visited st = (.ok (rs, visited'), st')) :
    ReqsIn (RoleReq snap cs (rolesRoleNames rs)) st st' ∧ ∀ p ∈ loaded, p.1.name ∈ rolesRoleNames rs := by
  induction loaded generalizing visited st rs with
  | nil =>
    simp only [attachRoles, Prod.mk.injEq, Except.ok.injEq] at h
    obtain ⟨_, rfl⟩ := h
    exact ⟨ReqsIn.refl _ _, fun p hp => by cases hp⟩
  | cons p rest ih =>
    obtain ⟨r, doc⟩ := p
    simp only [attachRoles] at h
    split at h
    · simp at h
    · rename_i children vis1 st1 hsub
      split at h
      · simp at h
      · rename_i more vis2 st2 hmore
        simp only [Prod.mk.injEq, Except.ok.injEq] at h
        obtain ⟨⟨rfl, rfl⟩, rfl⟩ := h
        obtain ⟨im, il⟩ := ih hmore
        have hnames : rolesRoleNames (.cons r (.mk doc children) more) =
            r.name :: (rolesRoleNames children ++ rolesRoleNames more) := by
          simp [rolesRoleNames, tgtRoleNames]
        have hc : ReqsIn (RoleReq snap cs (rolesRoleNames children)) st st1 := by
          cases hd : doc.deleg with
          | none =>
            simp only [hd, Prod.mk.injEq, Except.ok.injEq] at hsub
            obtain ⟨_, rfl⟩ := hsub
            exact ReqsIn.refl _ _
          | some d' =>
            simp only [hd] at hsub
            exact hrec _ _ _ _ _ _ hsub
        refine ⟨?_, ?_⟩
        · rw [hnames]
          refine ReqsIn.trans (hc.mono fun f hf => RoleReq.mono ?_ hf) (im.mono fun f hf => RoleReq.mono ?_ hf)
          · intro x hx; simp only [List.mem_cons, List.mem_append]; exact Or.inr (Or.inl hx)
          · intro x hx; simp only [List.mem_cons, List.mem_append]; exact Or.inr (Or.inr hx)
        · intro p hp
          rw [hnames]
          rcases List.mem_cons.mp hp with rfl | hp
          · exact List.mem_cons_self
          · simp only [List.mem_cons, List.mem_append]; exact Or.inr (Or.inr (il p hp))

theorem loadDelegs_reqsIn (fuel : Nat) : ∀ {d : Deleg} {visited visited' : List Nat} {st st' : St} {rs : Roles},
    loadDelegs cfg srv snap cs fuel d visited st = (.ok (rs, visited'), st') →
    ReqsIn (RoleReq snap cs (rolesRoleNames rs)) st st' := by
  induction fuel with
  | zero => intro d v v' st st' rs h; simp [loadDelegs] at h
  | succ n ih =>
    intro d v v' st st' rs h
    simp only [loadDelegs] at h
    split at h
    · simp at h
    · rename_i loaded vis1 st1 hf
      obtain ⟨ha, hl⟩ := attachRoles_reqsIn (snap := snap) (cs := cs) (fun d' v s rs v' s' hh => ih hh) h
      refine ReqsIn.trans ((fetchRoles_reqsIn hf).mono fun f hq => RoleReq.mono ?_ hq) ha
      intro x hx
      obtain ⟨p, hp, rfl⟩ := List.mem_map.mp hx
      exact hl p hp

theorem loadTargets_reqsIn {root : Root} {st st' : St} {t : Tgt}
    (h : loadTargets cfg srv root snap st = (.ok t, st')) :
    ReqsIn (fun f => f = .targets (versioned root.consistent (Tgt.doc t).version) ∨
      RoleReq snap root.consistent (tgtRoleNames t) f) st st' := by
  unfold loadTargets at h
  split at h
  · simp at h
  · rename_i m hm
    simp only at h
    split at h
    · simp at h
    · rename_i doc hf
      split at h
      · simp at h
      · rename_i hver
        split at h
        · simp at h
        · split at h
          · simp at h
          · split at h
            · simp at h
            · rename_i st1 hg
              obtain ⟨_, _, g3⟩ := expiryGate_ok hg
              split at h
              · simp at h
              · rename_i children vis st2 hsub
                split at h
                · simp only [Prod.mk.injEq, Except.ok.injEq] at h
                  obtain ⟨rfl, rfl⟩ := h
                  have hv : doc.version = m.version := by simpa using hver
                  have h1 : ReqsIn (fun f => f = .targets (versioned root.consistent (Tgt.doc (.mk doc children)).version) ∨
                      RoleReq snap root.consistent (tgtRoleNames (.mk doc children)) f) st
                      (st.req (.targets (versioned root.consistent m.version)) (m.length.getD cfg.limits.maxTargetsSize)) :=
                    ReqsIn.req _ _ _ (Or.inl (by simp [Tgt.doc, hv]))
                  have h2 : ReqsIn (RoleReq snap root.consistent (rolesRoleNames children))
                      { ds := { st1.ds with tgt := .doc doc }, log := .dsCreate "targets" { st1.ds with tgt := .doc doc } :: st1.log } st2 := by
                    unfold loadChildren at hsub
                    cases hd : doc.deleg with
                    | none =>
                      simp only [hd, Prod.mk.injEq, Except.ok.injEq] at hsub
                      obtain ⟨_, rfl⟩ := hsub
                      exact ReqsIn.refl _ _
                    | some d =>
                      simp only [hd] at hsub
                      exact loadDelegs_reqsIn _ hsub
                  refine h1.trans (ReqsIn.trans (ReqsIn.of_eq ?_) (h2.mono fun f hq => Or.inr (by simpa [tgtRoleNames] using hq)))
                  rw [reqs_push _ _ _ (by intro f hc; cases hc)]
                  exact g3
                · simp at h
    · simp at h

/-- **the requests of a successful cycle** -/
theorem cycle_reqsIn {shipped : Option Root} {st st' : St} {v : View}
    (h : cycle cfg srv shipped st = (.ok v, st')) :
    ReqsIn (fun f =>
      (∃ k, f = .rootV k ∧ 1 ≤ k ∧ (∀ r0, shipped = some r0 → r0.version < k) ∧ k ≤ v.root.version + 1) ∨ f = .timestamp ∨
      f = .snapshot (versioned v.root.consistent v.snap.version) ∨
      f = .targets (versioned v.root.consistent (Tgt.doc v.tgt).version) ∨
      RoleReq v.snap v.root.consistent (tgtRoleNames v.tgt) f) st st' := by
  unfold cycle at h
  split at h
  · simp at h
  · rename_i root st1 h1
    split at h
    · simp at h
    · rename_i ts st2 h2
      split at h
      · simp at h
      · rename_i sn st3 h3
        split at h
        · simp at h
        · rename_i t st4 h4
          simp only [Prod.mk.injEq, Except.ok.injEq] at h
          obtain ⟨rfl, rfl⟩ := h
          simp only
          have r1 := loadRoot_reqsIn h1
          have r2 := (loadTimestamp_ok h2).reqs
          obtain ⟨m, _, _, hsv, r3⟩ := (loadSnapshot_ok h3).pinned
          have r4 := loadTargets_reqsIn h4
          refine ReqsIn.trans (b := st1) (r1.mono fun f hf => Or.inl hf)
            (ReqsIn.trans (b := st2) ?_ (ReqsIn.trans (b := st3) ?_ (r4.mono ?_)))
          · intro f hf
            rw [r2] at hf
            rcases List.mem_cons.mp hf with rfl | hf
            · exact Or.inr (Or.inr (Or.inl rfl))
            · exact Or.inl hf
          · intro f hf
            rw [r3] at hf
            rcases List.mem_cons.mp hf with rfl | hf
            · exact Or.inr (Or.inr (Or.inr (Or.inl (by rw [hsv]))))
            · exact Or.inl hf
          · rintro f (hf | hf)
            · exact Or.inr (Or.inr (Or.inr (Or.inl hf)))
            · exact Or.inr (Or.inr (Or.inr (Or.inr hf)))

end Tough.Client
