import Tough.Proofs.ClientTime
namespace Tough.Client
open Tough.Sig

/-! ## Running a cycle again from a datastore that an interrupted run of it left behind

Each step of a cycle reads the datastore in two ways only: the clock sample (the step fails if the
clock is behind it) and the stored document of its own role (the step fails if that document still
verifies and is newer).  The lemmas below say: if a step succeeded from one state, it succeeds with the
same result from any state whose clock sample is not ahead of the clock and whose stored document does
not block the result. -/

variable {cfg : Config} {srv : Server}

/-- the clock check of `system_time` passes -/
def TimeOk (cfg : Config) (d : Datastore) : Prop := cfg.safe = true → ∀ t, d.time = some t → ¬ (cfg.now < t)

/-- the datastore after the expiry gate of a step that passed it -/
def gated (cfg : Config) (d : Datastore) : Datastore := if cfg.safe then { d with time := some cfg.now } else d

theorem gated_trust (d : Datastore) : (gated cfg d).trust = d.trust := by unfold gated; split <;> rfl
theorem gated_timeOk (d : Datastore) (h : TimeOk cfg d) : TimeOk cfg (gated cfg d) := by
  unfold gated; split
  · intro _ t ht; simp only [Option.some.injEq] at ht; subst ht; exact Int.lt_irrefl _
  · exact h

theorem systemTime_of_timeOk (st : St) (h : ∀ t, st.ds.time = some t → ¬ (cfg.now < t)) :
    ∃ l, systemTime cfg st = (.ok cfg.now, ⟨{ st.ds with time := some cfg.now }, l⟩) := by
  unfold systemTime
  cases ht : st.ds.time with
  | none => exact ⟨_, rfl⟩
  | some t => simp only [h t ht, ↓reduceIte]; exact ⟨_, rfl⟩

/-- the gate passes from `b` whenever it passed from `a` and `b`'s clock sample is fine -/
theorem expiryGate_rerun (r : RoleType) (e : Int) (a a' b : St)
    (ha : expiryGate cfg r e a = (.ok (), a')) (hb : TimeOk cfg b.ds) :
    ∃ l, expiryGate cfg r e b = (.ok (), ⟨gated cfg b.ds, l⟩) := by
  unfold expiryGate at ha ⊢
  unfold gated
  by_cases hs : cfg.safe = true
  · simp only [hs, ↓reduceIte] at ha ⊢
    unfold checkExpired at ha ⊢
    obtain ⟨l, hl⟩ := systemTime_of_timeOk b (hb hs)
    rw [hl]
    simp only
    -- the expiry comparison is the same in both runs
    cases hsa : systemTime cfg a with
    | mk ra sa =>
      rw [hsa] at ha
      cases ra with
      | error x => simp at ha
      | ok t =>
        have ht : t = cfg.now := by
          unfold systemTime at hsa
          split at hsa
          · split at hsa
            · simp at hsa
            · simp only [Prod.mk.injEq, Except.ok.injEq] at hsa; exact hsa.1.symm
          · simp only [Prod.mk.injEq, Except.ok.injEq] at hsa; exact hsa.1.symm
        subst ht
        simp only at ha
        split at ha
        · rename_i hle; simp only [hle, ↓reduceIte]; exact ⟨l, rfl⟩
        · simp at ha
  · simp only [hs, Bool.false_eq_true, ↓reduceIte] at ha ⊢
    exact ⟨b.log, rfl⟩

/-- what a successful `load_timestamp` established about the stored timestamp it met -/
theorem loadTimestamp_unblocked {root : Root} {a a' : St} {ts : Timestamp}
    (h : loadTimestamp cfg srv root a = (.ok ts, a')) :
    storedBlocks (fun old => rootVerify root .timestamp old.msg old.sigs) (·.version) a.ds.ts ts.version = false := by
  unfold loadTimestamp at h
  simp only at h
  split at h
  · simp at h
  · rename_i ts0 hf
    split at h
    · simp at h
    · split at h
      · simp at h
      · rename_i hb
        split at h
        · simp at h
        · simp only [Prod.mk.injEq, Except.ok.injEq] at h
          obtain ⟨rfl, _⟩ := h
          simpa [St.req] using hb
  · simp at h

theorem loadTimestamp_rerun {root : Root} {a a' : St} {ts : Timestamp} (b : St)
    (h : loadTimestamp cfg srv root a = (.ok ts, a')) (hb : TimeOk cfg b.ds)
    (hnb : storedBlocks (fun old => rootVerify root .timestamp old.msg old.sigs) (·.version) b.ds.ts ts.version = false) :
    ∃ l, loadTimestamp cfg srv root b = (.ok ts, ⟨{ gated cfg b.ds with ts := .doc ts }, l⟩) := by
  unfold loadTimestamp at h ⊢
  simp only at h ⊢
  split at h
  · simp at h
  · rename_i ts0 hf
    split at h
    · simp at h
    · rename_i hv
      split at h
      · simp at h
      · split at h
        · simp at h
        · rename_i a1 hg
          simp only [Prod.mk.injEq, Except.ok.injEq] at h
          obtain ⟨rfl, _⟩ := h
          simp only [hv, Bool.false_eq_true, ↓reduceIte]
          have hd : (b.req .timestamp cfg.limits.maxTimestampSize).ds = b.ds := rfl
          simp only [hd, hnb, Bool.false_eq_true, ↓reduceIte]
          obtain ⟨l, hl⟩ := expiryGate_rerun .timestamp ts0.expires _ _ (b.req .timestamp cfg.limits.maxTimestampSize) hg hb
          rw [hl]
          exact ⟨_, rfl⟩
  · simp at h

theorem loadSnapshot_unblocked {root : Root} {ts : Timestamp} {a a' : St} {sn : Snapshot}
    (h : loadSnapshot cfg srv root ts a = (.ok sn, a')) : storedSnapshotBlocks root a.ds.snap sn = none := by
  unfold loadSnapshot at h
  split at h
  · simp at h
  · rename_i m hm
    simp only at h
    split at h
    · simp at h
    · rename_i sn0 hf
      split at h
      · simp at h
      · split at h
        · simp at h
        · split at h
          · simp at h
          · rename_i hb
            split at h
            · simp at h
            · simp only [Prod.mk.injEq, Except.ok.injEq] at h
              obtain ⟨rfl, _⟩ := h
              simpa [St.req] using hb
    · simp at h

theorem loadSnapshot_rerun {root : Root} {ts : Timestamp} {a a' : St} {sn : Snapshot} (b : St)
    (h : loadSnapshot cfg srv root ts a = (.ok sn, a')) (hb : TimeOk cfg b.ds)
    (hnb : storedSnapshotBlocks root b.ds.snap sn = none) :
    ∃ l, loadSnapshot cfg srv root ts b = (.ok sn, ⟨{ gated cfg b.ds with snap := .doc sn }, l⟩) := by
  unfold loadSnapshot at h ⊢
  split at h
  · simp at h
  · rename_i m hm
    simp only [hm] at h ⊢
    split at h
    · simp at h
    · rename_i sn0 hf
      split at h
      · simp at h
      · rename_i hv1
        split at h
        · simp at h
        · rename_i hv2
          split at h
          · simp at h
          · split at h
            · simp at h
            · rename_i a1 hg
              simp only [Prod.mk.injEq, Except.ok.injEq] at h
              obtain ⟨rfl, _⟩ := h
              simp only [hv1, hv2, Bool.false_eq_true, ↓reduceIte]
              have hd : (b.req (.snapshot (versioned root.consistent m.version)) (m.length.getD cfg.limits.maxSnapshotSize)).ds = b.ds := rfl
              simp only [hd, hnb]
              obtain ⟨l, hl⟩ := expiryGate_rerun .snapshot sn0.expires _ _
                (b.req (.snapshot (versioned root.consistent m.version)) (m.length.getD cfg.limits.maxSnapshotSize)) hg hb
              rw [hl]
              exact ⟨_, rfl⟩
    · simp at h

/-! loading delegated roles neither reads nor changes the datastore -/

theorem fetchRoles_indep {snap : Snapshot} {cs : Bool} (d : Deleg) (roles : List DRole) (visited : List Nat) (s t : St) :
    (fetchRoles cfg srv snap cs d roles visited s).1 = (fetchRoles cfg srv snap cs d roles visited t).1 ∧
    (fetchRoles cfg srv snap cs d roles visited s).2.ds = s.ds := by
  induction roles generalizing visited s t with
  | nil => exact ⟨rfl, rfl⟩
  | cons r rest ih =>
    simp only [fetchRoles]
    split
    · exact ⟨rfl, rfl⟩
    · rename_i m hm
      split
      · exact ⟨rfl, rfl⟩
      · split
        · exact ⟨rfl, rfl⟩
        · split
          · exact ⟨rfl, rfl⟩
          · split
            · exact ⟨rfl, rfl⟩
            · have := ih (r.name :: visited)
                { ds := (s.req (.role r.name (versioned cs m.version)) (m.length.getD cfg.limits.maxTargetsSize)).ds,
                  log := .dsCreate "role" (s.req (.role r.name (versioned cs m.version)) (m.length.getD cfg.limits.maxTargetsSize)).ds :: (s.req (.role r.name (versioned cs m.version)) (m.length.getD cfg.limits.maxTargetsSize)).log }
                { ds := (t.req (.role r.name (versioned cs m.version)) (m.length.getD cfg.limits.maxTargetsSize)).ds,
                  log := .dsCreate "role" (t.req (.role r.name (versioned cs m.version)) (m.length.getD cfg.limits.maxTargetsSize)).ds :: (t.req (.role r.name (versioned cs m.version)) (m.length.getD cfg.limits.maxTargetsSize)).log }
              generalize fetchRoles cfg srv snap cs d rest (r.name :: visited)
                { ds := (s.req (.role r.name (versioned cs m.version)) (m.length.getD cfg.limits.maxTargetsSize)).ds,
                  log := .dsCreate "role" (s.req (.role r.name (versioned cs m.version)) (m.length.getD cfg.limits.maxTargetsSize)).ds :: (s.req (.role r.name (versioned cs m.version)) (m.length.getD cfg.limits.maxTargetsSize)).log } = o1 at this ⊢
              generalize fetchRoles cfg srv snap cs d rest (r.name :: visited)
                { ds := (t.req (.role r.name (versioned cs m.version)) (m.length.getD cfg.limits.maxTargetsSize)).ds,
                  log := .dsCreate "role" (t.req (.role r.name (versioned cs m.version)) (m.length.getD cfg.limits.maxTargetsSize)).ds :: (t.req (.role r.name (versioned cs m.version)) (m.length.getD cfg.limits.maxTargetsSize)).log } = o2 at this ⊢
              obtain ⟨r1, s1⟩ := o1
              obtain ⟨r2, s2⟩ := o2
              simp only at this
              obtain ⟨e1, e2⟩ := this
              subst e1
              cases r1 with
              | error x => exact ⟨rfl, e2⟩
              | ok p => exact ⟨rfl, e2⟩
        · exact ⟨rfl, rfl⟩

theorem attachRoles_indep (recur : Deleg → List Nat → St → Except Err (Roles × List Nat) × St)
    (hrec : ∀ d v s t, (recur d v s).1 = (recur d v t).1 ∧ (recur d v s).2.ds = s.ds)
    (loaded : List (DRole × TargetsDoc)) (visited : List Nat) (s t : St) :
    (attachRoles recur loaded visited s).1 = (attachRoles recur loaded visited t).1 ∧
    (attachRoles recur loaded visited s).2.ds = s.ds := by
  induction loaded generalizing visited s t with
  | nil => exact ⟨rfl, rfl⟩
  | cons p rest ih =>
    obtain ⟨r, doc⟩ := p
    simp only [attachRoles]
    cases hd : doc.deleg with
    | none =>
      simp only
      have := ih visited s t
      generalize attachRoles recur rest visited s = o1 at this ⊢
      generalize attachRoles recur rest visited t = o2 at this ⊢
      obtain ⟨r1, s1⟩ := o1
      obtain ⟨r2, s2⟩ := o2
      simp only at this
      obtain ⟨e1, e2⟩ := this
      subst e1
      cases r1 <;> exact ⟨rfl, e2⟩
    | some d' =>
      simp only
      have h1 := hrec d' visited s t
      generalize recur d' visited s = o1 at h1 ⊢
      generalize recur d' visited t = o2 at h1 ⊢
      obtain ⟨r1, s1⟩ := o1
      obtain ⟨r2, s2⟩ := o2
      simp only at h1
      obtain ⟨e1, e2⟩ := h1
      subst e1
      cases r1 with
      | error x => exact ⟨rfl, e2⟩
      | ok p1 =>
        simp only
        have := ih p1.2 s1 s2
        generalize attachRoles recur rest p1.2 s1 = o3 at this ⊢
        generalize attachRoles recur rest p1.2 s2 = o4 at this ⊢
        obtain ⟨r3, s3⟩ := o3
        obtain ⟨r4, s4⟩ := o4
        simp only at this
        obtain ⟨e3, e4⟩ := this
        subst e3
        cases r3 <;> exact ⟨rfl, e4.trans e2⟩

theorem loadDelegs_indep {snap : Snapshot} {cs : Bool} (fuel : Nat) : ∀ (d : Deleg) (visited : List Nat) (s t : St),
    (loadDelegs cfg srv snap cs fuel d visited s).1 = (loadDelegs cfg srv snap cs fuel d visited t).1 ∧
    (loadDelegs cfg srv snap cs fuel d visited s).2.ds = s.ds := by
  induction fuel with
  | zero => intro d v s t; exact ⟨rfl, rfl⟩
  | succ n ih =>
    intro d visited s t
    simp only [loadDelegs]
    have h1 := fetchRoles_indep (cfg := cfg) (srv := srv) (snap := snap) (cs := cs) d d.roles visited s t
    generalize fetchRoles cfg srv snap cs d d.roles visited s = o1 at h1 ⊢
    generalize fetchRoles cfg srv snap cs d d.roles visited t = o2 at h1 ⊢
    obtain ⟨r1, s1⟩ := o1
    obtain ⟨r2, s2⟩ := o2
    simp only at h1
    obtain ⟨e1, e2⟩ := h1
    subst e1
    cases r1 with
    | error x => exact ⟨rfl, e2⟩
    | ok p =>
      have := attachRoles_indep (loadDelegs cfg srv snap cs n) ih p.1 p.2 s1 s2
      exact ⟨this.1, this.2.trans e2⟩

theorem loadChildren_indep {snap : Snapshot} {cs : Bool} (doc : TargetsDoc) (s t : St) :
    (loadChildren cfg srv snap cs doc s).1 = (loadChildren cfg srv snap cs doc t).1 ∧
    (loadChildren cfg srv snap cs doc s).2.ds = s.ds := by
  unfold loadChildren
  cases doc.deleg with
  | none => exact ⟨rfl, rfl⟩
  | some d => exact loadDelegs_indep _ d [] s t

theorem loadTargets_unblocked {root : Root} {snap : Snapshot} {a a' : St} {t : Tgt}
    (h : loadTargets cfg srv root snap a = (.ok t, a')) :
    storedBlocks (fun old => rootVerify root .targets old.msg old.sigs) (·.version) a.ds.tgt (Tgt.doc t).version = false := by
  unfold loadTargets at h
  split at h
  · simp at h
  · rename_i m hm
    simp only at h
    split at h
    · simp at h
    · rename_i doc hf
      split at h
      · simp at h
      · split at h
        · simp at h
        · split at h
          · simp at h
          · rename_i hb
            split at h
            · simp at h
            · split at h
              · simp at h
              · split at h
                · simp only [Prod.mk.injEq, Except.ok.injEq] at h
                  obtain ⟨rfl, _⟩ := h
                  simpa [St.req, Tgt.doc] using hb
                · simp at h
    · simp at h

theorem loadTargets_rerun {root : Root} {snap : Snapshot} {a a' : St} {t : Tgt} (b : St)
    (h : loadTargets cfg srv root snap a = (.ok t, a')) (hb : TimeOk cfg b.ds)
    (hnb : storedBlocks (fun old => rootVerify root .targets old.msg old.sigs) (·.version) b.ds.tgt (Tgt.doc t).version = false) :
    ∃ b', loadTargets cfg srv root snap b = (.ok t, b') ∧ b'.ds = { gated cfg b.ds with tgt := .doc (Tgt.doc t) } := by
  unfold loadTargets at h ⊢
  split at h
  · simp at h
  · rename_i m hm
    simp only at h ⊢
    split at h
    · simp at h
    · rename_i doc hf
      split at h
      · simp at h
      · rename_i hv1
        split at h
        · simp at h
        · rename_i hv2
          split at h
          · simp at h
          · split at h
            · simp at h
            · rename_i a1 hg
              simp only [hv1, hv2, Bool.false_eq_true, ↓reduceIte]
              have hd : (b.req (.targets (versioned root.consistent m.version)) (m.length.getD cfg.limits.maxTargetsSize)).ds = b.ds := rfl
              obtain ⟨l, hl⟩ := expiryGate_rerun .targets doc.expires _ _
                (b.req (.targets (versioned root.consistent m.version)) (m.length.getD cfg.limits.maxTargetsSize)) hg hb
              -- the document of the result is the fetched one
              have hch := loadChildren_indep (cfg := cfg) (srv := srv) (snap := snap) (cs := root.consistent) doc
                { ds := { a1.ds with tgt := .doc doc }, log := .dsCreate "targets" { a1.ds with tgt := .doc doc } :: a1.log }
                { ds := { gated cfg b.ds with tgt := .doc doc }, log := .dsCreate "targets" { gated cfg b.ds with tgt := .doc doc } :: l }
              have hch2 := (loadChildren_indep (cfg := cfg) (srv := srv) (snap := snap) (cs := root.consistent) doc
                { ds := { gated cfg b.ds with tgt := .doc doc }, log := .dsCreate "targets" { gated cfg b.ds with tgt := .doc doc } :: l }
                { ds := { gated cfg b.ds with tgt := .doc doc }, log := .dsCreate "targets" { gated cfg b.ds with tgt := .doc doc } :: l }).2
              split at h
              · simp at h
              · rename_i ch vis a2 hca
                rw [hca] at hch
                split at h
                · rename_i hval
                  simp only [Prod.mk.injEq, Except.ok.injEq] at h
                  obtain ⟨rfl, _⟩ := h
                  simp only [Tgt.doc] at hnb
                  simp only [hd, hnb, Bool.false_eq_true, ↓reduceIte, hl]
                  generalize loadChildren cfg srv snap root.consistent doc
                    { ds := { gated cfg b.ds with tgt := .doc doc }, log := .dsCreate "targets" { gated cfg b.ds with tgt := .doc doc } :: l } = ob at hch hch2 ⊢
                  obtain ⟨rb, sb⟩ := ob
                  simp only at hch hch2
                  obtain ⟨e1, _⟩ := hch
                  subst e1
                  simp only [hval, ↓reduceIte]
                  exact ⟨sb, rfl, by simp only [Tgt.doc]; exact hch2⟩
                · simp at h
    · simp at h

theorem rootLoop_result_indep (v0 fuel : Nat) (r : Root) (a b : St) :
    (rootLoop cfg srv v0 fuel r a).1 = (rootLoop cfg srv v0 fuel r b).1 := by
  induction fuel generalizing r a b with
  | zero => rfl
  | succ n ih =>
    simp only [rootLoop]
    split
    · rfl
    · split
      · rfl
      · rfl
      · rename_i new _
        exact ih new _ _

/-- the datastore `load_root` leaves when it succeeds with `root`, starting from `d` -/
def afterRoot (cfg : Config) (r0 root : Root) (d : Datastore) : Datastore :=
  if onlineKeysChanged (refRoot d r0) root then { gated cfg d with ts := .absent, snap := .absent, root := .doc root }
  else { gated cfg d with root := .doc root }

theorem loadRoot_rerun {shipped : Option Root} {a a' : St} {root : Root} (b : St)
    (h : loadRoot cfg srv shipped a = (.ok root, a')) (hb : TimeOk cfg b.ds) :
    ∃ r0 l, shipped = some r0 ∧ loadRoot cfg srv shipped b = (.ok root, ⟨afterRoot cfg r0 root b.ds, l⟩) := by
  unfold loadRoot at h ⊢
  cases shipped with
  | none => simp at h
  | some r0 =>
    refine ⟨r0, ?_⟩
    simp only at h ⊢
    by_cases hv : (!rootVerify r0 .root r0.msg r0.sigs) = true
    · simp [hv] at h
    · simp only [hv, Bool.false_eq_true, ↓reduceIte] at h ⊢
      have hres := rootLoop_result_indep (cfg := cfg) (srv := srv) r0.version (cfg.limits.maxRootUpdates + 1) r0 a b
      have hdb := rootLoop_ds (cfg := cfg) (srv := srv) r0.version (cfg.limits.maxRootUpdates + 1) r0 b
      generalize rootLoop cfg srv r0.version (cfg.limits.maxRootUpdates + 1) r0 a = oa at h hres
      generalize rootLoop cfg srv r0.version (cfg.limits.maxRootUpdates + 1) r0 b = ob at hres hdb ⊢
      obtain ⟨ra, sa⟩ := oa
      obtain ⟨rb, sb⟩ := ob
      simp only at hres hdb
      subst hres
      cases ra with
      | error e => simp at h
      | ok r1 =>
        simp only at h ⊢
        cases hga : expiryGate cfg .root r1.expires sa with
        | mk rg sg =>
          rw [hga] at h
          cases rg with
          | error e => simp at h
          | ok u =>
            obtain ⟨l, hl⟩ := expiryGate_rerun .root r1.expires sa sg sb hga (by rw [hdb]; exact hb)
            rw [hl]
            simp only at h ⊢
            have hroot : r1 = root := by
              split at h <;> (simp only [Prod.mk.injEq, Except.ok.injEq] at h; exact h.1)
            subst hroot
            rw [hdb]
            unfold afterRoot
            split
            · exact ⟨_, by first | rfl | trivial, rfl⟩
            · exact ⟨_, by first | rfl | trivial, rfl⟩

theorem onlineKeysChanged_self (r : Root) : onlineKeysChanged r r = false := by
  simp [onlineKeysChanged]

/-- **Running a successful cycle again.** If a cycle succeeded from `a`, it succeeds with the same
view from any datastore `b` whose clock sample is not ahead of the clock and whose stored documents —
as they are once the root phase has run — do not block what the cycle trusts. -/
theorem cycle_rerun {shipped : Option Root} {a a' : St} {v : View} (b : St)
    (h : cycle cfg srv shipped a = (.ok v, a')) (hb : TimeOk cfg b.ds)
    (hts : ∀ r0, shipped = some r0 →
      storedBlocks (fun old => rootVerify v.root .timestamp old.msg old.sigs) (·.version) (afterRoot cfg r0 v.root b.ds).ts v.ts.version = false)
    (hsn : ∀ r0, shipped = some r0 → storedSnapshotBlocks v.root (afterRoot cfg r0 v.root b.ds).snap v.snap = none)
    (htg : storedBlocks (fun old => rootVerify v.root .targets old.msg old.sigs) (·.version) b.ds.tgt (Tgt.doc v.tgt).version = false) :
    ∃ b', cycle cfg srv shipped b = (.ok v, b') := by
  unfold cycle at h ⊢
  cases h0 : loadRoot cfg srv shipped a with
  | mk r0a s0 =>
    rw [h0] at h
    cases r0a with
    | error e => simp at h
    | ok root =>
      simp only at h
      obtain ⟨r0, l0, hs, hl0⟩ := loadRoot_rerun b h0 hb
      rw [hl0]
      simp only
      cases h1 : loadTimestamp cfg srv root s0 with
      | mk r1 s1 =>
        rw [h1] at h
        cases r1 with
        | error e => simp at h
        | ok ts =>
          simp only at h
          cases h2 : loadSnapshot cfg srv root ts s1 with
          | mk r2 s2 =>
            rw [h2] at h
            cases r2 with
            | error e => simp at h
            | ok sn =>
              simp only at h
              cases h3 : loadTargets cfg srv root sn s2 with
              | mk r3 s3 =>
                rw [h3] at h
                cases r3 with
                | error e => simp at h
                | ok t =>
                  simp only [Prod.mk.injEq, Except.ok.injEq] at h
                  obtain ⟨hv, _⟩ := h
                  subst hv
                  simp only at hts hsn htg
                  have tb0 : TimeOk cfg (afterRoot cfg r0 root b.ds) := by
                    unfold afterRoot
                    have := gated_timeOk (cfg := cfg) b.ds hb
                    split <;> exact this
                  obtain ⟨l1, hl1⟩ := loadTimestamp_rerun (cfg := cfg) (srv := srv) ⟨afterRoot cfg r0 root b.ds, l0⟩ h1 tb0 (hts r0 hs)
                  rw [hl1]
                  simp only
                  have tb1 : TimeOk cfg ({ gated cfg (afterRoot cfg r0 root b.ds) with ts := .doc ts } : Datastore) :=
                    gated_timeOk (cfg := cfg) _ tb0
                  have hsnap1 : ({ gated cfg (afterRoot cfg r0 root b.ds) with ts := .doc ts } : Datastore).snap = (afterRoot cfg r0 root b.ds).snap :=
                    congrArg (·.2.1) (gated_trust (cfg := cfg) (afterRoot cfg r0 root b.ds))
                  obtain ⟨l2, hl2⟩ := loadSnapshot_rerun (cfg := cfg) (srv := srv)
                    ⟨{ gated cfg (afterRoot cfg r0 root b.ds) with ts := .doc ts }, l1⟩ h2 tb1 (by rw [hsnap1]; exact hsn r0 hs)
                  rw [hl2]
                  simp only
                  have tb2 : TimeOk cfg ({ gated cfg ({ gated cfg (afterRoot cfg r0 root b.ds) with ts := .doc ts } : Datastore) with snap := .doc sn } : Datastore) :=
                    gated_timeOk (cfg := cfg) _ tb1
                  have htgt2 : ({ gated cfg ({ gated cfg (afterRoot cfg r0 root b.ds) with ts := .doc ts } : Datastore) with snap := .doc sn } : Datastore).tgt = b.ds.tgt := by
                    have e1 := congrArg (·.2.2.1) (gated_trust (cfg := cfg) ({ gated cfg (afterRoot cfg r0 root b.ds) with ts := .doc ts } : Datastore))
                    have e2 := congrArg (·.2.2.1) (gated_trust (cfg := cfg) (afterRoot cfg r0 root b.ds))
                    have e3 : (afterRoot cfg r0 root b.ds).tgt = b.ds.tgt := by
                      unfold afterRoot
                      have := congrArg (·.2.2.1) (gated_trust (cfg := cfg) b.ds)
                      split <;> exact this
                    exact (e1.trans e2).trans e3
                  obtain ⟨b3, hl3, _⟩ := loadTargets_rerun (cfg := cfg) (srv := srv)
                    ⟨{ gated cfg ({ gated cfg (afterRoot cfg r0 root b.ds) with ts := .doc ts } : Datastore) with snap := .doc sn }, l2⟩ h3 tb2 (by rw [htgt2]; exact htg)
                  rw [hl3]
                  exact ⟨b3, rfl⟩

end Tough.Client
