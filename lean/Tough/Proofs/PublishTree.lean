import Tough.Proofs.Publish
import Tough.Proofs.ClientNames
namespace Tough.Publish
open Tough.Sig Tough.Client Tough.Cache

/-! Part 2: the delegation tree is loaded back as it was written. -/

/-- a written file within the limit, with the digest the metadata pins (or none pinned), is read whole -/
theorem fetch_written (ser : Ser) (srv : Server) (name : FileName) (c : Content) (limit : Nat) (hash : Option Nat)
    (hget : srv.get name = .file (fileOf ser c)) (hl : ser.len c ≤ limit) (hh : hash = none ∨ hash = some (ser.dig c)) :
    fetchFile srv name limit hash = .ok c := by
  unfold fetchFile
  rw [hget]
  simp only [fileOf]
  have : ¬ (limit < ser.len c) := by omega
  rcases hh with rfl | rfl <;> simp [this]

/-- the roles one delegations object lists, with their subtrees -/
def rolesTop : Roles → List (DRole × Tgt)
  | .nil => []
  | .cons r t rest => (r, t) :: rolesTop rest

def ofTop : List (DRole × Tgt) → Roles
  | [] => .nil
  | q :: rest => .cons q.1 q.2 (ofTop rest)

theorem ofTop_rolesTop : ∀ c : Roles, ofTop (rolesTop c) = c
  | .nil => rfl
  | .cons r t rest => by simp only [rolesTop, ofTop]; rw [ofTop_rolesTop rest]

/-- the names below the listed roles -/
def deeper : List (DRole × Tgt) → List Nat
  | [] => []
  | q :: rest => rolesRoleNames (Tgt.children q.2) ++ deeper rest

theorem names_perm : ∀ c : Roles, (rolesRoleNames c).Perm ((rolesTop c).map (·.1.name) ++ deeper (rolesTop c))
  | .nil => by simp [rolesRoleNames, rolesTop, deeper]
  | .cons r t rest => by
    cases t with
    | mk doc ch =>
      simp only [rolesRoleNames, tgtRoleNames, rolesTop, List.map_cons, deeper, Tgt.children, List.cons_append]
      refine List.Perm.cons _ ?_
      have ih := names_perm rest
      -- ch ++ names rest ~ top rest ++ (ch ++ deeper rest)
      refine (List.Perm.append_left _ ih).trans ?_
      rw [← List.append_assoc, ← List.append_assoc]
      exact List.Perm.append_right _ List.perm_append_comm

theorem top_sub_nodes : ∀ (c : Roles) (q : DRole × Tgt), q ∈ rolesTop c → q ∈ rolesNodes c
  | .nil, q, h => by cases h
  | .cons r t rest, q, h => by
    simp only [rolesTop, List.mem_cons] at h
    simp only [rolesNodes, List.mem_cons, List.mem_append]
    rcases h with rfl | h
    · exact Or.inl rfl
    · exact Or.inr (Or.inr (top_sub_nodes rest q h))

theorem below_sub_nodes : ∀ (c : Roles) (q : DRole × Tgt), q ∈ rolesTop c →
    (∀ x ∈ rolesNodes (Tgt.children q.2), x ∈ rolesNodes c) ∧ (rolesNodes (Tgt.children q.2)).length < (rolesNodes c).length
  | .nil, q, h => by cases h
  | .cons r t rest, q, h => by
    simp only [rolesTop, List.mem_cons] at h
    rcases h with rfl | h
    · cases t with
      | mk doc ch =>
        simp only [Tgt.children, rolesNodes, tgtNodes, List.mem_cons, List.mem_append, List.length_cons, List.length_append]
        exact ⟨fun x hx => Or.inr (Or.inl hx), by omega⟩
    · obtain ⟨i1, i2⟩ := below_sub_nodes rest q h
      simp only [rolesNodes, List.mem_cons, List.mem_append, List.length_cons, List.length_append]
      exact ⟨fun x hx => Or.inr (Or.inr (i1 x hx)), by omega⟩

theorem rolesOk_top (d : Deleg) : ∀ (rs : List DRole) (c : Roles), RolesOk d rs c →
    rs = (rolesTop c).map (·.1) ∧
    ∀ q ∈ rolesTop c, delegVerify d q.1.name (Tgt.doc q.2).msg (Tgt.doc q.2).sigs = true ∧ TgtOk q.2
  | [], .nil, _ => by simp [rolesTop]
  | r :: rs, .cons r' t rest, h => by
    simp only [RolesOk] at h
    obtain ⟨rfl, hv, ht, hr⟩ := h
    obtain ⟨i1, i2⟩ := rolesOk_top d rs rest hr
    simp only [rolesTop, List.map_cons, List.mem_cons]
    refine ⟨by rw [i1], ?_⟩
    rintro q (rfl | hq)
    · exact ⟨hv, ht⟩
    · exact i2 q hq
  | [], .cons _ _ _, h => by simp [RolesOk] at h
  | _ :: _, .nil, h => by simp [RolesOk] at h

variable {cfg : Config} (ser : Ser) (p : Signed)

/-- first pass: every listed role is fetched, verified and version-checked, in order -/
theorem fetchRoles_pub (hn : (tgtRoleNames p.tree).Nodup) (d : Deleg) :
    ∀ (l : List (DRole × Tgt)) (visited : List Nat) (st : St),
    (∀ q ∈ l, q ∈ tgtNodes p.tree) →
    (∀ q ∈ l, delegVerify d q.1.name (Tgt.doc q.2).msg (Tgt.doc q.2).sigs = true) →
    (l.map (·.1.name)).Nodup → (∀ n ∈ l.map (·.1.name), n ∉ visited) →
    ∃ st', fetchRoles cfg (p.server ser) (p.snapshot ser) p.root.consistent d (l.map (·.1)) visited st =
      (.ok (l.map (fun q => (q.1, Tgt.doc q.2)), (l.map (·.1.name)).reverse ++ visited), st') ∧ st'.ds = st.ds := by
  intro l
  induction l with
  | nil => intro visited st _ _ _ _; exact ⟨st, by simp [fetchRoles], rfl⟩
  | cons q rest ih =>
    intro visited st hin hver hnd hvis
    simp only [List.map_cons, List.nodup_cons] at hnd
    have hq := hin q List.mem_cons_self
    have hfind := snapshot_find_role ser p hn q hq
    have hget := server_get_role ser p hn q hq
    have hnv : visited.contains q.1.name = false := by
      have := hvis q.1.name (by simp)
      simpa [List.contains_iff_mem] using this
    have hfetch : fetchFile (p.server ser) (.role q.1.name (versioned p.root.consistent (Tgt.doc q.2).version))
        (ser.len (.targets (Tgt.doc q.2))) none = .ok (.targets (Tgt.doc q.2)) :=
      fetch_written ser _ _ _ _ _ hget (Nat.le_refl _) (Or.inl rfl)
    obtain ⟨st', e, hds⟩ := ih (q.1.name :: visited)
      { ds := (st.req (.role q.1.name (versioned p.root.consistent (Tgt.doc q.2).version)) (ser.len (.targets (Tgt.doc q.2)))).ds,
        log := .dsCreate "role" (st.req (.role q.1.name (versioned p.root.consistent (Tgt.doc q.2).version)) (ser.len (.targets (Tgt.doc q.2)))).ds ::
          (st.req (.role q.1.name (versioned p.root.consistent (Tgt.doc q.2).version)) (ser.len (.targets (Tgt.doc q.2)))).log }
      (fun x hx => hin x (List.mem_cons_of_mem _ hx)) (fun x hx => hver x (List.mem_cons_of_mem _ hx)) hnd.2
      (by
        intro n hn' hc
        rcases List.mem_cons.mp hc with rfl | hc
        · exact hnd.1 hn'
        · exact hvis n (by simp only [List.map_cons, List.mem_cons]; exact Or.inr hn') hc)
    refine ⟨st', ?_, by rw [hds]; rfl⟩
    simp only [List.map_cons, fetchRoles, hfind, hnv, metaOf, Option.getD_some, Bool.false_eq_true, ↓reduceIte, hfetch,
      hver q List.mem_cons_self, Bool.not_true, bne_self_eq_false]
    rw [e]
    simp

/-- second pass: every fetched role gets its subtree attached -/
theorem attachRoles_pub (recur : Deleg → List Nat → St → Except Err (Roles × List Nat) × St) :
    ∀ (l : List (DRole × Tgt)),
    (∀ q ∈ l, (Tgt.doc q.2).deleg = none → Tgt.children q.2 = .nil) →
    (∀ q ∈ l, ∀ d', (Tgt.doc q.2).deleg = some d' → ∀ visited st,
      (∀ n ∈ rolesRoleNames (Tgt.children q.2), n ∉ visited) →
      ∃ vis' st', recur d' visited st = (.ok (Tgt.children q.2, vis'), st') ∧ st'.ds = st.ds ∧
        vis'.Perm (rolesRoleNames (Tgt.children q.2) ++ visited)) →
    (deeper l).Nodup →
    ∀ (visited : List Nat) (st : St), (∀ n ∈ deeper l, n ∉ visited) →
    ∃ vis' st', attachRoles recur (l.map (fun q => (q.1, Tgt.doc q.2))) visited st = (.ok (ofTop l, vis'), st') ∧ st'.ds = st.ds := by
  intro l
  induction l with
  | nil => intro _ _ _ visited st _; exact ⟨visited, st, by simp [attachRoles, ofTop], rfl⟩
  | cons q rest ih =>
    intro hleaf hrec hnd visited st hvis
    simp only [deeper] at hnd hvis
    obtain ⟨nd1, nd2, ndd⟩ := List.nodup_append.mp hnd
    have eta : Tgt.mk (Tgt.doc q.2) (Tgt.children q.2) = q.2 := by cases q.2; rfl
    have cont : ∀ vis1 st1, st1.ds = st.ds → vis1.Perm (rolesRoleNames (Tgt.children q.2) ++ visited) →
        ∃ vis2 st2, attachRoles recur (rest.map (fun q => (q.1, Tgt.doc q.2))) vis1 st1 = (.ok (ofTop rest, vis2), st2) ∧
          st2.ds = st.ds := by
      intro vis1 st1 hds1 hp1
      obtain ⟨vis2, st2, e2, hds2⟩ := ih (fun x hx => hleaf x (List.mem_cons_of_mem _ hx))
        (fun x hx => hrec x (List.mem_cons_of_mem _ hx)) nd2 vis1 st1 (by
          intro n hn hc
          rcases List.mem_append.mp (hp1.subset hc) with h | h
          · exact ndd n h n hn rfl
          · exact hvis n (List.mem_append_right _ hn) h)
      exact ⟨vis2, st2, e2, by rw [hds2, hds1]⟩
    simp only [List.map_cons, attachRoles]
    cases hd : (Tgt.doc q.2).deleg with
    | none =>
      have hnil := hleaf q List.mem_cons_self hd
      obtain ⟨vis2, st2, e2, hds2⟩ := cont visited st rfl (by rw [hnil]; simp [rolesRoleNames])
      refine ⟨vis2, st2, ?_, hds2⟩
      simp only [e2, ofTop]
      rw [← hnil, eta]
    | some d' =>
      obtain ⟨vis1, st1, e1, hds1, hp1⟩ :=
        hrec q List.mem_cons_self d' hd visited st (fun n hn => hvis n (List.mem_append_left _ hn))
      obtain ⟨vis2, st2, e2, hds2⟩ := cont vis1 st1 hds1 hp1
      refine ⟨vis2, st2, ?_, hds2⟩
      simp only [e1, e2, ofTop, eta]

/-- `load_delegations` on the written files returns the subtree as it was written -/
theorem loadDelegs_pub (hn : (tgtRoleNames p.tree).Nodup) (fuel : Nat) :
    ∀ (d : Deleg) (children : Roles) (visited : List Nat) (st : St),
    RolesOk d d.roles children → (∀ q ∈ rolesNodes children, q ∈ tgtNodes p.tree) →
    (rolesRoleNames children).Nodup → (∀ n ∈ rolesRoleNames children, n ∉ visited) →
    (rolesNodes children).length < fuel →
    ∃ vis' st', loadDelegs cfg (p.server ser) (p.snapshot ser) p.root.consistent fuel d visited st =
      (.ok (children, vis'), st') ∧ st'.ds = st.ds ∧ vis'.Perm (rolesRoleNames children ++ visited) := by
  induction fuel with
  | zero => intro d c v st _ _ _ _ h; omega
  | succ n ih =>
    intro d children visited st hok hin hnd hvis hlen
    obtain ⟨hrs, htop⟩ := rolesOk_top d d.roles children hok
    have hperm := names_perm children
    have hnd' := hperm.nodup_iff.mp hnd
    obtain ⟨ndTop, ndDeep, ndDisj⟩ := List.nodup_append.mp hnd'
    obtain ⟨st1, e1, hds1⟩ := fetchRoles_pub (cfg := cfg) ser p hn d (rolesTop children) visited st
      (fun q hq => hin q (top_sub_nodes children q hq)) (fun q hq => (htop q hq).1) ndTop
      (fun n hn' => hvis n (hperm.symm.subset (List.mem_append_left _ hn')))
    have hleaf : ∀ q ∈ rolesTop children, (Tgt.doc q.2).deleg = none → Tgt.children q.2 = .nil := by
      intro q hq hd
      have := (htop q hq).2
      cases hq2 : q.2 with
      | mk doc ch =>
        rw [hq2] at this hd
        simp only [Tgt.doc] at hd
        simp only [TgtOk, hd] at this
        simp [Tgt.children, this]
    have hrec : ∀ q ∈ rolesTop children, ∀ d', (Tgt.doc q.2).deleg = some d' → ∀ visited st,
        (∀ n ∈ rolesRoleNames (Tgt.children q.2), n ∉ visited) →
        ∃ vis' st', loadDelegs cfg (p.server ser) (p.snapshot ser) p.root.consistent n d' visited st =
          (.ok (Tgt.children q.2, vis'), st') ∧ st'.ds = st.ds ∧
          vis'.Perm (rolesRoleNames (Tgt.children q.2) ++ visited) := by
      intro q hq d' hd visited' st' hv'
      obtain ⟨b1, b2⟩ := below_sub_nodes children q hq
      have hokq : RolesOk d' d'.roles (Tgt.children q.2) := by
        have := (htop q hq).2
        cases hq2 : q.2 with
        | mk doc ch =>
          rw [hq2] at this hd
          simp only [Tgt.doc] at hd
          simp only [TgtOk, hd] at this
          simpa [Tgt.children] using this
      have hsubn : ∀ x ∈ rolesRoleNames (Tgt.children q.2), x ∈ deeper (rolesTop children) := by
        intro x hx
        have : ∀ (l : List (DRole × Tgt)), q ∈ l → x ∈ deeper l := by
          intro l
          induction l with
          | nil => intro h; cases h
          | cons a rest ihl =>
            intro h
            simp only [deeper, List.mem_append]
            rcases List.mem_cons.mp h with rfl | h
            · exact Or.inl hx
            · exact Or.inr (ihl h)
        exact this _ hq
      have hndq : (rolesRoleNames (Tgt.children q.2)).Nodup := by
        have : ∀ (l : List (DRole × Tgt)), q ∈ l → (deeper l).Nodup → (rolesRoleNames (Tgt.children q.2)).Nodup := by
          intro l
          induction l with
          | nil => intro h; cases h
          | cons a rest ihl =>
            intro h hnd2
            simp only [deeper] at hnd2
            obtain ⟨x1, x2, _⟩ := List.nodup_append.mp hnd2
            rcases List.mem_cons.mp h with rfl | h
            · exact x1
            · exact ihl h x2
        exact this _ hq ndDeep
      exact ih d' (Tgt.children q.2) visited' st' hokq (fun x hx => hin x (b1 x hx)) hndq hv' (by omega)
    obtain ⟨vis2, st2, e2, hds2⟩ := attachRoles_pub (loadDelegs cfg (p.server ser) (p.snapshot ser) p.root.consistent n)
      (rolesTop children) hleaf hrec ndDeep (((rolesTop children).map (·.1.name)).reverse ++ visited) st1 (by
        intro x hx hc
        rcases List.mem_append.mp hc with h | h
        · exact ndDisj x (List.mem_reverse.mp h) x hx rfl
        · exact hvis x (hperm.symm.subset (List.mem_append_right _ hx)) h)
    have eq : loadDelegs cfg (p.server ser) (p.snapshot ser) p.root.consistent (n + 1) d visited st =
        (.ok (children, vis2), st2) := by
      simp only [loadDelegs]
      rw [hrs, e1]
      simp only
      rw [e2, ofTop_rolesTop]
    exact ⟨vis2, st2, eq, by rw [hds2, hds1], (loadDelegs_visited _ eq).1⟩

end Tough.Publish
