import Tough.Proofs.ClientFrame
namespace Tough.Client
open Tough.Sig

/-! ## The datastore's history inside one cycle

Every datastore operation of the model logs the datastore as it is once the operation is done
(`Ev.dsCreate _ after`, `Ev.dsRemove _ after`).  `St.states` is that history, newest first: the states
a crash (process death, or a failed write that ends the cycle) can leave behind are the initial
datastore and the members of `states`.  The lemmas below say, phase by phase and whatever the outcome,
which trust states can occur. -/

def Datastore.trust (d : Datastore) : Slot Timestamp × Slot Snapshot × Slot TargetsDoc × Slot Root :=
  (d.ts, d.snap, d.tgt, d.root)

/-- every state in the history of `st'` that is not in the history of `st` satisfies `P` -/
def Grows (P : Datastore → Prop) (st st' : St) : Prop := ∀ d ∈ st'.states, d ∈ st.states ∨ P d

theorem Grows.refl (P : Datastore → Prop) (st : St) : Grows P st st := fun _ h => Or.inl h

theorem Grows.of_states_eq {P : Datastore → Prop} {st st' : St} (h : st'.states = st.states) : Grows P st st' :=
  fun d hd => Or.inl (h ▸ hd)

theorem Grows.mono {P Q : Datastore → Prop} {st st' : St} (h : Grows P st st') (hpq : ∀ d, P d → Q d) : Grows Q st st' :=
  fun x hd => (h x hd).imp id (hpq x)

theorem Grows.trans {P : Datastore → Prop} {a b c : St} (h1 : Grows P a b) (h2 : Grows P b c) : Grows P a c :=
  fun d hd => match h2 d hd with
    | .inl h => h1 d h
    | .inr h => .inr h

@[simp] theorem states_req (st : St) (f : FileName) (n : Nat) : (st.req f n).states = st.states := by
  simp only [St.states, St.req, List.filterMap_cons, Ev.after?]

variable {cfg : Config} {srv : Server}

/-- `system_time`: at most one new state, with the trust state untouched; the current datastore is the
newest state or unchanged -/
theorem systemTime_grows (st : St) : Grows (fun d => d.trust = st.ds.trust) st (systemTime cfg st).2 := by
  unfold systemTime
  split
  · split
    · exact Grows.refl _ _
    · intro d hd
      simp only [St.states, List.filterMap_cons, Ev.after?, List.mem_cons] at hd
      rcases hd with h | h
      · right; subst h; rfl
      · left; exact h
  · intro d hd
    simp only [St.states, List.filterMap_cons, Ev.after?, List.mem_cons] at hd
    rcases hd with h | h
    · right; subst h; rfl
    · left; exact h

theorem expiryGate_grows (r : RoleType) (e : Int) (st : St) :
    Grows (fun d => d.trust = st.ds.trust) st (expiryGate cfg r e st).2 := by
  unfold expiryGate
  split
  · unfold checkExpired
    have := systemTime_grows (cfg := cfg) st
    split
    · rename_i e' st1 h; rw [h] at this; exact this
    · rename_i t st1 h; rw [h] at this; split <;> exact this
  · exact Grows.refl _ _

theorem rootLoop_states (v0 fuel : Nat) (r : Root) (st : St) :
    (rootLoop cfg srv v0 fuel r st).2.states = st.states := by
  induction fuel generalizing r st with
  | zero => rfl
  | succ n ih =>
    simp only [rootLoop]
    split
    · rfl
    · split
      · simp
      · simp
      · rw [ih]; simp

/-- the root phase rotated the online keys: step 1.9 removed the stored timestamp and snapshot -/
def Rotated (cfg : Config) (srv : Server) (shipped : Option Root) (st : St) : Prop :=
  ∃ r0 root', shipped = some r0 ∧ (loadRoot cfg srv shipped st).1 = .ok root' ∧
    onlineKeysChanged (refRoot st.ds r0) root' = true

/-- `load_root`, any outcome: a new state has the trust state of the start or of the end of the phase,
or the phase rotated the online keys (then the two removals pass through half-cleared states) -/
theorem loadRoot_grows (shipped : Option Root) (st : St) :
    Grows (fun d => d.trust = st.ds.trust ∨ d.trust = (loadRoot cfg srv shipped st).2.ds.trust ∨
        (Rotated cfg srv shipped st ∧ d.tgt = st.ds.tgt ∧ d.root = st.ds.root))
      st (loadRoot cfg srv shipped st).2 := by
  unfold Rotated
  unfold loadRoot
  split
  · exact Grows.refl _ _
  · rename_i r0
    split
    · exact Grows.refl _ _
    · simp only
      have hl := rootLoop_states (cfg := cfg) (srv := srv) r0.version (cfg.limits.maxRootUpdates + 1) r0 st
      have ht := rootLoop_trust (cfg := cfg) (srv := srv) r0.version (cfg.limits.maxRootUpdates + 1) r0 st
      split
      · rename_i e1 st1 h1
        rw [h1] at hl
        exact Grows.of_states_eq hl
      · rename_i r1 st1 h1
        rw [h1] at hl ht
        have hg := expiryGate_grows (cfg := cfg) .root r1.expires st1
        have hgt := expiryGate_trust (cfg := cfg) .root r1.expires st1
        have ht1 : st1.ds.trust = st.ds.trust := ht
        split
        · rename_i e2 st2 h2
          rw [h2] at hg
          intro d hd
          rcases hg d hd with h | h
          · left; exact hl ▸ h
          · right; left; exact h.trans ht1
        · rename_i st2 h2
          rw [h2] at hg hgt
          have ht2 : st2.ds.trust = st.ds.trust := (show st2.ds.trust = st1.ds.trust from hgt).trans ht1
          have base : ∀ d ∈ st2.states, d ∈ st.states ∨ d.trust = st.ds.trust := by
            intro d hd
            rcases hg d hd with h | h
            · left; exact hl ▸ h
            · right; exact h.trans ht1
          split
          · rename_i hk
            intro d hd
            simp only [recordRoot, clearOnline, St.states, List.filterMap_cons, Ev.after?, List.mem_cons] at hd
            rcases hd with h | h | h | h | h
            · right; right; left; subst h; rfl
            · right; right; right; subst h
              exact ⟨⟨r0, r1, rfl, rfl, hk⟩, congrArg (·.2.2.1) ht2, congrArg (·.2.2.2) ht2⟩
            · right; right; right; subst h
              exact ⟨⟨r0, r1, rfl, rfl, hk⟩, congrArg (·.2.2.1) ht2, congrArg (·.2.2.2) ht2⟩
            · right; right; right; subst h
              exact ⟨⟨r0, r1, rfl, rfl, hk⟩, congrArg (·.2.2.1) ht2, congrArg (·.2.2.2) ht2⟩
            · rcases base d h with h' | h'
              · left; exact h'
              · right; left; exact h'
          · intro d hd
            simp only [recordRoot, St.states, List.filterMap_cons, Ev.after?, List.mem_cons] at hd
            rcases hd with h | h
            · right; right; left; subst h; rfl
            · rcases base d h with h' | h'
              · left; exact h'
              · right; left; exact h'

/-- `loadRoot_grows` with what the half-cleared states hold: a new state has the trust state of the start or of the end of the phase,
or the phase rotated the online keys (then the two removals pass through half-cleared states) -/
theorem loadRoot_grows2 (shipped : Option Root) (st : St) :
    Grows (fun d => d.trust = st.ds.trust ∨ d.trust = (loadRoot cfg srv shipped st).2.ds.trust ∨
        (Rotated cfg srv shipped st ∧ d.tgt = st.ds.tgt ∧ d.root = st.ds.root ∧
          (d.ts = st.ds.ts ∨ d.ts = .absent) ∧ (d.snap = st.ds.snap ∨ d.snap = .absent)))
      st (loadRoot cfg srv shipped st).2 := by
  unfold Rotated
  unfold loadRoot
  split
  · exact Grows.refl _ _
  · rename_i r0
    split
    · exact Grows.refl _ _
    · simp only
      have hl := rootLoop_states (cfg := cfg) (srv := srv) r0.version (cfg.limits.maxRootUpdates + 1) r0 st
      have ht := rootLoop_trust (cfg := cfg) (srv := srv) r0.version (cfg.limits.maxRootUpdates + 1) r0 st
      split
      · rename_i e1 st1 h1
        rw [h1] at hl
        exact Grows.of_states_eq hl
      · rename_i r1 st1 h1
        rw [h1] at hl ht
        have hg := expiryGate_grows (cfg := cfg) .root r1.expires st1
        have hgt := expiryGate_trust (cfg := cfg) .root r1.expires st1
        have ht1 : st1.ds.trust = st.ds.trust := ht
        split
        · rename_i e2 st2 h2
          rw [h2] at hg
          intro d hd
          rcases hg d hd with h | h
          · left; exact hl ▸ h
          · right; left; exact h.trans ht1
        · rename_i st2 h2
          rw [h2] at hg hgt
          have ht2 : st2.ds.trust = st.ds.trust := (show st2.ds.trust = st1.ds.trust from hgt).trans ht1
          have base : ∀ d ∈ st2.states, d ∈ st.states ∨ d.trust = st.ds.trust := by
            intro d hd
            rcases hg d hd with h | h
            · left; exact hl ▸ h
            · right; exact h.trans ht1
          split
          · rename_i hk
            intro d hd
            simp only [recordRoot, clearOnline, St.states, List.filterMap_cons, Ev.after?, List.mem_cons] at hd
            rcases hd with h | h | h | h | h
            · right; right; left; subst h; rfl
            · right; right; right; subst h
              exact ⟨⟨r0, r1, rfl, rfl, hk⟩, congrArg (·.2.2.1) ht2, congrArg (·.2.2.2) ht2, Or.inr rfl, Or.inr rfl⟩
            · right; right; right; subst h
              exact ⟨⟨r0, r1, rfl, rfl, hk⟩, congrArg (·.2.2.1) ht2, congrArg (·.2.2.2) ht2, Or.inl (congrArg (·.1) ht2), Or.inr rfl⟩
            · right; right; right; subst h
              exact ⟨⟨r0, r1, rfl, rfl, hk⟩, congrArg (·.2.2.1) ht2, congrArg (·.2.2.2) ht2, Or.inr rfl, Or.inl (congrArg (·.2.1) ht2)⟩
            · rcases base d h with h' | h'
              · left; exact h'
              · right; left; exact h'
          · intro d hd
            simp only [recordRoot, St.states, List.filterMap_cons, Ev.after?, List.mem_cons] at hd
            rcases hd with h | h
            · right; right; left; subst h; rfl
            · rcases base d h with h' | h'
              · left; exact h'
              · right; left; exact h'

/-- `load_timestamp`, any outcome -/
theorem loadTimestamp_grows (root : Root) (st : St) :
    Grows (fun d => d.trust = st.ds.trust ∨ d.trust = (loadTimestamp cfg srv root st).2.ds.trust)
      st (loadTimestamp cfg srv root st).2 := by
  unfold loadTimestamp
  simp only
  split
  · exact Grows.of_states_eq (by simp)
  · rename_i ts hf
    split
    · exact Grows.of_states_eq (by simp)
    · split
      · exact Grows.of_states_eq (by simp)
      · have hg := expiryGate_grows (cfg := cfg) .timestamp ts.expires (st.req .timestamp cfg.limits.maxTimestampSize)
        split
        · rename_i e st1 h1
          rw [h1] at hg
          intro d hd
          rcases hg d hd with h | h
          · left; simpa using h
          · right; left; exact h
        · rename_i st1 h1
          rw [h1] at hg
          intro d hd
          simp only [St.states, List.filterMap_cons, Ev.after?, List.mem_cons] at hd
          rcases hd with h | h
          · right; right; subst h; rfl
          · rcases hg d h with h' | h'
            · left; simpa using h'
            · right; left; exact h'
  · exact Grows.of_states_eq (by simp)

/-- `load_snapshot`, any outcome -/
theorem loadSnapshot_grows (root : Root) (ts : Timestamp) (st : St) :
    Grows (fun d => d.trust = st.ds.trust ∨ d.trust = (loadSnapshot cfg srv root ts st).2.ds.trust)
      st (loadSnapshot cfg srv root ts st).2 := by
  unfold loadSnapshot
  split
  · exact Grows.refl _ _
  · rename_i m hm
    simp only
    split
    · exact Grows.of_states_eq (by simp)
    · rename_i sn hf
      split
      · exact Grows.of_states_eq (by simp)
      · split
        · exact Grows.of_states_eq (by simp)
        · split
          · exact Grows.of_states_eq (by simp)
          · have hg := expiryGate_grows (cfg := cfg) .snapshot sn.expires
              (st.req (.snapshot (versioned root.consistent m.version)) (m.length.getD cfg.limits.maxSnapshotSize))
            split
            · rename_i e st1 h1
              rw [h1] at hg
              intro d hd
              rcases hg d hd with h | h
              · left; simpa using h
              · right; left; exact h
            · rename_i st1 h1
              rw [h1] at hg
              intro d hd
              simp only [St.states, List.filterMap_cons, Ev.after?, List.mem_cons] at hd
              rcases hd with h | h
              · right; right; subst h; rfl
              · rcases hg d h with h' | h'
                · left; simpa using h'
                · right; left; exact h'
    · exact Grows.of_states_eq (by simp)

/-! delegated roles: their files are written to the datastore, the four trust slots are not touched -/

theorem fetchRoles_grows {snap : Snapshot} {cs : Bool} (d : Deleg) (roles : List DRole) (visited : List Nat) (st : St) :
    Grows (fun x => x.trust = st.ds.trust) st (fetchRoles cfg srv snap cs d roles visited st).2 := by
  induction roles generalizing visited st with
  | nil => exact Grows.refl _ _
  | cons r rest ih =>
    simp only [fetchRoles]
    split
    · exact Grows.refl _ _
    · rename_i m hm
      split
      · exact Grows.refl _ _
      · split
        · exact Grows.of_states_eq (by simp)
        · split
          · exact Grows.of_states_eq (by simp)
          · split
            · exact Grows.of_states_eq (by simp)
            · have := ih (r.name :: visited)
                { ds := (st.req (.role r.name (versioned cs m.version)) (m.length.getD cfg.limits.maxTargetsSize)).ds,
                  log := .dsCreate "role" (st.req (.role r.name (versioned cs m.version)) (m.length.getD cfg.limits.maxTargetsSize)).ds :: (st.req (.role r.name (versioned cs m.version)) (m.length.getD cfg.limits.maxTargetsSize)).log }
              have step : ∀ s : St, Grows (fun x => x.trust = st.ds.trust)
                  { ds := (st.req (.role r.name (versioned cs m.version)) (m.length.getD cfg.limits.maxTargetsSize)).ds,
                    log := .dsCreate "role" (st.req (.role r.name (versioned cs m.version)) (m.length.getD cfg.limits.maxTargetsSize)).ds :: (st.req (.role r.name (versioned cs m.version)) (m.length.getD cfg.limits.maxTargetsSize)).log } s →
                  Grows (fun x => x.trust = st.ds.trust) st s := by
                intro s hs x hx
                rcases hs x hx with h | h
                · simp only [St.states, List.filterMap_cons, Ev.after?, List.mem_cons] at h
                  rcases h with h | h
                  · right; subst h; rfl
                  · left; simpa [St.states, St.req, Ev.after?] using h
                · right; exact h
              split
              · rename_i heq; rw [heq] at this; exact step _ this
              · rename_i heq; rw [heq] at this; exact step _ this
        · exact Grows.of_states_eq (by simp)

theorem attachRoles_grows (recur : Deleg → List Nat → St → Except Err (Roles × List Nat) × St)
    (hrec : ∀ d v s, Grows (fun x => x.trust = s.ds.trust) s (recur d v s).2)
    (hrect : ∀ d v s, (recur d v s).2.trust = s.trust)
    (loaded : List (DRole × TargetsDoc)) (visited : List Nat) (st : St) :
    Grows (fun x => x.trust = st.ds.trust) st (attachRoles recur loaded visited st).2 := by
  induction loaded generalizing visited st with
  | nil => exact Grows.refl _ _
  | cons p rest ih =>
    obtain ⟨r, doc⟩ := p
    simp only [attachRoles]
    cases hd : doc.deleg with
    | none =>
      simp only
      have := ih visited st
      split
      · rename_i heq; rw [heq] at this; exact this
      · rename_i heq; rw [heq] at this; exact this
    | some d' =>
      simp only
      have h1 := hrec d' visited st
      have t1 := hrect d' visited st
      split
      · rename_i heq; rw [heq] at h1; exact h1
      · rename_i children vis1 st1 heq
        rw [heq] at h1 t1
        have t1' : st1.ds.trust = st.ds.trust := t1
        have := (ih vis1 st1).mono (Q := fun x => x.trust = st.ds.trust) (fun x hx => hx.trans t1')
        split
        · rename_i heq2; rw [heq2] at this; exact h1.trans this
        · rename_i heq2; rw [heq2] at this; exact h1.trans this

theorem loadDelegs_grows {snap : Snapshot} {cs : Bool} (fuel : Nat) : ∀ (d : Deleg) (visited : List Nat) (st : St),
    Grows (fun x => x.trust = st.ds.trust) st (loadDelegs cfg srv snap cs fuel d visited st).2 := by
  induction fuel with
  | zero => intro d v st; exact Grows.refl _ _
  | succ n ih =>
    intro d visited st
    simp only [loadDelegs]
    have h1 := fetchRoles_grows (cfg := cfg) (srv := srv) (snap := snap) (cs := cs) d d.roles visited st
    have t1 := fetchRoles_trust (cfg := cfg) (srv := srv) (snap := snap) (cs := cs) d d.roles visited st
    split
    · rename_i heq; rw [heq] at h1; exact h1
    · rename_i loaded vis1 st1 heq
      rw [heq] at h1 t1
      have t1' : st1.ds.trust = st.ds.trust := t1
      exact h1.trans ((attachRoles_grows _ ih (loadDelegs_trust n) loaded vis1 st1).mono (fun x hx => hx.trans t1'))

/-- `load_targets`, any outcome -/
theorem loadTargets_grows (root : Root) (snap : Snapshot) (st : St) :
    Grows (fun d => d.trust = st.ds.trust ∨ d.trust = (loadTargets cfg srv root snap st).2.ds.trust)
      st (loadTargets cfg srv root snap st).2 := by
  unfold loadTargets
  split
  · exact Grows.refl _ _
  · rename_i m hm
    simp only
    split
    · exact Grows.of_states_eq (by simp)
    · rename_i doc hf
      split
      · exact Grows.of_states_eq (by simp)
      · split
        · exact Grows.of_states_eq (by simp)
        · split
          · exact Grows.of_states_eq (by simp)
          · have hg := expiryGate_grows (cfg := cfg) .targets doc.expires
              (st.req (.targets (versioned root.consistent m.version)) (m.length.getD cfg.limits.maxTargetsSize))
            split
            · rename_i e st1 h1
              rw [h1] at hg
              intro d hd
              rcases hg d hd with h | h
              · left; simpa using h
              · right; left; exact h
            · rename_i st1 h1
              rw [h1] at hg
              -- the state after `datastore.create("targets.json")`, then the delegations
              have hsubg : ∀ s : St, Grows (fun x => x.trust = s.ds.trust) s (loadChildren cfg srv snap root.consistent doc s).2 := by
                intro s
                unfold loadChildren
                cases doc.deleg with
                | none => exact Grows.refl _ _
                | some d => exact loadDelegs_grows _ d [] s
              have hsubt : ∀ s : St, (loadChildren cfg srv snap root.consistent doc s).2.trust = s.trust := by
                intro s
                unfold loadChildren
                cases doc.deleg with
                | none => rfl
                | some d => exact loadDelegs_trust _ d [] s
              have key : ∀ (fin : St), fin = (loadChildren cfg srv snap root.consistent doc
                    { ds := { st1.ds with tgt := .doc doc }, log := .dsCreate "targets" { st1.ds with tgt := .doc doc } :: st1.log }).2 →
                  Grows (fun d => d.trust = st.ds.trust ∨ d.trust = fin.ds.trust) st fin := by
                intro fin hfin
                have g := hsubg { ds := { st1.ds with tgt := .doc doc }, log := .dsCreate "targets" { st1.ds with tgt := .doc doc } :: st1.log }
                have t := hsubt { ds := { st1.ds with tgt := .doc doc }, log := .dsCreate "targets" { st1.ds with tgt := .doc doc } :: st1.log }
                rw [← hfin] at g t
                have t' : fin.ds.trust = ({ st1.ds with tgt := .doc doc } : Datastore).trust := t
                intro d hd
                rcases g d hd with h | h
                · simp only [St.states, List.filterMap_cons, Ev.after?, List.mem_cons] at h
                  rcases h with h | h
                  · right; right; subst h; exact t'.symm
                  · rcases hg d h with h' | h'
                    · left; simpa using h'
                    · right; left; exact h'
                · right; right; exact h.trans t'.symm
              split
              · rename_i e st2 heq
                exact key st2 (by rw [heq])
              · rename_i ch vis st2 heq
                split
                · exact key st2 (by rw [heq])
                · exact key st2 (by rw [heq])
    · exact Grows.of_states_eq (by simp)

end Tough.Client
