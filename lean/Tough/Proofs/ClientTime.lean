import Tough.Proofs.ClientTrace
namespace Tough.Client
open Tough.Sig

/-! ## The stored clock sample inside one cycle

`latest_known_time.json` is only ever overwritten with the current clock value: every datastore state a
cycle passes through holds either the sample it started with or the cycle's own clock value. -/

/-- the sample is the one the run started with, or this run's clock -/
def TimeIn (cfg : Config) (t0 : Option Int) (d : Datastore) : Prop := d.time = t0 ∨ d.time = some cfg.now

variable {cfg : Config} {srv : Server}

theorem TimeIn.trans {t0 : Option Int} {a d : Datastore} (ha : TimeIn cfg t0 a) (hd : TimeIn cfg a.time d) : TimeIn cfg t0 d := by
  rcases hd with h | h
  · rcases ha with h' | h'
    · exact Or.inl (h.trans h')
    · exact Or.inr (h.trans h')
  · exact Or.inr h

/-- a step keeps the clock sample within {start, now}: for its states and for its final datastore -/
def KeepsTime (cfg : Config) (st st' : St) : Prop :=
  Grows (fun d => TimeIn cfg st.ds.time d) st st' ∧ TimeIn cfg st.ds.time st'.ds

theorem KeepsTime.refl (st : St) : KeepsTime cfg st st := ⟨Grows.refl _ _, Or.inl rfl⟩

theorem KeepsTime.trans {a b c : St} (h1 : KeepsTime cfg a b) (h2 : KeepsTime cfg b c) : KeepsTime cfg a c := by
  refine ⟨?_, h1.2.trans h2.2⟩
  intro d hd
  rcases h2.1 d hd with h | h
  · exact h1.1 d h
  · exact Or.inr (h1.2.trans h)

theorem KeepsTime.of_req {st st' : St} (f : FileName) (n : Nat) (h : KeepsTime cfg (st.req f n) st') : KeepsTime cfg st st' := by
  refine ⟨?_, h.2⟩
  intro d hd
  rcases h.1 d hd with h' | h'
  · left; simpa using h'
  · right; exact h'

/-- one more datastore operation that leaves the clock sample alone -/
theorem KeepsTime.push (st : St) (what : String) (d : Datastore) (hd : d.time = st.ds.time) (create : Bool) :
    KeepsTime cfg st { ds := d, log := (if create then Ev.dsCreate what d else Ev.dsRemove what d) :: st.log } := by
  refine ⟨?_, Or.inl hd⟩
  intro x hx
  cases create <;>
  · simp only [St.states, List.filterMap_cons, Ev.after?, Bool.false_eq_true, ↓reduceIte, List.mem_cons] at hx
    rcases hx with h | h
    · right; subst h; exact Or.inl hd
    · left; exact h

theorem systemTime_keepsTime (st : St) : KeepsTime cfg st (systemTime cfg st).2 := by
  unfold systemTime
  split
  · split
    · exact KeepsTime.refl _
    · refine ⟨?_, Or.inr rfl⟩
      intro d hd
      simp only [St.states, List.filterMap_cons, Ev.after?, List.mem_cons] at hd
      rcases hd with h | h
      · right; subst h; exact Or.inr rfl
      · left; exact h
  · refine ⟨?_, Or.inr rfl⟩
    intro d hd
    simp only [St.states, List.filterMap_cons, Ev.after?, List.mem_cons] at hd
    rcases hd with h | h
    · right; subst h; exact Or.inr rfl
    · left; exact h

theorem expiryGate_keepsTime (r : RoleType) (e : Int) (st : St) : KeepsTime cfg st (expiryGate cfg r e st).2 := by
  unfold expiryGate
  split
  · unfold checkExpired
    have := systemTime_keepsTime (cfg := cfg) st
    split
    · rename_i e' st1 h; rw [h] at this; exact this
    · rename_i t st1 h; rw [h] at this; split <;> exact this
  · exact KeepsTime.refl _

theorem rootLoop_ds (v0 fuel : Nat) (r : Root) (st : St) : (rootLoop cfg srv v0 fuel r st).2.ds = st.ds := by
  induction fuel generalizing r st with
  | zero => rfl
  | succ n ih =>
    simp only [rootLoop]
    split
    · rfl
    · split
      · rfl
      · rfl
      · rw [ih]; rfl

theorem loadRoot_keepsTime (shipped : Option Root) (st : St) : KeepsTime cfg st (loadRoot cfg srv shipped st).2 := by
  unfold loadRoot
  split
  · exact KeepsTime.refl _
  · rename_i r0
    split
    · exact KeepsTime.refl _
    · simp only
      have hl := rootLoop_states (cfg := cfg) (srv := srv) r0.version (cfg.limits.maxRootUpdates + 1) r0 st
      have hd := rootLoop_ds (cfg := cfg) (srv := srv) r0.version (cfg.limits.maxRootUpdates + 1) r0 st
      have base : KeepsTime cfg st (rootLoop cfg srv r0.version (cfg.limits.maxRootUpdates + 1) r0 st).2 :=
        ⟨Grows.of_states_eq hl, Or.inl (by rw [hd])⟩
      split
      · rename_i e1 st1 h1; rw [h1] at base; exact base
      · rename_i r1 st1 h1
        rw [h1] at base
        have hg := expiryGate_keepsTime (cfg := cfg) .root r1.expires st1
        split
        · rename_i e2 st2 h2; rw [h2] at hg; exact base.trans hg
        · rename_i st2 h2
          rw [h2] at hg
          have b2 := base.trans hg
          split
          · refine b2.trans ⟨?_, Or.inl rfl⟩
            intro d hd
            simp only [recordRoot, clearOnline, St.states, List.filterMap_cons, Ev.after?, List.mem_cons] at hd
            rcases hd with h | h | h | h | h
            · right; subst h; exact Or.inl rfl
            · right; subst h; exact Or.inl rfl
            · right; subst h; exact Or.inl rfl
            · right; subst h; exact Or.inl rfl
            · left; exact h
          · refine b2.trans ⟨?_, Or.inl rfl⟩
            intro d hd
            simp only [recordRoot, St.states, List.filterMap_cons, Ev.after?, List.mem_cons] at hd
            rcases hd with h | h
            · right; subst h; exact Or.inl rfl
            · left; exact h

theorem keepsTime_req (st : St) (f : FileName) (n : Nat) : KeepsTime cfg st (st.req f n) :=
  ⟨Grows.of_states_eq (by simp), Or.inl rfl⟩

/-- after a step that keeps the clock sample, one more operation that leaves it alone -/
theorem KeepsTime.then_push {st st1 : St} (h : KeepsTime cfg st st1) (e : Ev) (d : Datastore)
    (he : e.after? = some d) (hd : d.time = st1.ds.time) : KeepsTime cfg st { ds := d, log := e :: st1.log } := by
  refine h.trans ⟨?_, Or.inl hd⟩
  intro x hx
  simp only [St.states, List.filterMap_cons, he, List.mem_cons] at hx
  rcases hx with h' | h'
  · right; subst h'; exact Or.inl hd
  · left; exact h'

theorem loadTimestamp_keepsTime (root : Root) (st : St) : KeepsTime cfg st (loadTimestamp cfg srv root st).2 := by
  unfold loadTimestamp
  simp only
  split
  · exact keepsTime_req _ _ _
  · rename_i ts hf
    split
    · exact keepsTime_req _ _ _
    · split
      · exact keepsTime_req _ _ _
      · have hg := (keepsTime_req (cfg := cfg) st .timestamp cfg.limits.maxTimestampSize).trans
          (expiryGate_keepsTime (cfg := cfg) .timestamp ts.expires (st.req .timestamp cfg.limits.maxTimestampSize))
        split
        · rename_i e st1 h1; rw [h1] at hg; exact hg
        · rename_i st1 h1
          rw [h1] at hg
          exact hg.then_push _ _ rfl rfl
  · exact keepsTime_req _ _ _

theorem loadSnapshot_keepsTime (root : Root) (ts : Timestamp) (st : St) : KeepsTime cfg st (loadSnapshot cfg srv root ts st).2 := by
  unfold loadSnapshot
  split
  · exact KeepsTime.refl _
  · rename_i m hm
    simp only
    split
    · exact keepsTime_req _ _ _
    · rename_i sn hf
      split
      · exact keepsTime_req _ _ _
      · split
        · exact keepsTime_req _ _ _
        · split
          · exact keepsTime_req _ _ _
          · have hg := (keepsTime_req (cfg := cfg) st (.snapshot (versioned root.consistent m.version)) (m.length.getD cfg.limits.maxSnapshotSize)).trans
              (expiryGate_keepsTime (cfg := cfg) .snapshot sn.expires
                (st.req (.snapshot (versioned root.consistent m.version)) (m.length.getD cfg.limits.maxSnapshotSize)))
            split
            · rename_i e st1 h1; rw [h1] at hg; exact hg
            · rename_i st1 h1
              rw [h1] at hg
              exact hg.then_push _ _ rfl rfl
    · exact keepsTime_req _ _ _

theorem fetchRoles_keepsTime {snap : Snapshot} {cs : Bool} (d : Deleg) (roles : List DRole) (visited : List Nat) (st : St) :
    KeepsTime cfg st (fetchRoles cfg srv snap cs d roles visited st).2 := by
  induction roles generalizing visited st with
  | nil => exact KeepsTime.refl _
  | cons r rest ih =>
    simp only [fetchRoles]
    split
    · exact KeepsTime.refl _
    · rename_i m hm
      split
      · exact KeepsTime.refl _
      · split
        · exact keepsTime_req _ _ _
        · split
          · exact keepsTime_req _ _ _
          · split
            · exact keepsTime_req _ _ _
            · have h0 := (keepsTime_req (cfg := cfg) st (.role r.name (versioned cs m.version)) (m.length.getD cfg.limits.maxTargetsSize)).then_push
                (.dsCreate "role" (st.req (.role r.name (versioned cs m.version)) (m.length.getD cfg.limits.maxTargetsSize)).ds)
                (st.req (.role r.name (versioned cs m.version)) (m.length.getD cfg.limits.maxTargetsSize)).ds rfl rfl
              have := h0.trans (ih (r.name :: visited) _)
              split
              · rename_i heq; rw [heq] at this; exact this
              · rename_i heq; rw [heq] at this; exact this
        · exact keepsTime_req _ _ _

theorem attachRoles_keepsTime (recur : Deleg → List Nat → St → Except Err (Roles × List Nat) × St)
    (hrec : ∀ d v s, KeepsTime cfg s (recur d v s).2)
    (loaded : List (DRole × TargetsDoc)) (visited : List Nat) (st : St) :
    KeepsTime cfg st (attachRoles recur loaded visited st).2 := by
  induction loaded generalizing visited st with
  | nil => exact KeepsTime.refl _
  | cons p rest ih =>
    obtain ⟨r, doc⟩ := p
    simp only [attachRoles]
    cases hd : doc.deleg with
    | none =>
      simp only
      have := ih visited st
      split
      · rename_i heq; rw [heq] at this; exact this
      · rename_i heq; rw [heq] at this; exact this
    | some d' =>
      simp only
      have h1 := hrec d' visited st
      split
      · rename_i heq; rw [heq] at h1; exact h1
      · rename_i children vis1 st1 heq
        rw [heq] at h1
        have := h1.trans (ih vis1 st1)
        split
        · rename_i heq2; rw [heq2] at this; exact this
        · rename_i heq2; rw [heq2] at this; exact this

theorem loadDelegs_keepsTime {snap : Snapshot} {cs : Bool} (fuel : Nat) : ∀ (d : Deleg) (visited : List Nat) (st : St),
    KeepsTime cfg st (loadDelegs cfg srv snap cs fuel d visited st).2 := by
  induction fuel with
  | zero => intro d v st; exact KeepsTime.refl _
  | succ n ih =>
    intro d visited st
    simp only [loadDelegs]
    have h1 := fetchRoles_keepsTime (cfg := cfg) (srv := srv) (snap := snap) (cs := cs) d d.roles visited st
    split
    · rename_i heq; rw [heq] at h1; exact h1
    · rename_i loaded vis1 st1 heq
      rw [heq] at h1
      exact h1.trans (attachRoles_keepsTime _ ih loaded vis1 st1)

theorem loadTargets_keepsTime (root : Root) (snap : Snapshot) (st : St) : KeepsTime cfg st (loadTargets cfg srv root snap st).2 := by
  unfold loadTargets
  split
  · exact KeepsTime.refl _
  · rename_i m hm
    simp only
    split
    · exact keepsTime_req _ _ _
    · rename_i doc hf
      split
      · exact keepsTime_req _ _ _
      · split
        · exact keepsTime_req _ _ _
        · split
          · exact keepsTime_req _ _ _
          · have hg := (keepsTime_req (cfg := cfg) st (.targets (versioned root.consistent m.version)) (m.length.getD cfg.limits.maxTargetsSize)).trans
              (expiryGate_keepsTime (cfg := cfg) .targets doc.expires
                (st.req (.targets (versioned root.consistent m.version)) (m.length.getD cfg.limits.maxTargetsSize)))
            split
            · rename_i e st1 h1; rw [h1] at hg; exact hg
            · rename_i st1 h1
              rw [h1] at hg
              have h2 := hg.then_push (.dsCreate "targets" { st1.ds with tgt := .doc doc }) { st1.ds with tgt := .doc doc } rfl rfl
              have hsub : ∀ s : St, KeepsTime cfg s (loadChildren cfg srv snap root.consistent doc s).2 := by
                intro s
                unfold loadChildren
                cases doc.deleg with
                | none => exact KeepsTime.refl _
                | some d => exact loadDelegs_keepsTime _ d [] s
              have h3 := h2.trans (hsub _)
              split
              · rename_i e st2 heq; rw [heq] at h3; exact h3
              · rename_i ch vis st2 heq
                rw [heq] at h3
                split <;> exact h3
    · exact keepsTime_req _ _ _

/-- **every datastore a cycle passes through, and the one it ends with, holds the clock sample it
started with or the cycle's own clock value** -/
theorem cycle_keepsTime (shipped : Option Root) (st : St) : KeepsTime cfg st (cycle cfg srv shipped st).2 := by
  unfold cycle
  have h0 := loadRoot_keepsTime (cfg := cfg) (srv := srv) shipped st
  split
  · rename_i e s0 heq; rw [heq] at h0; exact h0
  · rename_i root s0 heq
    rw [heq] at h0
    have h1 := h0.trans (loadTimestamp_keepsTime (cfg := cfg) (srv := srv) root s0)
    split
    · rename_i e s1 heq1; rw [heq1] at h1; exact h1
    · rename_i ts s1 heq1
      rw [heq1] at h1
      have h2 := h1.trans (loadSnapshot_keepsTime (cfg := cfg) (srv := srv) root ts s1)
      split
      · rename_i e s2 heq2; rw [heq2] at h2; exact h2
      · rename_i sn s2 heq2
        rw [heq2] at h2
        have h3 := h2.trans (loadTargets_keepsTime (cfg := cfg) (srv := srv) root sn s2)
        split
        · rename_i e s3 heq3; rw [heq3] at h3; exact h3
        · rename_i t s3 heq3; rw [heq3] at h3; exact h3

end Tough.Client
