import Tough.Model.Client
import Tough.Proofs.Sig
namespace Tough.Client
open Tough.Sig

/-! ## Inversion lemmas: what a successful step of the update cycle has checked -/

/-- the part of the state that rollback protection reads -/
def St.slots (st : St) : Slot Timestamp × Slot Snapshot × Slot TargetsDoc := (st.ds.ts, st.ds.snap, st.ds.tgt)

def St.reqs (st : St) : List FileName :=
  st.log.filterMap fun e => match e with | .req f => some f | _ => none

theorem systemTime_ok {cfg : Config} {st st' : St} {t : Int} (h : systemTime cfg st = (.ok t, st')) :
    t = cfg.now ∧ (∀ t0, st.ds.time = some t0 → t0 ≤ cfg.now) ∧ st'.ds.time = some cfg.now ∧
    st'.slots = st.slots ∧ st'.reqs = st.reqs := by
  unfold systemTime at h
  split at h
  · rename_i t0 ht
    split at h
    · simp at h
    · rename_i hlt
      simp only [Prod.mk.injEq, Except.ok.injEq] at h
      obtain ⟨rfl, rfl⟩ := h
      refine ⟨rfl, ?_, rfl, rfl, ?_⟩
      · intro t1 h1; rw [ht] at h1; cases h1; omega
      · simp [St.reqs, List.filterMap_cons]
  · rename_i ht
    simp only [Prod.mk.injEq, Except.ok.injEq] at h
    obtain ⟨rfl, rfl⟩ := h
    refine ⟨rfl, ?_, rfl, rfl, ?_⟩
    · intro t1 h1; rw [ht] at h1; cases h1
    · simp [St.reqs, List.filterMap_cons]

theorem systemTime_err {cfg : Config} {st st' : St} {e : Err} (h : systemTime cfg st = (.error e, st')) :
    e = .clock ∧ st' = st ∧ ∃ t0, st.ds.time = some t0 ∧ cfg.now < t0 := by
  unfold systemTime at h
  split at h
  · rename_i t0 ht
    split at h
    · rename_i hlt
      simp only [Prod.mk.injEq, Except.error.injEq] at h
      exact ⟨h.1.symm, h.2.symm, t0, ht, hlt⟩
    · simp at h
  · simp at h

theorem expiryGate_ok {cfg : Config} {r : RoleType} {e : Int} {st st' : St}
    (h : expiryGate cfg r e st = (.ok (), st')) :
    (cfg.safe = true → cfg.now ≤ e ∧ ∀ t0, st.ds.time = some t0 → t0 ≤ cfg.now) ∧
    st'.slots = st.slots ∧ st'.reqs = st.reqs := by
  unfold expiryGate at h
  by_cases hs : cfg.safe = true
  · simp only [hs, ↓reduceIte] at h
    unfold checkExpired at h
    split at h
    · simp at h
    · rename_i t st1 hst
      obtain ⟨rfl, h2, _, h4, h5⟩ := systemTime_ok hst
      split at h
      · rename_i hle
        simp only [Prod.mk.injEq, true_and] at h
        subst h
        exact ⟨fun _ => ⟨hle, h2⟩, h4, h5⟩
      · simp at h
  · simp only [hs] at h
    simp only [Bool.false_eq_true, ↓reduceIte, Prod.mk.injEq, true_and] at h
    subst h
    exact ⟨fun h => absurd h hs, rfl, rfl⟩

theorem expiryGate_err {cfg : Config} {r : RoleType} {e : Int} {st st' : St} {err : Err}
    (h : expiryGate cfg r e st = (.error err, st')) :
    cfg.safe = true ∧ (err = .clock ∨ (err = .expired r ∧ e < cfg.now)) := by
  unfold expiryGate at h
  by_cases hs : cfg.safe = true
  · refine ⟨hs, ?_⟩
    simp only [hs, ↓reduceIte] at h
    unfold checkExpired at h
    split at h
    · rename_i e' st1 hst
      simp only [Prod.mk.injEq, Except.error.injEq] at h
      exact Or.inl (h.1 ▸ (systemTime_err hst).1)
    · rename_i t st1 hst
      obtain ⟨rfl, _⟩ := systemTime_ok hst
      split at h
      · simp at h
      · rename_i hle
        simp only [Prod.mk.injEq, Except.error.injEq] at h
        exact Or.inr ⟨h.1.symm, by omega⟩
  · simp [hs] at h

theorem reqs_req (st : St) (f : FileName) (n : Nat) : (st.req f n).reqs = f :: st.reqs := by
  simp [St.req, St.reqs, List.filterMap_cons]

structure TsOk (cfg : Config) (srv : Server) (root : Root) (st : St) (ts : Timestamp) (st' : St) : Prop where
  fetched : fetchFile srv .timestamp cfg.limits.maxTimestampSize none = .ok (.timestamp ts)
  verified : rootVerify root .timestamp ts.msg ts.sigs = true
  noRollback : ∀ old, st.ds.ts = .doc old → rootVerify root .timestamp old.msg old.sigs = true →
    old.version ≤ ts.version
  fresh : cfg.safe = true → cfg.now ≤ ts.expires
  clockOk : cfg.safe = true → ∀ t0, st.ds.time = some t0 → t0 ≤ cfg.now
  storedTs : st'.ds.ts = .doc ts
  storedSnap : st'.ds.snap = st.ds.snap
  storedTgt : st'.ds.tgt = st.ds.tgt
  reqs : st'.reqs = .timestamp :: st.reqs

theorem loadTimestamp_ok {cfg : Config} {srv : Server} {root : Root} {st st' : St} {ts : Timestamp}
    (h : loadTimestamp cfg srv root st = (.ok ts, st')) : TsOk cfg srv root st ts st' := by
  unfold loadTimestamp at h
  simp only at h
  split at h
  · simp at h
  · rename_i ts0 hf
    split at h
    · simp at h
    · rename_i hv
      split at h
      · simp at h
      · rename_i hrb
        split at h
        · simp at h
        · rename_i st1 hg
          simp only [Prod.mk.injEq, Except.ok.injEq] at h
          obtain ⟨rfl, rfl⟩ := h
          obtain ⟨g1, g2, g3⟩ := expiryGate_ok hg
          simp only [St.slots, St.req, Prod.mk.injEq] at g2
          refine ⟨hf, by simpa using hv, ?_, fun hs => (g1 hs).1, fun hs => (g1 hs).2, rfl, g2.2.1, g2.2.2, ?_⟩
          · intro old ho hvo
            simp only [St.req, storedBlocks, ho, hvo, Bool.true_and, decide_eq_true_eq] at hrb
            omega
          · simp only [St.reqs, List.filterMap_cons] at g3 ⊢
            simp only [St.req, List.filterMap_cons] at g3
            exact g3
  · simp at h

structure SnapOk (cfg : Config) (srv : Server) (root : Root) (ts : Timestamp) (st : St) (sn : Snapshot) (st' : St) : Prop where
  pinned : ∃ m, ts.snapshotMeta = some m ∧
    fetchFile srv (.snapshot (versioned root.consistent m.version))
      (m.length.getD cfg.limits.maxSnapshotSize) m.hash = .ok (.snapshot sn) ∧
    sn.version = m.version ∧
    st'.reqs = .snapshot (versioned root.consistent m.version) :: st.reqs
  verified : rootVerify root .snapshot sn.msg sn.sigs = true
  noRollback : ∀ old, st.ds.snap = .doc old → rootVerify root .snapshot old.msg old.sigs = true →
    snapshotRollback old sn = none
  fresh : cfg.safe = true → cfg.now ≤ sn.expires
  clockOk : cfg.safe = true → ∀ t0, st.ds.time = some t0 → t0 ≤ cfg.now
  storedSnap : st'.ds.snap = .doc sn
  storedTs : st'.ds.ts = st.ds.ts
  storedTgt : st'.ds.tgt = st.ds.tgt

theorem loadSnapshot_ok {cfg : Config} {srv : Server} {root : Root} {ts : Timestamp} {st st' : St} {sn : Snapshot}
    (h : loadSnapshot cfg srv root ts st = (.ok sn, st')) : SnapOk cfg srv root ts st sn st' := by
  unfold loadSnapshot at h
  split at h
  · simp at h
  · rename_i m hm
    simp only at h
    split at h
    · simp at h
    · rename_i sn0 hf
      split at h
      · simp at h
      · rename_i hver
        split at h
        · simp at h
        · rename_i hv
          split at h
          · simp at h
          · rename_i hrb
            split at h
            · simp at h
            · rename_i st1 hg
              simp only [Prod.mk.injEq, Except.ok.injEq] at h
              obtain ⟨rfl, rfl⟩ := h
              obtain ⟨g1, g2, g3⟩ := expiryGate_ok hg
              simp only [St.slots, St.req, Prod.mk.injEq] at g2
              refine ⟨⟨m, hm, hf, by simpa using hver, ?_⟩, by simpa using hv, ?_, fun hs => (g1 hs).1,
                fun hs => (g1 hs).2, rfl, g2.1, g2.2.2⟩
              · simp only [St.reqs, List.filterMap_cons] at g3 ⊢
                simp only [St.req, List.filterMap_cons] at g3
                exact g3
              · intro old ho hvo
                simp only [St.req, storedSnapshotBlocks, ho, hvo, ↓reduceIte] at hrb
                exact hrb
    · simp at h

/-! ### The root chain -/

/-- one accepted hop of the walk: the file named after the next version parses to `b`, `b` is signed
by a threshold of `a`'s root keys and of its own, and its version is higher -/
structure Hop (cfg : Config) (srv : Server) (a b : Root) : Prop where
  served : fetchFile srv (.rootV (a.version + 1)) cfg.limits.maxRootSize none = .ok (.root b)
  byOld : rootVerify a .root b.msg b.sigs = true
  byNew : rootVerify b .root b.msg b.sigs = true
  higher : a.version < b.version

inductive Chain (cfg : Config) (srv : Server) : Root → Root → Prop
  | refl (a : Root) : Chain cfg srv a a
  | step {a b c : Root} : Hop cfg srv a b → Chain cfg srv b c → Chain cfg srv a c

theorem Chain.version_le {cfg : Config} {srv : Server} {a b : Root} (h : Chain cfg srv a b) :
    a.version ≤ b.version := by
  induction h with
  | refl => exact Nat.le_refl _
  | step hop _ ih => have := hop.higher; omega

theorem rootStep_next {cfg : Config} {srv : Server} {a b : Root} (h : rootStep cfg srv a = .next b) :
    Hop cfg srv a b := by
  unfold rootStep at h
  split at h <;> try (simp at h)
  rename_i new hf
  split at h
  · simp at h
  · rename_i h1
    split at h
    · simp at h
    · rename_i h2
      split at h
      · simp at h
      · rename_i h3
        split at h
        · simp at h
        · rename_i h4
          simp only [RootStep.next.injEq] at h
          subst h
          exact ⟨hf, by simpa using h1, by simpa using h2, by omega⟩

/-- the walk ends at `a`: version `a.version + 1` is not available, or the file served under that
name is a correctly double-signed root carrying the trusted version itself -/
def Stops (cfg : Config) (srv : Server) (a : Root) : Prop := rootStep cfg srv a = .stop

theorem stops_iff {cfg : Config} {srv : Server} {a : Root} :
    Stops cfg srv a ↔
      (fetchFile srv (.rootV (a.version + 1)) cfg.limits.maxRootSize none = .error .openNotFound ∨
       fetchFile srv (.rootV (a.version + 1)) cfg.limits.maxRootSize none = .error .openOther ∨
       fetchFile srv (.rootV (a.version + 1)) cfg.limits.maxRootSize none = .error .midNotFound ∨
       ∃ b, fetchFile srv (.rootV (a.version + 1)) cfg.limits.maxRootSize none = .ok (.root b) ∧
         rootVerify a .root b.msg b.sigs = true ∧ rootVerify b .root b.msg b.sigs = true ∧
         b.version = a.version) := by
  unfold Stops rootStep
  split
  · simp_all
  · simp_all
  · simp_all
  · rename_i e h1 h2 h3 hf
    simp only [reduceCtorEq, false_iff]
    rw [hf]
    rintro (h | h | h | ⟨b, h, _⟩)
    · cases h; exact h1 rfl
    · cases h; exact h2 rfl
    · cases h; exact h3 rfl
    · cases h
  · rename_i new hf
    rw [hf]
    by_cases v1 : rootVerify a .root new.msg new.sigs = true
    · by_cases v2 : rootVerify new .root new.msg new.sigs = true
      · by_cases l : new.version < a.version
        · simp [v1, v2, l]; omega
        · by_cases e : new.version = a.version
          · simp [v1, v2, e]
          · simp [v1, v2, l, e]
      · simp [v1, v2]
    · simp [v1]
  · rename_i c hc hf
    rw [hf]
    simp only [reduceCtorEq, false_iff]
    rintro (h | h | h | ⟨b, h, _⟩) <;> cases h
    exact hc b rfl

theorem rootLoop_ok {cfg : Config} {srv : Server} {v0 : Nat} (fuel : Nat) :
    ∀ {r r' : Root} {st st' : St}, rootLoop cfg srv v0 fuel r st = (.ok r', st') →
      Chain cfg srv r r' ∧ Stops cfg srv r' ∧ r'.version < v0 + cfg.limits.maxRootUpdates ∧
      st'.slots = st.slots ∧ st'.ds.time = st.ds.time := by
  induction fuel with
  | zero => intro r r' st st' h; simp [rootLoop] at h
  | succ n ih =>
    intro r r' st st' h
    simp only [rootLoop] at h
    split at h
    · simp at h
    · rename_i hlt
      split at h
      · rename_i hs
        simp only [Prod.mk.injEq, Except.ok.injEq] at h
        obtain ⟨rfl, rfl⟩ := h
        exact ⟨.refl _, hs, by simpa using hlt, rfl, rfl⟩
      · simp at h
      · rename_i new hn
        obtain ⟨c, s, b, sl, tm⟩ := ih h
        exact ⟨.step (rootStep_next hn) c, s, b, sl, tm⟩

/-- the number of `N.root.json` requests of the walk never exceeds the configured maximum -/
theorem rootLoop_reqs {cfg : Config} {srv : Server} {v0 : Nat} (fuel : Nat) :
    ∀ {r : Root} {st st' : St} {res : Except Err Root}, rootLoop cfg srv v0 fuel r st = (res, st') →
      v0 ≤ r.version →
      st'.reqs.length + r.version ≤ st.reqs.length + v0 + cfg.limits.maxRootUpdates ∨ st'.reqs = st.reqs := by
  induction fuel with
  | zero => intro r st st' res h _; simp only [rootLoop, Prod.mk.injEq] at h; exact Or.inr (h.2 ▸ rfl)
  | succ n ih =>
    intro r st st' res h hv
    simp only [rootLoop] at h
    split at h
    · simp only [Prod.mk.injEq] at h; exact Or.inr (h.2 ▸ rfl)
    · rename_i hlt
      have hlt' : r.version < v0 + cfg.limits.maxRootUpdates := by simpa using hlt
      split at h
      · simp only [Prod.mk.injEq] at h
        left; rw [← h.2, reqs_req]; simp only [List.length_cons]; omega
      · simp only [Prod.mk.injEq] at h
        left; rw [← h.2, reqs_req]; simp only [List.length_cons]; omega
      · rename_i new hn
        have hop := rootStep_next hn
        have hh := hop.higher
        rcases ih h (by omega) with hb | hb
        · left; rw [reqs_req] at hb; simp only [List.length_cons] at hb; omega
        · left; rw [hb, reqs_req]; simp only [List.length_cons]; omega

theorem rootLoop_no_fuel_error {cfg : Config} {srv : Server} {v0 : Nat} (fuel : Nat) :
    ∀ {r : Root} {st st' : St}, 1 ≤ fuel → v0 + cfg.limits.maxRootUpdates < r.version + fuel →
      rootLoop cfg srv v0 fuel r st ≠ (.error .fuel, st') := by
  induction fuel with
  | zero => intro r st st' h1 h2; omega
  | succ n ih =>
    intro r st st' h1 h2 h
    simp only [rootLoop] at h
    split at h
    · simp at h
    · rename_i hlt
      have hlt' : r.version < v0 + cfg.limits.maxRootUpdates := by simpa using hlt
      split at h
      · simp at h
      · rename_i e he
        simp only [Prod.mk.injEq, Except.error.injEq] at h
        unfold rootStep at he
        obtain ⟨h, -⟩ := h
        subst h
        split at he <;> (try simp at he) <;> (repeat (split at he <;> try simp at he))
      · rename_i new hn
        have hh := (rootStep_next hn).higher
        exact ih (by omega) (by omega) h

structure RootOk (cfg : Config) (srv : Server) (shipped : Option Root) (st : St) (root : Root) (st' : St) : Prop where
  shipped : ∃ r0, shipped = some r0 ∧ rootVerify r0 .root r0.msg r0.sigs = true ∧ Chain cfg srv r0 root ∧
    root.version < r0.version + cfg.limits.maxRootUpdates ∧
    (onlineKeysChanged (refRoot st.ds r0) root = false → st'.slots = st.slots) ∧
    (onlineKeysChanged (refRoot st.ds r0) root = true →
      st'.ds.ts = .absent ∧ st'.ds.snap = .absent ∧ st'.ds.tgt = st.ds.tgt)
  stops : Stops cfg srv root
  fresh : cfg.safe = true → cfg.now ≤ root.expires
  clockOk : cfg.safe = true → ∀ t0, st.ds.time = some t0 → t0 ≤ cfg.now
  recorded : st'.ds.root = .doc root

theorem loadRoot_ok {cfg : Config} {srv : Server} {shipped : Option Root} {st st' : St} {root : Root}
    (h : loadRoot cfg srv shipped st = (.ok root, st')) : RootOk cfg srv shipped st root st' := by
  unfold loadRoot at h
  split at h
  · simp at h
  · rename_i r0
    split at h
    · simp at h
    · rename_i hv
      simp only at h
      split at h
      · simp at h
      · rename_i r1 st1 hl
        obtain ⟨c, s, b, sl, tm⟩ := rootLoop_ok _ hl
        split at h
        · simp at h
        · rename_i st2 hg
          obtain ⟨g1, g2, g3⟩ := expiryGate_ok hg
          have hsl : st2.slots = st.slots := g2.trans sl
          split at h
          · rename_i hk
            simp only [Prod.mk.injEq, Except.ok.injEq] at h
            obtain ⟨rfl, rfl⟩ := h
            refine ⟨⟨r0, rfl, by simpa using hv, c, b, ?_, ?_⟩, s, fun hs => (g1 hs).1, ?_, rfl⟩
            · intro hf; rw [hk] at hf; cases hf
            · intro _
              refine ⟨rfl, rfl, ?_⟩
              have := congrArg (·.2.2) hsl
              simpa [recordRoot, clearOnline, St.slots] using this
            · intro hs t0 ht; rw [← tm] at ht; exact (g1 hs).2 t0 ht
          · rename_i hk
            simp only [Prod.mk.injEq, Except.ok.injEq] at h
            obtain ⟨rfl, rfl⟩ := h
            refine ⟨⟨r0, rfl, by simpa using hv, c, b, ?_, ?_⟩, s, fun hs => (g1 hs).1, ?_, rfl⟩
            · intro _; simpa [recordRoot, St.slots] using hsl
            · intro ht; exact absurd ht hk
            · intro hs t0 ht; rw [← tm] at ht; exact (g1 hs).2 t0 ht

/-! ### Delegations -/

/-- what was checked about one delegated role `r` of the delegations object `d`, whose metadata is `doc` -/
structure RoleGood (cfg : Config) (srv : Server) (snap : Snapshot) (consistent : Bool)
    (d : Deleg) (r : DRole) (doc : TargetsDoc) : Prop where
  listed : r ∈ d.roles
  pinned : ∃ m, snap.find (.role r.name) = some m ∧
    fetchFile srv (.role r.name (versioned consistent m.version))
      (m.length.getD cfg.limits.maxTargetsSize) none = .ok (.targets doc) ∧
    doc.version = m.version
  verified : delegVerify d r.name doc.msg doc.sigs = true

mutual
/-- every delegated role in the loaded tree passed `RoleGood` under its parent -/
def Tgt.Good (cfg : Config) (srv : Server) (snap : Snapshot) (consistent : Bool) : Tgt → Prop
  | .mk doc children =>
    match doc.deleg with
    | none => children = .nil
    | some d => Roles.Good cfg srv snap consistent d children
def Roles.Good (cfg : Config) (srv : Server) (snap : Snapshot) (consistent : Bool) (d : Deleg) : Roles → Prop
  | .nil => True
  | .cons r t rest =>
    RoleGood cfg srv snap consistent d r (Tgt.doc t) ∧ Tgt.Good cfg srv snap consistent t ∧
      Roles.Good cfg srv snap consistent d rest
end

variable {cfg : Config} {srv : Server} {snap : Snapshot} {consistent : Bool}

theorem fetchRoles_ok {d : Deleg} {roles : List DRole} {visited visited' : List Nat} {st st' : St}
    {loaded : List (DRole × TargetsDoc)} (hsub : ∀ r ∈ roles, r ∈ d.roles)
    (h : fetchRoles cfg srv snap consistent d roles visited st = (.ok (loaded, visited'), st')) :
    ∀ p ∈ loaded, RoleGood cfg srv snap consistent d p.1 p.2 := by
  induction roles generalizing visited st loaded with
  | nil =>
    simp only [fetchRoles, Prod.mk.injEq, Except.ok.injEq] at h
    obtain ⟨⟨rfl, _⟩, _⟩ := h
    intro p hp; cases hp
  | cons r rest ih =>
    simp only [fetchRoles] at h
    split at h
    · simp at h
    · rename_i m hm
      split at h
      · simp at h
      · split at h
        · simp at h
        · rename_i doc hf
          split at h
          · simp at h
          · rename_i hv
            split at h
            · simp at h
            · rename_i hver
              split at h
              · simp at h
              · rename_i more vis2 st2 hrec
                simp only [Prod.mk.injEq, Except.ok.injEq] at h
                obtain ⟨⟨rfl, rfl⟩, rfl⟩ := h
                intro p hp
                rcases List.mem_cons.mp hp with rfl | hp
                · exact ⟨hsub _ List.mem_cons_self, ⟨m, hm, hf, by simpa using hver⟩, by simpa using hv⟩
                · exact ih (fun r hr => hsub r (List.mem_cons_of_mem _ hr)) hrec p hp
        · simp at h

theorem attachRoles_ok {d : Deleg}
    {recur : Deleg → List Nat → St → Except Err (Roles × List Nat) × St}
    (hrec : ∀ d' v s rs v' s', recur d' v s = (.ok (rs, v'), s') → Roles.Good cfg srv snap consistent d' rs)
    {loaded : List (DRole × TargetsDoc)} {visited visited' : List Nat} {st st' : St} {rs : Roles}
    (hl : ∀ p ∈ loaded, RoleGood cfg srv snap consistent d p.1 p.2)
    (h : attachRoles recur loaded visited st = (.ok (rs, visited'), st')) :
    Roles.Good cfg srv snap consistent d rs := by
  induction loaded generalizing visited st rs with
  | nil =>
    simp only [attachRoles, Prod.mk.injEq, Except.ok.injEq] at h
    obtain ⟨⟨rfl, _⟩, _⟩ := h
    simp [Roles.Good]
  | cons p rest ih =>
    obtain ⟨r, doc⟩ := p
    simp only [attachRoles] at h
    split at h
    · simp at h
    · rename_i children vis1 st1 hsub
      split at h
      · simp at h
      · rename_i more vis2 st2 hmore
        simp only [Prod.mk.injEq, Except.ok.injEq] at h
        obtain ⟨⟨rfl, rfl⟩, rfl⟩ := h
        simp only [Roles.Good, Tgt.doc, Tgt.Good]
        refine ⟨hl (r, doc) List.mem_cons_self, ?_, ih (fun p hp => hl p (List.mem_cons_of_mem _ hp)) hmore⟩
        cases hd : doc.deleg with
        | none =>
          simp only [hd, Prod.mk.injEq, Except.ok.injEq] at hsub
          simp [hsub.1.1]
        | some d' =>
          simp only [hd] at hsub
          exact hrec _ _ _ _ _ _ hsub

theorem loadDelegs_ok (fuel : Nat) : ∀ {d : Deleg} {visited visited' : List Nat} {st st' : St} {rs : Roles},
    loadDelegs cfg srv snap consistent fuel d visited st = (.ok (rs, visited'), st') →
    Roles.Good cfg srv snap consistent d rs := by
  induction fuel with
  | zero => intro d v v' st st' rs h; simp [loadDelegs] at h
  | succ n ih =>
    intro d v v' st st' rs h
    simp only [loadDelegs] at h
    split at h
    · simp at h
    · rename_i loaded vis1 st1 hf
      exact attachRoles_ok (fun d' v s rs v' s' hh => ih hh) (fetchRoles_ok (fun r hr => hr) hf) h

structure TgtOk (cfg : Config) (srv : Server) (root : Root) (snap : Snapshot) (st : St) (t : Tgt) (st' : St) : Prop where
  pinned : ∃ m, snap.find .targets = some m ∧
    fetchFile srv (.targets (versioned root.consistent m.version))
      (m.length.getD cfg.limits.maxTargetsSize) m.hash = .ok (.targets (Tgt.doc t)) ∧
    (Tgt.doc t).version = m.version
  verified : rootVerify root .targets (Tgt.doc t).msg (Tgt.doc t).sigs = true
  noRollback : ∀ old, st.ds.tgt = .doc old → rootVerify root .targets old.msg old.sigs = true →
    old.version ≤ (Tgt.doc t).version
  fresh : cfg.safe = true → cfg.now ≤ (Tgt.doc t).expires
  clockOk : cfg.safe = true → ∀ t0, st.ds.time = some t0 → t0 ≤ cfg.now
  tree : Tgt.Good cfg srv snap root.consistent t
  valid : t.validate = true

theorem loadTargets_ok {root : Root} {st st' : St} {t : Tgt}
    (h : loadTargets cfg srv root snap st = (.ok t, st')) : TgtOk cfg srv root snap st t st' := by
  unfold loadTargets at h
  split at h
  · simp at h
  · rename_i m hm
    simp only at h
    split at h
    · simp at h
    · rename_i doc hf
      split at h
      · simp at h
      · rename_i hver
        split at h
        · simp at h
        · rename_i hv
          split at h
          · simp at h
          · rename_i hrb
            split at h
            · simp at h
            · rename_i st1 hg
              obtain ⟨g1, g2, g3⟩ := expiryGate_ok hg
              simp only [St.slots, St.req, Prod.mk.injEq] at g2
              split at h
              · simp at h
              · rename_i children vis st2 hsub
                split at h
                · rename_i hval
                  simp only [Prod.mk.injEq, Except.ok.injEq] at h
                  obtain ⟨rfl, rfl⟩ := h
                  refine ⟨⟨m, hm, hf, by simpa [Tgt.doc] using hver⟩, by simpa [Tgt.doc] using hv, ?_, fun hs => (g1 hs).1,
                    fun hs => (g1 hs).2, ?_, hval⟩
                  · intro old ho hvo
                    simp only [St.req, storedBlocks, ho, hvo, Bool.true_and, decide_eq_true_eq, Tgt.doc] at hrb ⊢
                    omega
                  · simp only [Tgt.Good]
                    unfold loadChildren at hsub
                    cases hd : doc.deleg with
                    | none =>
                      simp only [hd, Prod.mk.injEq, Except.ok.injEq] at hsub
                      simp [hsub.1.1]
                    | some d =>
                      simp only [hd] at hsub
                      exact loadDelegs_ok _ hsub
                · simp at h
    · simp at h

/-! ### The whole cycle -/

theorem cycle_ok {root0 : Option Root} {st st' : St} {v : View}
    (h : cycle cfg srv root0 st = (.ok v, st')) :
    ∃ st1 st2 st3, RootOk cfg srv root0 st v.root st1 ∧ TsOk cfg srv v.root st1 v.ts st2 ∧
      SnapOk cfg srv v.root v.ts st2 v.snap st3 ∧ TgtOk cfg srv v.root v.snap st3 v.tgt st' := by
  unfold cycle at h
  split at h
  · simp at h
  · rename_i root st1 h1
    split at h
    · simp at h
    · rename_i ts st2 h2
      split at h
      · simp at h
      · rename_i sn st3 h3
        split at h
        · simp at h
        · rename_i t st4 h4
          simp only [Prod.mk.injEq, Except.ok.injEq] at h
          obtain ⟨rfl, rfl⟩ := h
          exact ⟨st1, st2, st3, loadRoot_ok h1, loadTimestamp_ok h2, loadSnapshot_ok h3, loadTargets_ok h4⟩

end Tough.Client
