import Tough.Model.Client
namespace Tough.Client
end Tough.Client
