import Tough.Model.Publish
import Tough.Proofs.Client
namespace Tough.Publish
open Tough.Sig Tough.Client Tough.Cache

/-! ## A client loads what the editor wrote (C10): lemmas

Part 1: looking things up in the written directory and in the written snapshot. -/

theorem lookup_of_mem_nodup {α β : Type} [BEq α] [LawfulBEq α] (l : List (α × β)) (k : α) (v : β)
    (hn : (l.map (·.1)).Nodup) (hm : (k, v) ∈ l) : l.lookup k = some v := by
  induction l with
  | nil => cases hm
  | cons p rest ih =>
    obtain ⟨a, b⟩ := p
    simp only [List.map_cons, List.nodup_cons] at hn
    by_cases hka : k = a
    · subst hka
      simp only [List.lookup_cons, beq_self_eq_true]
      rcases List.mem_cons.mp hm with h | h
      · cases h; rfl
      · exact absurd (List.mem_map.mpr ⟨(k, v), h, rfl⟩) hn.1
    · have : (k == a) = false := by simpa using hka
      simp only [List.lookup_cons, this]
      rcases List.mem_cons.mp hm with h | h
      · cases h; exact absurd rfl hka
      · exact ih hn.2 h

theorem lookup_none_of_not_mem {α β : Type} [BEq α] [LawfulBEq α] (l : List (α × β)) (k : α)
    (h : k ∉ l.map (·.1)) : l.lookup k = none := by
  induction l with
  | nil => rfl
  | cons p rest ih =>
    obtain ⟨a, b⟩ := p
    simp only [List.map_cons, List.mem_cons, not_or] at h
    have : (k == a) = false := by simpa using h.1
    simp only [List.lookup_cons, this]
    exact ih h.2

mutual
theorem tgtRoleNames_nodes : ∀ t : Tgt, tgtRoleNames t = (tgtNodes t).map (·.1.name)
  | .mk _ c => by simp only [tgtRoleNames, tgtNodes]; exact rolesRoleNames_nodes c
theorem rolesRoleNames_nodes : ∀ rs : Roles, rolesRoleNames rs = (rolesNodes rs).map (·.1.name)
  | .nil => by simp [rolesRoleNames, rolesNodes]
  | .cons r t rest => by
    simp only [rolesRoleNames, rolesNodes, List.map_cons, List.map_append]
    rw [tgtRoleNames_nodes t, rolesRoleNames_nodes rest]
end

variable (ser : Ser) (p : Signed)

theorem snapshot_find_targets :
    (p.snapshot ser).find .targets = some (metaOf ser (Tgt.doc p.tree).version (.targets (Tgt.doc p.tree))) := by
  simp [Signed.snapshot, Snapshot.find, List.lookup_cons]

theorem snapshot_find_role (hn : (tgtRoleNames p.tree).Nodup) (q : DRole × Tgt) (hq : q ∈ tgtNodes p.tree) :
    (p.snapshot ser).find (.role q.1.name) = some (metaOf ser (Tgt.doc q.2).version (.targets (Tgt.doc q.2))) := by
  simp only [Signed.snapshot, Snapshot.find, List.lookup_cons]
  have : (MetaKey.role q.1.name == MetaKey.targets) = false := by simp
  simp only [this]
  apply lookup_of_mem_nodup
  · rw [tgtRoleNames_nodes] at hn
    simp only [List.map_map]
    have hinj : ∀ a b : DRole × Tgt, ((fun x => x.1) ∘ nodeMeta ser) a = ((fun x => x.1) ∘ nodeMeta ser) b → a.1.name = b.1.name := by
      intro a b h
      simpa [nodeMeta] using h
    -- a list whose image under `name` has no duplicates has none under `.role name`
    have key : ∀ l : List (DRole × Tgt), (l.map (·.1.name)).Nodup → (l.map ((fun x => x.1) ∘ nodeMeta ser)).Nodup := by
      intro l
      induction l with
      | nil => intro _; simp
      | cons a rest ih =>
        intro h
        simp only [List.map_cons, List.nodup_cons] at h ⊢
        refine ⟨?_, ih h.2⟩
        intro hm
        obtain ⟨b, hb, e⟩ := List.mem_map.mp hm
        exact h.1 (List.mem_map.mpr ⟨b, hb, (hinj a b e.symm).symm⟩)
    exact key _ hn
  · exact List.mem_map.mpr ⟨q, hq, rfl⟩

/-- the names under which the files are written are pairwise distinct -/
theorem server_keys_nodup (hn : (tgtRoleNames p.tree).Nodup) : ((p.server ser).map (·.1)).Nodup := by
  simp only [Signed.server, List.map_append, List.map_cons, List.map_nil, List.map_map]
  rw [tgtRoleNames_nodes] at hn
  have key : ∀ l : List (DRole × Tgt), (l.map (·.1.name)).Nodup →
      (l.map ((fun x => x.1) ∘ nodeFile ser p.root.consistent)).Nodup ∧
      ∀ f ∈ l.map ((fun x => x.1) ∘ nodeFile ser p.root.consistent), ∃ n v, f = FileName.role n v := by
    intro l
    induction l with
    | nil => intro _; simp
    | cons a rest ih =>
      intro h
      simp only [List.map_cons, List.nodup_cons] at h
      obtain ⟨i1, i2⟩ := ih h.2
      refine ⟨?_, ?_⟩
      · simp only [List.map_cons, List.nodup_cons]
        refine ⟨?_, i1⟩
        intro hm
        obtain ⟨b, hb, e⟩ := List.mem_map.mp hm
        have : b.1.name = a.1.name := by simpa [nodeFile] using congrArg (fun f => match f with | FileName.role n _ => n | _ => 0) e
        exact h.1 (List.mem_map.mpr ⟨b, hb, this⟩)
      · intro f hf
        simp only [List.map_cons, List.mem_cons] at hf
        rcases hf with rfl | hf
        · exact ⟨_, _, rfl⟩
        · exact i2 f hf
  obtain ⟨k1, k2⟩ := key _ hn
  have hno : ∀ f, (∀ n v, f ≠ FileName.role n v) → f ∉ (tgtNodes p.tree).map ((fun x => x.1) ∘ nodeFile ser p.root.consistent) := by
    intro f hf hm
    obtain ⟨n, v, e⟩ := k2 f hm
    exact hf n v e
  simp only [List.cons_append, List.nil_append, List.nodup_cons, List.mem_cons]
  refine ⟨?_, ?_, ?_, ?_, k1⟩
  · rintro (h | h | h | h)
    · cases h
    · cases h
    · cases h
    · exact hno _ (by intro n v h; cases h) h
  · rintro (h | h | h)
    · cases h
    · cases h
    · exact hno _ (by intro n v h; cases h) h
  · rintro (h | h)
    · cases h
    · exact hno _ (by intro n v h; cases h) h
  · exact hno _ (by intro n v h; cases h)

theorem server_get_of_mem (hn : (tgtRoleNames p.tree).Nodup) (f : FileName) (r : Resp) (h : (f, r) ∈ p.server ser) :
    (p.server ser).get f = r := by
  unfold Server.get
  rw [lookup_of_mem_nodup _ f r (server_keys_nodup ser p hn) h]

theorem server_get_timestamp (hn : (tgtRoleNames p.tree).Nodup) :
    (p.server ser).get .timestamp = .file (fileOf ser (.timestamp (p.timestamp ser))) :=
  server_get_of_mem ser p hn _ _ (by simp [Signed.server])

theorem server_get_snapshot (hn : (tgtRoleNames p.tree).Nodup) :
    (p.server ser).get (.snapshot (versioned p.root.consistent p.snapVersion)) = .file (fileOf ser (.snapshot (p.snapshot ser))) :=
  server_get_of_mem ser p hn _ _ (by simp [Signed.server])

theorem server_get_targets (hn : (tgtRoleNames p.tree).Nodup) :
    (p.server ser).get (.targets (versioned p.root.consistent (Tgt.doc p.tree).version)) =
      .file (fileOf ser (.targets (Tgt.doc p.tree))) :=
  server_get_of_mem ser p hn _ _ (by simp [Signed.server])

theorem server_get_role (hn : (tgtRoleNames p.tree).Nodup) (q : DRole × Tgt) (hq : q ∈ tgtNodes p.tree) :
    (p.server ser).get (.role q.1.name (versioned p.root.consistent (Tgt.doc q.2).version)) =
      .file (fileOf ser (.targets (Tgt.doc q.2))) :=
  server_get_of_mem ser p hn _ _ (by
    simp only [Signed.server, List.mem_append, List.mem_map]
    exact Or.inr ⟨q, hq, rfl⟩)

/-- no later root version is written -/
theorem server_get_next_root : (p.server ser).get (.rootV (p.root.version + 1)) = .notFound := by
  unfold Server.get
  rw [lookup_none_of_not_mem]
  simp only [Signed.server, List.map_cons, List.map_map, List.cons_append, List.nil_append,
    List.mem_cons, List.mem_map, Function.comp]
  rintro (h | h | h | h | ⟨q, _, h⟩)
  · simp only [FileName.rootV.injEq] at h; omega
  · cases h
  · cases h
  · cases h
  · simp [nodeFile] at h

end Tough.Publish
