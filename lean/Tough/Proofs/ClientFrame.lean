import Tough.Proofs.Client
namespace Tough.Client
open Tough.Sig

/-! ## Frame lemmas: what each step of a cycle can do to the stored trust state, whatever its outcome -/

/-- the stored trust state: timestamp, snapshot, targets and recorded root -/
def St.trust (st : St) : Slot Timestamp × Slot Snapshot × Slot TargetsDoc × Slot Root :=
  (st.ds.ts, st.ds.snap, st.ds.tgt, st.ds.root)

variable {cfg : Config} {srv : Server}

theorem systemTime_trust (st : St) : (systemTime cfg st).2.trust = st.trust := by
  unfold systemTime
  split
  · split <;> rfl
  · rfl

theorem expiryGate_trust (r : RoleType) (e : Int) (st : St) : (expiryGate cfg r e st).2.trust = st.trust := by
  unfold expiryGate
  split
  · unfold checkExpired
    have := systemTime_trust (cfg := cfg) st
    split
    · rename_i e' st1 h; rw [h] at this; exact this
    · rename_i t st1 h; rw [h] at this; split <;> exact this
  · rfl

theorem rootLoop_trust (v0 fuel : Nat) (r : Root) (st : St) :
    (rootLoop cfg srv v0 fuel r st).2.trust = st.trust := by
  induction fuel generalizing r st with
  | zero => rfl
  | succ n ih =>
    simp only [rootLoop]
    split
    · rfl
    · split
      · rfl
      · rfl
      · rw [ih]; rfl

/-- `load_root`, any outcome: on failure the trust state is untouched -/
theorem loadRoot_err_trust {shipped : Option Root} {st st' : St} {e : Err}
    (h : loadRoot cfg srv shipped st = (.error e, st')) : st'.trust = st.trust := by
  unfold loadRoot at h
  split at h
  · simp only [Prod.mk.injEq] at h; rw [← h.2]
  · rename_i r0
    split at h
    · simp only [Prod.mk.injEq] at h; rw [← h.2]
    · simp only at h
      split at h
      · rename_i e1 st1 hl
        simp only [Prod.mk.injEq] at h
        rw [← h.2]
        have := rootLoop_trust (cfg := cfg) (srv := srv) r0.version (cfg.limits.maxRootUpdates + 1) r0 st
        rw [hl] at this; exact this
      · rename_i r1 st1 hl
        have h1 := rootLoop_trust (cfg := cfg) (srv := srv) r0.version (cfg.limits.maxRootUpdates + 1) r0 st
        rw [hl] at h1
        split at h
        · rename_i e2 st2 hg
          simp only [Prod.mk.injEq] at h
          rw [← h.2]
          have h2 := expiryGate_trust (cfg := cfg) .root r1.expires st1
          rw [hg] at h2
          exact h2.trans h1
        · split at h <;> simp at h

/-- `load_timestamp`, any outcome: only the timestamp slot can change, and only on success -/
theorem loadTimestamp_err_trust {root : Root} {st st' : St} {e : Err}
    (h : loadTimestamp cfg srv root st = (.error e, st')) : st'.trust = st.trust := by
  unfold loadTimestamp at h
  simp only at h
  split at h
  · simp only [Prod.mk.injEq] at h; rw [← h.2]; rfl
  · split at h
    · simp only [Prod.mk.injEq] at h; rw [← h.2]; rfl
    · split at h
      · simp only [Prod.mk.injEq] at h; rw [← h.2]; rfl
      · split at h
        · rename_i e2 st2 hg
          simp only [Prod.mk.injEq] at h
          rw [← h.2]
          have h2 := expiryGate_trust (cfg := cfg) .timestamp (by assumption : Timestamp).expires (st.req .timestamp cfg.limits.maxTimestampSize)
          rw [hg] at h2
          exact h2
        · simp at h
  · simp only [Prod.mk.injEq] at h; rw [← h.2]; rfl

theorem loadTimestamp_ok_root {root : Root} {st st' : St} {ts : Timestamp}
    (h : loadTimestamp cfg srv root st = (.ok ts, st')) : st'.ds.root = st.ds.root := by
  unfold loadTimestamp at h
  simp only at h
  split at h
  · simp at h
  · split at h
    · simp at h
    · split at h
      · simp at h
      · split at h
        · simp at h
        · rename_i st2 hg
          simp only [Prod.mk.injEq, Except.ok.injEq] at h
          rw [← h.2]
          have h2 := expiryGate_trust (cfg := cfg) .timestamp (by assumption : Timestamp).expires (st.req .timestamp cfg.limits.maxTimestampSize)
          rw [hg] at h2
          exact congrArg (·.2.2.2) h2
  · simp at h

/-- `load_snapshot`, any outcome: timestamp slot and recorded root are never touched -/
theorem loadSnapshot_keeps {root : Root} {ts : Timestamp} (st : St) :
    (loadSnapshot cfg srv root ts st).2.ds.ts = st.ds.ts ∧
    (loadSnapshot cfg srv root ts st).2.ds.root = st.ds.root ∧
    (loadSnapshot cfg srv root ts st).2.ds.tgt = st.ds.tgt := by
  unfold loadSnapshot
  split
  · exact ⟨rfl, rfl, rfl⟩
  · rename_i m hm
    simp only
    split
    · exact ⟨rfl, rfl, rfl⟩
    · rename_i sn hf
      split
      · exact ⟨rfl, rfl, rfl⟩
      · split
        · exact ⟨rfl, rfl, rfl⟩
        · split
          · exact ⟨rfl, rfl, rfl⟩
          · have h2 := expiryGate_trust (cfg := cfg) .snapshot sn.expires
              (st.req (.snapshot (versioned root.consistent m.version)) (m.length.getD cfg.limits.maxSnapshotSize))
            split
            · rename_i e st1 hg
              rw [hg] at h2
              exact ⟨congrArg (·.1) h2, congrArg (·.2.2.2) h2, congrArg (·.2.2.1) h2⟩
            · rename_i st1 hg
              rw [hg] at h2
              exact ⟨congrArg (·.1) h2, congrArg (·.2.2.2) h2, congrArg (·.2.2.1) h2⟩
    · exact ⟨rfl, rfl, rfl⟩

theorem loadSnapshot_err_snap {root : Root} {ts : Timestamp} {st st' : St} {e : Err}
    (h : loadSnapshot cfg srv root ts st = (.error e, st')) : st'.ds.snap = st.ds.snap := by
  unfold loadSnapshot at h
  split at h
  · simp only [Prod.mk.injEq] at h; rw [← h.2]
  · rename_i m hm
    simp only at h
    split at h
    · simp only [Prod.mk.injEq] at h; rw [← h.2]; rfl
    · rename_i sn hf
      split at h
      · simp only [Prod.mk.injEq] at h; rw [← h.2]; rfl
      · split at h
        · simp only [Prod.mk.injEq] at h; rw [← h.2]; rfl
        · split at h
          · simp only [Prod.mk.injEq] at h; rw [← h.2]; rfl
          · have h2 := expiryGate_trust (cfg := cfg) .snapshot sn.expires
              (st.req (.snapshot (versioned root.consistent m.version)) (m.length.getD cfg.limits.maxSnapshotSize))
            split at h
            · rename_i e1 st1 hg
              rw [hg] at h2
              simp only [Prod.mk.injEq] at h
              rw [← h.2]
              exact congrArg (·.2.1) h2
            · simp at h
    · simp only [Prod.mk.injEq] at h; rw [← h.2]; rfl

/-! delegations never touch the four slots -/

theorem fetchRoles_trust {snap : Snapshot} {cs : Bool} (d : Deleg) (roles : List DRole) (visited : List Nat) (st : St) :
    (fetchRoles cfg srv snap cs d roles visited st).2.trust = st.trust := by
  induction roles generalizing visited st with
  | nil => rfl
  | cons r rest ih =>
    simp only [fetchRoles]
    split
    · rfl
    · rename_i m hm
      split
      · rfl
      · split
        · rfl
        · split
          · rfl
          · split
            · rfl
            · have := ih (r.name :: visited)
                { ds := (st.req (.role r.name (versioned cs m.version)) (m.length.getD cfg.limits.maxTargetsSize)).ds,
                  log := .dsCreate "role" (st.req (.role r.name (versioned cs m.version)) (m.length.getD cfg.limits.maxTargetsSize)).ds :: (st.req (.role r.name (versioned cs m.version)) (m.length.getD cfg.limits.maxTargetsSize)).log }
              split
              · rename_i heq; rw [heq] at this; exact this
              · rename_i heq; rw [heq] at this; exact this
        · rfl

theorem attachRoles_trust (recur : Deleg → List Nat → St → Except Err (Roles × List Nat) × St)
    (hrec : ∀ d v s, (recur d v s).2.trust = s.trust) (loaded : List (DRole × TargetsDoc)) (visited : List Nat) (st : St) :
    (attachRoles recur loaded visited st).2.trust = st.trust := by
  induction loaded generalizing visited st with
  | nil => rfl
  | cons p rest ih =>
    obtain ⟨r, doc⟩ := p
    simp only [attachRoles]
    cases hd : doc.deleg with
    | none =>
      simp only
      have := ih visited st
      split
      · rename_i heq; rw [heq] at this; exact this
      · rename_i heq; rw [heq] at this; exact this
    | some d' =>
      simp only
      have h1 := hrec d' visited st
      split
      · rename_i heq; rw [heq] at h1; exact h1
      · rename_i children vis1 st1 heq
        rw [heq] at h1
        have := ih vis1 st1
        split
        · rename_i heq2; rw [heq2] at this; exact this.trans h1
        · rename_i heq2; rw [heq2] at this; exact this.trans h1

theorem loadDelegs_trust {snap : Snapshot} {cs : Bool} (fuel : Nat) : ∀ (d : Deleg) (visited : List Nat) (st : St),
    (loadDelegs cfg srv snap cs fuel d visited st).2.trust = st.trust := by
  induction fuel with
  | zero => intro d v st; rfl
  | succ n ih =>
    intro d visited st
    simp only [loadDelegs]
    have h1 := fetchRoles_trust (cfg := cfg) (srv := srv) (snap := snap) (cs := cs) d d.roles visited st
    split
    · rename_i heq; rw [heq] at h1; exact h1
    · rename_i loaded vis1 st1 heq
      rw [heq] at h1
      exact (attachRoles_trust _ ih loaded vis1 st1).trans h1

end Tough.Client

namespace Tough.Client
open Tough.Sig
variable {cfg : Config} {srv : Server}

/-- `load_targets`, any outcome: timestamp, snapshot and recorded root are never touched; the targets
slot is either untouched or now holds a document that verifies under the current root and was not
blocked by the one stored before -/
theorem loadTargets_keeps {root : Root} {snap : Snapshot} (st : St) :
    (loadTargets cfg srv root snap st).2.ds.ts = st.ds.ts ∧
    (loadTargets cfg srv root snap st).2.ds.snap = st.ds.snap ∧
    (loadTargets cfg srv root snap st).2.ds.root = st.ds.root ∧
    ((loadTargets cfg srv root snap st).2.ds.tgt = st.ds.tgt ∨
      ∃ doc, (loadTargets cfg srv root snap st).2.ds.tgt = .doc doc ∧
        rootVerify root .targets doc.msg doc.sigs = true ∧
        storedBlocks (fun old => rootVerify root .targets old.msg old.sigs) (·.version) st.ds.tgt doc.version = false) := by
  unfold loadTargets
  split
  · exact ⟨rfl, rfl, rfl, Or.inl rfl⟩
  · rename_i m hm
    simp only
    split
    · exact ⟨rfl, rfl, rfl, Or.inl rfl⟩
    · rename_i doc hf
      split
      · exact ⟨rfl, rfl, rfl, Or.inl rfl⟩
      · split
        · exact ⟨rfl, rfl, rfl, Or.inl rfl⟩
        · rename_i hv
          split
          · exact ⟨rfl, rfl, rfl, Or.inl rfl⟩
          · rename_i hb
            have h2 := expiryGate_trust (cfg := cfg) .targets doc.expires
              (st.req (.targets (versioned root.consistent m.version)) (m.length.getD cfg.limits.maxTargetsSize))
            split
            · rename_i e st1 hg
              rw [hg] at h2
              exact ⟨congrArg (·.1) h2, congrArg (·.2.1) h2, congrArg (·.2.2.2) h2, Or.inl (congrArg (·.2.2.1) h2)⟩
            · rename_i st1 hg
              rw [hg] at h2
              have e1 : st1.ds.ts = st.ds.ts := congrArg (·.1) h2
              have e2 : st1.ds.snap = st.ds.snap := congrArg (·.2.1) h2
              have e3 : st1.ds.root = st.ds.root := congrArg (·.2.2.2) h2
              -- the state after `datastore.create("targets.json")`
              have key : ∀ (out : Except Err (Roles × List Nat) × St),
                  out.2.trust = (st1.ds.ts, st1.ds.snap, Slot.doc doc, st1.ds.root) →
                  ∀ (fin : Except Err Tgt × St), fin.2 = out.2 →
                  fin.2.ds.ts = st.ds.ts ∧ fin.2.ds.snap = st.ds.snap ∧ fin.2.ds.root = st.ds.root ∧
                  (fin.2.ds.tgt = st.ds.tgt ∨ ∃ d, fin.2.ds.tgt = .doc d ∧ rootVerify root .targets d.msg d.sigs = true ∧
                    storedBlocks (fun old => rootVerify root .targets old.msg old.sigs) (·.version) st.ds.tgt d.version = false) := by
                intro out ho fin hfin
                rw [hfin]
                have a1 : out.2.ds.ts = st1.ds.ts := congrArg (·.1) ho
                have a2 : out.2.ds.snap = st1.ds.snap := congrArg (·.2.1) ho
                have a3 : out.2.ds.tgt = .doc doc := congrArg (·.2.2.1) ho
                have a4 : out.2.ds.root = st1.ds.root := congrArg (·.2.2.2) ho
                refine ⟨a1.trans e1, a2.trans e2, a4.trans e3, Or.inr ⟨doc, a3, by simpa using hv, ?_⟩⟩
                simpa [St.req] using hb
              have hsub : ∀ s : St, (loadChildren cfg srv snap root.consistent doc s).2.trust = s.trust := by
                intro s
                unfold loadChildren
                cases doc.deleg with
                | none => rfl
                | some d => exact loadDelegs_trust _ d [] s
              have ht := hsub { ds := { st1.ds with tgt := .doc doc }, log := .dsCreate "targets" { st1.ds with tgt := .doc doc } :: st1.log }
              dsimp only at ht
              split
              · rename_i e st2 heq
                rw [heq] at ht
                exact key (.error e, st2) ht _ rfl
              · rename_i ch vis st2 heq
                rw [heq] at ht
                split
                · exact key (.ok (ch, vis), st2) ht _ rfl
                · exact key (.ok (ch, vis), st2) ht _ rfl
    · exact ⟨rfl, rfl, rfl, Or.inl rfl⟩

end Tough.Client

namespace Tough.Client
open Tough.Sig
variable {cfg : Config} {srv : Server}

theorem loadTargets_ok_stored {root : Root} {snap : Snapshot} {st st' : St} {t : Tgt}
    (h : loadTargets cfg srv root snap st = (.ok t, st')) : st'.ds.tgt = .doc (Tgt.doc t) := by
  unfold loadTargets at h
  split at h
  · simp at h
  · rename_i m hm
    simp only at h
    split at h
    · simp at h
    · rename_i doc hf
      split at h
      · simp at h
      · split at h
        · simp at h
        · split at h
          · simp at h
          · split at h
            · simp at h
            · rename_i st1 hg
              have hsub : ∀ s : St, (loadChildren cfg srv snap root.consistent doc s).2.trust = s.trust := by
                intro s
                unfold loadChildren
                cases doc.deleg with
                | none => rfl
                | some d => exact loadDelegs_trust _ d [] s
              have ht := hsub { ds := { st1.ds with tgt := .doc doc }, log := .dsCreate "targets" { st1.ds with tgt := .doc doc } :: st1.log }
              dsimp only at ht
              split at h
              · simp at h
              · rename_i ch vis st2 heq
                rw [heq] at ht
                split at h
                · simp only [Prod.mk.injEq, Except.ok.injEq] at h
                  obtain ⟨rfl, rfl⟩ := h
                  exact congrArg (·.2.2.1) ht
                · simp at h
    · simp at h

theorem snapshotRollback_none {old new : Snapshot} (h : snapshotRollback old new = none) :
    old.version ≤ new.version ∧
    ∀ m, old.find .targets = some m → ∃ m', new.find .targets = some m' ∧ m.version ≤ m'.version := by
  unfold snapshotRollback at h
  split at h
  · simp at h
  · rename_i hv
    refine ⟨by omega, ?_⟩
    intro m hm
    rw [hm] at h
    simp only at h
    split at h
    · simp at h
    · rename_i nm hnm
      split at h
      · simp at h
      · exact ⟨nm, hnm, by omega⟩

end Tough.Client
