import Tough.Proofs.Client
namespace Tough.Client
open Tough.Sig

/-! ## Bounded work: requests for delegated roles -/

/-- the role names the snapshot lists -/
def roleNames (snap : Snapshot) : List Nat :=
  snap.metas.filterMap fun e => match e.1 with | .role n => some n | .targets => none

/-- how many listed role names have not been fetched yet -/
def budget (snap : Snapshot) (visited : List Nat) : Nat :=
  ((dedup (roleNames snap)).filter fun n => !visited.contains n).length

theorem lookup_mem {α β} [BEq α] [LawfulBEq α] {l : List (α × β)} {k : α} {v : β}
    (h : l.lookup k = some v) : (k, v) ∈ l := by
  induction l with
  | nil => simp [List.lookup] at h
  | cons x xs ih =>
    obtain ⟨a, b⟩ := x
    simp only [List.lookup] at h
    split at h
    · rename_i heq
      simp only [beq_iff_eq] at heq
      simp only [Option.some.injEq] at h
      subst heq; subst h
      exact List.mem_cons_self
    · exact List.mem_cons_of_mem _ (ih h)

theorem find_role_mem {snap : Snapshot} {n : Nat} {m : Meta} (h : snap.find (.role n) = some m) :
    n ∈ roleNames snap := by
  unfold Snapshot.find at h
  have := lookup_mem h
  simp only [roleNames, List.mem_filterMap]
  exact ⟨(.role n, m), this, rfl⟩

theorem filter_remove_one (l : List Nat) (p : Nat → Bool) (n : Nat) (hn : n ∈ l) (hp : p n = true)
    (hnd : l.Nodup) : (l.filter fun x => p x && !(x == n)).length + 1 = (l.filter p).length := by
  induction l with
  | nil => cases hn
  | cons a as ih =>
    have hnd' := List.nodup_cons.mp hnd
    by_cases ha : a = n
    · subst ha
      have hnot : a ∉ as := hnd'.1
      have : (as.filter fun x => p x && !(x == a)) = as.filter p := by
        apply List.filter_congr
        intro x hx
        have : x ≠ a := fun h => hnot (h ▸ hx)
        simp [this]
      simp [List.filter_cons, hp, this]
    · have hn' : n ∈ as := by
        rcases List.mem_cons.mp hn with h | h
        · exact absurd h.symm ha
        · exact h
      have := ih hn' hnd'.2
      have hbeq : (a == n) = false := by simp [ha]
      by_cases hpa : p a = true
      · simp only [List.filter_cons, hpa, hbeq, Bool.not_false, Bool.and_self, ↓reduceIte,
          List.length_cons]
        omega
      · simp only [List.filter_cons, hpa, Bool.false_and, Bool.false_eq_true, ↓reduceIte]
        exact this

theorem budget_cons {snap : Snapshot} {visited : List Nat} {n : Nat} (hn : n ∈ roleNames snap)
    (hv : visited.contains n = false) : budget snap (n :: visited) + 1 = budget snap visited := by
  unfold budget
  have h1 := filter_remove_one (dedup (roleNames snap)) (fun x => !visited.contains x) n
    (mem_dedup.mpr hn) (by show (!visited.contains n) = true; rw [hv]; rfl) (nodup_dedup _)
  rw [← h1]
  congr 2
  apply List.filter_congr
  intro x _
  simp only [List.contains_cons, Bool.not_or]
  rw [Bool.and_comm]

theorem reqs_log_nonreq (st : St) (ds a : Datastore) (s : String) :
    ({ ds := ds, log := .dsCreate s a :: st.log } : St).reqs = st.reqs := by
  simp [St.reqs, List.filterMap_cons]

variable {cfg : Config} {srv : Server} {snap : Snapshot} {consistent : Bool}

/-- outcome contract shared by `fetchRoles`, `attachRoles` and `loadDelegs`: requests are paid for
out of the budget of not-yet-fetched listed role names -/
def Paid (snap : Snapshot) {α : Type} (visited : List Nat) (st : St)
    (out : Except Err (α × List Nat) × St) : Prop :=
  match out with
  | (.ok (_, visited'), st') => st'.reqs.length + budget snap visited' ≤ st.reqs.length + budget snap visited
  | (.error _, st') => st'.reqs.length ≤ st.reqs.length + budget snap visited

theorem fetchRoles_paid (d : Deleg) (roles : List DRole) :
    ∀ (visited : List Nat) (st : St),
      Paid snap visited st (fetchRoles cfg srv snap consistent d roles visited st) ∧
      (∀ loaded visited' st', fetchRoles cfg srv snap consistent d roles visited st = (.ok (loaded, visited'), st') →
        budget snap visited' + loaded.length ≤ budget snap visited) := by
  induction roles with
  | nil =>
    intro visited st
    refine ⟨by simp [fetchRoles, Paid], ?_⟩
    intro l v s h
    simp only [fetchRoles, Prod.mk.injEq, Except.ok.injEq] at h
    obtain ⟨⟨rfl, rfl⟩, rfl⟩ := h
    simp
  | cons r rest ih =>
    intro visited st
    simp only [fetchRoles]
    split
    · exact ⟨by simp [Paid], fun _ _ _ hh => by simp at hh⟩
    · rename_i m hm
      have hmem := find_role_mem hm
      split
      · exact ⟨by simp [Paid], fun _ _ _ hh => by simp at hh⟩
      · rename_i hvis
        have hvis' : visited.contains r.name = false := by simpa using hvis
        have hb := budget_cons hmem hvis'
        split
        · refine ⟨?_, fun _ _ _ hh => by simp at hh⟩
          simp only [Paid, reqs_req, List.length_cons]
          omega
        · rename_i doc hf
          split
          · refine ⟨?_, fun _ _ _ hh => by simp at hh⟩
            simp only [Paid, reqs_req, List.length_cons]
            omega
          · split
            · refine ⟨?_, fun _ _ _ hh => by simp at hh⟩
              simp only [Paid, reqs_req, List.length_cons]
              omega
            · obtain ⟨ih1, ih2⟩ := ih (r.name :: visited)
                { ds := (st.req (.role r.name (versioned consistent m.version)) (m.length.getD cfg.limits.maxTargetsSize)).ds,
                  log := .dsCreate "role" (st.req (.role r.name (versioned consistent m.version)) (m.length.getD cfg.limits.maxTargetsSize)).ds :: (st.req (.role r.name (versioned consistent m.version)) (m.length.getD cfg.limits.maxTargetsSize)).log }
              split
              · rename_i e st2 hrec
                rw [hrec] at ih1
                simp only [Paid, reqs_log_nonreq, reqs_req, List.length_cons] at ih1
                refine ⟨?_, fun _ _ _ hh => by simp at hh⟩
                simp only [Paid]
                omega
              · rename_i more vis2 st2 hrec
                have i2 := ih2 more vis2 st2 hrec
                rw [hrec] at ih1
                simp only [Paid, reqs_log_nonreq, reqs_req, List.length_cons] at ih1
                refine ⟨?_, ?_⟩
                · simp only [Paid]; omega
                · intro loaded visited' st' heq
                  simp only [Prod.mk.injEq, Except.ok.injEq] at heq
                  obtain ⟨⟨rfl, rfl⟩, rfl⟩ := heq
                  simp only [List.length_cons]; omega
        · refine ⟨?_, fun _ _ _ hh => by simp at hh⟩
          simp only [Paid, reqs_req, List.length_cons]
          omega

/-- budget never grows along a successful step -/
def Shrinks (snap : Snapshot) {α : Type} (visited : List Nat) (out : Except Err (α × List Nat) × St) : Prop :=
  match out with
  | (.ok (_, visited'), _) => budget snap visited' ≤ budget snap visited
  | _ => True

theorem attachRoles_paid
    (recur : Deleg → List Nat → St → Except Err (Roles × List Nat) × St)
    (hrec : ∀ d v s, Paid snap v s (recur d v s) ∧ Shrinks snap v (recur d v s))
    (loaded : List (DRole × TargetsDoc)) :
    ∀ (visited : List Nat) (st : St),
      Paid snap visited st (attachRoles recur loaded visited st) ∧
      Shrinks snap visited (attachRoles recur loaded visited st) := by
  induction loaded with
  | nil => intro visited st; simp [attachRoles, Paid, Shrinks]
  | cons p rest ih =>
    obtain ⟨r, doc⟩ := p
    intro visited st
    simp only [attachRoles]
    have hsub : ∀ (sub : Except Err (Roles × List Nat) × St),
        (Paid snap visited st sub ∧ Shrinks snap visited sub) →
        Paid snap visited st
          (match sub with
            | (.error e, st) => (.error e, st)
            | (.ok (children, visited), st) =>
              match attachRoles recur rest visited st with
              | (.error e, st) => (.error e, st)
              | (.ok (more, visited), st) => (.ok (Roles.cons r (Tgt.mk doc children) more, visited), st)) ∧
        Shrinks snap visited
          (match sub with
            | (.error e, st) => (.error e, st)
            | (.ok (children, visited), st) =>
              match attachRoles recur rest visited st with
              | (.error e, st) => (.error e, st)
              | (.ok (more, visited), st) => (.ok (Roles.cons r (Tgt.mk doc children) more, visited), st)) := by
      intro sub ⟨hp, hs⟩
      obtain ⟨res, st1⟩ := sub
      cases res with
      | error e => exact ⟨by simpa [Paid] using hp, by simp [Shrinks]⟩
      | ok pr =>
        obtain ⟨children, vis1⟩ := pr
        simp only [Paid, Shrinks] at hp hs
        obtain ⟨i1, i2⟩ := ih vis1 st1
        simp only
        split
        · rename_i e st2 heq
          rw [heq] at i1
          simp only [Paid] at i1 ⊢
          exact ⟨by omega, by simp [Shrinks]⟩
        · rename_i more vis2 st2 heq
          rw [heq] at i1 i2
          simp only [Paid, Shrinks] at i1 i2 ⊢
          exact ⟨by omega, by omega⟩
    cases hd : doc.deleg with
    | none =>
      simp only [hd]
      exact hsub (.ok (.nil, visited), st) ⟨by simp [Paid], by simp [Shrinks]⟩
    | some d' =>
      simp only [hd]
      exact hsub (recur d' visited st) (hrec d' visited st)

theorem loadDelegs_paid (fuel : Nat) : ∀ (d : Deleg) (visited : List Nat) (st : St),
    Paid snap visited st (loadDelegs cfg srv snap consistent fuel d visited st) ∧
    Shrinks snap visited (loadDelegs cfg srv snap consistent fuel d visited st) := by
  induction fuel with
  | zero => intro d v st; simp [loadDelegs, Paid, Shrinks]
  | succ n ih =>
    intro d visited st
    simp only [loadDelegs]
    obtain ⟨f1, f2⟩ := fetchRoles_paid (cfg := cfg) (srv := srv) (snap := snap) (consistent := consistent) d d.roles visited st
    split
    · rename_i e st1 heq
      rw [heq] at f1
      exact ⟨by simpa [Paid] using f1, by simp [Shrinks]⟩
    · rename_i loaded vis1 st1 heq
      rw [heq] at f1
      have f2' := f2 loaded vis1 st1 heq
      simp only [Paid] at f1
      obtain ⟨a1, a2⟩ := attachRoles_paid (snap := snap) (loadDelegs cfg srv snap consistent n) ih loaded vis1 st1
      generalize attachRoles (loadDelegs cfg srv snap consistent n) loaded vis1 st1 = out at a1 a2
      obtain ⟨res, st2⟩ := out
      cases res with
      | error e => simp only [Paid, Shrinks] at a1 ⊢; exact ⟨by omega, trivial⟩
      | ok pr =>
        obtain ⟨rs, vis2⟩ := pr
        simp only [Paid, Shrinks] at a1 a2 ⊢
        exact ⟨by omega, by omega⟩

/-! ### the recursion fuel is never exhausted -/

theorem attachRoles_no_fuel
    (recur : Deleg → List Nat → St → Except Err (Roles × List Nat) × St) (fuel : Nat)
    (hrec : ∀ d v s, Paid snap v s (recur d v s) ∧ Shrinks snap v (recur d v s))
    (hfuel : ∀ d v s s', budget snap v < fuel → recur d v s ≠ (.error .fuel, s'))
    (loaded : List (DRole × TargetsDoc)) :
    ∀ (visited : List Nat) (st st' : St), budget snap visited < fuel →
      attachRoles recur loaded visited st ≠ (.error .fuel, st') := by
  induction loaded with
  | nil => intro v st st' _ h; simp [attachRoles] at h
  | cons p rest ih =>
    obtain ⟨r, doc⟩ := p
    intro visited st st' hb h
    simp only [attachRoles] at h
    cases hd : doc.deleg with
    | none =>
      simp only [hd] at h
      split at h
      · rename_i e st2 heq
        simp only [Prod.mk.injEq, Except.error.injEq] at h
        exact ih visited st st2 hb (by rw [heq, h.1])
      · simp at h
    | some d' =>
      simp only [hd] at h
      obtain ⟨_, hs⟩ := hrec d' visited st
      split at h
      · rename_i e st1 heq
        simp only [Prod.mk.injEq, Except.error.injEq] at h
        exact hfuel d' visited st st1 hb (by rw [heq, h.1])
      · rename_i children vis1 st1 heq
        rw [heq] at hs
        simp only [Shrinks] at hs
        split at h
        · rename_i e st2 heq2
          simp only [Prod.mk.injEq, Except.error.injEq] at h
          exact ih vis1 st1 st2 (by omega) (by rw [heq2, h.1])
        · simp at h

theorem fetchRoles_no_fuel (d : Deleg) (roles : List DRole) :
    ∀ (visited : List Nat) (st st' : St),
      fetchRoles cfg srv snap consistent d roles visited st ≠ (.error .fuel, st') := by
  induction roles with
  | nil => intro v st st' h; simp [fetchRoles] at h
  | cons r rest ih =>
    intro visited st st' h
    simp only [fetchRoles] at h
    split at h
    · simp at h
    · split at h
      · simp at h
      · split at h
        · simp at h
        · split at h
          · simp at h
          · split at h
            · simp at h
            · split at h
              · rename_i e st2 heq
                simp only [Prod.mk.injEq, Except.error.injEq] at h
                exact ih _ _ _ (by rw [heq, h.1])
              · simp at h
        · simp at h

theorem loadDelegs_no_fuel (fuel : Nat) : ∀ (d : Deleg) (visited : List Nat) (st st' : St),
    budget snap visited < fuel →
    loadDelegs cfg srv snap consistent fuel d visited st ≠ (.error .fuel, st') := by
  induction fuel with
  | zero => intro d v st st' h; omega
  | succ n ih =>
    intro d visited st st' hb h
    simp only [loadDelegs] at h
    split at h
    · rename_i e st1 heq
      simp only [Prod.mk.injEq, Except.error.injEq] at h
      exact fetchRoles_no_fuel d d.roles visited st st1 (by rw [heq, h.1])
    · rename_i loaded vis1 st1 heq
      have f2 := (fetchRoles_paid (cfg := cfg) (srv := srv) (snap := snap) (consistent := consistent) d d.roles visited st).2 loaded vis1 st1 heq
      cases loaded with
      | nil => simp [attachRoles] at h
      | cons p rest =>
        simp only [List.length_cons] at f2
        exact attachRoles_no_fuel (snap := snap) (loadDelegs cfg srv snap consistent n) n
          (loadDelegs_paid n) (fun d v s s' hv => ih d v s s' hv) (p :: rest) vis1 st1 st' (by omega) h

theorem budget_le_metas (snap : Snapshot) (visited : List Nat) : budget snap visited ≤ snap.metas.length := by
  unfold budget
  calc _ ≤ (dedup (roleNames snap)).length := List.length_filter_le _ _
    _ ≤ (roleNames snap).length := by
      generalize roleNames snap = l
      induction l with
      | nil => simp [dedup]
      | cons a as ih => simp only [dedup]; split <;> simp <;> omega
    _ ≤ snap.metas.length := List.length_filterMap_le _ _

end Tough.Client
