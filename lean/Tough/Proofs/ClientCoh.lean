import Tough.Proofs.ClientTrace
namespace Tough.Client
open Tough.Sig

/-! ## The datastore changes only through logged operations

`St.states` is complete: at every point of a cycle the current datastore is the state logged by the
last datastore operation (or the initial datastore if there was none).  So the datastores a cycle can
leave behind when it is cut short are exactly the initial one and the members of `states`. -/

/-- one step either leaves datastore and history alone, or ends with the datastore it logged last -/
def Tracked (st st' : St) : Prop :=
  (st'.ds = st.ds ∧ st'.states = st.states) ∨ st'.states.head? = some st'.ds

theorem Tracked.refl (st : St) : Tracked st st := Or.inl ⟨rfl, rfl⟩

theorem Tracked.trans {a b c : St} (h1 : Tracked a b) (h2 : Tracked b c) : Tracked a c := by
  rcases h2 with ⟨e1, e2⟩ | h
  · rcases h1 with ⟨f1, f2⟩ | h
    · exact Or.inl ⟨e1.trans f1, e2.trans f2⟩
    · exact Or.inr (by rw [e2, e1]; exact h)
  · exact Or.inr h

theorem tracked_req (st : St) (f : FileName) (n : Nat) : Tracked st (st.req f n) := Or.inl ⟨rfl, by simp⟩

/-- the current datastore is the last logged state, or the initial one -/
def Coh (ds0 : Datastore) (st : St) : Prop := st.ds = st.states.head?.getD ds0

theorem Coh.step {ds0 : Datastore} {a b : St} (h : Coh ds0 a) (t : Tracked a b) : Coh ds0 b := by
  rcases t with ⟨e1, e2⟩ | e
  · unfold Coh; rw [e1, e2]; exact h
  · unfold Coh; rw [e]; rfl

variable {cfg : Config} {srv : Server}

theorem systemTime_tracked (st : St) : Tracked st (systemTime cfg st).2 := by
  unfold systemTime
  split
  · split
    · exact Tracked.refl _
    · exact Or.inr rfl
  · exact Or.inr rfl

theorem expiryGate_tracked (r : RoleType) (e : Int) (st : St) : Tracked st (expiryGate cfg r e st).2 := by
  unfold expiryGate
  split
  · unfold checkExpired
    have := systemTime_tracked (cfg := cfg) st
    split
    · rename_i e' st1 h; rw [h] at this; exact this
    · rename_i t st1 h; rw [h] at this; split <;> exact this
  · exact Tracked.refl _

theorem rootLoop_tracked (v0 fuel : Nat) (r : Root) (st : St) : Tracked st (rootLoop cfg srv v0 fuel r st).2 := by
  induction fuel generalizing r st with
  | zero => exact Tracked.refl _
  | succ n ih =>
    simp only [rootLoop]
    split
    · exact Tracked.refl _
    · split
      · exact tracked_req _ _ _
      · exact tracked_req _ _ _
      · exact (tracked_req _ _ _).trans (ih _ _)

theorem loadRoot_tracked (shipped : Option Root) (st : St) : Tracked st (loadRoot cfg srv shipped st).2 := by
  unfold loadRoot
  split
  · exact Tracked.refl _
  · rename_i r0
    split
    · exact Tracked.refl _
    · simp only
      have hl := rootLoop_tracked (cfg := cfg) (srv := srv) r0.version (cfg.limits.maxRootUpdates + 1) r0 st
      split
      · rename_i e1 st1 h1; rw [h1] at hl; exact hl
      · rename_i r1 st1 h1
        rw [h1] at hl
        have hg := hl.trans (expiryGate_tracked (cfg := cfg) .root r1.expires st1)
        split
        · rename_i e2 st2 h2; rw [h2] at hg; exact hg
        · split
          · exact Or.inr rfl
          · exact Or.inr rfl

theorem loadTimestamp_tracked (root : Root) (st : St) : Tracked st (loadTimestamp cfg srv root st).2 := by
  unfold loadTimestamp
  simp only
  split
  · exact tracked_req _ _ _
  · rename_i ts hf
    split
    · exact tracked_req _ _ _
    · split
      · exact tracked_req _ _ _
      · have hg := (tracked_req st .timestamp cfg.limits.maxTimestampSize).trans
          (expiryGate_tracked (cfg := cfg) .timestamp ts.expires (st.req .timestamp cfg.limits.maxTimestampSize))
        split
        · rename_i e st1 h1; rw [h1] at hg; exact hg
        · exact Or.inr rfl
  · exact tracked_req _ _ _

theorem loadSnapshot_tracked (root : Root) (ts : Timestamp) (st : St) : Tracked st (loadSnapshot cfg srv root ts st).2 := by
  unfold loadSnapshot
  split
  · exact Tracked.refl _
  · rename_i m hm
    simp only
    split
    · exact tracked_req _ _ _
    · rename_i sn hf
      split
      · exact tracked_req _ _ _
      · split
        · exact tracked_req _ _ _
        · split
          · exact tracked_req _ _ _
          · have hg := (tracked_req st (.snapshot (versioned root.consistent m.version)) (m.length.getD cfg.limits.maxSnapshotSize)).trans
              (expiryGate_tracked (cfg := cfg) .snapshot sn.expires
                (st.req (.snapshot (versioned root.consistent m.version)) (m.length.getD cfg.limits.maxSnapshotSize)))
            split
            · rename_i e st1 h1; rw [h1] at hg; exact hg
            · exact Or.inr rfl
    · exact tracked_req _ _ _

theorem fetchRoles_tracked {snap : Snapshot} {cs : Bool} (d : Deleg) (roles : List DRole) (visited : List Nat) (st : St) :
    Tracked st (fetchRoles cfg srv snap cs d roles visited st).2 := by
  induction roles generalizing visited st with
  | nil => exact Tracked.refl _
  | cons r rest ih =>
    simp only [fetchRoles]
    split
    · exact Tracked.refl _
    · rename_i m hm
      split
      · exact Tracked.refl _
      · split
        · exact tracked_req _ _ _
        · split
          · exact tracked_req _ _ _
          · split
            · exact tracked_req _ _ _
            · have h0 : Tracked st
                  { ds := (st.req (.role r.name (versioned cs m.version)) (m.length.getD cfg.limits.maxTargetsSize)).ds,
                    log := .dsCreate "role" (st.req (.role r.name (versioned cs m.version)) (m.length.getD cfg.limits.maxTargetsSize)).ds :: (st.req (.role r.name (versioned cs m.version)) (m.length.getD cfg.limits.maxTargetsSize)).log } :=
                Or.inr rfl
              have := h0.trans (ih (r.name :: visited) _)
              split
              · rename_i heq; rw [heq] at this; exact this
              · rename_i heq; rw [heq] at this; exact this
        · exact tracked_req _ _ _

theorem attachRoles_tracked (recur : Deleg → List Nat → St → Except Err (Roles × List Nat) × St)
    (hrec : ∀ d v s, Tracked s (recur d v s).2)
    (loaded : List (DRole × TargetsDoc)) (visited : List Nat) (st : St) :
    Tracked st (attachRoles recur loaded visited st).2 := by
  induction loaded generalizing visited st with
  | nil => exact Tracked.refl _
  | cons p rest ih =>
    obtain ⟨r, doc⟩ := p
    simp only [attachRoles]
    cases hd : doc.deleg with
    | none =>
      simp only
      have := ih visited st
      split
      · rename_i heq; rw [heq] at this; exact this
      · rename_i heq; rw [heq] at this; exact this
    | some d' =>
      simp only
      have h1 := hrec d' visited st
      split
      · rename_i heq; rw [heq] at h1; exact h1
      · rename_i children vis1 st1 heq
        rw [heq] at h1
        have := h1.trans (ih vis1 st1)
        split
        · rename_i heq2; rw [heq2] at this; exact this
        · rename_i heq2; rw [heq2] at this; exact this

theorem loadDelegs_tracked {snap : Snapshot} {cs : Bool} (fuel : Nat) : ∀ (d : Deleg) (visited : List Nat) (st : St),
    Tracked st (loadDelegs cfg srv snap cs fuel d visited st).2 := by
  induction fuel with
  | zero => intro d v st; exact Tracked.refl _
  | succ n ih =>
    intro d visited st
    simp only [loadDelegs]
    have h1 := fetchRoles_tracked (cfg := cfg) (srv := srv) (snap := snap) (cs := cs) d d.roles visited st
    split
    · rename_i heq; rw [heq] at h1; exact h1
    · rename_i loaded vis1 st1 heq
      rw [heq] at h1
      exact h1.trans (attachRoles_tracked _ ih loaded vis1 st1)

theorem loadTargets_tracked (root : Root) (snap : Snapshot) (st : St) : Tracked st (loadTargets cfg srv root snap st).2 := by
  unfold loadTargets
  split
  · exact Tracked.refl _
  · rename_i m hm
    simp only
    split
    · exact tracked_req _ _ _
    · rename_i doc hf
      split
      · exact tracked_req _ _ _
      · split
        · exact tracked_req _ _ _
        · split
          · exact tracked_req _ _ _
          · have hg := (tracked_req st (.targets (versioned root.consistent m.version)) (m.length.getD cfg.limits.maxTargetsSize)).trans
              (expiryGate_tracked (cfg := cfg) .targets doc.expires
                (st.req (.targets (versioned root.consistent m.version)) (m.length.getD cfg.limits.maxTargetsSize)))
            split
            · rename_i e st1 h1; rw [h1] at hg; exact hg
            · rename_i st1 h1
              have h2 : Tracked st { ds := { st1.ds with tgt := .doc doc }, log := .dsCreate "targets" { st1.ds with tgt := .doc doc } :: st1.log } :=
                Or.inr rfl
              have hsub : ∀ s : St, Tracked s (loadChildren cfg srv snap root.consistent doc s).2 := by
                intro s
                unfold loadChildren
                cases doc.deleg with
                | none => exact Tracked.refl _
                | some d => exact loadDelegs_tracked _ d [] s
              have h3 := h2.trans (hsub _)
              split
              · rename_i e st2 heq; rw [heq] at h3; exact h3
              · rename_i ch vis st2 heq
                rw [heq] at h3
                split <;> exact h3
    · exact tracked_req _ _ _

theorem cycle_tracked (shipped : Option Root) (st : St) : Tracked st (cycle cfg srv shipped st).2 := by
  unfold cycle
  have h0 := loadRoot_tracked (cfg := cfg) (srv := srv) shipped st
  split
  · rename_i e s0 heq; rw [heq] at h0; exact h0
  · rename_i root s0 heq
    rw [heq] at h0
    have h1 := h0.trans (loadTimestamp_tracked (cfg := cfg) (srv := srv) root s0)
    split
    · rename_i e s1 heq1; rw [heq1] at h1; exact h1
    · rename_i ts s1 heq1
      rw [heq1] at h1
      have h2 := h1.trans (loadSnapshot_tracked (cfg := cfg) (srv := srv) root ts s1)
      split
      · rename_i e s2 heq2; rw [heq2] at h2; exact h2
      · rename_i sn s2 heq2
        rw [heq2] at h2
        have h3 := h2.trans (loadTargets_tracked (cfg := cfg) (srv := srv) root sn s2)
        split
        · rename_i e s3 heq3; rw [heq3] at h3; exact h3
        · rename_i t s3 heq3; rw [heq3] at h3; exact h3

/-- **the datastore a cycle ends with is the last state it logged, or the one it started from**: the
list of crash states is complete -/
theorem cycle_coherent (shipped : Option Root) (ds : Datastore) :
    (cycle cfg srv shipped ⟨ds, []⟩).2.ds = (cycle cfg srv shipped ⟨ds, []⟩).2.states.head?.getD ds :=
  Coh.step (ds0 := ds) (a := ⟨ds, []⟩) rfl (cycle_tracked shipped ⟨ds, []⟩)

end Tough.Client
