import Tough.Proofs.CJsonOrder
namespace Tough.CJson

/-! ## `sortMembers` does not depend on the order of insertion (distinct keys) -/

def keyLt (a b : Member) : Prop := strLt a.1 b.1 = true

theorem memInsert_mem {k : Str} {v : Bytes} {l : List Member} {m : Member}
    (h : m ∈ memInsert k v l) : m = (k, v) ∨ m ∈ l := by
  induction l with
  | nil => simp [memInsert] at h; exact Or.inl h
  | cons x rest ih =>
    obtain ⟨k', v'⟩ := x
    simp only [memInsert] at h
    split at h
    · rcases List.mem_cons.mp h with h | h
      · exact Or.inl h
      · exact Or.inr h
    · split at h
      · rcases List.mem_cons.mp h with h | h
        · exact Or.inr (h ▸ List.mem_cons_self)
        · rcases ih h with h | h
          · exact Or.inl h
          · exact Or.inr (List.mem_cons_of_mem _ h)
      · rcases List.mem_cons.mp h with h | h
        · exact Or.inl h
        · exact Or.inr (List.mem_cons_of_mem _ h)

theorem memInsert_sorted (k : Str) (v : Bytes) (l : List Member) (h : l.Pairwise keyLt) :
    (memInsert k v l).Pairwise keyLt := by
  induction l with
  | nil => simp [memInsert]
  | cons x rest ih =>
    obtain ⟨k', v'⟩ := x
    have hr := (List.pairwise_cons.mp h)
    simp only [memInsert]
    by_cases h1 : strLt k k' = true
    · simp only [h1, ↓reduceIte]
      apply List.pairwise_cons.mpr
      refine ⟨?_, h⟩
      intro m hm
      rcases List.mem_cons.mp hm with rfl | hm
      · exact h1
      · exact strLt_trans h1 (hr.1 m hm)
    · by_cases h2 : strLt k' k = true
      · simp only [h1, h2, Bool.false_eq_true, ↓reduceIte]
        apply List.pairwise_cons.mpr
        refine ⟨?_, ih hr.2⟩
        intro m hm
        rcases memInsert_mem hm with rfl | hm
        · exact h2
        · exact hr.1 m hm
      · simp only [h1, h2, Bool.false_eq_true, ↓reduceIte]
        have hk : k = k' := strLt_trichotomy (by simpa using h1) (by simpa using h2)
        subst hk
        apply List.pairwise_cons.mpr
        exact ⟨fun m hm => hr.1 m hm, hr.2⟩

theorem memInsert_perm (k : Str) (v : Bytes) (l : List Member) (h : ∀ m ∈ l, m.1 ≠ k) :
    (memInsert k v l).Perm ((k, v) :: l) := by
  induction l with
  | nil => simp [memInsert]
  | cons x rest ih =>
    obtain ⟨k', v'⟩ := x
    have hne : k' ≠ k := h (k', v') List.mem_cons_self
    simp only [memInsert]
    by_cases h1 : strLt k k' = true
    · simp [h1]
    · by_cases h2 : strLt k' k = true
      · simp only [h1, h2, Bool.false_eq_true, ↓reduceIte]
        have := ih (fun m hm => h m (List.mem_cons_of_mem _ hm))
        exact ((List.perm_cons _).mpr this).trans (List.Perm.swap _ _ _)
      · exact absurd (strLt_trichotomy (by simpa using h1) (by simpa using h2)).symm hne

theorem foldl_memInsert (es acc : List Member) (hs : acc.Pairwise keyLt)
    (hd : ((es ++ acc).map (·.1)).Nodup) :
    (es.foldl (fun a m => memInsert m.1 m.2 a) acc).Pairwise keyLt ∧
    (es.foldl (fun a m => memInsert m.1 m.2 a) acc).Perm (es ++ acc) := by
  induction es generalizing acc with
  | nil => exact ⟨hs, List.Perm.refl _⟩
  | cons m rest ih =>
    simp only [List.foldl_cons]
    simp only [List.cons_append, List.map_cons, List.nodup_cons, List.map_append, List.mem_append,
      List.mem_map, not_or, not_exists, not_and] at hd
    obtain ⟨⟨hm1, hm2⟩, hnd⟩ := hd
    have hp : (memInsert m.1 m.2 acc).Perm (m :: acc) :=
      memInsert_perm m.1 m.2 acc (fun x hx he => hm2 x hx he)
    have hd' : ((rest ++ memInsert m.1 m.2 acc).map (·.1)).Nodup := by
      have : (rest ++ memInsert m.1 m.2 acc).Perm (m :: (rest ++ acc)) :=
        ((List.Perm.append_left rest hp).trans List.perm_middle)
      refine ((this.map (·.1)).nodup_iff).mpr ?_
      simp only [List.map_cons, List.nodup_cons, List.map_append, List.mem_append, List.mem_map,
        not_or, not_exists, not_and]
      exact ⟨⟨hm1, hm2⟩, by simpa [List.map_append] using hnd⟩
    obtain ⟨i1, i2⟩ := ih (memInsert m.1 m.2 acc) (memInsert_sorted _ _ _ hs) hd'
    refine ⟨i1, i2.trans ?_⟩
    exact ((List.Perm.append_left rest hp).trans List.perm_middle)

theorem sortMembers_sorted_perm (es : List Member) (hd : (es.map (·.1)).Nodup) :
    (sortMembers es).Pairwise keyLt ∧ (sortMembers es).Perm es := by
  have := foldl_memInsert es [] List.Pairwise.nil (by simpa using hd)
  simpa [sortMembers] using this

/-- the sorted member list depends only on the *set* of members -/
theorem sortMembers_perm {l₁ l₂ : List Member} (hp : l₁.Perm l₂) (hd : (l₁.map (·.1)).Nodup) :
    sortMembers l₁ = sortMembers l₂ := by
  have hd2 : (l₂.map (·.1)).Nodup := ((hp.map (·.1)).nodup_iff).mp hd
  obtain ⟨s1, p1⟩ := sortMembers_sorted_perm l₁ hd
  obtain ⟨s2, p2⟩ := sortMembers_sorted_perm l₂ hd2
  refine List.Perm.eq_of_pairwise ?_ s1 s2 (p1.trans (hp.trans p2.symm))
  intro a b _ _ hab hba
  have := strLt_asymm hab
  simp [keyLt] at hba
  rw [hba] at this
  exact absurd this (by simp)

end Tough.CJson
