import Tough.Spec.CJson
namespace Tough.CJson

/-! ## Refinement: the formatter state machine computes `canon` -/

theorem write_write (st : St) (a b : Bytes) : (st.write a).write b = st.write (a ++ b) := by
  unfold St.write
  cases h : st.stack with
  | nil => simp [List.append_assoc]
  | cons o rest =>
    by_cases hk : o.keyDone = true <;> simp [hk, List.append_assoc]

theorem write_nil (st : St) : st.write [] = st := by
  obtain ⟨stack, out⟩ := st
  unfold St.write
  cases stack with
  | nil => simp
  | cons o rest =>
    obtain ⟨a, b, c, d⟩ := o
    cases d <;> simp

variable (nfc : Str → Str)

def fragBytes (acc : Str) : Bytes := if acc.isEmpty then [] else utf8s (nfc acc.reverse)

/-- bytes written for the contents of a string -/
def strBody : Str → Str → Bytes
  | [], acc => fragBytes nfc acc
  | c :: cs, acc =>
    if needsEscape c then fragBytes nfc acc ++ escBytes c ++ strBody cs []
    else strBody cs (c :: acc)

theorem run_cons (st : St) (e : Ev) (es : List Ev) :
    run nfc st (e :: es) = match step nfc st e with
      | .ok st' => run nfc st' es
      | .error err => .error err := rfl

theorem run_flushFrag (acc : Str) (st : St) (rest : List Ev) :
    run nfc st (flushFrag acc ++ rest) = run nfc (st.write (fragBytes nfc acc)) rest := by
  unfold flushFrag fragBytes
  by_cases h : acc.isEmpty = true
  · simp [h, write_nil]
  · simp [h, run_cons, step]

theorem run_emitStrContents (cs acc : Str) (st : St) (rest : List Ev) :
    run nfc st (emitStrContents cs acc ++ rest) = run nfc (st.write (strBody nfc cs acc)) rest := by
  induction cs generalizing acc st with
  | nil => simp only [emitStrContents, strBody, run_flushFrag]
  | cons c cs ih =>
    simp only [emitStrContents, strBody]
    by_cases hc : needsEscape c = true
    · simp only [hc, ↓reduceIte, List.append_assoc, run_flushFrag, List.cons_append, run_cons, step]
      rw [ih, write_write, write_write]
    · simp only [hc]; exact ih _ _

theorem run_emitStr (s : Str) (st : St) (rest : List Ev) :
    run nfc st (emitStr s ++ rest) = run nfc (st.write (0x22 :: strBody nfc s [] ++ [0x22])) rest := by
  simp only [emitStr, List.cons_append, List.append_assoc, run_cons, step]
  rw [run_emitStrContents]
  simp only [List.cons_append, List.nil_append, run_cons, step, write_write]

/-- serialized text of a string (key or value) as the state machine writes it -/
def strText (s : Str) : Bytes := 0x22 :: strBody nfc s [] ++ [0x22]

mutual
/-- what the state machine writes for a value (stage 1: still in terms of the machine's own
`mapInsert`/`sortKey`/`renderMembers`) -/
def enc : JVal → Option Bytes
  | .null => some [0x6E, 0x75, 0x6C, 0x6C]
  | .bool true => some [0x74, 0x72, 0x75, 0x65]
  | .bool false => some [0x66, 0x61, 0x6C, 0x73, 0x65]
  | .int i => some (intBytes i)
  | .float => none
  | .str s => some (strText nfc s)
  | .arr xs => (encList true xs).map fun b => 0x5B :: b ++ [0x5D]
  | .obj ms => (encMembers ms).map fun es =>
      0x7B :: renderMembers true (es.foldl (fun acc e => mapInsert (sortKey e.1) e.1 e.2 acc) []) ++ [0x7D]
def encList (first : Bool) : JList → Option Bytes
  | .nil => some []
  | .cons v rest =>
    match enc v, encList false rest with
    | some b, some bs => some ((if first then [] else [0x2C]) ++ b ++ bs)
    | _, _ => none
def encMembers : JMembers → Option (List (Bytes × Bytes))
  | .nil => some []
  | .cons k v rest =>
    match enc v, encMembers rest with
    | some b, some es => some ((strText nfc k, b) :: es)
    | _, _ => none
end

/-- top of stack is an object that is collecting members -/
def pushObj (st : St) (o : Obj) : St := { st with stack := o :: st.stack }

theorem write_pushObj_val (st : St) (o : Obj) (b : Bytes) (h : o.keyDone = true) :
    (pushObj st o).write b = pushObj st { o with nextValue := o.nextValue ++ b } := by
  simp [pushObj, St.write, h]

theorem write_pushObj_key (st : St) (o : Obj) (b : Bytes) (h : o.keyDone = false) :
    (pushObj st o).write b = pushObj st { o with nextKey := o.nextKey ++ b } := by
  simp [pushObj, St.write, h]

mutual
theorem run_emit (v : JVal) (st : St) (rest : List Ev) :
    run nfc st (emit v ++ rest) = match enc nfc v with
      | some b => run nfc (st.write b) rest
      | none => .error .float := by
  cases v with
  | null => simp [emit, enc, run_cons, step]
  | bool b => cases b <;> simp [emit, enc, run_cons, step]
  | int i => simp [emit, enc, run_cons, step]
  | float => simp [emit, enc, run_cons, step]
  | str s => simp only [emit, enc, run_emitStr, strText]
  | arr xs =>
    simp only [emit, enc, List.cons_append, List.append_assoc, run_cons, step]
    rw [run_emitList xs true]
    cases h : encList nfc true xs with
    | none => simp
    | some b => simp [run_cons, step, write_write]
  | obj ms =>
    simp only [emit, enc, List.cons_append, List.append_assoc, run_cons, step]
    have := run_emitMembers ms true (st.write [0x7B]) {} rfl rfl (.endObject :: rest)
    simp only [pushObj] at this
    simp only [List.nil_append, this]
    cases h : encMembers nfc ms with
    | none => simp
    | some es =>
      have he : ∀ x : St, ({ stack := x.stack, out := x.out } : St) = x := fun _ => rfl
      simp only [run_cons, step, Option.map_some]
      rw [he (st.write [123]), write_write]
      rfl
theorem run_emitList (xs : JList) (first : Bool) (st : St) (rest : List Ev) :
    run nfc st (emitList first xs ++ rest) = match encList nfc first xs with
      | some b => run nfc (st.write b) rest
      | none => .error .float := by
  cases xs with
  | nil => simp [emitList, encList, write_nil]
  | cons v xs =>
    simp only [emitList, encList, List.cons_append, List.append_assoc, run_cons, step]
    have h1 := run_emit v (if first = true then st else st.write [0x2C])
      (.endArrayValue :: (emitList false xs ++ rest))
    rw [h1]
    cases hv : enc nfc v with
    | none => simp
    | some b =>
      simp only [run_cons, step]
      rw [run_emitList xs false]
      cases hl : encList nfc false xs with
      | none => simp
      | some bs =>
        cases first <;> simp [write_write, List.append_assoc]
theorem run_emitMembers (ms : JMembers) (first : Bool) (st : St) (o : Obj)
    (hk : o.nextKey = []) (hv : o.nextValue = []) (rest : List Ev) :
    run nfc (pushObj st o) (emitMembers first ms ++ rest) = match encMembers nfc ms with
      | some es => run nfc (pushObj st { o with
            obj := es.foldl (fun acc e => mapInsert (sortKey e.1) e.1 e.2 acc) o.obj,
            keyDone := if es.isEmpty then o.keyDone else true }) rest
      | none => .error .float := by
  cases ms with
  | nil =>
    obtain ⟨a, b, c, d⟩ := o
    simp [emitMembers, encMembers]
  | cons k v ms =>
    simp only [emitMembers, encMembers, List.cons_append, List.append_assoc, run_cons, step, pushObj]
    have hs := run_emitStr nfc k (pushObj st { o with keyDone := false })
      (.endObjectKey :: .beginObjectValue :: (emit v ++ .endObjectValue :: (emitMembers false ms ++ rest)))
    simp only [pushObj] at hs
    rw [hs]
    have hw := write_pushObj_key st { o with keyDone := false } (strText nfc k) rfl
    simp only [pushObj, strText] at hw
    rw [hw]
    simp only [run_cons, step]
    have h1 := run_emit v (pushObj st { o with nextKey := o.nextKey ++ strText nfc k, keyDone := true })
      (.endObjectValue :: (emitMembers false ms ++ rest))
    simp only [pushObj, strText] at h1
    rw [h1]
    cases hv' : enc nfc v with
    | none => simp
    | some b =>
      simp only []
      have hw2 := write_pushObj_val st { o with nextKey := o.nextKey ++ strText nfc k, keyDone := true } b rfl
      simp only [pushObj, strText] at hw2
      rw [hw2]
      simp only [run_cons, step, hk, hv, List.nil_append]
      have h2 := run_emitMembers ms false st
        { o with obj := mapInsert (sortKey (strText nfc k)) (strText nfc k) b o.obj,
                 nextKey := [], nextValue := [], keyDone := true } rfl rfl rest
      simp only [pushObj, strText] at h2
      rw [h2]
      cases hm : encMembers nfc ms with
      | none => simp
      | some es => cases es <;> simp [strText]
end

end Tough.CJson
