import Tough.Proofs.Client
namespace Tough.Client
open Tough.Sig

/-! ## The model never reads its log

The log (`St.log`) is an observation device: requests, size limits and datastore operations are
consed onto it and nothing ever looks at it.  Formally: running any step from a state whose log has
an extra suffix `l` gives the same result, the same datastore, and the same log with that suffix. -/

/-- the same state with `l` appended to (= older than) its log -/
def St.ext (st : St) (l : List Ev) : St := ⟨st.ds, st.log ++ l⟩

@[simp] theorem ext_ds (st : St) (l : List Ev) : (st.ext l).ds = st.ds := rfl
theorem ext_req (st : St) (l : List Ev) (f : FileName) (n : Nat) : (st.ext l).req f n = (st.req f n).ext l := rfl

variable {cfg : Config} {srv : Server}

theorem systemTime_ext (st : St) (l : List Ev) :
    systemTime cfg (st.ext l) = ((systemTime cfg st).1, (systemTime cfg st).2.ext l) := by
  unfold systemTime
  simp only [ext_ds]
  split
  · split <;> rfl
  · rfl

theorem expiryGate_ext (r : RoleType) (e : Int) (st : St) (l : List Ev) :
    expiryGate cfg r e (st.ext l) = ((expiryGate cfg r e st).1, (expiryGate cfg r e st).2.ext l) := by
  unfold expiryGate
  split
  · unfold checkExpired
    rw [systemTime_ext]
    generalize systemTime cfg st = out
    obtain ⟨res, s⟩ := out
    cases res with
    | error e' => rfl
    | ok t => simp only; split <;> rfl
  · rfl

theorem loadTimestamp_ext (root : Root) (st : St) (l : List Ev) :
    loadTimestamp cfg srv root (st.ext l) = ((loadTimestamp cfg srv root st).1, (loadTimestamp cfg srv root st).2.ext l) := by
  unfold loadTimestamp
  simp only [ext_req, ext_ds]
  split
  · rfl
  · rename_i ts hf
    split
    · rfl
    · have hd : (st.req .timestamp cfg.limits.maxTimestampSize).ds = st.ds := rfl
      simp only [hd]
      split
      · rfl
      · rw [expiryGate_ext]
        generalize expiryGate cfg .timestamp ts.expires (st.req .timestamp cfg.limits.maxTimestampSize) = out
        obtain ⟨res, s⟩ := out
        cases res with
        | error e' => rfl
        | ok u => rfl
  · rfl

theorem loadSnapshot_ext (root : Root) (ts : Timestamp) (st : St) (l : List Ev) :
    loadSnapshot cfg srv root ts (st.ext l) = ((loadSnapshot cfg srv root ts st).1, (loadSnapshot cfg srv root ts st).2.ext l) := by
  unfold loadSnapshot
  split
  · rfl
  · rename_i m hm
    simp only [ext_req]
    split
    · rfl
    · rename_i sn hf
      split
      · rfl
      · split
        · rfl
        · have hd : ((st.req (.snapshot (versioned root.consistent m.version)) (m.length.getD cfg.limits.maxSnapshotSize)).ext l).ds =
              (st.req (.snapshot (versioned root.consistent m.version)) (m.length.getD cfg.limits.maxSnapshotSize)).ds := rfl
          simp only [hd]
          split
          · rfl
          · rw [expiryGate_ext]
            generalize expiryGate cfg .snapshot sn.expires
              (st.req (.snapshot (versioned root.consistent m.version)) (m.length.getD cfg.limits.maxSnapshotSize)) = out
            obtain ⟨res, s⟩ := out
            cases res with
            | error e' => rfl
            | ok u => rfl
    · rfl

theorem fetchRoles_ext {snap : Snapshot} {cs : Bool} (d : Deleg) (roles : List DRole) (visited : List Nat) (st : St) (l : List Ev) :
    fetchRoles cfg srv snap cs d roles visited (st.ext l) =
      ((fetchRoles cfg srv snap cs d roles visited st).1, (fetchRoles cfg srv snap cs d roles visited st).2.ext l) := by
  induction roles generalizing visited st with
  | nil => rfl
  | cons r rest ih =>
    simp only [fetchRoles]
    split
    · rfl
    · rename_i m hm
      split
      · rfl
      · simp only [ext_req]
        split
        · rfl
        · rename_i doc hf
          split
          · rfl
          · split
            · rfl
            · have := ih (r.name :: visited)
                { ds := (st.req (.role r.name (versioned cs m.version)) (m.length.getD cfg.limits.maxTargetsSize)).ds,
                  log := .dsCreate "role" (st.req (.role r.name (versioned cs m.version)) (m.length.getD cfg.limits.maxTargetsSize)).ds :: (st.req (.role r.name (versioned cs m.version)) (m.length.getD cfg.limits.maxTargetsSize)).log }
              simp only [St.ext] at this ⊢
              simp only [List.cons_append] at this
              rw [this]
              generalize fetchRoles cfg srv snap cs d rest (r.name :: visited) _ = out
              obtain ⟨res, s⟩ := out
              cases res with
              | error e' => rfl
              | ok p => rfl
        · rfl

theorem attachRoles_ext (recur : Deleg → List Nat → St → Except Err (Roles × List Nat) × St)
    (hrec : ∀ d v s l, recur d v (s.ext l) = ((recur d v s).1, (recur d v s).2.ext l))
    (loaded : List (DRole × TargetsDoc)) (visited : List Nat) (st : St) (l : List Ev) :
    attachRoles recur loaded visited (st.ext l) =
      ((attachRoles recur loaded visited st).1, (attachRoles recur loaded visited st).2.ext l) := by
  induction loaded generalizing visited st with
  | nil => rfl
  | cons p rest ih =>
    obtain ⟨r, doc⟩ := p
    simp only [attachRoles]
    cases hd : doc.deleg with
    | none =>
      simp only
      rw [ih]
      generalize attachRoles recur rest visited st = out
      obtain ⟨res, s⟩ := out
      cases res with
      | error e' => rfl
      | ok p => rfl
    | some d' =>
      simp only
      rw [hrec]
      generalize recur d' visited st = out1
      obtain ⟨res1, s1⟩ := out1
      cases res1 with
      | error e' => rfl
      | ok p1 =>
        simp only
        rw [ih]
        generalize attachRoles recur rest p1.2 s1 = out
        obtain ⟨res, s⟩ := out
        cases res with
        | error e' => rfl
        | ok p => rfl

theorem loadDelegs_ext {snap : Snapshot} {cs : Bool} (fuel : Nat) : ∀ (d : Deleg) (visited : List Nat) (st : St) (l : List Ev),
    loadDelegs cfg srv snap cs fuel d visited (st.ext l) =
      ((loadDelegs cfg srv snap cs fuel d visited st).1, (loadDelegs cfg srv snap cs fuel d visited st).2.ext l) := by
  induction fuel with
  | zero => intro d v st l; rfl
  | succ n ih =>
    intro d visited st l
    simp only [loadDelegs]
    rw [fetchRoles_ext]
    generalize fetchRoles cfg srv snap cs d d.roles visited st = out
    obtain ⟨res, s⟩ := out
    cases res with
    | error e' => rfl
    | ok p => exact attachRoles_ext _ ih p.1 p.2 s l

theorem loadChildren_ext {snap : Snapshot} {cs : Bool} (doc : TargetsDoc) (st : St) (l : List Ev) :
    loadChildren cfg srv snap cs doc (st.ext l) =
      ((loadChildren cfg srv snap cs doc st).1, (loadChildren cfg srv snap cs doc st).2.ext l) := by
  unfold loadChildren
  cases doc.deleg with
  | none => rfl
  | some d => exact loadDelegs_ext _ d [] st l

theorem loadTargets_ext (root : Root) (snap : Snapshot) (st : St) (l : List Ev) :
    loadTargets cfg srv root snap (st.ext l) = ((loadTargets cfg srv root snap st).1, (loadTargets cfg srv root snap st).2.ext l) := by
  unfold loadTargets
  split
  · rfl
  · rename_i m hm
    simp only [ext_req]
    split
    · rfl
    · rename_i doc hf
      split
      · rfl
      · split
        · rfl
        · have hd : ((st.req (.targets (versioned root.consistent m.version)) (m.length.getD cfg.limits.maxTargetsSize)).ext l).ds =
              (st.req (.targets (versioned root.consistent m.version)) (m.length.getD cfg.limits.maxTargetsSize)).ds := rfl
          simp only [hd]
          split
          · rfl
          · rw [expiryGate_ext]
            generalize expiryGate cfg .targets doc.expires
              (st.req (.targets (versioned root.consistent m.version)) (m.length.getD cfg.limits.maxTargetsSize)) = out
            obtain ⟨res, s⟩ := out
            cases res with
            | error e' => rfl
            | ok u =>
              simp only
              have := loadChildren_ext (cfg := cfg) (srv := srv) (snap := snap) (cs := root.consistent) doc
                { ds := { s.ds with tgt := .doc doc }, log := .dsCreate "targets" { s.ds with tgt := .doc doc } :: s.log } l
              simp only [St.ext, List.cons_append] at this ⊢
              rw [this]
              generalize loadChildren cfg srv snap root.consistent doc _ = out2
              obtain ⟨res2, s2⟩ := out2
              cases res2 with
              | error e' => rfl
              | ok p => simp only; split <;> rfl
    · rfl

/-- two states with the same datastore: same result, same resulting datastore -/
theorem same_ds_of_ext {α : Type} (f : St → α × St) (hf : ∀ st l, f (st.ext l) = ((f st).1, (f st).2.ext l))
    (a b : St) (h : a.ds = b.ds) : (f a).1 = (f b).1 ∧ (f a).2.ds = (f b).2.ds := by
  have ha := hf ⟨a.ds, []⟩ a.log
  have hb := hf ⟨b.ds, []⟩ b.log
  have ea : (⟨a.ds, []⟩ : St).ext a.log = a := by cases a; rfl
  have eb : (⟨b.ds, []⟩ : St).ext b.log = b := by cases b; rfl
  rw [ea] at ha
  rw [eb] at hb
  rw [ha, hb, h]
  exact ⟨rfl, rfl⟩

end Tough.Client

namespace Tough.Client
open Tough.Sig
variable {cfg : Config} {srv : Server}

theorem rootLoop_ext (v0 fuel : Nat) (r : Root) (st : St) (l : List Ev) :
    rootLoop cfg srv v0 fuel r (st.ext l) = ((rootLoop cfg srv v0 fuel r st).1, (rootLoop cfg srv v0 fuel r st).2.ext l) := by
  induction fuel generalizing r st with
  | zero => rfl
  | succ n ih =>
    simp only [rootLoop]
    split
    · rfl
    · split
      · rfl
      · rfl
      · rename_i new _
        exact ih new (st.req (.rootV (r.version + 1)) cfg.limits.maxRootSize)

theorem loadRoot_ext (shipped : Option Root) (st : St) (l : List Ev) :
    loadRoot cfg srv shipped (st.ext l) = ((loadRoot cfg srv shipped st).1, (loadRoot cfg srv shipped st).2.ext l) := by
  unfold loadRoot
  split
  · rfl
  · rename_i r0
    split
    · rfl
    · simp only [ext_ds]
      rw [rootLoop_ext]
      generalize rootLoop cfg srv r0.version (cfg.limits.maxRootUpdates + 1) r0 st = o1
      obtain ⟨r1, s1⟩ := o1
      cases r1 with
      | error e => rfl
      | ok root =>
        simp only
        rw [expiryGate_ext]
        generalize expiryGate cfg .root root.expires s1 = o2
        obtain ⟨r2, s2⟩ := o2
        cases r2 with
        | error e => rfl
        | ok u =>
          simp only
          split
          · rename_i h; simp only [h, ↓reduceIte]; rfl
          · rename_i h; simp only [h, ↓reduceIte]; rfl

theorem cycle_ext (shipped : Option Root) (st : St) (l : List Ev) :
    cycle cfg srv shipped (st.ext l) = ((cycle cfg srv shipped st).1, (cycle cfg srv shipped st).2.ext l) := by
  unfold cycle
  rw [loadRoot_ext]
  generalize loadRoot cfg srv shipped st = o0
  obtain ⟨r0, s0⟩ := o0
  cases r0 with
  | error e => rfl
  | ok root =>
    simp only
    rw [loadTimestamp_ext]
    generalize loadTimestamp cfg srv root s0 = o1
    obtain ⟨r1, s1⟩ := o1
    cases r1 with
    | error e => rfl
    | ok ts =>
      simp only
      rw [loadSnapshot_ext]
      generalize loadSnapshot cfg srv root ts s1 = o2
      obtain ⟨r2, s2⟩ := o2
      cases r2 with
      | error e => rfl
      | ok sn =>
        simp only
        rw [loadTargets_ext]
        generalize loadTargets cfg srv root sn s2 = o3
        obtain ⟨r3, s3⟩ := o3
        cases r3 with
        | error e => rfl
        | ok t => rfl

/-- the log only grows: what a step logs is put in front of what was there -/
theorem log_grows {α : Type} (f : St → α × St) (hf : ∀ st l, f (st.ext l) = ((f st).1, (f st).2.ext l)) (st : St) :
    ∃ new, (f st).2.log = new ++ st.log := by
  have h := hf ⟨st.ds, []⟩ st.log
  have e : (⟨st.ds, []⟩ : St).ext st.log = st := by cases st; rfl
  rw [e] at h
  exact ⟨(f ⟨st.ds, []⟩).2.log, by rw [h]; rfl⟩

end Tough.Client
