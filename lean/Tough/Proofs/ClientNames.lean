import Tough.Proofs.Client
import Tough.Model.Cache
namespace Tough.Client
open Tough.Sig Tough.Cache

/-! ## A loaded delegation tree never holds a role name twice

`load_delegations` keeps the set of role names it has fetched in this update and refuses a name it
meets again.  Hence the role names of a tree that was loaded are pairwise distinct — and a repository
that delegates one name twice is never loaded (C09: bounded work; C10: the editor must not sign such a
tree). -/

variable {cfg : Config} {srv : Server} {snap : Snapshot} {cs : Bool}

theorem fetchRoles_visited {d : Deleg} {roles : List DRole} {visited visited' : List Nat} {st st' : St}
    {loaded : List (DRole × TargetsDoc)}
    (h : fetchRoles cfg srv snap cs d roles visited st = (.ok (loaded, visited'), st')) :
    visited' = (loaded.map (·.1.name)).reverse ++ visited ∧ (visited.Nodup → visited'.Nodup) := by
  induction roles generalizing visited st loaded with
  | nil =>
    simp only [fetchRoles, Prod.mk.injEq, Except.ok.injEq] at h
    obtain ⟨⟨rfl, rfl⟩, _⟩ := h
    exact ⟨by simp, id⟩
  | cons r rest ih =>
    simp only [fetchRoles] at h
    split at h
    · simp at h
    · split at h
      · simp at h
      · rename_i hvis
        split at h
        · simp at h
        · split at h
          · simp at h
          · split at h
            · simp at h
            · split at h
              · simp at h
              · rename_i more vis2 st2 hrec
                simp only [Prod.mk.injEq, Except.ok.injEq] at h
                obtain ⟨⟨rfl, rfl⟩, rfl⟩ := h
                obtain ⟨e, nd⟩ := ih hrec
                refine ⟨by rw [e]; simp, fun hn => nd ?_⟩
                have : r.name ∉ visited := by
                  simpa [List.contains_iff_mem] using hvis
                exact List.nodup_cons.mpr ⟨this, hn⟩
        · simp at h

theorem attachRoles_visited
    {recur : Deleg → List Nat → St → Except Err (Roles × List Nat) × St}
    (hrec : ∀ d' v s rs v' s', recur d' v s = (.ok (rs, v'), s') →
      (v'.Perm (rolesRoleNames rs ++ v)) ∧ (v.Nodup → v'.Nodup))
    {loaded : List (DRole × TargetsDoc)} {visited visited' : List Nat} {st st' : St} {rs : Roles}
    (h : attachRoles recur loaded visited st = (.ok (rs, visited'), st')) :
    (∃ deeper, visited'.Perm (deeper ++ visited) ∧ (rolesRoleNames rs).Perm (loaded.map (·.1.name) ++ deeper)) ∧
    (visited.Nodup → visited'.Nodup) := by
  induction loaded generalizing visited st rs with
  | nil =>
    simp only [attachRoles, Prod.mk.injEq, Except.ok.injEq] at h
    obtain ⟨⟨rfl, rfl⟩, _⟩ := h
    exact ⟨⟨[], by simp, by simp [rolesRoleNames]⟩, id⟩
  | cons p rest ih =>
    obtain ⟨r, doc⟩ := p
    simp only [attachRoles] at h
    split at h
    · simp at h
    · rename_i children vis1 st1 hsub
      split at h
      · simp at h
      · rename_i more vis2 st2 hmore
        simp only [Prod.mk.injEq, Except.ok.injEq] at h
        obtain ⟨⟨rfl, rfl⟩, rfl⟩ := h
        obtain ⟨⟨deeper, p1, p2⟩, nd2⟩ := ih hmore
        have hc : vis1.Perm (rolesRoleNames children ++ visited) ∧ (visited.Nodup → vis1.Nodup) := by
          cases hd : doc.deleg with
          | none =>
            simp only [hd, Prod.mk.injEq, Except.ok.injEq] at hsub
            obtain ⟨⟨rfl, rfl⟩, _⟩ := hsub
            exact ⟨by simp [rolesRoleNames], id⟩
          | some d' =>
            simp only [hd] at hsub
            exact hrec _ _ _ _ _ _ hsub
        have hnames : rolesRoleNames (.cons r (.mk doc children) more) =
            r.name :: (rolesRoleNames children ++ rolesRoleNames more) := by
          simp [rolesRoleNames, tgtRoleNames]
        refine ⟨⟨deeper ++ rolesRoleNames children, ?_, ?_⟩, fun hn => nd2 (hc.2 hn)⟩
        · -- vis2 ~ deeper ++ vis1 ~ deeper ++ children ++ visited
          refine p1.trans ?_
          rw [List.append_assoc]
          exact List.Perm.append_left deeper hc.1
        · rw [hnames]
          simp only [List.map_cons, List.cons_append]
          refine List.Perm.cons _ ?_
          -- children ++ names(more) ~ rest ++ (deeper ++ children)
          have : (rolesRoleNames children ++ rolesRoleNames more).Perm
              (rolesRoleNames children ++ (rest.map (·.1.name) ++ deeper)) := List.Perm.append_left _ p2
          refine this.trans ?_
          have e : rest.map (·.1.name) ++ (deeper ++ rolesRoleNames children) =
              (rest.map (·.1.name) ++ deeper) ++ rolesRoleNames children := by rw [List.append_assoc]
          rw [e]
          exact List.perm_append_comm

theorem loadDelegs_visited (fuel : Nat) : ∀ {d : Deleg} {visited visited' : List Nat} {st st' : St} {rs : Roles},
    loadDelegs cfg srv snap cs fuel d visited st = (.ok (rs, visited'), st') →
    visited'.Perm (rolesRoleNames rs ++ visited) ∧ (visited.Nodup → visited'.Nodup) := by
  induction fuel with
  | zero => intro d v v' st st' rs h; simp [loadDelegs] at h
  | succ n ih =>
    intro d v v' st st' rs h
    simp only [loadDelegs] at h
    split at h
    · simp at h
    · rename_i loaded vis1 st1 hf
      obtain ⟨e1, n1⟩ := fetchRoles_visited hf
      obtain ⟨⟨deeper, p1, p2⟩, n2⟩ := attachRoles_visited (fun d' v s rs v' s' hh => ih hh) h
      refine ⟨?_, fun hn => n2 (n1 hn)⟩
      -- v' ~ deeper ++ vis1 = deeper ++ rev(loaded) ++ v ~ names ++ v
      refine p1.trans ?_
      rw [e1, ← List.append_assoc]
      refine List.Perm.append_right v ?_
      refine List.Perm.trans ?_ p2.symm
      exact (List.perm_append_comm).trans (List.Perm.append_right deeper (List.reverse_perm _))

/-- **the role names of a loaded tree are pairwise distinct** -/
theorem loadTargets_names_nodup {root : Root} {st st' : St} {t : Tgt}
    (h : loadTargets cfg srv root snap st = (.ok t, st')) : (tgtRoleNames t).Nodup := by
  unfold loadTargets at h
  split at h
  · simp at h
  · simp only at h
    split at h
    · simp at h
    · rename_i doc hf
      split at h
      · simp at h
      · split at h
        · simp at h
        · split at h
          · simp at h
          · split at h
            · simp at h
            · split at h
              · simp at h
              · rename_i children vis st2 hsub
                split at h
                · simp only [Prod.mk.injEq, Except.ok.injEq] at h
                  obtain ⟨rfl, rfl⟩ := h
                  simp only [tgtRoleNames]
                  unfold loadChildren at hsub
                  cases hd : doc.deleg with
                  | none =>
                    simp only [hd, Prod.mk.injEq, Except.ok.injEq] at hsub
                    obtain ⟨⟨rfl, _⟩, _⟩ := hsub
                    simp [rolesRoleNames]
                  | some d =>
                    simp only [hd] at hsub
                    obtain ⟨p, n⟩ := loadDelegs_visited _ hsub
                    have := p.nodup_iff.mp (n List.nodup_nil)
                    simpa using this
                · simp at h
    · simp at h

theorem cycle_names_nodup {shipped : Option Root} {st st' : St} {v : View}
    (h : cycle cfg srv shipped st = (.ok v, st')) : (tgtRoleNames v.tgt).Nodup := by
  unfold cycle at h
  split at h
  · simp at h
  · split at h
    · simp at h
    · split at h
      · simp at h
      · split at h
        · simp at h
        · rename_i t st4 h4
          simp only [Prod.mk.injEq, Except.ok.injEq] at h
          obtain ⟨rfl, rfl⟩ := h
          exact loadTargets_names_nodup h4

end Tough.Client
