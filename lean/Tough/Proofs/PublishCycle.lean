import Tough.Proofs.PublishTree
import Tough.Proofs.ClientRerun
namespace Tough.Publish
open Tough.Sig Tough.Client Tough.Cache

/-! Part 3: the update cycle of a fresh client on the written directory. -/

variable {cfg : Config}

/-- the stored clock sample does not lie in the future -/
def ClockOk (cfg : Config) (st : St) : Prop := cfg.safe = true → ∀ t0, st.ds.time = some t0 → t0 ≤ cfg.now

theorem expiryGate_pass (r : RoleType) (e : Int) (st : St) (hc : ClockOk cfg st) (he : cfg.safe = true → cfg.now ≤ e) :
    ∃ st', expiryGate cfg r e st = (.ok (), st') ∧ st'.slots = st.slots ∧ st'.ds.root = st.ds.root ∧ ClockOk cfg st' := by
  unfold expiryGate
  by_cases hs : cfg.safe = true
  · simp only [hs, ↓reduceIte]
    unfold checkExpired systemTime
    have hle := he hs
    cases ht : st.ds.time with
    | none =>
      simp only [hle, ↓reduceIte]
      exact ⟨_, rfl, rfl, rfl, fun _ t0 h => by simp only [Option.some.injEq] at h; omega⟩
    | some t =>
      have := hc hs t ht
      have hn : ¬ (cfg.now < t) := by omega
      simp only [hn, ↓reduceIte, hle]
      exact ⟨_, rfl, rfl, rfl, fun _ t0 h => by simp only [Option.some.injEq] at h; omega⟩
  · simp only [hs, Bool.false_eq_true, ↓reduceIte]
    exact ⟨st, rfl, rfl, rfl, hc⟩

variable (ser : Ser) (p : Signed)

def Fresh (st : St) : Prop := st.ds.ts = .absent ∧ st.ds.snap = .absent ∧ st.ds.tgt = .absent

theorem loadRoot_pub (st : St) (hroot : rootVerify p.root .root p.root.msg p.root.sigs = true)
    (hupd : 0 < cfg.limits.maxRootUpdates) (hexp : cfg.safe = true → cfg.now ≤ p.root.expires)
    (hf : Fresh st) (hc : ClockOk cfg st) :
    ∃ st', loadRoot cfg (p.server ser) (some p.root) st = (.ok p.root, st') ∧ Fresh st' ∧ ClockOk cfg st' := by
  unfold loadRoot
  simp only [hroot, Bool.not_true, Bool.false_eq_true, ↓reduceIte]
  have hstop : rootStep cfg (p.server ser) p.root = .stop := by
    unfold rootStep fetchFile
    rw [server_get_next_root]
  have hloop : rootLoop cfg (p.server ser) p.root.version (cfg.limits.maxRootUpdates + 1) p.root st =
      (.ok p.root, st.req (.rootV (p.root.version + 1)) cfg.limits.maxRootSize) := by
    simp only [rootLoop]
    have : p.root.version < p.root.version + cfg.limits.maxRootUpdates := by omega
    simp only [this, decide_true, Bool.not_true, Bool.false_eq_true, ↓reduceIte, hstop]
  rw [hloop]
  obtain ⟨st2, e2, hsl, _, hc2⟩ := expiryGate_pass (cfg := cfg) .root p.root.expires
    (st.req (.rootV (p.root.version + 1)) cfg.limits.maxRootSize) hc hexp
  simp only [e2]
  have hf2 : Fresh st2 := by
    simp only [St.slots, St.req, Prod.mk.injEq] at hsl
    exact ⟨hsl.1.trans hf.1, hsl.2.1.trans hf.2.1, hsl.2.2.trans hf.2.2⟩
  split
  · exact ⟨_, rfl, ⟨rfl, rfl, hf2.2.2⟩, hc2⟩
  · exact ⟨_, rfl, hf2, hc2⟩

theorem loadTimestamp_pub (hn : (tgtRoleNames p.tree).Nodup) (st : St)
    (hv : rootVerify p.root .timestamp p.tsMsg p.tsSigs = true)
    (hsize : ser.len (.timestamp (p.timestamp ser)) ≤ cfg.limits.maxTimestampSize)
    (hexp : cfg.safe = true → cfg.now ≤ p.tsExpires) (hf : Fresh st) (hc : ClockOk cfg st) :
    ∃ st', loadTimestamp cfg (p.server ser) p.root st = (.ok (p.timestamp ser), st') ∧
      st'.ds.snap = .absent ∧ st'.ds.tgt = .absent ∧ ClockOk cfg st' := by
  unfold loadTimestamp
  have hfetch := fetch_written ser (p.server ser) .timestamp (.timestamp (p.timestamp ser)) cfg.limits.maxTimestampSize none
    (server_get_timestamp ser p hn) hsize (Or.inl rfl)
  simp only [hfetch]
  have hv' : rootVerify p.root .timestamp (p.timestamp ser).msg (p.timestamp ser).sigs = true := hv
  have hb : storedBlocks (fun old : Timestamp => rootVerify p.root .timestamp old.msg old.sigs) (·.version)
      (st.req .timestamp cfg.limits.maxTimestampSize).ds.ts (p.timestamp ser).version = false := by
    simp only [St.req, hf.1, storedBlocks]
  simp only [hv', Bool.not_true, Bool.false_eq_true, ↓reduceIte, hb]
  obtain ⟨st2, e2, hsl, _, hc2⟩ := expiryGate_pass (cfg := cfg) .timestamp (p.timestamp ser).expires
    (st.req .timestamp cfg.limits.maxTimestampSize) hc hexp
  simp only [e2]
  simp only [St.slots, St.req, Prod.mk.injEq] at hsl
  exact ⟨_, rfl, hsl.2.1.trans hf.2.1, hsl.2.2.trans hf.2.2, hc2⟩

theorem loadSnapshot_pub (hn : (tgtRoleNames p.tree).Nodup) (st : St)
    (hv : rootVerify p.root .snapshot p.snapMsg p.snapSigs = true)
    (hexp : cfg.safe = true → cfg.now ≤ p.snapExpires)
    (hsn : st.ds.snap = .absent) (htg : st.ds.tgt = .absent) (hc : ClockOk cfg st) :
    ∃ st', loadSnapshot cfg (p.server ser) p.root (p.timestamp ser) st = (.ok (p.snapshot ser), st') ∧
      st'.ds.tgt = .absent ∧ ClockOk cfg st' := by
  unfold loadSnapshot
  have hm : (p.timestamp ser).snapshotMeta = some (metaOf ser p.snapVersion (.snapshot (p.snapshot ser))) := rfl
  simp only [hm, metaOf, Option.getD_some]
  have hfetch := fetch_written ser (p.server ser) (.snapshot (versioned p.root.consistent p.snapVersion))
    (.snapshot (p.snapshot ser)) (ser.len (.snapshot (p.snapshot ser))) (some (ser.dig (.snapshot (p.snapshot ser))))
    (server_get_snapshot ser p hn) (Nat.le_refl _) (Or.inr rfl)
  simp only [hfetch]
  have hver : (p.snapshot ser).version = p.snapVersion := rfl
  have hv' : rootVerify p.root .snapshot (p.snapshot ser).msg (p.snapshot ser).sigs = true := hv
  have hb : storedSnapshotBlocks p.root
      (st.req (.snapshot (versioned p.root.consistent p.snapVersion)) (ser.len (.snapshot (p.snapshot ser)))).ds.snap
      (p.snapshot ser) = none := by
    simp only [St.req, hsn, storedSnapshotBlocks]
  simp only [hver, bne_self_eq_false, Bool.false_eq_true, ↓reduceIte, hv', Bool.not_true, hb]
  obtain ⟨st2, e2, hsl, _, hc2⟩ := expiryGate_pass (cfg := cfg) .snapshot (p.snapshot ser).expires
    (st.req (.snapshot (versioned p.root.consistent p.snapVersion)) (ser.len (.snapshot (p.snapshot ser)))) hc hexp
  simp only [e2]
  simp only [St.slots, St.req, Prod.mk.injEq] at hsl
  exact ⟨_, rfl, hsl.2.2.trans htg, hc2⟩

/-- `datastore.create("targets.json", ..)` -/
def storeTgt (doc : TargetsDoc) (st : St) : St :=
  { st with ds := { st.ds with tgt := .doc doc }, log := .dsCreate "targets" { st.ds with tgt := .doc doc } :: st.log }

theorem loadTargets_pub (hn : (tgtRoleNames p.tree).Nodup) (st : St)
    (hv : rootVerify p.root .targets (Tgt.doc p.tree).msg (Tgt.doc p.tree).sigs = true)
    (htree : TgtOk p.tree) (hvalid : p.tree.validate = true)
    (hexp : cfg.safe = true → cfg.now ≤ (Tgt.doc p.tree).expires)
    (htg : st.ds.tgt = .absent) (hc : ClockOk cfg st) :
    ∃ st', loadTargets cfg (p.server ser) p.root (p.snapshot ser) st = (.ok p.tree, st') := by
  unfold loadTargets
  simp only [snapshot_find_targets, metaOf, Option.getD_some]
  have hfetch := fetch_written ser (p.server ser) (.targets (versioned p.root.consistent (Tgt.doc p.tree).version))
    (.targets (Tgt.doc p.tree)) (ser.len (.targets (Tgt.doc p.tree))) (some (ser.dig (.targets (Tgt.doc p.tree))))
    (server_get_targets ser p hn) (Nat.le_refl _) (Or.inr rfl)
  simp only [hfetch]
  have hb : storedBlocks (fun old : TargetsDoc => rootVerify p.root .targets old.msg old.sigs) (·.version)
      (st.req (.targets (versioned p.root.consistent (Tgt.doc p.tree).version)) (ser.len (.targets (Tgt.doc p.tree)))).ds.tgt
      (Tgt.doc p.tree).version = false := by
    simp only [St.req, htg, storedBlocks]
  simp only [bne_self_eq_false, Bool.false_eq_true, ↓reduceIte, hv, Bool.not_true, hb]
  obtain ⟨st2, e2, _, _, _⟩ := expiryGate_pass (cfg := cfg) .targets (Tgt.doc p.tree).expires
    (st.req (.targets (versioned p.root.consistent (Tgt.doc p.tree).version)) (ser.len (.targets (Tgt.doc p.tree)))) hc hexp
  simp only [e2]
  -- the delegations
  have hch : ∀ s : St, ∃ vis s', loadChildren cfg (p.server ser) (p.snapshot ser) p.root.consistent (Tgt.doc p.tree) s =
      (.ok (Tgt.children p.tree, vis), s') := by
    intro s
    unfold loadChildren
    cases hp : p.tree with
    | mk doc ch =>
      simp only [Tgt.doc, Tgt.children]
      have ht := htree
      rw [hp] at ht
      cases hd : doc.deleg with
      | none =>
        simp only [TgtOk, hd] at ht
        exact ⟨[], s, by rw [ht]⟩
      | some d =>
        simp only [TgtOk, hd] at ht
        have hnn : (rolesRoleNames ch).Nodup := by
          have := hn; rw [hp] at this; simpa [tgtRoleNames] using this
        have hlen : (rolesNodes ch).length < (p.snapshot ser).metas.length + 1 := by
          simp only [Signed.snapshot, List.length_cons, List.length_map, hp, tgtNodes]
          omega
        obtain ⟨vis, s', e, _, _⟩ := loadDelegs_pub (cfg := cfg) ser p hn ((p.snapshot ser).metas.length + 1) d ch [] s ht
          (by intro q hq; rw [hp]; simpa [tgtNodes] using hq) hnn (by intro n _ h; cases h) hlen
        exact ⟨vis, s', e⟩
  obtain ⟨vis, s', e⟩ := hch (storeTgt (Tgt.doc p.tree) st2)
  simp only [storeTgt] at e
  simp only [e]
  have eta : Tgt.mk (Tgt.doc p.tree) (Tgt.children p.tree) = p.tree := by cases p.tree; rfl
  simp only [eta, hvalid, ↓reduceIte]
  exact ⟨_, rfl⟩

/-- **a fresh client loads exactly what was written** -/
theorem cycle_pub (ds : Datastore)
    (hroot : rootVerify p.root .root p.root.msg p.root.sigs = true)
    (hts : rootVerify p.root .timestamp p.tsMsg p.tsSigs = true)
    (hsn : rootVerify p.root .snapshot p.snapMsg p.snapSigs = true)
    (htg : rootVerify p.root .targets (Tgt.doc p.tree).msg (Tgt.doc p.tree).sigs = true)
    (htree : TgtOk p.tree) (hn : (tgtRoleNames p.tree).Nodup) (hvalid : p.tree.validate = true)
    (hupd : 0 < cfg.limits.maxRootUpdates)
    (hsize : ser.len (.timestamp (p.timestamp ser)) ≤ cfg.limits.maxTimestampSize)
    (hexp : cfg.safe = true → cfg.now ≤ p.root.expires ∧ cfg.now ≤ p.tsExpires ∧ cfg.now ≤ p.snapExpires ∧
      cfg.now ≤ (Tgt.doc p.tree).expires)
    (hfresh : ds.ts = .absent ∧ ds.snap = .absent ∧ ds.tgt = .absent)
    (hclock : cfg.safe = true → ∀ t0, ds.time = some t0 → t0 ≤ cfg.now) :
    ∃ st', cycle cfg (p.server ser) (some p.root) ⟨ds, []⟩ =
      (.ok ⟨p.root, p.timestamp ser, p.snapshot ser, p.tree⟩, st') := by
  unfold cycle
  obtain ⟨s1, e1, f1, c1⟩ := loadRoot_pub (cfg := cfg) ser p ⟨ds, []⟩ hroot hupd (fun h => (hexp h).1) hfresh hclock
  simp only [e1]
  obtain ⟨s2, e2, a2, b2, c2⟩ := loadTimestamp_pub (cfg := cfg) ser p hn s1 hts hsize (fun h => (hexp h).2.1) f1 c1
  simp only [e2]
  obtain ⟨s3, e3, b3, c3⟩ := loadSnapshot_pub (cfg := cfg) ser p hn s2 hsn (fun h => (hexp h).2.2.1) a2 b2 c2
  simp only [e3]
  obtain ⟨s4, e4⟩ := loadTargets_pub (cfg := cfg) ser p hn s3 htg htree hvalid (fun h => (hexp h).2.2.2) b3 c3
  simp only [e4]
  exact ⟨s4, rfl⟩

end Tough.Publish
