import Tough.Spec.CJson
namespace Tough.CJson

/-! ## UTF-8 preserves code point order (`utf8_lex_iso`) -/

/-- `x` and `y` differ at a position inside both, with the smaller byte in `x` -/
inductive DiffLt : Bytes → Bytes → Prop
  | head {a b as bs} : a < b → DiffLt (a :: as) (b :: bs)
  | tail {a as bs} : DiffLt as bs → DiffLt (a :: as) (a :: bs)

theorem utf8_1 {c : Nat} (h : c < 0x80) : utf8 c = [c] := by simp [utf8, h]
theorem utf8_2 {c : Nat} (h1 : ¬ c < 0x80) (h2 : c < 0x800) :
    utf8 c = [0xC0 + c / 64, 0x80 + c % 64] := by simp [utf8, h1, h2]
theorem utf8_3 {c : Nat} (h1 : ¬ c < 0x800) (h2 : c < 0x10000) :
    utf8 c = [0xE0 + c / 4096, 0x80 + (c / 64) % 64, 0x80 + c % 64] := by
  have : ¬ c < 0x80 := by omega
  simp [utf8, h1, h2, this]
theorem utf8_4 {c : Nat} (h1 : ¬ c < 0x10000) :
    utf8 c = [0xF0 + c / 262144, 0x80 + (c / 4096) % 64, 0x80 + (c / 64) % 64, 0x80 + c % 64] := by
  have : ¬ c < 0x80 := by omega
  have : ¬ c < 0x800 := by omega
  simp [utf8, h1, *]

theorem utf8_mono {c d : Nat} (h : c < d) (hd : d < 0x110000) : DiffLt (utf8 c) (utf8 d) := by
  by_cases c1 : c < 0x80
  · rw [utf8_1 c1]
    by_cases d1 : d < 0x80
    · rw [utf8_1 d1]; exact .head h
    · by_cases d2 : d < 0x800
      · rw [utf8_2 d1 d2]; apply DiffLt.head; omega
      · by_cases d3 : d < 0x10000
        · rw [utf8_3 d2 d3]; apply DiffLt.head; omega
        · rw [utf8_4 d3]; apply DiffLt.head; omega
  · by_cases c2 : c < 0x800
    · rw [utf8_2 c1 c2]
      by_cases d2 : d < 0x800
      · rw [utf8_2 (by omega) d2]
        by_cases h1 : c / 64 < d / 64
        · apply DiffLt.head; omega
        · have : 0xC0 + c / 64 = 0xC0 + d / 64 := by omega
          rw [this]; apply DiffLt.tail; apply DiffLt.head; omega
      · by_cases d3 : d < 0x10000
        · rw [utf8_3 d2 d3]; apply DiffLt.head; omega
        · rw [utf8_4 d3]; apply DiffLt.head; omega
    · by_cases c3 : c < 0x10000
      · rw [utf8_3 c2 c3]
        by_cases d3 : d < 0x10000
        · rw [utf8_3 (by omega) d3]
          by_cases h1 : c / 4096 < d / 4096
          · apply DiffLt.head; omega
          · have e1 : 0xE0 + c / 4096 = 0xE0 + d / 4096 := by omega
            rw [e1]; apply DiffLt.tail
            by_cases h2 : c / 64 % 64 < d / 64 % 64
            · apply DiffLt.head; omega
            · have e2 : 0x80 + c / 64 % 64 = 0x80 + d / 64 % 64 := by omega
              rw [e2]; apply DiffLt.tail; apply DiffLt.head; omega
        · rw [utf8_4 d3]; apply DiffLt.head; omega
      · rw [utf8_4 c3, utf8_4 (by omega)]
        by_cases h1 : c / 262144 < d / 262144
        · apply DiffLt.head; omega
        · have e1 : 0xF0 + c / 262144 = 0xF0 + d / 262144 := by omega
          rw [e1]; apply DiffLt.tail
          by_cases h2 : c / 4096 % 64 < d / 4096 % 64
          · apply DiffLt.head; omega
          · have e2 : 0x80 + c / 4096 % 64 = 0x80 + d / 4096 % 64 := by omega
            rw [e2]; apply DiffLt.tail
            by_cases h3 : c / 64 % 64 < d / 64 % 64
            · apply DiffLt.head; omega
            · have e3 : 0x80 + c / 64 % 64 = 0x80 + d / 64 % 64 := by omega
              rw [e3]; apply DiffLt.tail; apply DiffLt.head; omega

theorem bytesLt_of_diffLt {x y : Bytes} (h : DiffLt x y) (A B : Bytes) :
    bytesLt (x ++ A) (y ++ B) = true ∧ bytesLt (y ++ B) (x ++ A) = false := by
  induction h with
  | head hlt =>
    simp only [List.cons_append, bytesLt]
    constructor
    · simp [hlt]
    · have : ¬ _ < _ := Nat.lt_asymm hlt
      simp [this, hlt]
  | tail _ ih =>
    simp only [List.cons_append, bytesLt, Nat.lt_irrefl, ↓reduceIte]
    exact ih

theorem bytesLt_append_same (x A B : Bytes) : bytesLt (x ++ A) (x ++ B) = bytesLt A B := by
  induction x with
  | nil => rfl
  | cons a as ih => simp [bytesLt, ih]

theorem utf8_ne_nil (c : Nat) : utf8 c ≠ [] := by
  by_cases c1 : c < 0x80
  · simp [utf8_1 c1]
  · by_cases c2 : c < 0x800
    · simp [utf8_2 c1 c2]
    · by_cases c3 : c < 0x10000
      · simp [utf8_3 c2 c3]
      · simp [utf8_4 c3]

/-- lexicographic order of UTF-8 byte strings = lexicographic order of code point lists -/
theorem utf8_lex_iso (a b : Str) (ha : ∀ c ∈ a, c < 0x110000) (hb : ∀ c ∈ b, c < 0x110000) :
    bytesLt (utf8s a) (utf8s b) = strLt a b := by
  induction a generalizing b with
  | nil =>
    cases b with
    | nil => rfl
    | cons d ds =>
      simp only [utf8s, List.flatMap_nil, List.flatMap_cons, strLt]
      cases h : utf8 d with
      | nil => exact absurd h (utf8_ne_nil d)
      | cons x xs => rfl
  | cons c cs ih =>
    cases b with
    | nil =>
      simp only [utf8s, List.flatMap_nil, List.flatMap_cons, strLt]
      cases h : utf8 c with
      | nil => exact absurd h (utf8_ne_nil c)
      | cons x xs => rfl
    | cons d ds =>
      simp only [utf8s, List.flatMap_cons, strLt]
      have hc : c < 0x110000 := ha c (List.mem_cons_self)
      have hd : d < 0x110000 := hb d (List.mem_cons_self)
      by_cases h1 : c < d
      · simp only [h1, ↓reduceIte]
        exact (bytesLt_of_diffLt (utf8_mono h1 hd) _ _).1
      · by_cases h2 : d < c
        · simp only [h1, h2, ↓reduceIte]
          exact (bytesLt_of_diffLt (utf8_mono h2 hc) _ _).2
        · have : c = d := by omega
          subst this
          simp only [Nat.lt_irrefl, ↓reduceIte, bytesLt_append_same]
          exact ih ds (fun x hx => ha x (List.mem_cons_of_mem _ hx))
            (fun x hx => hb x (List.mem_cons_of_mem _ hx))

/-! ## `strLt` is a strict total order -/

theorem strLt_irrefl (a : Str) : strLt a a = false := by
  induction a with
  | nil => rfl
  | cons c cs ih => simp [strLt, ih]

theorem strLt_asymm {a b : Str} (h : strLt a b = true) : strLt b a = false := by
  induction a generalizing b with
  | nil => cases b <;> simp_all [strLt]
  | cons c cs ih =>
    cases b with
    | nil => simp [strLt] at h
    | cons d ds =>
      simp only [strLt] at h ⊢
      by_cases h1 : c < d
      · have : ¬ d < c := Nat.lt_asymm h1
        simp [this, h1]
      · by_cases h2 : d < c
        · simp [h1, h2] at h
        · simp only [h1, h2, ↓reduceIte] at h ⊢
          exact ih h

theorem strLt_trichotomy {a b : Str} (h1 : strLt a b = false) (h2 : strLt b a = false) : a = b := by
  induction a generalizing b with
  | nil => cases b <;> simp_all [strLt]
  | cons c cs ih =>
    cases b with
    | nil => simp [strLt] at h2
    | cons d ds =>
      simp only [strLt] at h1 h2
      by_cases hcd : c < d
      · simp [hcd] at h1
      · by_cases hdc : d < c
        · simp [hdc] at h2
        · simp only [hcd, hdc, ↓reduceIte] at h1 h2
          have : c = d := by omega
          rw [this, ih h1 h2]

theorem strLt_trans {a b c : Str} (h1 : strLt a b = true) (h2 : strLt b c = true) : strLt a c = true := by
  induction a generalizing b c with
  | nil =>
    cases b with
    | nil => simp [strLt] at h1
    | cons y ys => cases c <;> simp_all [strLt]
  | cons x xs ih =>
    cases b with
    | nil => simp [strLt] at h1
    | cons y ys =>
      cases c with
      | nil => simp [strLt] at h2
      | cons z zs =>
        simp only [strLt] at h1 h2 ⊢
        by_cases hxy : x < y
        · by_cases hyz : y < z
          · have : x < z := by omega
            simp [this]
          · by_cases hzy : z < y
            · simp [hyz, hzy] at h2
            · have : y = z := by omega
              subst this; simp [hxy]
        · by_cases hyx : y < x
          · simp [hxy, hyx] at h1
          · have hxy' : x = y := by omega
            subst hxy'
            simp only [hxy, ↓reduceIte] at h1
            by_cases hxz : x < z
            · simp [hxz]
            · by_cases hzx : z < x
              · simp [hxz, hzx] at h2
              · simp only [hxz, hzx, ↓reduceIte] at h2 ⊢
                exact ih h1 h2

end Tough.CJson
