deriving instance DecidableEq for Except
