import Tough.Proofs.CJson
import Tough.Proofs.CJsonOrder
namespace Tough.CJson

/-- What the theorems assume about the fragment normaliser (Unicode NFC satisfies both):
it never *produces* a quotation mark or backslash from text that contains no escaped character,
and it maps scalar values to scalar values. `id` satisfies it (non-vacuity). -/
structure NfcOk (nfc : Str → Str) : Prop where
  noQuote : ∀ s, (∀ c ∈ s, needsEscape c = false) → ∀ c ∈ nfc s, c ≠ 0x22 ∧ c ≠ 0x5C
  valid : ∀ s, (∀ c ∈ s, c < 0x110000) → ∀ c ∈ nfc s, c < 0x110000

theorem nfcOk_id : NfcOk id := by
  constructor
  · intro s h c hc
    have := h c hc
    simp only [needsEscape, Bool.or_eq_false_iff, beq_eq_false_iff_ne] at this
    exact ⟨this.1.2, this.2⟩
  · intro s h c hc; exact h c hc

variable {nfc : Str → Str}

theorem escStr_append (a b : Str) : escStr (a ++ b) = escStr a ++ escStr b := by
  simp [escStr]

theorem escStr_noQuote (s : Str) (h : ∀ c ∈ s, c ≠ 0x22 ∧ c ≠ 0x5C) : escStr s = utf8s s := by
  induction s with
  | nil => rfl
  | cons c cs ih =>
    have hc := h c List.mem_cons_self
    simp only [escStr, utf8s, List.flatMap_cons] at ih ⊢
    rw [ih (fun x hx => h x (List.mem_cons_of_mem _ hx))]
    simp [escChar, hc.1, hc.2]

theorem escStr_escaped (c : Nat) (h : needsEscape c = true) : escStr [c] = escBytes c := by
  simp only [escStr, escChar, List.flatMap_cons, List.flatMap_nil, List.append_nil, escBytes]
  by_cases hq : (c == 0x22 || c == 0x5C) = true
  · simp [hq]
  · simp only [hq, Bool.false_eq_true, ↓reduceIte]
    simp only [needsEscape, Bool.or_eq_true, decide_eq_true_eq, Bool.or_assoc] at h hq
    have : c < 0x20 := by
      rcases h with h | h
      · exact h
      · exact absurd h hq
    exact utf8_1 (by omega)

theorem fragBytes_eq (hn : NfcOk nfc) (acc : Str) (hacc : ∀ c ∈ acc, needsEscape c = false) :
    fragBytes nfc acc = escStr (if acc.isEmpty then [] else nfc acc.reverse) := by
  unfold fragBytes
  by_cases h : acc.isEmpty = true
  · simp [h, escStr]
  · simp only [h, Bool.false_eq_true, ↓reduceIte]
    rw [escStr_noQuote]
    exact hn.noQuote _ (fun c hc => hacc c (List.mem_reverse.mp hc))

theorem strBody_eq (hn : NfcOk nfc) (s acc : Str) (hacc : ∀ c ∈ acc, needsEscape c = false) :
    strBody nfc s acc = escStr (normStrAux nfc s acc) := by
  induction s generalizing acc with
  | nil => simp only [strBody, normStrAux]; exact fragBytes_eq hn acc hacc
  | cons c cs ih =>
    simp only [strBody, normStrAux]
    by_cases hc : needsEscape c = true
    · simp only [hc, ↓reduceIte]
      rw [fragBytes_eq hn acc hacc, ih [] (by simp)]
      have e1 : c :: normStrAux nfc cs [] = [c] ++ normStrAux nfc cs [] := rfl
      rw [escStr_append, e1, escStr_append, escStr_escaped c hc]
      simp [List.append_assoc]
    · simp only [hc]
      apply ih
      intro x hx
      rcases List.mem_cons.mp hx with rfl | hx
      · simpa using hc
      · exact hacc x hx

theorem strText_eq (hn : NfcOk nfc) (s : Str) : strText nfc s = quote (normStr nfc s) := by
  simp [strText, quote, normStr, strBody_eq hn s [] (by simp)]

theorem normStrAux_valid (hn : NfcOk nfc) (s acc : Str) (hs : ∀ c ∈ s, c < 0x110000)
    (hacc : ∀ c ∈ acc, c < 0x110000) : ∀ c ∈ normStrAux nfc s acc, c < 0x110000 := by
  induction s generalizing acc with
  | nil =>
    simp only [normStrAux]
    by_cases h : acc.isEmpty = true
    · simp [h]
    · simp only [h]
      exact hn.valid _ (fun c hc => hacc c (List.mem_reverse.mp hc))
  | cons c cs ih =>
    simp only [normStrAux]
    have hc := hs c List.mem_cons_self
    have hcs : ∀ x ∈ cs, x < 0x110000 := fun x hx => hs x (List.mem_cons_of_mem _ hx)
    by_cases he : needsEscape c = true
    · simp only [he, ↓reduceIte]
      intro x hx
      rcases List.mem_append.mp hx with hx | hx
      · by_cases h : acc.isEmpty = true
        · simp [h] at hx
        · simp only [h] at hx
          exact hn.valid _ (fun c hc => hacc c (List.mem_reverse.mp hc)) x hx
      · rcases List.mem_cons.mp hx with rfl | hx
        · exact hc
        · exact ih [] hcs (by simp) x hx
    · simp only [he]
      apply ih _ hcs
      intro x hx
      rcases List.mem_cons.mp hx with rfl | hx
      · exact hc
      · exact hacc x hx

theorem normStr_valid (hn : NfcOk nfc) (s : Str) (hs : ∀ c ∈ s, c < 0x110000) :
    ∀ c ∈ normStr nfc s, c < 0x110000 := normStrAux_valid hn s [] hs (by simp)

/-! ### `sortKey` recovers the key's UTF-8 bytes -/

theorem unescape_cons_ne (b : Nat) (X : Bytes) (h : b ≠ 0x5C) : unescape (b :: X) = b :: unescape X := by
  cases X with
  | nil => simp [unescape, h]
  | cons x xs => simp [unescape, h]

theorem unescape_utf8 (c : Nat) (X : Bytes) (h : c ≠ 0x5C) : unescape (utf8 c ++ X) = utf8 c ++ unescape X := by
  by_cases c1 : c < 0x80
  · rw [utf8_1 c1]; exact unescape_cons_ne _ _ h
  · by_cases c2 : c < 0x800
    · rw [utf8_2 c1 c2]
      simp only [List.cons_append, List.nil_append]
      rw [unescape_cons_ne _ _ (by omega), unescape_cons_ne _ _ (by omega)]
    · by_cases c3 : c < 0x10000
      · rw [utf8_3 c2 c3]
        simp only [List.cons_append, List.nil_append]
        rw [unescape_cons_ne _ _ (by omega), unescape_cons_ne _ _ (by omega), unescape_cons_ne _ _ (by omega)]
      · rw [utf8_4 c3]
        simp only [List.cons_append, List.nil_append]
        rw [unescape_cons_ne _ _ (by omega), unescape_cons_ne _ _ (by omega),
          unescape_cons_ne _ _ (by omega), unescape_cons_ne _ _ (by omega)]

theorem unescape_escChar (c : Nat) (X : Bytes) : unescape (escChar c ++ X) = utf8 c ++ unescape X := by
  unfold escChar
  by_cases hq : c = 0x22
  · subst hq; rw [show utf8 0x22 = [0x22] from rfl]; simp [unescape]
  · by_cases hb : c = 0x5C
    · subst hb; rw [show utf8 0x5C = [0x5C] from rfl]; simp [unescape]
    · have : (c == 0x22 || c == 0x5C) = false := by simp [hq, hb]
      simp only [this, Bool.false_eq_true, ↓reduceIte]
      exact unescape_utf8 c _ hb

theorem unescape_escStr (s : Str) : unescape (escStr s) = utf8s s := by
  induction s with
  | nil => rfl
  | cons c cs ih =>
    simp only [escStr, utf8s, List.flatMap_cons] at ih ⊢
    rw [unescape_escChar, ih]

theorem sortKey_quote (s : Str) : sortKey (quote s) = utf8s s := by
  simp only [sortKey, quote, stripQuotes, List.reverse_append, List.reverse_cons, List.reverse_nil,
    List.nil_append, List.cons_append, List.reverse_reverse]
  exact unescape_escStr s

/-! ### The machine's map and the specification's sorted member list -/

def toEntry (m : Member) : Entry := (utf8s m.1, quote m.1, m.2)

def validMembers (ms : List Member) : Prop := ∀ m ∈ ms, ∀ c ∈ m.1, c < 0x110000

theorem mapInsert_toEntry (k : Str) (v : Bytes) (l : List Member)
    (hk : ∀ c ∈ k, c < 0x110000) (hl : validMembers l) :
    mapInsert (utf8s k) (quote k) v (l.map toEntry) = (memInsert k v l).map toEntry := by
  induction l with
  | nil => rfl
  | cons m rest ih =>
    obtain ⟨k', v'⟩ := m
    have hk' : ∀ c ∈ k', c < 0x110000 := hl (k', v') List.mem_cons_self
    have hrest : validMembers rest := fun m hm => hl m (List.mem_cons_of_mem _ hm)
    simp only [List.map_cons, toEntry, mapInsert, memInsert, utf8_lex_iso k k' hk hk',
      utf8_lex_iso k' k hk' hk]
    by_cases h1 : strLt k k' = true
    · simp [h1, toEntry]
    · by_cases h2 : strLt k' k = true
      · simp only [h1, h2, Bool.false_eq_true, ↓reduceIte, List.map_cons, toEntry]
        rw [← ih hrest]
      · simp [h1, h2, toEntry]

theorem memInsert_valid (k : Str) (v : Bytes) (l : List Member)
    (hk : ∀ c ∈ k, c < 0x110000) (hl : validMembers l) : validMembers (memInsert k v l) := by
  induction l with
  | nil => intro m hm; simp [memInsert] at hm; subst hm; exact hk
  | cons m rest ih =>
    obtain ⟨k', v'⟩ := m
    have hrest : validMembers rest := fun m hm => hl m (List.mem_cons_of_mem _ hm)
    simp only [memInsert]
    split
    · intro m hm
      rcases List.mem_cons.mp hm with rfl | hm
      · exact hk
      · exact hl m hm
    · split
      · intro m hm
        rcases List.mem_cons.mp hm with rfl | hm
        · exact hl _ List.mem_cons_self
        · exact ih hrest m hm
      · intro m hm
        rcases List.mem_cons.mp hm with rfl | hm
        · exact hk
        · exact hrest m hm

theorem foldl_mapInsert_toEntry (es acc : List Member) (hes : validMembers es) (hacc : validMembers acc) :
    (es.map fun m => (quote m.1, m.2)).foldl (fun a e => mapInsert (sortKey e.1) e.1 e.2 a) (acc.map toEntry)
      = (es.foldl (fun a m => memInsert m.1 m.2 a) acc).map toEntry := by
  induction es generalizing acc with
  | nil => rfl
  | cons m rest ih =>
    have hm : ∀ c ∈ m.1, c < 0x110000 := hes m List.mem_cons_self
    have hrest : validMembers rest := fun x hx => hes x (List.mem_cons_of_mem _ hx)
    simp only [List.map_cons, List.foldl_cons, sortKey_quote]
    rw [mapInsert_toEntry m.1 m.2 acc hm hacc]
    exact ih _ hrest (memInsert_valid m.1 m.2 acc hm hacc)

theorem renderMembers_toEntry (first : Bool) (l : List Member) :
    renderMembers first (l.map toEntry) = renderCanon first l := by
  induction l generalizing first with
  | nil => rfl
  | cons m rest ih =>
    obtain ⟨k, v⟩ := m
    simp only [List.map_cons, toEntry, renderMembers, renderCanon, ih]

/-! ### Stage 2: the machine's output is the specification -/

mutual
theorem enc_eq_canon (hn : NfcOk nfc) (v : JVal) (hv : validJ v = true) : enc nfc v = canon nfc v := by
  cases v with
  | null => rfl
  | bool b => cases b <;> rfl
  | int i => rfl
  | float => rfl
  | str s => simp only [enc, canon, strText_eq hn]
  | arr xs =>
    simp only [validJ] at hv
    simp only [enc, canon, encList_eq_canonList hn xs true hv]
  | obj ms =>
    simp only [validJ] at hv
    simp only [enc, canon]
    obtain ⟨h1, h2⟩ := encMembers_eq hn ms hv
    cases hc : canonMembers nfc ms with
    | none => rw [hc] at h1; simp [h1]
    | some es =>
      rw [hc] at h1 h2
      simp only [Option.map_some] at h1
      simp only [h1, Option.map_some]
      have := foldl_mapInsert_toEntry es [] (h2 es rfl) (by intro m hm; simp at hm)
      simp only [List.map_nil] at this
      rw [this, renderMembers_toEntry, sortMembers]
theorem encList_eq_canonList (hn : NfcOk nfc) (xs : JList) (first : Bool) (hv : validL xs = true) :
    encList nfc first xs = canonList nfc first xs := by
  cases xs with
  | nil => rfl
  | cons v rest =>
    simp only [validL, Bool.and_eq_true] at hv
    simp only [encList, canonList, enc_eq_canon hn v hv.1, encList_eq_canonList hn rest false hv.2]
    cases canon nfc v <;> cases canonList nfc false rest <;> rfl
theorem encMembers_eq (hn : NfcOk nfc) (ms : JMembers) (hv : validM ms = true) :
    encMembers nfc ms = (canonMembers nfc ms).map (fun es => es.map fun m => (quote m.1, m.2)) ∧
    ∀ es, canonMembers nfc ms = some es → validMembers es := by
  cases ms with
  | nil => simp [encMembers, canonMembers, validMembers]
  | cons k v rest =>
    simp only [validM, Bool.and_eq_true, List.all_eq_true, decide_eq_true_eq] at hv
    obtain ⟨⟨hk, hvv⟩, hrest⟩ := hv
    obtain ⟨ih1, ih2⟩ := encMembers_eq hn rest hrest
    simp only [encMembers, canonMembers, enc_eq_canon hn v hvv, ih1, strText_eq hn]
    cases hcv : canon nfc v with
    | none => simp
    | some b =>
      cases hcm : canonMembers nfc rest with
      | none => simp
      | some es =>
        simp only [Option.map_some, List.map_cons, true_and, Option.some.injEq]
        intro es' he; subst he
        intro m hm
        rcases List.mem_cons.mp hm with rfl | hm
        · exact normStr_valid hn k hk
        · exact ih2 es hcm m hm
end

/-- **Refinement theorem.** Driving the `CanonicalFormatter` state machine with the call-backs
serde_json issues for `v` yields exactly the specification `canon v`; a float anywhere is refused. -/
theorem encode_eq_canon (hn : NfcOk nfc) (v : JVal) (hv : validJ v = true) :
    encode nfc v = match canon nfc v with
      | some b => .ok b
      | none => .error .float := by
  unfold encode
  have := run_emit nfc v {} []
  simp only [List.append_nil] at this
  rw [this, enc_eq_canon hn v hv]
  cases canon nfc v with
  | none => rfl
  | some b => simp [run, St.write]

end Tough.CJson
